From Coq Require Import ZArith QArith Qround Qabs Bool List Lia Lqa.
From Acryo Require Import Common.PyNum C17.Model.
From AcryoGen Require Import Anchors_C17.
Import ListNotations.
Local Open Scope Z_scope.

(** label characterised without square roots:  L^2 dfreq^2 <= r^2 < (L+1)^2 dfreq^2 *)
Lemma label_spec k ds dfreq : (0 < dfreq)%Q ->
  let L := label k ds dfreq in
  0 <= L /\ (inject_Z (L * L) * (dfreq * dfreq) <= r2 k ds)%Q /\ (r2 k ds < inject_Z ((L + 1) * (L + 1)) * (dfreq * dfreq))%Q.
Proof.
  intro Hd. cbn zeta. unfold label.
  assert (0 <= r2 k ds)%Q as Hr.
  { unfold r2. destruct k as [[k0 k1] k2].
    assert (forall x : Q, 0 <= x * x)%Q as Hsq by (intro x; nra).
    pose proof (Hsq (inject_Z k0 / inject_Z (znth ds 0))%Q). pose proof (Hsq (inject_Z k1 / inject_Z (znth ds 1))%Q).
    pose proof (Hsq (inject_Z k2 / inject_Z (znth ds 2))%Q). lra. }
  assert (0 < dfreq * dfreq)%Q as Hdd by nra.
  set (x := (r2 k ds / (dfreq * dfreq))%Q).
  assert (0 <= x)%Q as Hx by (unfold x; apply Qle_shift_div_l; [exact Hdd|lra]).
  assert (0 <= Qfloor x) as Hf by (apply Zle_Qfloor; exact Hx).
  pose proof (Z.sqrt_spec (Qfloor x) Hf) as [S1 S2]. set (L := Z.sqrt (Qfloor x)) in *.
  assert (r2 k ds == x * (dfreq * dfreq))%Q as Ex by (unfold x; field; lra).
  split; [apply Z.sqrt_nonneg|]. split.
  - assert (inject_Z (L * L) <= x)%Q as H1.
    { apply Qle_trans with (inject_Z (Qfloor x)); [rewrite <- Zle_Qle; exact S1|apply Qfloor_le]. }
    rewrite Ex. apply Qmult_le_compat_r; [exact H1|lra].
  - assert (x < inject_Z ((L + 1) * (L + 1)))%Q as H2.
    { apply Qlt_le_trans with (inject_Z (Qfloor x + 1)); [apply Qlt_floor|].
      rewrite <- Zle_Qle. replace (Z.succ L * Z.succ L) with ((L + 1) * (L + 1)) in S2 by lia. lia. }
    rewrite Ex. apply Qmult_lt_compat_r; [exact Hdd|exact H2].
Qed.

(** every bin belongs to exactly one shell; shells are disjoint and cover all bins with label <= max *)
Lemma shell_partition (bins : list cbin) ds dfreq (b : cbin) : In b bins ->
  In b (shell bins ds dfreq (label (bk b) ds dfreq)) /\
  forall L, In b (shell bins ds dfreq L) -> L = label (bk b) ds dfreq.
Proof.
  intro H. split.
  - unfold shell. apply filter_In. split; [exact H|apply Z.eqb_refl].
  - intros L HL. unfold shell in HL. apply filter_In in HL. destruct HL as [_ E]. apply Z.eqb_eq in E. symmetry; exact E.
Qed.

Lemma freq_axis i dfreq : (fsc_freq_axis i dfreq == (inject_Z i + (1#2)) * dfreq)%Q.
Proof. unfold fsc_freq_axis. reflexivity. Qed.

Lemma default_dfreq mn d : loader_default_dfreq mn false d = ((3#2) / inject_Z mn)%Q /\ loader_default_dfreq mn true d = d.
Proof. split; reflexivity. Qed.

Example label_example : map (fun k => label k [4; 4; 4] (1#4)) [(0, 0, 0); (1, 0, 0); (1, 1, 0); (-2, 1, 1); (-2, -2, -2)] = [0; 1; 1; 2; 3].
Proof. vm_compute. reflexivity. Qed.
