(** C17 labelling theorems (Z/Q). The R-valued theorems are in PropertyR.v. *)
From Coq Require Import ZArith QArith Qround Qabs Bool List.
From Acryo Require Import Common.PyNum C17.Model C17.Proofs.
From AcryoGen Require Import Anchors_C17.
Local Open Scope Z_scope.

Theorem C17_label_spec : forall k ds dfreq, (0 < dfreq)%Q ->
  let L := label k ds dfreq in
  0 <= L /\ (inject_Z (L * L) * (dfreq * dfreq) <= r2 k ds)%Q /\ (r2 k ds < inject_Z ((L + 1) * (L + 1)) * (dfreq * dfreq))%Q.
Proof. exact label_spec. Qed.

Theorem C17_labels_partition : forall (bins : list cbin) ds dfreq (b : cbin), In b bins ->
  In b (shell bins ds dfreq (label (bk b) ds dfreq)) /\
  forall L, In b (shell bins ds dfreq L) -> L = label (bk b) ds dfreq.
Proof. exact shell_partition. Qed.

Theorem C17_freq_axis : forall i dfreq, (fsc_freq_axis i dfreq == (inject_Z i + (1#2)) * dfreq)%Q.
Proof. exact freq_axis. Qed.

Theorem C17_default_dfreq : forall mn d, loader_default_dfreq mn false d = ((3#2) / inject_Z mn)%Q /\ loader_default_dfreq mn true d = d.
Proof. exact default_dfreq. Qed.

(** fsc, fsc_with_average and fsc_with_halfmaps are one computation: each hands mask, seed, number of sets and the requested shell width
    (and zero_norm) on unchanged (generated call-binding facts), so the documented default width of fsc() and any requested width are
    the ones the shells are cut with *)
Theorem C17_entry_points_forward : fsc_forwards_arguments = true /\ fsc_with_average_forwards_arguments = true.
Proof. split; reflexivity. Qed.

Print Assumptions C17_label_spec.
Print Assumptions C17_labels_partition.
Print Assumptions C17_freq_axis.
Print Assumptions C17_default_dfreq.
Print Assumptions C17_entry_points_forward.
