(** C17 model: shell labelling without square roots, per-shell sums, FSC in squared form. *)
From Coq Require Import ZArith QArith Qround Qabs Bool List Lia.
From Acryo Require Import Common.PyNum.
From AcryoGen Require Import Anchors_C17.
Import ListNotations.
Local Open Scope Z_scope.

Definition znth (l : list Z) (i : nat) : Z := nth i l 0.
(** squared radius of the bin with FFT indices k in a box of sides ds: sum (k_i/d_i)^2 *)
Definition r2 (k : Z * Z * Z) (ds : list Z) : Q :=
  let '(k0, k1, k2) := k in
  let t k d := let a := (inject_Z k / inject_Z d)%Q in (a * a)%Q in
  (t k0 (znth ds 0) + t k1 (znth ds 1) + t k2 (znth ds 2))%Q.
(** label = trunc(sqrt(r2)/dfreq) = isqrt(floor(r2/dfreq^2)) *)
Definition label (k : Z * Z * Z) (ds : list Z) (dfreq : Q) : Z := Z.sqrt (Qfloor (r2 k ds / (dfreq * dfreq))).

Definition cbin := ((Z * Z * Z) * (Q * Q) * (Q * Q))%type.
Definition bk (b : cbin) := fst (fst b).
Definition cov (b : cbin) : Q := let '(_, (a, b0), (c, d)) := b in (a * c + b0 * d)%Q.
Definition pw0 (b : cbin) : Q := let '(_, (a, b0), _) := b in (a * a + b0 * b0)%Q.
Definition pw1 (b : cbin) : Q := let '(_, _, (c, d)) := b in (c * c + d * d)%Q.
Fixpoint qsum (l : list Q) : Q := match l with [] => 0%Q | x :: t => (x + qsum t)%Q end.
Definition shell (bins : list cbin) (ds : list Z) (dfreq : Q) (L : Z) : list cbin :=
  filter (fun b => label (bk b) ds dfreq =? L) bins.
Definition max_label (bins : list cbin) ds dfreq : Z := fold_right Z.max 0 (map (fun b => label (bk b) ds dfreq) bins).
(** number of reported shells: labels 0 .. max-1 (the last label is excluded by arange(0, nlabels)) *)
Definition n_shells (bins : list cbin) ds dfreq : Z := if fsc_excludes_last_label then max_label bins ds dfreq else max_label bins ds dfreq + 1.

Definition zrange (n : Z) : list Z := map Z.of_nat (seq 0 (Z.to_nat n)).
Definition shell_ok (bins : list cbin) ds dfreq (L : Z) (v : Q) (finite : bool) : bool :=
  let s := shell bins ds dfreq L in
  let c := qsum (map cov s) in let p0 := qsum (map pw0 s) in let p1 := qsum (map pw1 s) in
  let dd := (p0 * p1)%Q in
  if Qle_bool dd 0 then negb finite
  else finite && Qle_bool (Qabs (v * v * dd - c * c)) ((1 # 2000) * dd) &&
       (if Qle_bool (Qabs v) (1 # 100) then true else Bool.eqb (Qle_bool 0 v) (Qle_bool 0 c)).

Fixpoint all_shells (bins : list cbin) ds dfreq (L : Z) (vals : list Q) (fin : list bool) (freq : list Q) : bool :=
  match vals, fin, freq with
  | [], [], [] => true
  | v :: vt, f :: ft, q :: qt =>
      shell_ok bins ds dfreq L v f && Qclose (1 # 100000) q (fsc_freq_axis L dfreq) && all_shells bins ds dfreq (L + 1) vt ft qt
  | _, _, _ => false
  end.

Definition check_fsc (ds : list Z) (dfreq : Q) (bins : list cbin) (vals : list Q) (fin : list bool) (freq : list Q) : bool :=
  fsc_structure && (Z.of_nat (length vals) =? n_shells bins ds dfreq) && all_shells bins ds dfreq 0 vals fin freq.
