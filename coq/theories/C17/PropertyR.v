(** C17 theorems over R: per-shell FSC as the normalised correlation of the stacked (re, im) vectors. *)
From Coq Require Import Reals List Lra Lia.
From Acryo Require Import Common.Sums.
Import ListNotations.
Local Open Scope R_scope.

(** a shell is a list of complex bins (re, im); stack them into one real vector *)
Fixpoint stack (l : list (R * R)) : list R := match l with [] => [] | (a, b) :: t => a :: b :: stack t end.
Definition fsc_shell (f1 f2 : list (R * R)) : R := ncc (stack f1) (stack f2).

Lemma stack_length l : length (stack l) = (2 * length l)%nat.
Proof. induction l as [|[a b] t IH]; cbn; [reflexivity|]. rewrite IH. lia. Qed.

(** Re sum F1 conj(F2) and sum |F|^2 are the dot product / squared norm of the stacked vectors *)
Lemma stack_cov : forall f1 f2, length f1 = length f2 ->
  rdot (stack f1) (stack f2) = fold_right Rplus 0 (map (fun p => fst (fst p) * fst (snd p) + snd (fst p) * snd (snd p)) (combine f1 f2)).
Proof.
  induction f1 as [|[a b] t IH]; intros [|[c d] u] H; try discriminate; cbn; [reflexivity|].
  injection H as H. rewrite IH by exact H. ring.
Qed.

Lemma fsc_range f1 f2 : length f1 = length f2 -> 0 < rsq (stack f1) -> 0 < rsq (stack f2) -> -1 <= fsc_shell f1 f2 <= 1.
Proof. intros Hl H1 H2. apply ncc_range; [rewrite !stack_length; lia|assumption|assumption]. Qed.
Lemma fsc_symmetric f1 f2 : fsc_shell f1 f2 = fsc_shell f2 f1.
Proof. apply ncc_sym. Qed.
Lemma fsc_self f : 0 < rsq (stack f) -> fsc_shell f f = 1.
Proof. apply ncc_self. Qed.

Definition cscale (a : R) (l : list (R * R)) : list (R * R) := map (fun p => (a * fst p, a * snd p)) l.
Lemma stack_cscale a l : stack (cscale a l) = rscale a (stack l).
Proof. induction l as [|[x y] t IH]; cbn; [reflexivity|]. unfold cscale in IH. rewrite IH. reflexivity. Qed.

Lemma fsc_scale a b f1 f2 : 0 < a -> 0 < b -> 0 < rsq (stack f1) -> 0 < rsq (stack f2) ->
  fsc_shell (cscale a f1) (cscale b f2) = fsc_shell f1 f2.
Proof.
  intros Ha Hb H1 H2. unfold fsc_shell. rewrite !stack_cscale.
  rewrite ncc_gain_l; [|exact Ha|exact H1|].
  - apply ncc_gain_r; assumption.
  - rewrite rsq_scale. apply Rmult_lt_0_compat; [nra|exact H2].
Qed.

Theorem C17_range : forall f1 f2, length f1 = length f2 -> 0 < rsq (stack f1) -> 0 < rsq (stack f2) -> -1 <= fsc_shell f1 f2 <= 1.
Proof. exact fsc_range. Qed.
Theorem C17_symmetric : forall f1 f2, fsc_shell f1 f2 = fsc_shell f2 f1.
Proof. exact fsc_symmetric. Qed.
Theorem C17_self : forall f, 0 < rsq (stack f) -> fsc_shell f f = 1.
Proof. exact fsc_self. Qed.
Theorem C17_scale : forall a b f1 f2, 0 < a -> 0 < b -> 0 < rsq (stack f1) -> 0 < rsq (stack f2) ->
  fsc_shell (cscale a f1) (cscale b f2) = fsc_shell f1 f2.
Proof. exact fsc_scale. Qed.
Theorem C17_is_normalised_cross_spectrum : forall f1 f2, length f1 = length f2 ->
  fsc_shell f1 f2 = fold_right Rplus 0 (map (fun p => fst (fst p) * fst (snd p) + snd (fst p) * snd (snd p)) (combine f1 f2))
                    / sqrt (rsq (stack f1) * rsq (stack f2)).
Proof. intros f1 f2 H. unfold fsc_shell, ncc. rewrite stack_cov by exact H. reflexivity. Qed.

Print Assumptions C17_range.
Print Assumptions C17_symmetric.
Print Assumptions C17_self.
Print Assumptions C17_scale.
Print Assumptions C17_is_normalised_cross_spectrum.
