(** C17, loader level: the two half maps are means over complementary (disjoint, exhaustive), non-empty sets of
    subtomograms.  The split itself is the C09 model of acryo.loader._misc.random_splitter, regenerated from the source. *)
From Coq Require Import ZArith QArith List Bool.
From Acryo Require Import Common.PyNum C09.Model C09.Proofs.
From AcryoGen Require Import Anchors_C09.
Import ListNotations.

Theorem C17_halves_disjoint : forall n sl i, (i < n)%nat ->
  nth i (ind1 n sl) false = negb (nth i (ind0 n sl) false).
Proof. exact split_partition. Qed.
Print Assumptions C17_halves_disjoint.

Theorem C17_halves_nonempty : forall n sl, (2 <= n)%nat -> length sl = Nat.div n 2 -> Forall (fun x => (x < n)%nat) sl ->
  (exists i, (i < n)%nat /\ nth i (ind0 n sl) false = true) /\ (exists j, (j < n)%nat /\ nth j (ind1 n sl) false = true).
Proof. exact split_nonempty. Qed.
Print Assumptions C17_halves_nonempty.
