(** C05 property theorems: for every non-negative max_shifts (any rational: zero, fractional, off the
    1/20 grid, larger than the box) and every admissible arg-max, the refinement is well-formed and the
    returned shift is within max_shifts (+ 5e-5 px float tolerance built into the code). *)
From Coq Require Import ZArith QArith Qround Qabs Bool List.
From Acryo Require Import Common.PyNum C05.Model C05.Proofs.
From AcryoGen Require Import Anchors_C05.
Local Open Scope Z_scope.

Theorem C05_slices_wellformed : forall m, (0 <= m)%Q ->
  2 <= zn_pwe m /\ zn_n m = 2 * Qtrunc m + 1 /\ zn_pwe m = zn_w m - 1 - Qtrunc m.
Proof. exact zn_slices_wellformed. Qed.
Print Assumptions C05_slices_wellformed.

Theorem C05_coarse_in_range_zncc : forall m j, (0 <= m)%Q -> 0 <= j < zn_n m ->
  (- m <= inject_Z (up_z (zn_n m) j) <= m)%Q.
Proof. exact zn_coarse_in_range. Qed.
Print Assumptions C05_coarse_in_range_zncc.

Theorem C05_coarse_in_range_fsc : forall m j, (0 <= m)%Q -> 0 <= j < fs_n m ->
  (- m - 1 < inject_Z (up_z (fs_n m) j) < m + 1)%Q.
Proof. exact fs_coarse_in_range. Qed.
Print Assumptions C05_coarse_in_range_fsc.

Theorem C05_mesh_nonempty : forall (z : Z) (m : Q),
  (0 <= m)%Q -> (- m - 1 < inject_Z z)%Q -> (inject_Z z < m + 1)%Q ->
  let b := mesh_bounds (mesh_left (inject_Z z) m) (mesh_right (inject_Z z) m) in
  -20 <= fst b /\ fst b <= snd b /\ snd b <= 20.
Proof. exact mesh_bounds_nonempty. Qed.
Print Assumptions C05_mesh_nonempty.

Theorem C05_mesh_in_bounds : forall m j t, (0 <= m)%Q -> 0 <= j < zn_n m -> -20 <= t <= 20 ->
  (1 <= mesh_coord t j (zn_pwe m) /\ mesh_coord t j (zn_pwe m) <= inject_Z (zn_L m - 2))%Q.
Proof. exact zn_mesh_in_bounds. Qed.
Print Assumptions C05_mesh_in_bounds.

Theorem C05_bound : forall (z : Z) (m : Q) (t : Z),
  let b := mesh_bounds (mesh_left (inject_Z z) m) (mesh_right (inject_Z z) m) in
  fst b <= t <= snd b ->
  (- m - (1#20000) <= inject_Z z + inject_Z t / (20#1) /\ inject_Z z + inject_Z t / (20#1) <= m + (1#20000))%Q.
Proof. exact mesh_shift_bound. Qed.
Print Assumptions C05_bound.

Theorem C05_reported_shift : forall n j m t,
  (up_final n j m t == inject_Z (up_z n j) + inject_Z t / (20#1))%Q.
Proof. exact up_final_eq. Qed.
Print Assumptions C05_reported_shift.

Theorem C05_fsc_phase_table : forall m j, (0 <= m)%Q -> 0 <= j < fs_n m ->
  fs_table_len (fs_n m) = fs_n m /\ fs_lag (fs_n m) j = up_z (fs_n m) j /\ - Qceiling m <= fs_lag (fs_n m) j <= Qceiling m.
Proof. exact fs_table_matches_landscape. Qed.
Print Assumptions C05_fsc_phase_table.

Theorem C05_pcc_crop : forall N m, 1 <= N -> (0 <= m)%Q ->
  let im := pc_im m in
  0 <= im /\ 1 <= pc_P N m /\
  ((pc_P N m = 2 * im + 1 /\ pc_start N m = N / 2 - im) \/ (pc_P N m = N /\ pc_start N m = 0 /\ N / 2 <= im)).
Proof. exact pc_crop_shape. Qed.
Print Assumptions C05_pcc_crop.

Theorem C05_pcc_unwrap : forall P j im c,
  0 <= j < P -> ((P = 2 * im + 1) \/ (P = 2 * c /\ c <= im) \/ (P = 2 * c + 1 /\ c <= im)) -> 0 <= im ->
  - im <= pc_unwrap P j <= im.
Proof. exact pc_unwrap_bound. Qed.
Print Assumptions C05_pcc_unwrap.

Theorem C05_pcc_coarse_range : forall m, (0 <= m)%Q ->
  0 <= pc_im m /\ (inject_Z (pc_im m) <= m + (1#2))%Q /\ (m - (1#2) < inject_Z (pc_im m))%Q.
Proof. exact pc_im_spec. Qed.
Print Assumptions C05_pcc_coarse_range.

Theorem C05_pcc_window : forall (s : Z) (m : Q), (0 <= m)%Q -> (- m - (1#2) <= inject_Z s <= m + (1#2))%Q ->
  0 <= pr_start 20 s m < pr_stop 20 s m /\ pr_stop 20 s m <= 30.
Proof. exact pr_window. Qed.
Print Assumptions C05_pcc_window.

Theorem C05_pcc_total : forall (s : Z) (m : Q) (idx : Z),
  0 <= idx < pr_stop 20 s m - pr_start 20 s m -> (- m - (1#20000) <= pr_final 20 s m idx <= m + (1#20000))%Q.
Proof. exact pr_shift_bound. Qed.
Print Assumptions C05_pcc_total.
