(** C05 model: the index arithmetic that maps an arg-max of a correlation
    landscape to a bounded sub-pixel shift, assembled from generated anchors. *)
From Coq Require Import ZArith QArith Qround Qabs Bool List.
From Acryo Require Import Common.PyNum.
From AcryoGen Require Import Anchors_C05.
Import ListNotations.
Local Open Scope Z_scope.

(** ZNCC / NCC: padding, trimmed response length, effective pad, centre length *)
Definition zn_w (m : Q) : Z := pad_w_int m.
Definition zn_L (m : Q) : Z := 2 * zn_w m - 1.
Definition zn_pwe (m : Q) : Z := pwe_subpixel_zncc m (zn_L m).
Definition zn_n (m : Q) : Z := zn_L m - 2 * zn_pwe m.

(** FSC *)
Definition fs_n (m : Q) : Z := fsc_out_len m.

(** the shared refinement step (upsample/_create_mesh) for a landscape of length n *)
Definition up_z (n j : Z) : Z := j - up_midpoint n.
(** FSC: the lag of the j-th phase ramp of an axis whose search length is n (its own n: every axis has its own table) *)
Definition fs_lag (n j : Z) : Z :=
  if fsc_phase_lags_range && fsc_phases_per_axis && fsc_landscape_loops_zyx then j - fsc_phase_half n else 0.
Definition fs_table_len (n : Z) : Z := if fsc_phase_lags_range then 2 * fsc_phase_half n + 1 else 0.
Definition up_bounds (n j : Z) (m : Q) : Z * Z :=
  let s := mesh_shifts j (up_midpoint n) in
  mesh_bounds (mesh_left s m) (mesh_right s m).
Definition up_final (n j : Z) (m : Q) (t : Z) : Q :=
  let lo := fst (up_bounds n j m) in
  up_shifts j (up_midpoint n) (up_loc_shift (t - lo) (mesh_offset lo)).

(** PCC coarse crop and unwrap *)
Definition pc_im (m : Q) : Z := pcc_int_shifts m.
Definition pc_start (N : Z) (m : Q) : Z :=
  crop_by_max_shifts_start (crop_by_max_shifts_center N) (inject_Z (pc_im m)) N.
Definition pc_stop (N : Z) (m : Q) : Z :=
  crop_by_max_shifts_stop (crop_by_max_shifts_center N) (inject_Z (pc_im m)) N.
Definition pc_P (N : Z) (m : Q) : Z := pc_stop N m - pc_start N m.
Definition pc_unwrap (P j : Z) : Z :=
  if Qltb (pcc_midpoint P) (inject_Z j) then j - P else j.
(** PCC refinement window (upsample factor uf) around the integer estimate s *)
Definition pr_region (uf : Z) : Z := pcc_region uf.
Definition pr_dft (uf : Z) : Q := pcc_dftshift (pr_region uf).
Definition pr_start (uf s : Z) (m : Q) : Z := pcc_start (pr_dft uf) (pcc_lshift (inject_Z s) m uf).
Definition pr_stop (uf s : Z) (m : Q) : Z :=
  pcc_stop (pr_dft uf) (pcc_rshift (inject_Z s) m uf) (pr_region uf).
Definition pr_final (uf s : Z) (m : Q) (idx : Z) : Q :=
  pcc_final (inject_Z s) (pcc_maxima idx (pr_start uf s m) (pr_dft uf)) uf.

(** ---- correspondence checkers ---- *)
Definition check_mesh (is_fsc : bool) (m : Q) (w j : Z) (impl : option (Z * Q * Q * Q)) : bool :=
  let n := if is_fsc then fs_n m else zn_n m in
  let pwe := if is_fsc then 0 else zn_pwe m in
  let '(lo, hi) := up_bounds n j m in
  (is_fsc || (w =? zn_w m)) &&
  match impl with
  | Some (len, first, last, off) =>
      (len =? hi - lo + 1) && Qclose (1#100000) first (mesh_coord lo j pwe) && Qclose (1#100000) last (mesh_coord hi j pwe)
      && Qclose (1#100000) off (mesh_offset lo)
  | None => false
  end.

Definition check_shapes (m : Q) (N : Z) (got : list Z) : bool :=
  let c := pcc_landscape_center N in
  match got with
  | [a; b; f; pl; pc] =>
      (a =? zn_n m) && (b =? (zn_L m - 2 * pwe_ncc_landscape_with_crop m (zn_L m)))
      && (zn_pwe m =? pwe_zncc_landscape_with_crop m (zn_L m)) && (zn_pwe m =? pwe_subpixel_ncc m (zn_L m))
      && (f =? fs_n m)
      && (pl =? pcc_landscape_stop c m N - pcc_landscape_start c m N)
      && (pc =? pc_P N m)
  | _ => false
  end.
