From Coq Require Import ZArith QArith Qround Qabs Bool List Lia Lqa.
From Acryo Require Import Common.PyNum C05.Model.
From AcryoGen Require Import Anchors_C05.
Local Open Scope Z_scope.

Ltac Zify.zify_post_hook ::= Z.to_euclidean_division_equations.

(** ZNCC/NCC: the centre crop is well-formed for every non-negative limit *)
Lemma zn_w_lower m : (0 <= m)%Q -> Qtrunc m + 3 <= zn_w m.
Proof.
  intro Hm. unfold zn_w, pad_w_int. rewrite Qtrunc_Z. rewrite (Qtrunc_nonneg _ Hm).
  rewrite <- (Qceiling_Z (Qfloor m + 3)). apply Qceiling_resp_le.
  rewrite inject_Z_plus. pose proof (Qfloor_le m). change (inject_Z 3) with (3#1). lra.
Qed.

Lemma zn_slices_wellformed m : (0 <= m)%Q ->
  2 <= zn_pwe m /\ zn_n m = 2 * Qtrunc m + 1 /\ zn_pwe m = zn_w m - 1 - Qtrunc m.
Proof.
  intro Hm. pose proof (zn_w_lower m Hm) as Hw.
  unfold zn_n, zn_pwe, pwe_subpixel_zncc, zn_L in *. lia.
Qed.

(** mesh bounds: non-empty, inside one pixel, for every integer coarse shift z with |z| < m+1 *)
Lemma mesh_bounds_nonempty (z : Z) (m : Q) :
  (0 <= m)%Q -> (- m - 1 < inject_Z z)%Q -> (inject_Z z < m + 1)%Q ->
  let b := mesh_bounds (mesh_left (inject_Z z) m) (mesh_right (inject_Z z) m) in
  -20 <= fst b /\ fst b <= snd b /\ snd b <= 20.
Proof.
  intros Hm H1 H2. cbn zeta. unfold mesh_bounds, mesh_left, mesh_right. cbn [fst snd].
  set (L := (- inject_Z z - m)%Q). set (R := (- inject_Z z + m)%Q).
  pose proof (Qmax_ub_r L (- (1#1))) as HA1. pose proof (Qmin_lb_r R (1#1)) as HB1.
  split; [|split].
  - assert (-21 < Qceiling (Qmax L (- (1 # 1)) * (20 # 1) - (1 # 1000)))%Z; [|lia].
    apply Z_lt_Qceiling. change (inject_Z (-21)) with (-21#1). lra.
  - destruct (Qlt_le_dec m (inject_Z z)) as [Hbig|Hle].
    + (* z > m : lower clip at -1, lo = -20 *)
      assert (Hlo : (Qceiling (Qmax L (- (1 # 1)) * (20 # 1) - (1 # 1000)) <= -20)%Z).
      { apply Qceiling_le_Z. change (inject_Z (-20)) with (-20#1).
        unfold Qmax. destruct (Qle_bool L (- (1#1))) eqn:E; [lra|].
        apply Qle_bool_false in E. subst L.
        (* z > m and z integer and ... gives L < -1 unless m small: L = -z - m < -2m <= 0; need L <= -1 *)
        exfalso.
        assert (1 <= z)%Z as Hz1.
        { apply Z.lt_pred_le. cbn. rewrite Zlt_Qlt. change (inject_Z 0) with 0%Q. lra. }
        assert (1 <= inject_Z z)%Q by (change 1%Q with (inject_Z 1); rewrite <- Zle_Qle; exact Hz1).
        lra. }
      assert (Hhi : (-20 <= Qfloor (Qmin R (1 # 1) * (20 # 1) + (1 # 1000)))%Z).
      { apply Zle_Qfloor. change (inject_Z (-20)) with (-20#1).
        unfold Qmin. destruct (Qle_bool R (1#1)) eqn:E; [subst R; lra|lra]. }
      lia.
    + destruct (Qlt_le_dec (inject_Z z) (- m)) as [Hsmall|Hge].
      * (* z < -m : upper clip at 1, hi = 20 *)
        assert (Hhi : (20 <= Qfloor (Qmin R (1 # 1) * (20 # 1) + (1 # 1000)))%Z).
        { apply Zle_Qfloor. change (inject_Z 20) with (20#1).
          unfold Qmin. destruct (Qle_bool R (1#1)) eqn:E; [|lra].
          apply Qle_bool_iff in E. subst R. exfalso.
          assert (z <= -1)%Z as Hz1.
          { apply Z.lt_succ_r. cbn. rewrite Zlt_Qlt. change (inject_Z 0) with 0%Q. lra. }
          assert (inject_Z z <= -1)%Q by (change (-1)%Q with (inject_Z (-1)); rewrite <- Zle_Qle; exact Hz1).
          lra. }
        assert (Hlo : (Qceiling (Qmax L (- (1 # 1)) * (20 # 1) - (1 # 1000)) <= 20)%Z).
        { apply Qceiling_le_Z. change (inject_Z 20) with (20#1).
          unfold Qmax. destruct (Qle_bool L (- (1#1))) eqn:E; [lra|subst L; lra]. }
        lia.
      * (* |z| <= m : 0 is in the mesh *)
        assert (Hlo : (Qceiling (Qmax L (- (1 # 1)) * (20 # 1) - (1 # 1000)) <= 0)%Z).
        { apply Qceiling_le_Z. change (inject_Z 0) with 0%Q.
          unfold Qmax. destruct (Qle_bool L (- (1#1))) eqn:E; [lra|subst L; lra]. }
        assert (Hhi : (0 <= Qfloor (Qmin R (1 # 1) * (20 # 1) + (1 # 1000)))%Z).
        { apply Zle_Qfloor. change (inject_Z 0) with 0%Q.
          unfold Qmin. destruct (Qle_bool R (1#1)) eqn:E; [subst R; lra|lra]. }
        lia.
  - assert (Qfloor (Qmin R (1 # 1) * (20 # 1) + (1 # 1000)) < 21)%Z; [|lia].
    apply Qfloor_lt_Z. change (inject_Z 21) with (21#1). lra.
Qed.

(** every mesh sample keeps the total shift within max_shifts (+ 1/20000 px float tolerance) *)
Lemma mesh_shift_bound (z : Z) (m : Q) (t : Z) :
  let b := mesh_bounds (mesh_left (inject_Z z) m) (mesh_right (inject_Z z) m) in
  fst b <= t <= snd b ->
  (- m - (1#20000) <= inject_Z z + inject_Z t / (20#1) /\ inject_Z z + inject_Z t / (20#1) <= m + (1#20000))%Q.
Proof.
  cbn zeta. unfold mesh_bounds, mesh_left, mesh_right. cbn [fst snd].
  set (L := (- inject_Z z - m)%Q). set (R := (- inject_Z z + m)%Q).
  intros [Hlo Hhi].
  pose proof (Qmax_ub_l L (- (1#1))) as HA. pose proof (Qmin_lb_l R (1#1)) as HB.
  pose proof (Qle_ceiling (Qmax L (- (1 # 1)) * (20 # 1) - (1 # 1000))) as Hc.
  pose proof (Qfloor_le (Qmin R (1 # 1) * (20 # 1) + (1 # 1000))) as Hf.
  rewrite Zle_Qle in Hlo, Hhi. subst L R. qdiv20.
  split; lra.
Qed.

Lemma up_final_eq n j m t : (up_final n j m t == inject_Z (up_z n j) + inject_Z t / (20#1))%Q.
Proof.
  unfold up_final, up_shifts, up_loc_shift, mesh_offset, up_z.
  rewrite !inject_Z_minus. field.
Qed.

(** ZNCC/NCC: mesh coordinates stay strictly inside the padded response (no cval leakage) *)
Lemma zn_mesh_in_bounds m j t : (0 <= m)%Q -> 0 <= j < zn_n m -> -20 <= t <= 20 ->
  (1 <= mesh_coord t j (zn_pwe m) /\ mesh_coord t j (zn_pwe m) <= inject_Z (zn_L m - 2))%Q.
Proof.
  intros Hm Hj Ht. destruct (zn_slices_wellformed m Hm) as (Hp & Hn & _).
  unfold mesh_coord. assert (zn_L m - 2 = zn_n m + 2 * zn_pwe m - 2) as -> by (unfold zn_n; lia).
  destruct Hj as [Hj0 Hj1]. destruct Ht as [Ht0 Ht1].
  rewrite Zle_Qle in Hj0, Ht0, Ht1, Hp. rewrite Zlt_Qlt in Hj1.
  assert (inject_Z j <= inject_Z (zn_n m) - 1)%Q as Hj2.
  { assert (j <= zn_n m - 1)%Z as Hz by (rewrite <- Zlt_Qlt in Hj1; lia).
    rewrite Zle_Qle in Hz. rewrite inject_Z_minus in Hz. exact Hz. }
  rewrite inject_Z_minus, inject_Z_plus, inject_Z_mult.
  change (inject_Z 2) with (2#1) in *. change (inject_Z (-20)) with (-20#1) in *. change (inject_Z 20) with (20#1) in *.
  change (inject_Z 0) with 0%Q in *. qdiv20. split; lra.
Qed.

(** the coarse shift of ZNCC/NCC/FSC satisfies the premise of [mesh_bounds_nonempty] *)
Lemma zn_coarse_in_range m j : (0 <= m)%Q -> 0 <= j < zn_n m ->
  (- m <= inject_Z (up_z (zn_n m) j) <= m)%Q.
Proof.
  intros Hm Hj. destruct (zn_slices_wellformed m Hm) as (_ & Hn & _).
  unfold up_z, up_midpoint. rewrite Hn in *.
  assert (- Qtrunc m <= j - (2 * Qtrunc m + 1) / 2 <= Qtrunc m) as [H1 H2] by lia.
  rewrite Zle_Qle in H1, H2. rewrite inject_Z_opp in H1.
  destruct (Qtrunc_bounds m) as [Hb _]. destruct (Hb Hm) as (Hb1 & _). lra.
Qed.

Lemma fs_coarse_in_range m j : (0 <= m)%Q -> 0 <= j < fs_n m ->
  (- m - 1 < inject_Z (up_z (fs_n m) j) < m + 1)%Q.
Proof.
  intros Hm Hj. unfold up_z, up_midpoint, fs_n, fsc_out_len in *. rewrite Qtrunc_Z in *.
  assert (- Qceiling m <= j - (Qceiling m * 2 + 1) / 2 <= Qceiling m) as [H1 H2] by lia.
  rewrite Zle_Qle in H1, H2. rewrite inject_Z_opp in H1.
  pose proof (Qceiling_lt m) as Hc. rewrite inject_Z_minus in Hc. change (inject_Z 1) with 1%Q in Hc. lra.
Qed.

(** FSC: on each axis the phase table has exactly one ramp per landscape sample, and the j-th ramp is the lag that the
    sub-pixel refinement later attributes to landscape index j -- whatever the other axes' ranges are *)
Lemma fs_table_matches_landscape m j : (0 <= m)%Q -> 0 <= j < fs_n m ->
  fs_table_len (fs_n m) = fs_n m /\ fs_lag (fs_n m) j = up_z (fs_n m) j /\ - Qceiling m <= fs_lag (fs_n m) j <= Qceiling m.
Proof.
  intros Hm Hj. unfold fs_table_len, fs_lag, fsc_phase_lags_range, fsc_phases_per_axis, fsc_landscape_loops_zyx, up_z, up_midpoint, fsc_phase_half.
  cbn [andb]. unfold fs_n, fsc_out_len in *. rewrite Qtrunc_Z in *.
  assert (0 <= Qceiling m) as Hc.
  { pose proof (Qle_ceiling m) as H. apply Z.le_ngt. intro Hneg. assert (Qceiling m <= -1) as H1 by lia.
    rewrite Zle_Qle in H1. change (inject_Z (-1)) with (-1#1)%Q in H1. lra. }
  set (c := Qceiling m) in *.
  assert ((c * 2 + 1) / 2 = c) as E by (symmetry; apply Z.div_unique with (r := 1); lia).
  rewrite E. repeat split; lia.
Qed.

(** PCC: the coarse crop is either the symmetric window or the whole axis, and the unwrapped
    arg-max is an integer within round(max_shifts) = floor(max_shifts + 1/2) *)
Lemma pc_im_spec m : (0 <= m)%Q ->
  0 <= pc_im m /\ (inject_Z (pc_im m) <= m + (1#2))%Q /\ (m - (1#2) < inject_Z (pc_im m))%Q.
Proof.
  intro Hm. unfold pc_im, pcc_int_shifts. rewrite Qtrunc_Z.
  pose proof (Qfloor_le (m + (1#2))) as H1. pose proof (Qlt_floor (m + (1#2))) as H2.
  rewrite inject_Z_plus1 in H2.
  assert (0 <= Qfloor (m + (1#2))) as H0 by (apply Zle_Qfloor; change (inject_Z 0) with 0%Q; lra).
  repeat split; [exact H0 | exact H1 | lra].
Qed.

Lemma pc_crop_shape N m : 1 <= N -> (0 <= m)%Q ->
  let im := pc_im m in
  0 <= im /\ 1 <= pc_P N m /\
  ((pc_P N m = 2 * im + 1 /\ pc_start N m = N / 2 - im) \/ (pc_P N m = N /\ pc_start N m = 0 /\ N / 2 <= im)).
Proof.
  intros HN Hm. cbn zeta. destruct (pc_im_spec m Hm) as (H0 & _ & _).
  unfold pc_P, pc_start, pc_stop, crop_by_max_shifts_start, crop_by_max_shifts_stop, crop_by_max_shifts_center.
  rewrite !Qtrunc_Z. set (im := pc_im m) in *. lia.
Qed.

Lemma pc_unwrap_bound P j im c :
  0 <= j < P -> ((P = 2 * im + 1) \/ (P = 2 * c /\ c <= im) \/ (P = 2 * c + 1 /\ c <= im)) -> 0 <= im ->
  - im <= pc_unwrap P j <= im.
Proof.
  intros Hj HP Him. unfold pc_unwrap, pcc_midpoint.
  assert (Qtrunc (inject_Z P / (2#1)) = P / 2) as Ht.
  { assert (0 <= inject_Z P / (2#1))%Q as Hnn.
    { assert (0 <= P) as HP0 by lia. rewrite Zle_Qle in HP0. change (inject_Z 0) with 0%Q in HP0. qdiv2. lra. }
    rewrite (Qtrunc_nonneg _ Hnn). apply Qfloor_spec.
    assert (P = 2 * (P / 2) + P mod 2) as E by (apply Z.div_mod; lia).
    assert (0 <= P mod 2 < 2) as Hmod by (apply Z.mod_pos_bound; lia).
    set (q := P / 2) in *. set (r := P mod 2) in *.
    rewrite E. rewrite inject_Z_plus, inject_Z_mult. rewrite inject_Z_plus.
    destruct Hmod as [Hm0 Hm1]. rewrite Zle_Qle in Hm0. rewrite Zlt_Qlt in Hm1.
    change (inject_Z 2) with (2#1) in *. change (inject_Z 0) with 0%Q in *. change (inject_Z 1) with 1%Q. qdiv2.
    split; lra. }
  rewrite Ht.
  destruct (Qltb (inject_Z (P / 2)) (inject_Z j)) eqn:E.
  - apply Qltb_lt in E. rewrite <- Zlt_Qlt in E. lia.
  - apply Qltb_ge in E. rewrite <- Zle_Qle in E. lia.
Qed.

(** PCC refinement: for a coarse peak s with |s| <= round(m) the window is a non-empty part of the
    up-sampled region, and every index keeps |shift| <= m (+ 5e-5: the 1e-3 guard against float32 rounding) *)
Lemma pr_lr (s : Z) (m : Q) :
  let l := pcc_lshift (inject_Z s) m 20 in let r := pcc_rshift (inject_Z s) m 20 in
  (inject_Z l <= (inject_Z s + m) * (20#1) + (1#1000) < inject_Z l + 1)%Q /\
  (inject_Z r <= (m - inject_Z s) * (20#1) + (1#1000) < inject_Z r + 1)%Q.
Proof.
  cbn zeta. unfold pcc_lshift, pcc_rshift. rewrite !Qtrunc_Z. change (inject_Z 20) with (20#1).
  split; (split; [apply Qfloor_le | rewrite <- inject_Z_plus1; apply Qlt_floor]).
Qed.

Lemma pr_window (s : Z) (m : Q) :
  (0 <= m)%Q -> (- m - (1#2) <= inject_Z s <= m + (1#2))%Q ->
  0 <= pr_start 20 s m < pr_stop 20 s m /\ pr_stop 20 s m <= 30.
Proof.
  intros Hm [H1 H2]. unfold pr_start, pr_stop, pcc_start, pcc_stop.
  assert (pr_region 20 = 30) as Hr by (vm_compute; reflexivity).
  assert (Qtrunc (pr_dft 20) = 15) as Hd by (vm_compute; reflexivity).
  rewrite Hr, Hd. destruct (pr_lr s m) as [[Ha1 Ha2] [Hb1 Hb2]].
  set (l := pcc_lshift (inject_Z s) m 20) in *. set (r := pcc_rshift (inject_Z s) m 20) in *.
  assert (-11 <= l) as Hl.
  { apply Z.lt_succ_r. rewrite Zlt_Qlt. unfold Z.succ. rewrite inject_Z_plus. change (inject_Z (-11)) with (-11#1)%Q. change (inject_Z 1) with 1%Q. lra. }
  assert (-11 <= r) as Hrr.
  { apply Z.lt_succ_r. rewrite Zlt_Qlt. unfold Z.succ. rewrite inject_Z_plus. change (inject_Z (-11)) with (-11#1)%Q. change (inject_Z 1) with 1%Q. lra. }
  assert (0 <= l + r) as Hsum.
  { destruct (Qlt_le_dec m (1#40)) as [Hsmall | Hbig].
    - (* the only admissible coarse peak is 0 *)
      assert (s = 0) as ->.
      { assert (-1 < s < 1) as Hs; [|lia]. rewrite !Zlt_Qlt. change (inject_Z (-1)) with (-1#1)%Q. change (inject_Z 1) with 1%Q. lra. }
      change (inject_Z 0) with 0%Q in *.
      assert (-1 < l) as Hl0 by (rewrite Zlt_Qlt; change (inject_Z (-1)) with (-1#1)%Q; lra).
      assert (-1 < r) as Hr0 by (rewrite Zlt_Qlt; change (inject_Z (-1)) with (-1#1)%Q; lra).
      lia.
    - assert (-1 < l + r) as Hx; [|lia]. rewrite Zlt_Qlt. rewrite inject_Z_plus. change (inject_Z (-1)) with (-1#1)%Q. lra. }
  lia.
Qed.

Lemma pr_shift_bound (s : Z) (m : Q) (idx : Z) :
  0 <= idx < pr_stop 20 s m - pr_start 20 s m ->
  (- m - (1#20000) <= pr_final 20 s m idx <= m + (1#20000))%Q.
Proof.
  intros Hidx. unfold pr_final, pcc_final, pcc_maxima.
  assert (pr_dft 20 == 15#1)%Q as Hd by (vm_compute; reflexivity).
  rewrite Hd. unfold pr_start, pr_stop, pcc_start, pcc_stop in *.
  assert (pr_region 20 = 30) as Hr by (vm_compute; reflexivity).
  assert (Qtrunc (pr_dft 20) = 15) as Hd2 by (vm_compute; reflexivity).
  rewrite Hr, Hd2 in *. destruct (pr_lr s m) as [[Ha1 Ha2] [Hb1 Hb2]].
  set (l := pcc_lshift (inject_Z s) m 20) in *. set (r := pcc_rshift (inject_Z s) m 20) in *.
  assert (15 - l <= idx + Z.max (15 - l) 0 <= 15 + r) as [Hi1 Hi2] by lia.
  rewrite Zle_Qle in Hi1, Hi2. rewrite inject_Z_minus in Hi1. rewrite (inject_Z_plus 15 r) in Hi2.
  change (inject_Z 15) with (15#1) in *. change (inject_Z 20) with (20#1) in *.
  set (I := inject_Z (idx + Z.max (15 - l) 0)) in *. qdiv20. split; lra.
Qed.

(** non-vacuity *)
Example ex_zncc_078 :
  zn_w (39#50) = 4 /\ zn_pwe (39#50) = 3 /\ zn_n (39#50) = 1 /\ up_bounds 1 0 (39#50) = (-15, 15).
Proof. vm_compute. repeat split. Qed.

Example ex_fsc_031 : fs_n (31#100) = 3 /\ up_bounds 3 2 (31#100) = (-20, -14) /\ up_bounds 3 0 (31#100) = (14, 20).
Proof. vm_compute. repeat split. Qed.

Example ex_pcc_zero : pc_P 8 0 = 1 /\ pr_start 20 0 0 = 15 /\ pr_stop 20 0 0 = 16 /\ (pr_final 20 0 0 0 == 0)%Q.
Proof. vm_compute. repeat split. Qed.

(* max_shifts = 1.9: the coarse peak may be 2, and the last index of the restricted window is exactly 1.9 *)
Example ex_pcc_edge : pc_im (19#10) = 2 /\ pr_start 20 2 (19#10) = 0 /\ pr_stop 20 2 (19#10) = 14 /\ (pr_final 20 2 (19#10) 13 == 19#10)%Q.
Proof. vm_compute. repeat split. Qed.
