From Coq Require Import ZArith QArith Qround Qabs Bool List Ring Lqa.
From Acryo Require Import Common.PyNum C19.Model.
From AcryoGen Require Import Anchors_C19.
Import ListNotations.

Section Proofs.
Variable A : Type.
Variables (rO rI : A) (aadd amul asub : A -> A -> A) (aneg : A -> A).
Variable Rth : ring_theory rO rI aadd amul asub aneg (@eq A).
Variable adiv : A -> A -> A.
Variable acmp : cop -> A -> A -> A.
Variable S : Type.
Variable penv : nat -> S -> list A.
Variable cenv : nat -> list A -> S -> list A.
Add Ring Aring19 : Rth.

Local Notation den_p' := (den_p A aadd asub amul adiv aneg acmp S penv cenv).
Local Notation den_c' := (den_c A aadd asub amul adiv aneg acmp S penv cenv).
Local Notation impl_p' := (impl_p A aadd asub amul adiv aneg acmp S penv cenv).
Local Notation impl_c' := (impl_c A aadd asub amul adiv aneg acmp S penv cenv).

Scheme pexpr_mut := Induction for pexpr Sort Prop
  with cexpr_mut := Induction for cexpr Sort Prop.
Combined Scheme pc_mutind from pexpr_mut, cexpr_mut.

(** the reflected operators compute  k (+) v  *)
Lemma rbin_impl_ok o k v : rbin_impl A aadd asub amul adiv aneg o k v = bin A aadd asub amul adiv o k v.
Proof.
  destruct o; unfold rbin_impl, bin, radd_is_self_plus_other, rmul_is_self_times_other, rsub_is_neg_self_plus_other, rdiv_is_other_over_self.
  - ring.
  - ring.
  - ring.
  - reflexivity.
Qed.

Lemma dbin_id cls br o : (cls = 0 /\ (br = 0 \/ br = 2) \/ cls = 1 /\ (br = 0 \/ br = 1 \/ br = 2))%Z -> dbin cls br o = o.
Proof. intros [[-> [-> | ->]] | [-> [-> | [-> | ->]]]]; destruct o; reflexivity. Qed.
Lemma dcmp_id cls br o : (cls = 0 /\ (br = 0 \/ br = 2) \/ cls = 1 /\ (br = 0 \/ br = 1 \/ br = 2))%Z -> dcmp cls br o = o.
Proof. intros [[-> [-> | ->]] | [-> [-> | [-> | ->]]]]; destruct o; reflexivity. Qed.

(** every pipeline expression, of any depth: the implementation computes its mathematical meaning *)
Theorem impl_is_den :
  (forall e s, impl_p' e s = den_p' e s) /\ (forall e x s, impl_c' e x s = den_c' e x s).
Proof.
  apply pc_mutind; intros; cbn [impl_p impl_c den_p den_c]; unfold compose_applies_inner_first;
    rewrite ?dbin_id, ?dcmp_id by (clear; tauto);
    repeat match goal with H : forall _, _ = _ |- _ => rewrite H end;
    repeat match goal with H : forall _ _, _ = _ |- _ => rewrite H end; try reflexivity.
  - unfold mapc. apply map_ext. intro. apply rbin_impl_ok.
  - unfold mapc. apply map_ext. intro. apply rbin_impl_ok.
Qed.

(** composition is nested application and is associative *)
Lemma compose_nested c d x s : den_c' (CComp A c d) x s = den_c' c (den_c' d x s) s.
Proof. reflexivity. Qed.
Lemma compose_assoc a b c x s : den_c' (CComp A (CComp A a b) c) x s = den_c' (CComp A a (CComp A b c)) x s.
Proof. reflexivity. Qed.
Lemma compose_provider c d p s : den_p' (PApp A (CComp A c d) p) s = den_p' (PApp A c (PApp A d p)) s.
Proof. reflexivity. Qed.
End Proofs.

(** ---- physical units: scale covariance ---- *)
Lemma Qabs_scale_ratio (lam r s : Q) : 0 < lam -> ~ s == 0 -> Qabs ((lam * r) / (lam * s)) == Qabs (r / s).
Proof.
  intros Hl Hs. assert ((lam * r) / (lam * s) == r / s) as -> by (field; split; [exact Hs|lra]). reflexivity.
Qed.

Lemma radius_covariant lam r s : 0 < lam -> ~ s == 0 -> radius_px (lam * r) (lam * s) = radius_px r s.
Proof.
  intros Hl Hs. unfold radius_px, mask_radius_px, mask_radius_guard, mask_radius_ret.
  pose proof (Qabs_scale_ratio lam r s Hl Hs) as E.
  set (a := Qabs ((lam * r) / (lam * s))) in *. set (b := Qabs (r / s)) in *.
  assert (Qltb a (1#1) = Qltb b (1#1)) as ->.
  { unfold Qltb. f_equal. destruct (Qle_bool (1#1) b) eqn:X.
    - apply Qle_bool_iff in X. apply Qle_bool_iff. rewrite E. exact X.
    - destruct (Qle_bool (1#1) a) eqn:Y; [|reflexivity]. apply Qle_bool_iff in Y. rewrite E in Y. apply Qle_bool_iff in Y. congruence. }
  destruct (Qltb b (1#1)); [reflexivity|]. rewrite !Qtrunc_Z. apply Qceiling_comp. exact E.
Qed.

Lemma gauss_covariant lam shape shift sigma s : 0 < lam -> ~ s == 0 ->
  gauss_center (lam * shape) (lam * shift) (lam * s) == gauss_center shape shift s /\
  gauss_sigma (lam * sigma) (lam * s) == gauss_sigma sigma s.
Proof.
  intros Hl Hs. unfold gauss_center, gauss_sigma, gauss_center_subpix, gauss_shape_px, gauss_shape_subpix, gauss_sigma_px.
  assert (E : (lam * shape) / (lam * s) == shape / s) by (field; split; [exact Hs|lra]).
  assert (Qround_he ((lam * shape) / (lam * s)) = Qround_he (shape / s)) as ->.
  { unfold Qround_he. rewrite (Qfloor_comp _ _ E).
    assert (forall u v w, u == v -> Qltb u w = Qltb v w) as L1.
    { intros u v w Huv. unfold Qltb. f_equal. destruct (Qle_bool w v) eqn:X.
      - apply Qle_bool_iff in X. apply Qle_bool_iff. rewrite Huv. exact X.
      - destruct (Qle_bool w u) eqn:Y; [|reflexivity]. apply Qle_bool_iff in Y. rewrite Huv in Y. apply Qle_bool_iff in Y. congruence. }
    assert (forall u v w, u == v -> Qltb w u = Qltb w v) as L2.
    { intros u v w Huv. unfold Qltb. f_equal. destruct (Qle_bool v w) eqn:X.
      - apply Qle_bool_iff in X. apply Qle_bool_iff. rewrite Huv. exact X.
      - destruct (Qle_bool u w) eqn:Y; [|reflexivity]. apply Qle_bool_iff in Y. rewrite Huv in Y. apply Qle_bool_iff in Y. congruence. }
    assert (E2 : (lam * shape) / (lam * s) - inject_Z (Qfloor (shape / s)) == shape / s - inject_Z (Qfloor (shape / s))) by (rewrite E; reflexivity).
    rewrite (L1 _ _ _ E2), (L2 _ _ _ E2). reflexivity. }
  split; field; split; try exact Hs; lra.
Qed.

Lemma gauss_center_formula shape shift s :
  gauss_center shape shift s == (inject_Z (gauss_shape_px (gauss_shape_subpix shape s)) - 1) / 2 + shift / s.
Proof.
  unfold gauss_center, gauss_center_subpix. rewrite inject_Z_minus. reflexivity.
Qed.

Example radius_example : radius_px (3#2) (1#2) = 3%Z /\ radius_px (-(3#2)) (1#2) = 3%Z /\ radius_px (2#5) (1#2) = 0%Z.
Proof. vm_compute. repeat split. Qed.
