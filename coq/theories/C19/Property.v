(** C19 property theorems. *)
From Coq Require Import ZArith QArith Qround Qabs Bool List Ring.
From Acryo Require Import Common.PyNum C19.Model C19.Proofs.
From AcryoGen Require Import Anchors_C19.

Section Statements.
Variable A : Type.
Variables (rO rI : A) (aadd amul asub : A -> A -> A) (aneg : A -> A).
Variable Rth : ring_theory rO rI aadd amul asub aneg (@eq A).
Variable adiv : A -> A -> A.
Variable acmp : cop -> A -> A -> A.
Variable S : Type.
Variable penv : nat -> S -> list A.
Variable cenv : nat -> list A -> S -> list A.

(** for every expression of any depth (structural induction), any leaves, any scale: implementation = meaning *)
Theorem C19_operators :
  (forall e s, impl_p A aadd asub amul adiv aneg acmp S penv cenv e s = den_p A aadd asub amul adiv aneg acmp S penv cenv e s) /\
  (forall e x s, impl_c A aadd asub amul adiv aneg acmp S penv cenv e x s = den_c A aadd asub amul adiv aneg acmp S penv cenv e x s).
Proof. exact (impl_is_den A rO rI aadd amul asub aneg Rth adiv acmp S penv cenv). Qed.

Theorem C19_compose : forall c d x s,
  den_c A aadd asub amul adiv aneg acmp S penv cenv (CComp A c d) x s =
  den_c A aadd asub amul adiv aneg acmp S penv cenv c (den_c A aadd asub amul adiv aneg acmp S penv cenv d x s) s.
Proof. exact (compose_nested A aadd amul asub aneg adiv acmp S penv cenv). Qed.

Theorem C19_assoc : forall a b c x s,
  den_c A aadd asub amul adiv aneg acmp S penv cenv (CComp A (CComp A a b) c) x s =
  den_c A aadd asub amul adiv aneg acmp S penv cenv (CComp A a (CComp A b c)) x s.
Proof. exact (compose_assoc A aadd amul asub aneg adiv acmp S penv cenv). Qed.

Theorem C19_compose_provider : forall c d p s,
  den_p A aadd asub amul adiv aneg acmp S penv cenv (PApp A (CComp A c d) p) s =
  den_p A aadd asub amul adiv aneg acmp S penv cenv (PApp A c (PApp A d p)) s.
Proof. exact (compose_provider A aadd amul asub aneg adiv acmp S penv cenv). Qed.
End Statements.

Theorem C19_scale_covariance_radius : forall lam r s, 0 < lam -> ~ s == 0 -> radius_px (lam * r) (lam * s) = radius_px r s.
Proof. exact radius_covariant. Qed.

Theorem C19_scale_covariance_gaussian : forall lam shape shift sigma s, 0 < lam -> ~ s == 0 ->
  gauss_center (lam * shape) (lam * shift) (lam * s) == gauss_center shape shift s /\
  gauss_sigma (lam * sigma) (lam * s) == gauss_sigma sigma s.
Proof. exact gauss_covariant. Qed.

Theorem C19_gaussian_centre : forall shape shift s,
  gauss_center shape shift s == (inject_Z (gauss_shape_px (gauss_shape_subpix shape s)) - 1) / 2 + shift / s.
Proof. exact gauss_center_formula. Qed.

Theorem C19_curry_anchor : curry_provider = true /\ curry_converter = true /\ binops_are_voxelwise = true /\ gauss_exponent_is_sum_of_squares = true /\
  converters_have_no_memory = true.
Proof. repeat split; reflexivity. Qed.

Print Assumptions C19_operators.
Print Assumptions C19_compose.
Print Assumptions C19_assoc.
Print Assumptions C19_compose_provider.
Print Assumptions C19_scale_covariance_radius.
Print Assumptions C19_scale_covariance_gaussian.
Print Assumptions C19_gaussian_centre.
Print Assumptions C19_curry_anchor.
