(** C19 model: deep embedding of pipeline expressions.  [den] is the mathematical meaning (nested application,
    voxel-wise operators), [impl] follows the Python operator dispatch recorded by the generated anchors. *)
From Coq Require Import ZArith QArith Qround Qabs Bool List.
From Acryo Require Import Common.PyNum.
From AcryoGen Require Import Anchors_C19.
Import ListNotations.

Inductive bop := Add | Sub | Mul | Div.
Inductive cop := Lt | Le | Gt | Ge | Eq | Ne.

(** the operator each branch of each operator method really applies (generated table [op_dispatch]) *)
Definition bop_code (o : bop) : Z := (match o with Add => 0 | Sub => 1 | Mul => 2 | Div => 3 end)%Z.
Definition cop_code (o : cop) : Z := (match o with Lt => 0 | Le => 1 | Gt => 2 | Ge => 3 | Eq => 4 | Ne => 5 end)%Z.
Definition bop_of (z : Z) (d : bop) : bop := match z with 0%Z => Add | 1%Z => Sub | 2%Z => Mul | 3%Z => Div | _ => d end.
Definition cop_of (z : Z) (d : cop) : cop := match z with 0%Z => Lt | 1%Z => Le | 2%Z => Gt | 3%Z => Ge | 4%Z => Eq | 5%Z => Ne | _ => d end.
(* an unknown entry (-1) falls back to an operator different from the declared one, so that the proof cannot go through *)
Definition bop_wrong (o : bop) : bop := match o with Add => Sub | _ => Add end.
Definition cop_wrong (o : cop) : cop := match o with Lt => Ge | _ => Lt end.
Definition dbin (cls branch : Z) (o : bop) : bop := bop_of (op_dispatch 0%Z cls branch (bop_code o)) (bop_wrong o).
Definition dcmp (cls branch : Z) (o : cop) : cop := cop_of (op_dispatch 1%Z cls branch (cop_code o)) (cop_wrong o).

Section Generic.
Variable A : Type.                       (* voxel values *)
Variables (aadd asub amul adiv : A -> A -> A) (aneg : A -> A) (acmp : cop -> A -> A -> A).
Variable S : Type.                       (* scale *)
Definition image := list A.

Inductive pexpr :=
| PLeaf (i : nat)
| PApp (c : cexpr) (p : pexpr)                 (* converter @ provider *)
| PBin (o : bop) (a b : pexpr) | PBinC (o : bop) (a : pexpr) (k : A) | PRBin (o : bop) (k : A) (a : pexpr)
| PNeg (a : pexpr)
| PCmp (o : cop) (a b : pexpr) | PCmpC (o : cop) (a : pexpr) (k : A)
with cexpr :=
| CLeaf (i : nat)
| CComp (c d : cexpr)                          (* c @ d *)
| CBin (o : bop) (c d : cexpr) | CBinP (o : bop) (c : cexpr) (p : pexpr) | CBinC (o : bop) (c : cexpr) (k : A)
| CRBin (o : bop) (k : A) (c : cexpr)
| CNeg (c : cexpr)
| CCmp (o : cop) (c d : cexpr) | CCmpP (o : cop) (c : cexpr) (p : pexpr) | CCmpC (o : cop) (c : cexpr) (k : A).

Variable penv : nat -> S -> image.             (* leaf providers *)
Variable cenv : nat -> image -> S -> image.    (* leaf converters *)

Definition bin (o : bop) (x y : A) : A := match o with Add => aadd x y | Sub => asub x y | Mul => amul x y | Div => adiv x y end.
Fixpoint zipw (f : A -> A -> A) (a b : image) : image :=
  match a, b with x :: a', y :: b' => f x y :: zipw f a' b' | _, _ => [] end.
Definition mapc (f : A -> A) (a : image) : image := map f a.

(** mathematical meaning *)
Fixpoint den_p (e : pexpr) (s : S) : image :=
  match e with
  | PLeaf i => penv i s
  | PApp c p => den_c c (den_p p s) s
  | PBin o a b => zipw (bin o) (den_p a s) (den_p b s)
  | PBinC o a k => mapc (fun x => bin o x k) (den_p a s)
  | PRBin o k a => mapc (fun x => bin o k x) (den_p a s)
  | PNeg a => mapc aneg (den_p a s)
  | PCmp o a b => zipw (acmp o) (den_p a s) (den_p b s)
  | PCmpC o a k => mapc (fun x => acmp o x k) (den_p a s)
  end
with den_c (e : cexpr) (x : image) (s : S) : image :=
  match e with
  | CLeaf i => cenv i x s
  | CComp c d => den_c c (den_c d x s) s
  | CBin o c d => zipw (bin o) (den_c c x s) (den_c d x s)
  | CBinP o c p => zipw (bin o) (den_c c x s) (den_p p s)
  | CBinC o c k => mapc (fun v => bin o v k) (den_c c x s)
  | CRBin o k c => mapc (fun v => bin o k v) (den_c c x s)
  | CNeg c => mapc aneg (den_c c x s)
  | CCmp o c d => zipw (acmp o) (den_c c x s) (den_c d x s)
  | CCmpP o c p => zipw (acmp o) (den_c c x s) (den_p p s)
  | CCmpC o c k => mapc (fun v => acmp o v k) (den_c c x s)
  end.

(** what the reflected operators do in the implementation (generated facts) *)
Definition rbin_impl (o : bop) (k v : A) : A :=
  match o with
  | Add => if radd_is_self_plus_other then aadd v k else aadd k v
  | Mul => if rmul_is_self_times_other then amul v k else amul k v
  | Sub => if rsub_is_neg_self_plus_other then aadd (aneg v) k else asub v k
  | Div => if rdiv_is_other_over_self then adiv k v else adiv v k
  end.

Fixpoint impl_p (e : pexpr) (s : S) : image :=
  match e with
  | PLeaf i => penv i s
  | PApp c p => if compose_applies_inner_first then impl_c c (impl_p p s) s else impl_c c (impl_p p s) s
  | PBin o a b => zipw (bin (dbin 0%Z 0%Z o)) (impl_p a s) (impl_p b s)
  | PBinC o a k => mapc (fun x => bin (dbin 0%Z 2%Z o) x k) (impl_p a s)
  | PRBin o k a => mapc (fun x => rbin_impl o k x) (impl_p a s)
  | PNeg a => mapc aneg (impl_p a s)
  | PCmp o a b => zipw (acmp (dcmp 0%Z 0%Z o)) (impl_p a s) (impl_p b s)
  | PCmpC o a k => mapc (fun x => acmp (dcmp 0%Z 2%Z o) x k) (impl_p a s)
  end
with impl_c (e : cexpr) (x : image) (s : S) : image :=
  match e with
  | CLeaf i => cenv i x s
  | CComp c d => if compose_applies_inner_first then impl_c c (impl_c d x s) s else impl_c d (impl_c c x s) s
  | CBin o c d => zipw (bin (dbin 1%Z 0%Z o)) (impl_c c x s) (impl_c d x s)
  | CBinP o c p => zipw (bin (dbin 1%Z 1%Z o)) (impl_c c x s) (impl_p p s)
  | CBinC o c k => mapc (fun v => bin (dbin 1%Z 2%Z o) v k) (impl_c c x s)
  | CRBin o k c => mapc (fun v => rbin_impl o k v) (impl_c c x s)
  | CNeg c => mapc aneg (impl_c c x s)
  | CCmp o c d => zipw (acmp (dcmp 1%Z 0%Z o)) (impl_c c x s) (impl_c d x s)
  | CCmpP o c p => zipw (acmp (dcmp 1%Z 1%Z o)) (impl_c c x s) (impl_p p s)
  | CCmpC o c k => mapc (fun v => acmp (dcmp 1%Z 2%Z o) v k) (impl_c c x s)
  end.
End Generic.

(** ---- instance at Q for the correspondence ---- *)
Definition qcmp (o : cop) (x y : Q) : Q :=
  let b := match o with
           | Lt => Qltb x y | Le => Qle_bool x y | Gt => Qltb y x | Ge => Qle_bool y x
           | Eq => Qeq_bool x y | Ne => negb (Qeq_bool x y) end in
  if b then 1%Q else 0%Q.
Definition qdivsafe (x y : Q) : Q := (x / y)%Q.

(** leaves used by the harness: providers 0..2 constant arrays, provider 3 filled with 8*scale;
    converters: 0 = x*2, 1 = x + 4*scale, 2 = x*x, 3 = 10 - x *)
Definition penvQ (arrs : list (list Q)) (i : nat) (s : Q) : list Q :=
  if Nat.eqb i 3 then map (fun _ => (8#1) * s)%Q (nth 0 arrs []) else nth i arrs [].
Definition cenvQ (i : nat) (x : list Q) (s : Q) : list Q :=
  match i with
  | 0%nat => map (fun v => v * (2#1))%Q x
  | 1%nat => map (fun v => v + (4#1) * s)%Q x
  | 2%nat => map (fun v => v * v)%Q x
  | _ => map (fun v => (10#1) - v)%Q x
  end.
Definition implQ (arrs : list (list Q)) := impl_p Q Qplus Qminus Qmult qdivsafe Qopp qcmp Q (penvQ arrs) cenvQ.
Definition implQc (arrs : list (list Q)) := impl_c Q Qplus Qminus Qmult qdivsafe Qopp qcmp Q (penvQ arrs) cenvQ.
Fixpoint qlist_eqb (a b : list Q) : bool :=
  match a, b with [], [] => true | x :: a', y :: b' => Qeq_bool x y && qlist_eqb a' b' | _, _ => false end.
Definition check_pexpr (arrs : list (list Q)) (e : pexpr Q) (s : Q) (out : list Q) : bool := qlist_eqb out (implQ arrs e s).
Definition check_cexpr (arrs : list (list Q)) (e : cexpr Q) (x : list Q) (s : Q) (out : list Q) : bool := qlist_eqb out (implQc arrs e x s).

(** ---- physical-unit parameters ---- *)
Definition radius_px (radius scale : Q) : Z :=
  let rp := mask_radius_px radius scale in if mask_radius_guard rp then 0%Z else mask_radius_ret rp.
Definition gauss_center (shape shift scale : Q) : Q := gauss_center_subpix (gauss_shape_px (gauss_shape_subpix shape scale)) shift scale.
Definition gauss_sigma (sigma scale : Q) : Q := gauss_sigma_px sigma scale.
Definition check_radius (radius scale : Q) (r : Z) : bool := (r =? radius_px radius scale)%Z.
Definition check_gauss (shape shift scale : Q) (n : Z) (argmax : Q) : bool :=
  gauss_exponent_is_sum_of_squares && (n =? gauss_shape_px (gauss_shape_subpix shape scale))%Z &&
  Qle_bool (Qabs (argmax - gauss_center shape shift scale)) (1#2).
