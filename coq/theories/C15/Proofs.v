From Coq Require Import ZArith QArith Qabs Bool List Lia Lqa.
From Acryo Require Import Common.PyNum C15.Model.
From AcryoGen Require Import Anchors_C15.
Import ListNotations.
Local Open Scope Z_scope.

Ltac Zify.zify_post_hook ::= Z.to_euclidean_division_equations.

(** output length floor(s/b); the kept prefix is the largest multiple of b *)
Lemma npix_spec s b : 0 < b -> 0 <= s ->
  npix s b = s / b /\ kept s b = b * (s / b) /\ kept s b <= s /\ s - kept s b < b.
Proof. intros Hb Hs. unfold npix, kept, bin_divmod, bin_slice_stop. cbn [fst snd]. lia. Qed.

(** every index used by a block is inside the kept prefix *)
Lemma block_in_range s b i a : 0 < b -> 0 <= s -> 0 <= i < npix s b -> 0 <= a < b -> 0 <= b * i + a < kept s b.
Proof.
  intros Hb Hs Hi Ha. destruct (npix_spec s b Hb Hs) as (E1 & E2 & _). rewrite E1 in Hi. rewrite E2.
  split; [nia|]. assert (b * i + a < b * (i + 1)) by lia. assert (b * (i + 1) <= b * (s / b)) by (apply Z.mul_le_mono_nonneg_l; lia). lia.
Qed.

(** blocks tile the kept prefix: every kept index belongs to exactly one (block, offset) *)
Lemma blocks_tile s b x : 0 < b -> 0 <= s -> 0 <= x < kept s b ->
  exists i a, 0 <= i < npix s b /\ 0 <= a < b /\ x = b * i + a /\
              forall i' a', 0 <= a' < b -> x = b * i' + a' -> i' = i /\ a' = a.
Proof.
  intros Hb Hs Hx. destruct (npix_spec s b Hb Hs) as (E1 & E2 & _). rewrite E2 in Hx.
  exists (x / b), (x mod b). rewrite E1.
  pose proof (Z.mod_pos_bound x b Hb) as Hm. pose proof (Z.div_mod x b ltac:(lia)) as Hd.
  split; [split; [apply Z.div_pos; lia|apply Z.div_lt_upper_bound; lia]|].
  split; [exact Hm|]. split; [exact Hd|].
  intros i' a' Ha' E. split.
  - apply Z.div_unique with a'; lia.
  - apply Z.mod_unique with i'; lia.
Qed.

(** the molecule keeps pointing at the same physical location:
    binned pixel c' = (pos + tr) / (scale b) satisfies  b c' + (b-1)/2 = pos/scale *)
Lemma same_point (batch : bool) (b : Z) (scale pos : Q) : 1 < b -> ~ scale == 0 ->
  (inject_Z b * (new_pos batch b scale pos / new_scale batch b scale) + (inject_Z b - 1) / 2 == pos / scale)%Q.
Proof.
  intros Hb Hs. unfold new_pos, new_scale.
  assert ((b =? 1) = false) as -> by (apply Z.eqb_neq; lia).
  assert (~ inject_Z b == 0)%Q as Hb0.
  { intro E. assert (0 < inject_Z b)%Q by (change 0%Q with (inject_Z 0); rewrite <- Zlt_Qlt; lia). lra. }
  destruct batch; unfold bin_tr_batch, bin_tr_single, bin_scale_batch, bin_scale_single;
    rewrite ?inject_Z_opp, ?inject_Z_minus; change (inject_Z 1) with 1%Q; field; split; assumption.
Qed.

Lemma b1_is_copy batch scale pos : new_pos batch 1 scale pos = pos /\ new_scale batch 1 scale = scale.
Proof. split; reflexivity. Qed.

(** load equality, coordinate part: binned voxel k, sub-voxel a  <->  voxel b k + a of the b-times larger original box *)
Lemma load_coordinate (b S k a : Z) (c cb : Q) : 0 < b ->
  (inject_Z b * cb + (inject_Z b - 1) / 2 == c)%Q ->
  (inject_Z b * (cb + inject_Z k - (inject_Z S - 1) / 2) + inject_Z a - (inject_Z b - 1) / 2 + (inject_Z b - 1) / 2
   == c + inject_Z (b * k + a) - (inject_Z (b * S) - 1) / 2)%Q.
Proof.
  intros Hb H. rewrite inject_Z_plus, !inject_Z_mult. rewrite <- H. field.
Qed.

Example bin_example : bin_image [[[1; 2; 3]; [4; 5; 6]]; [[7; 8; 9]; [10; 11; 12]]] 2 = ((1, 1, 1), [1 + 2 + 4 + 5 + 7 + 8 + 10 + 11]).
Proof. vm_compute. reflexivity. Qed.

(** ---- composition: binning by b1 and then by b2 is binning by b1 * b2 ---- *)

(** block sums of block sums (one axis): the b2 blocks of b1-blocks enumerate the b1 * b2 voxels of the big block once each *)
Lemma zsum_app l1 l2 : zsum (l1 ++ l2) = zsum l1 + zsum l2.
Proof. induction l1 as [|x l1 IH]; cbn [zsum app]; lia. Qed.

Lemma zrange_succ (n : nat) : zrange (Z.of_nat (S n)) = zrange (Z.of_nat n) ++ [Z.of_nat n].
Proof. unfold zrange. rewrite !Nat2Z.id. rewrite seq_S, map_app. reflexivity. Qed.

Lemma zsum_map_shift (g : Z -> Z) (n : nat) (d : Z) :
  zsum (map (fun a => g (d + a)) (zrange (Z.of_nat n))) = zsum (map g (map (fun a => d + a) (zrange (Z.of_nat n)))).
Proof. rewrite map_map. reflexivity. Qed.

Lemma zrange_app (m n : nat) :
  zrange (Z.of_nat (m + n)) = zrange (Z.of_nat m) ++ map (fun a => Z.of_nat m + a) (zrange (Z.of_nat n)).
Proof.
  induction n as [|n IH].
  - rewrite Nat.add_0_r. cbn. rewrite app_nil_r. reflexivity.
  - rewrite Nat.add_succ_r, !zrange_succ, IH, map_app, app_assoc. cbn [map]. do 2 f_equal. lia.
Qed.

(** the flattening lemma: sum over c < n2 of sum over a < n1 of g (n1 c + a) = sum over x < n1 n2 of g x *)
Lemma zsum_blocks (g : Z -> Z) (n1 n2 : nat) :
  zsum (flat_map (fun c => map (fun a => g (Z.of_nat n1 * c + a)) (zrange (Z.of_nat n1))) (zrange (Z.of_nat n2)))
  = zsum (map g (zrange (Z.of_nat (n1 * n2)))).
Proof.
  induction n2 as [|n2 IH].
  - rewrite Nat.mul_0_r. reflexivity.
  - rewrite zrange_succ, flat_map_app, zsum_app, IH. cbn [flat_map]. rewrite app_nil_r.
    rewrite Nat.mul_succ_r, zrange_app, map_app, zsum_app. f_equal.
    rewrite map_map. f_equal. apply map_ext. intro a. f_equal. lia.
Qed.

Definition bin1 (f : Z -> Z) (b : Z) (i : Z) : Z := zsum (map (fun a => f (b * i + a)) (zrange b)).

Lemma bin1_compose (f : Z -> Z) (b1 b2 i : Z) : 0 < b1 -> 0 < b2 ->
  bin1 (bin1 f b1) b2 i = bin1 f (b1 * b2) i.
Proof.
  intros H1 H2. unfold bin1.
  rewrite <- (Z2Nat.id b1) by lia. rewrite <- (Z2Nat.id b2) by lia.
  set (n1 := Z.to_nat b1). set (n2 := Z.to_nat b2).
  replace (zrange (Z.of_nat n1 * Z.of_nat n2)) with (zrange (Z.of_nat (n1 * n2))) by (rewrite Nat2Z.inj_mul; reflexivity).
  rewrite <- (zsum_blocks (fun x => f (Z.of_nat n1 * Z.of_nat n2 * i + x)) n1 n2).
  assert (forall l, zsum (map (fun a => zsum (map (fun a0 => f (Z.of_nat n1 * (Z.of_nat n2 * i + a) + a0)) (zrange (Z.of_nat n1)))) l)
                    = zsum (flat_map (fun c => map (fun a => f (Z.of_nat n1 * Z.of_nat n2 * i + (Z.of_nat n1 * c + a))) (zrange (Z.of_nat n1))) l)) as E.
  { induction l as [|c l IHl]; [reflexivity|]. cbn [map flat_map zsum]. rewrite zsum_app, IHl. f_equal.
    f_equal. apply map_ext. intro a0. f_equal. lia. }
  apply E.
Qed.

(** positions and scale: binning twice points at the same place, on the same grid, as binning once by the product *)
Lemma binning_composes (k1 k2 k : bool) (b1 b2 : Z) (scale pos : Q) : 1 < b1 -> 1 < b2 ->
  (new_scale k2 b2 (new_scale k1 b1 scale) == new_scale k (b1 * b2) scale)%Q /\
  (new_pos k2 b2 (new_scale k1 b1 scale) (new_pos k1 b1 scale pos) == new_pos k (b1 * b2) scale pos)%Q.
Proof.
  intros H1 H2. unfold new_pos, new_scale.
  assert ((b1 =? 1) = false) as -> by (apply Z.eqb_neq; lia).
  assert ((b2 =? 1) = false) as -> by (apply Z.eqb_neq; lia).
  assert ((b1 * b2 =? 1) = false) as -> by (apply Z.eqb_neq; nia).
  destruct k1, k2, k; unfold bin_tr_batch, bin_tr_single, bin_scale_batch, bin_scale_single;
    rewrite ?inject_Z_opp, ?inject_Z_minus, ?inject_Z_mult; change (inject_Z 1) with 1%Q; split; field.
Qed.

(** the shapes agree too: dropping the remainder twice drops the same voxels as dropping it once *)
Lemma npix_compose s b1 b2 : 0 < b1 -> 0 < b2 -> 0 <= s -> npix (npix s b1) b2 = npix s (b1 * b2).
Proof.
  intros H1 H2 Hs. destruct (npix_spec s b1 H1 Hs) as (E1 & _). rewrite E1.
  destruct (npix_spec (s / b1) b2 H2 ltac:(apply Z.div_pos; lia)) as (E2 & _). rewrite E2.
  destruct (npix_spec s (b1 * b2) ltac:(nia) Hs) as (E3 & _). rewrite E3.
  apply Z.div_div; lia.
Qed.

(** ---- lazy images: binning block by block ---- 
    a signal of length n cut at c into two blocks, each binned on its own (the second restarts its block grid at c) *)
Lemma bin1_shift (f : Z -> Z) (b k j : Z) : bin1 (fun x => f (b * k + x)) b j = bin1 f b (k + j).
Proof. unfold bin1. f_equal. apply map_ext. intro a. f_equal. ring. Qed.

Lemma chunk_counts (n b k : Z) : 0 < b -> 0 <= k -> b * k <= n -> npix (b * k) b + npix (n - b * k) b = npix n b.
Proof.
  intros Hb Hk Hn. destruct (npix_spec (b * k) b Hb ltac:(nia)) as (E1 & _). destruct (npix_spec (n - b * k) b Hb ltac:(lia)) as (E2 & _).
  destruct (npix_spec n b Hb ltac:(nia)) as (E3 & _). rewrite E1, E2, E3.
  replace (b * k) with (k * b) by ring. rewrite Z.div_mul by lia.
  replace n with ((n - k * b) + k * b) at 2 by ring. rewrite Z.div_add by lia. ring.
Qed.

(** a cut that is not a multiple of the bin size changes the result: witness *)
Lemma misaligned_cut_differs :
  exists (f : Z -> Z) (n b c : Z), 0 < b /\ 0 < c < n /\ c mod b <> 0 /\
    (npix c b + npix (n - c) b <> npix n b \/ bin1 (fun x => f (c + x)) b 0 <> bin1 f b (npix c b)).
Proof.
  exists (fun x => x * x), 7, 2, 3. split; [lia|]. split; [lia|]. split; [vm_compute; discriminate|].
  right. vm_compute. discriminate.
Qed.
