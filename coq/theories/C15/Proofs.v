From Coq Require Import ZArith QArith Qabs Bool List Lia Lqa.
From Acryo Require Import Common.PyNum C15.Model.
From AcryoGen Require Import Anchors_C15.
Import ListNotations.
Local Open Scope Z_scope.

Ltac Zify.zify_post_hook ::= Z.to_euclidean_division_equations.

(** output length floor(s/b); the kept prefix is the largest multiple of b *)
Lemma npix_spec s b : 0 < b -> 0 <= s ->
  npix s b = s / b /\ kept s b = b * (s / b) /\ kept s b <= s /\ s - kept s b < b.
Proof. intros Hb Hs. unfold npix, kept, bin_divmod, bin_slice_stop. cbn [fst snd]. lia. Qed.

(** every index used by a block is inside the kept prefix *)
Lemma block_in_range s b i a : 0 < b -> 0 <= s -> 0 <= i < npix s b -> 0 <= a < b -> 0 <= b * i + a < kept s b.
Proof.
  intros Hb Hs Hi Ha. destruct (npix_spec s b Hb Hs) as (E1 & E2 & _). rewrite E1 in Hi. rewrite E2.
  split; [nia|]. assert (b * i + a < b * (i + 1)) by lia. assert (b * (i + 1) <= b * (s / b)) by (apply Z.mul_le_mono_nonneg_l; lia). lia.
Qed.

(** blocks tile the kept prefix: every kept index belongs to exactly one (block, offset) *)
Lemma blocks_tile s b x : 0 < b -> 0 <= s -> 0 <= x < kept s b ->
  exists i a, 0 <= i < npix s b /\ 0 <= a < b /\ x = b * i + a /\
              forall i' a', 0 <= a' < b -> x = b * i' + a' -> i' = i /\ a' = a.
Proof.
  intros Hb Hs Hx. destruct (npix_spec s b Hb Hs) as (E1 & E2 & _). rewrite E2 in Hx.
  exists (x / b), (x mod b). rewrite E1.
  pose proof (Z.mod_pos_bound x b Hb) as Hm. pose proof (Z.div_mod x b ltac:(lia)) as Hd.
  split; [split; [apply Z.div_pos; lia|apply Z.div_lt_upper_bound; lia]|].
  split; [exact Hm|]. split; [exact Hd|].
  intros i' a' Ha' E. split.
  - apply Z.div_unique with a'; lia.
  - apply Z.mod_unique with i'; lia.
Qed.

(** the molecule keeps pointing at the same physical location:
    binned pixel c' = (pos + tr) / (scale b) satisfies  b c' + (b-1)/2 = pos/scale *)
Lemma same_point (batch : bool) (b : Z) (scale pos : Q) : 1 < b -> ~ scale == 0 ->
  (inject_Z b * (new_pos batch b scale pos / new_scale batch b scale) + (inject_Z b - 1) / 2 == pos / scale)%Q.
Proof.
  intros Hb Hs. unfold new_pos, new_scale.
  assert ((b =? 1) = false) as -> by (apply Z.eqb_neq; lia).
  assert (~ inject_Z b == 0)%Q as Hb0.
  { intro E. assert (0 < inject_Z b)%Q by (change 0%Q with (inject_Z 0); rewrite <- Zlt_Qlt; lia). lra. }
  destruct batch; unfold bin_tr_batch, bin_tr_single, bin_scale_batch, bin_scale_single;
    rewrite ?inject_Z_opp, ?inject_Z_minus; change (inject_Z 1) with 1%Q; field; split; assumption.
Qed.

Lemma b1_is_copy batch scale pos : new_pos batch 1 scale pos = pos /\ new_scale batch 1 scale = scale.
Proof. split; reflexivity. Qed.

(** load equality, coordinate part: binned voxel k, sub-voxel a  <->  voxel b k + a of the b-times larger original box *)
Lemma load_coordinate (b S k a : Z) (c cb : Q) : 0 < b ->
  (inject_Z b * cb + (inject_Z b - 1) / 2 == c)%Q ->
  (inject_Z b * (cb + inject_Z k - (inject_Z S - 1) / 2) + inject_Z a - (inject_Z b - 1) / 2 + (inject_Z b - 1) / 2
   == c + inject_Z (b * k + a) - (inject_Z (b * S) - 1) / 2)%Q.
Proof.
  intros Hb H. rewrite inject_Z_plus, !inject_Z_mult. rewrite <- H. field.
Qed.

Example bin_example : bin_image [[[1; 2; 3]; [4; 5; 6]]; [[7; 8; 9]; [10; 11; 12]]] 2 = ((1, 1, 1), [1 + 2 + 4 + 5 + 7 + 8 + 10 + 11]).
Proof. vm_compute. reflexivity. Qed.
