(** C15 property theorems. *)
From Coq Require Import ZArith QArith Qabs Bool List.
From Acryo Require Import Common.PyNum C15.Model C15.Proofs.
From AcryoGen Require Import Anchors_C15.
Local Open Scope Z_scope.

Theorem C15_shape : forall s b, 0 < b -> 0 <= s ->
  npix s b = s / b /\ kept s b = b * (s / b) /\ kept s b <= s /\ s - kept s b < b.
Proof. exact npix_spec. Qed.

Theorem C15_blocks_tile : forall s b x, 0 < b -> 0 <= s -> 0 <= x < kept s b ->
  exists i a, 0 <= i < npix s b /\ 0 <= a < b /\ x = b * i + a /\
              forall i' a', 0 <= a' < b -> x = b * i' + a' -> i' = i /\ a' = a.
Proof. exact blocks_tile. Qed.

Theorem C15_block_in_range : forall s b i a, 0 < b -> 0 <= s -> 0 <= i < npix s b -> 0 <= a < b -> 0 <= b * i + a < kept s b.
Proof. exact block_in_range. Qed.

Theorem C15_same_point : forall (batch : bool) (b : Z) (scale pos : Q), 1 < b -> ~ scale == 0 ->
  (inject_Z b * (new_pos batch b scale pos / new_scale batch b scale) + (inject_Z b - 1) / 2 == pos / scale)%Q.
Proof. exact same_point. Qed.

Theorem C15_b1 : forall batch scale pos, new_pos batch 1 scale pos = pos /\ new_scale batch 1 scale = scale.
Proof. exact b1_is_copy. Qed.

Theorem C15_load_coordinate : forall (b S k a : Z) (c cb : Q), 0 < b ->
  (inject_Z b * cb + (inject_Z b - 1) / 2 == c)%Q ->
  (inject_Z b * (cb + inject_Z k - (inject_Z S - 1) / 2) + inject_Z a - (inject_Z b - 1) / 2 + (inject_Z b - 1) / 2
   == c + inject_Z (b * k + a) - (inject_Z (b * S) - 1) / 2)%Q.
Proof. exact load_coordinate. Qed.

(** binning twice = binning once by the product: same scale, same molecule positions (any mix of single / batch loaders) ... *)
Theorem C15_binning_composes : forall (k1 k2 k : bool) (b1 b2 : Z) (scale pos : Q), 1 < b1 -> 1 < b2 ->
  (new_scale k2 b2 (new_scale k1 b1 scale) == new_scale k (b1 * b2) scale)%Q /\
  (new_pos k2 b2 (new_scale k1 b1 scale) (new_pos k1 b1 scale pos) == new_pos k (b1 * b2) scale pos)%Q.
Proof. exact binning_composes. Qed.

(** ... and, along each axis (block summation is separable), the same voxel values: block sums of block sums are the block sums
    over b1 * b2, for every signal and every output index *)
Theorem C15_block_sums_compose : forall (f : Z -> Z) (b1 b2 i : Z), 0 < b1 -> 0 < b2 ->
  bin1 (bin1 f b1) b2 i = bin1 f (b1 * b2) i.
Proof. exact bin1_compose. Qed.

Theorem C15_shapes_compose : forall s b1 b2, 0 < b1 -> 0 < b2 -> 0 <= s -> npix (npix s b1) b2 = npix s (b1 * b2).
Proof. exact npix_compose. Qed.

Example C15_block_sums_compose_nonvacuous :
  bin1 (bin1 (fun x => x * x + 1) 2) 3 1 = 457 /\ bin1 (fun x => x * x + 1) 6 1 = 457.
Proof. split; vm_compute; reflexivity. Qed.

(** lazy (chunked) images: binning block by block gives the binned image exactly when the cuts are multiples of the bin size - the
    second block's bins are the whole signal's bins k, k+1, ... and the block counts add up - and not otherwise (witness) *)
Theorem C15_aligned_blocks_bin_alike : forall (f : Z -> Z) (n b k j : Z), 0 < b -> 0 <= k -> b * k <= n ->
  bin1 (fun x => f (b * k + x)) b j = bin1 f b (k + j) /\ npix (b * k) b + npix (n - b * k) b = npix n b.
Proof. intros f n b k j Hb Hk Hn. split; [apply bin1_shift|apply chunk_counts; assumption]. Qed.

Theorem C15_misaligned_blocks_refuted :
  exists (f : Z -> Z) (n b c : Z), 0 < b /\ 0 < c < n /\ c mod b <> 0 /\
    (npix c b + npix (n - c) b <> npix n b \/ bin1 (fun x => f (c + x)) b 0 <> bin1 f b (npix c b)).
Proof. exact misaligned_cut_differs. Qed.

Print Assumptions C15_shape.
Print Assumptions C15_blocks_tile.
Print Assumptions C15_block_in_range.
Print Assumptions C15_same_point.
Print Assumptions C15_b1.
Print Assumptions C15_load_coordinate.
Print Assumptions C15_binning_composes.
Print Assumptions C15_block_sums_compose.
Print Assumptions C15_shapes_compose.
Print Assumptions C15_aligned_blocks_bin_alike.
Print Assumptions C15_misaligned_blocks_refuted.
