(** C15 property theorems. *)
From Coq Require Import ZArith QArith Qabs Bool List.
From Acryo Require Import Common.PyNum C15.Model C15.Proofs.
From AcryoGen Require Import Anchors_C15.
Local Open Scope Z_scope.

Theorem C15_shape : forall s b, 0 < b -> 0 <= s ->
  npix s b = s / b /\ kept s b = b * (s / b) /\ kept s b <= s /\ s - kept s b < b.
Proof. exact npix_spec. Qed.

Theorem C15_blocks_tile : forall s b x, 0 < b -> 0 <= s -> 0 <= x < kept s b ->
  exists i a, 0 <= i < npix s b /\ 0 <= a < b /\ x = b * i + a /\
              forall i' a', 0 <= a' < b -> x = b * i' + a' -> i' = i /\ a' = a.
Proof. exact blocks_tile. Qed.

Theorem C15_block_in_range : forall s b i a, 0 < b -> 0 <= s -> 0 <= i < npix s b -> 0 <= a < b -> 0 <= b * i + a < kept s b.
Proof. exact block_in_range. Qed.

Theorem C15_same_point : forall (batch : bool) (b : Z) (scale pos : Q), 1 < b -> ~ scale == 0 ->
  (inject_Z b * (new_pos batch b scale pos / new_scale batch b scale) + (inject_Z b - 1) / 2 == pos / scale)%Q.
Proof. exact same_point. Qed.

Theorem C15_b1 : forall batch scale pos, new_pos batch 1 scale pos = pos /\ new_scale batch 1 scale = scale.
Proof. exact b1_is_copy. Qed.

Theorem C15_load_coordinate : forall (b S k a : Z) (c cb : Q), 0 < b ->
  (inject_Z b * cb + (inject_Z b - 1) / 2 == c)%Q ->
  (inject_Z b * (cb + inject_Z k - (inject_Z S - 1) / 2) + inject_Z a - (inject_Z b - 1) / 2 + (inject_Z b - 1) / 2
   == c + inject_Z (b * k + a) - (inject_Z (b * S) - 1) / 2)%Q.
Proof. exact load_coordinate. Qed.

Print Assumptions C15_shape.
Print Assumptions C15_blocks_tile.
Print Assumptions C15_block_in_range.
Print Assumptions C15_same_point.
Print Assumptions C15_b1.
Print Assumptions C15_load_coordinate.
