(** C15 model: block-sum binning and the half-bin translation of molecules. *)
From Coq Require Import ZArith QArith Qabs Bool List Lia.
From Acryo Require Import Common.PyNum.
From AcryoGen Require Import Anchors_C15.
Import ListNotations.
Local Open Scope Z_scope.

Definition vol := list (list (list Z)).
Definition npix (s b : Z) : Z := fst (bin_divmod s b).
Definition kept (s b : Z) : Z := bin_slice_stop s (snd (bin_divmod s b)).

Definition zrange (n : Z) : list Z := map Z.of_nat (seq 0 (Z.to_nat n)).
Definition get1 {A} (l : list A) (i : Z) (d : A) : A := nth (Z.to_nat i) l d.
Definition vget (v : vol) (z y x : Z) : Z := get1 (get1 (get1 v z []) y []) x 0.
Definition vdims (v : vol) : Z * Z * Z :=
  (Z.of_nat (length v), Z.of_nat (length (hd [] v)), Z.of_nat (length (hd [] (hd [] v)))).
Fixpoint zsum (l : list Z) : Z := match l with [] => 0 | x :: t => x + zsum t end.

(** block sum over b x b x b blocks (incomplete remainder dropped) *)
Definition bin_value (v : vol) (b : Z) (i j k : Z) : Z :=
  zsum (flat_map (fun a => flat_map (fun c => map (fun e => vget v (b * i + a) (b * j + c) (b * k + e))
                                                   (zrange b)) (zrange b)) (zrange b)).
Definition bin_image (v : vol) (b : Z) : (Z * Z * Z) * list Z :=
  let '(dz, dy, dx) := vdims v in
  let '(nz, ny, nx) := (npix dz b, npix dy b, npix dx b) in
  ((nz, ny, nx), flat_map (fun i => flat_map (fun j => map (fun k => bin_value v b i j k) (zrange nx)) (zrange ny)) (zrange nz)).

Fixpoint zlist_eqb (a b : list Z) : bool :=
  match a, b with [] , [] => true | x :: a', y :: b' => (x =? y) && zlist_eqb a' b' | _, _ => false end.
Definition check_bin (v : vol) (b : Z) (shape : list Z) (vals : list Z) : bool :=
  let '((nz, ny, nx), m) := bin_image v b in
  bin_reshape_sum && zlist_eqb shape [nz; ny; nx] && zlist_eqb vals m.

(** binning(b): new position and scale (single and batch loaders) *)
Definition new_pos (batch : bool) (b : Z) (scale pos : Q) : Q :=
  if b =? 1 then pos else (pos + (if batch then bin_tr_batch b scale else bin_tr_single b scale))%Q.
Definition new_scale (batch : bool) (b : Z) (scale : Q) : Q :=
  if b =? 1 then scale else if batch then bin_scale_batch b scale else bin_scale_single b scale.
Definition check_binning (batch : bool) (b : Z) (scale pos s' p' : Q) : bool :=
  (if batch then bin_translates_all_axes_batch else bin_translates_all_axes_single) &&
  Qclose (1#100000) s' (new_scale batch b scale) && Qclose (1#10000) p' (new_pos batch b scale pos).
