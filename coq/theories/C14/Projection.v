(** C14, projections onto an arbitrary plane (simulate_projection / simulate_tilt_series): the bookkeeping of the code as a model over an
    abstract commutative ring, and the law the harness uses as its oracle: projecting onto the plane (ex, ey) is the standard projection
    of the scene rotated rigidly about the projection centre. *)
From Coq Require Import ZArith Ring.
From Acryo Require Import Common.Ring3.

Section Projection.
Variable A : Type.
Variables (rO rI : A) (radd rmul rsub : A -> A -> A) (ropp : A -> A).
Variable Rth : ring_theory rO rI radd rmul rsub ropp (@eq A).
Add Ring Aring_proj : Rth.

Notation vec := (vec A).
Notation mat := (mat A).
Notation dot' := (dot A radd rmul).
Notation mv' := (mv A radd rmul).
Notation mm' := (mm A radd rmul).
Notation mT' := (mT A).
Notation mI' := (mI A rO rI).
Notation vadd' := (vadd A radd).
Notation vsub' := (vsub A rsub).

(** the code: pos_scaled = (pos - rc) / scale (here already in pixels), coordinate = pos_scaled . e + (n - 1) / 2 *)
Definition proj_coord (p c e : vec) (half : A) : A := radd (dot' (vsub' p c) e) half.

(** the code: the template of molecule R is resampled with rotator.inv() * glob_rotator *)
Definition proj_template_rotation (R Gl : mat) : mat := mm' (mT' R) Gl.

(** a scene rotated rigidly by G about the centre c *)
Definition rot_about (G : mat) (c p : vec) : vec := vadd' c (mv' G (vsub' p c)).

Definition orthogonal (G : mat) : Prop := mm' (mT' G) G = mI'.

Lemma dot_orthogonal G u v : orthogonal G -> dot' (mv' G u) (mv' G v) = dot' u v.
Proof.
  unfold orthogonal; intros H.
  destruct G as [a b c d e f g h i], u as [u0 u1 u2], v as [w0 w1 w2].
  unfold mm, mT, mI in H; cbn in H.
  injection H as H00 H01 H02 H10 H11 H12 H20 H21 H22.
  unfold dot, mv; cbn.
  transitivity (radd (radd
     (rmul u0 (radd (radd (rmul (radd (radd (rmul a a) (rmul d d)) (rmul g g)) w0) (rmul (radd (radd (rmul a b) (rmul d e)) (rmul g h)) w1))
                       (rmul (radd (radd (rmul a c) (rmul d f)) (rmul g i)) w2)))
     (rmul u1 (radd (radd (rmul (radd (radd (rmul b a) (rmul e d)) (rmul h g)) w0) (rmul (radd (radd (rmul b b) (rmul e e)) (rmul h h)) w1))
                       (rmul (radd (radd (rmul b c) (rmul e f)) (rmul h i)) w2))))
     (rmul u2 (radd (radd (rmul (radd (radd (rmul c a) (rmul f d)) (rmul i g)) w0) (rmul (radd (radd (rmul c b) (rmul f e)) (rmul i h)) w1))
                       (rmul (radd (radd (rmul c c) (rmul f f)) (rmul i i)) w2)))).
  - ring.
  - rewrite H00, H01, H02, H10, H11, H12, H20, H21, H22. ring.
Qed.

Lemma vsub_vadd_cancel (c w : vec) : vsub' (vadd' c w) c = w.
Proof. destruct c as [c0 c1 c2], w as [w0 w1 w2]; unfold vadd, vsub; cbn. apply vec_eq; ring. Qed.

(** pixel coordinates: the molecule at p seen on the plane axis e is where the rotated molecule is seen on the rotated axis *)
Theorem proj_coord_rotation_invariant G p c e half :
  orthogonal G -> proj_coord (rot_about G c p) c (mv' G e) half = proj_coord p c e half.
Proof.
  intros H. unfold proj_coord, rot_about. f_equal.
  rewrite vsub_vadd_cancel. apply dot_orthogonal; exact H.
Qed.

(** orientation: rotating the molecule (G R) and the viewing frame (G Gl) together leaves the resampling rotation unchanged *)
Theorem proj_template_rotation_invariant G R Gl :
  orthogonal G -> proj_template_rotation (mm' G R) (mm' G Gl) = proj_template_rotation R Gl.
Proof.
  unfold orthogonal, proj_template_rotation; intros H.
  assert (E : mm' (mT' (mm' G R)) (mm' G Gl) = mm' (mT' R) (mm' (mm' (mT' G) G) Gl)).
  { destruct G, R, Gl; unfold mm, mT; cbn. apply mat_eq; ring. }
  rewrite E, H.
  destruct R, Gl; unfold mm, mT, mI; cbn. apply mat_eq; ring.
Qed.

(** the tilt series: plane x axis (sin t, 0, cos t) (z, y, x order), y axis (0, 1, 0): orthonormal whenever sin^2 + cos^2 = 1, and at
    t = 0 (sin = 0, cos = 1) the standard axes, i.e. the z-projection *)
Definition tilt_ex (s c : A) : vec := V A s rO c.
Definition tilt_ey : vec := V A rO rI rO.

Theorem tilt_axes_orthonormal s c : radd (rmul s s) (rmul c c) = rI ->
  dot' (tilt_ex s c) (tilt_ex s c) = rI /\ dot' tilt_ey tilt_ey = rI /\ dot' (tilt_ex s c) tilt_ey = rO.
Proof.
  intros H. unfold tilt_ex, tilt_ey, dot; cbn. repeat split; try ring.
  rewrite <- H. ring.
Qed.

Theorem tilt_zero_is_standard : tilt_ex rO rI = V A rO rO rI /\ tilt_ey = V A rO rI rO.
Proof. split; reflexivity. Qed.

End Projection.
