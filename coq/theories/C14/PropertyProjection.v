(** C14 property theorems about projections onto an arbitrary plane, for every commutative ring. *)
From Coq Require Import ZArith Ring.
From Acryo Require Import Common.Ring3 C14.Projection.
From AcryoGen Require Import Anchors_C14.

Section Statements.
Variable A : Type.
Variables (rO rI : A) (radd rmul rsub : A -> A -> A) (ropp : A -> A).
Variable Rth : ring_theory rO rI radd rmul rsub ropp (@eq A).

(** the projection code computes what the model says (generated facts: pixel coordinate = (pos - centre)/scale . axis + (n - 1)/2 for both
    axes, template resampled with rotator.inv() * glob_rotator, glob_rotator from the plane normal cross(ex, ey) and ey; the tilt series is
    the same with ex = (sin, 0, cos), ey = (0, 1, 0) and the centre of the tomogram) *)
Theorem C14_projection_as_modelled : projection_coordinates_as_modelled = true /\ tilt_series_as_modelled = true.
Proof. split; reflexivity. Qed.

(** projecting onto the plane (G ex, G ey) a scene rotated rigidly by G about the projection centre gives every molecule the same pixel
    coordinates, and every template the same resampling rotation, as projecting the original scene onto (ex, ey) *)
Theorem C14_projection_commutes_with_rigid_rotation : forall G p c e half R Gl,
  orthogonal A rO rI radd rmul G ->
  proj_coord A radd rmul rsub (rot_about A radd rmul rsub G c p) c (mv A radd rmul G e) half = proj_coord A radd rmul rsub p c e half /\
  proj_template_rotation A radd rmul (mm A radd rmul G R) (mm A radd rmul G Gl) = proj_template_rotation A radd rmul R Gl.
Proof.
  intros G p c e half R Gl H. split.
  - exact (proj_coord_rotation_invariant A rO rI radd rmul rsub ropp Rth G p c e half H).
  - exact (proj_template_rotation_invariant A rO rI radd rmul rsub ropp Rth G R Gl H).
Qed.

(** the axes of a tilt-series view are orthonormal, and the view at angle 0 is the projection along z *)
Theorem C14_tilt_axes : forall s c, radd (rmul s s) (rmul c c) = rI ->
  dot A radd rmul (tilt_ex A rO s c) (tilt_ex A rO s c) = rI /\ dot A radd rmul (tilt_ey A rO rI) (tilt_ey A rO rI) = rI /\
  dot A radd rmul (tilt_ex A rO s c) (tilt_ey A rO rI) = rO.
Proof. exact (tilt_axes_orthonormal A rO rI radd rmul rsub ropp Rth). Qed.

Theorem C14_tilt_zero : tilt_ex A rO rO rI = V A rO rO rI /\ tilt_ey A rO rI = V A rO rI rO.
Proof. exact (tilt_zero_is_standard A rO rI). Qed.

End Statements.

Print Assumptions C14_projection_as_modelled.
Print Assumptions C14_projection_commutes_with_rigid_rotation.
Print Assumptions C14_tilt_axes.
Print Assumptions C14_tilt_zero.
