(** C14 property theorems. *)
From Coq Require Import ZArith QArith Qround Qabs Bool List Permutation.
From Acryo Require Import Common.PyNum C14.Model C14.Proofs.
From AcryoGen Require Import Anchors_C14.
Local Open Scope Z_scope.

Theorem C14_centre : forall pos s, (inject_Z (pl_start (placement pos s)) + pl_oc (placement pos s) == pos)%Q.
Proof. exact centre_rule. Qed.

Theorem C14_exact_paste_odd : forall a m o, 0 <= a -> 0 <= m ->
  let s := 2 * m + 1 in
  (pl_center (placement (inject_Z a) s) + (inject_Z o - pl_oc (placement (inject_Z a) s)) == inject_Z o)%Q /\
  pl_start (placement (inject_Z a) s) = a - m.
Proof. exact exact_paste_odd. Qed.

Theorem C14_exact_paste_even : forall a m o, 0 <= a -> 1 <= m ->
  let s := 2 * m in
  let pos := (inject_Z a + (1#2))%Q in
  (pl_center (placement pos s) + (inject_Z o - pl_oc (placement pos s)) == inject_Z o)%Q /\
  pl_start (placement pos s) = a - (m - 1).
Proof. exact exact_paste_even. Qed.

Theorem C14_clip : forall pos s N a b p0, 0 < N -> 0 < s ->
  clip (placement pos s) N = Some (a, b, p0) ->
  let st := pl_start (placement pos s) in
  a = Z.max st 0 /\ b = Z.min (st + s) N /\ p0 = a - st /\ a < b /\ 0 <= p0 /\ p0 + (b - a) <= s.
Proof. exact clip_spec. Qed.

Theorem C14_outside_ignored : forall pos s N, 0 < N -> 0 < s ->
  (clip (placement pos s) N = None <-> (pl_start (placement pos s) + s <= 0 \/ N <= pl_start (placement pos s))).
Proof. exact clip_none_iff. Qed.

Theorem C14_additive_commutative : forall a b, Permutation a b -> (qsum a == qsum b)%Q.
Proof. exact qsum_perm. Qed.

(** simulators derived by subset() / replace() / copy() keep the interpolation order, the scale and corner_safe (generated
    call-binding facts), so they describe the same scene in the same units *)
Theorem C14_derived_simulators : sim_subset_forwards_options = true /\ sim_replace_forwards_options = true.
Proof. split; reflexivity. Qed.

(** a simulator stores its components and options and nothing derived from them: every simulate / simulate_2d call starts from the
    components as they are now (generated class-state fact) *)
Theorem C14_no_memo : simulator_stores_components_and_options_only = true.
Proof. reflexivity. Qed.

Print Assumptions C14_centre.
Print Assumptions C14_exact_paste_odd.
Print Assumptions C14_exact_paste_even.
Print Assumptions C14_clip.
Print Assumptions C14_outside_ignored.
Print Assumptions C14_additive_commutative.
