(** C14 model: TomogramSimulator.simulate for interpolation orders 0/1, built on generated anchors. *)
From Coq Require Import ZArith QArith Qround Qabs Bool List.
From Acryo Require Import Common.PyNum.
From AcryoGen Require Import Anchors_C14.
Import ListNotations.
Local Open Scope Z_scope.

Definition vol := list (list (list Z)).
Definition vget (v : vol) (z y x : Z) : option Z :=
  if (z <? 0) || (y <? 0) || (x <? 0) then None else
  match nth_error v (Z.to_nat z) with
  | Some p => match nth_error p (Z.to_nat y) with Some r => nth_error r (Z.to_nat x) | None => None end
  | None => None end.
Definition vdims (v : vol) : Z * Z * Z :=
  (Z.of_nat (length v), Z.of_nat (length (hd [] v)), Z.of_nat (length (hd [] (hd [] v)))).

(** per-axis placement of one molecule *)
Record place := { pl_start : Z; pl_stop : Z; pl_center : Q; pl_oc : Q }.
Definition placement (pos : Q) (s : Z) : place :=
  let ip := sim_intpos pos in
  let res := sim_residue pos ip in
  let c := sim_center s in
  let ic := sim_int_center c in
  let st := sim_start ip ic in
  {| pl_start := st; pl_stop := sim_stop st s; pl_center := c; pl_oc := sim_output_center ic res |}.

(** clipped destination slice [a,b) and the offset p0 of the source slice (None: molecule skipped) *)
Definition clip (p : place) (N : Z) : option (Z * Z * Z) :=
  match make_slice_and_pad (pl_start p) (pl_stop p) N with
  | Some ((a, b), (p0, _), _) => Some (a, b, p0)
  | None => None
  end.

Definition nodes1 (order : Z) (u : Q) : list (Z * Q) :=
  if order =? 0 then [(Qfloor (u + (1#2)), 1%Q)]
  else let f := Qfloor u in
       let w := (u - inject_Z f)%Q in
       if Qeq_bool w 0 then [(f, 1%Q)] else [(f, (1 - w)%Q); ((f + 1)%Z, w)].

Definition mat3 := list Z.
(** row i of R^T (= R^-1 for the exact rotations used) applied to v *)
Definition mrowT (m : mat3) (i : nat) (v : Q * Q * Q) : Q :=
  let '(a, b, c) := v in
  (inject_Z (nth i m 0%Z) * a + inject_Z (nth (3 + i) m 0%Z) * b + inject_Z (nth (6 + i) m 0%Z) * c)%Q.
Definition mrow (m : mat3) (i : nat) (v : Q * Q * Q) : Q :=
  let '(a, b, c) := v in
  (inject_Z (nth (3 * i) m 0%Z) * a + inject_Z (nth (3 * i + 1) m 0%Z) * b + inject_Z (nth (3 * i + 2) m 0%Z) * c)%Q.

Fixpoint qsum (l : list Q) : Q := match l with [] => 0%Q | x :: t => (x + qsum t)%Q end.

(** template value at a rational coordinate; outside the template: cval = 0 *)
Definition tsample (T : vol) (order : Z) (uz uy ux : Q) : Q :=
  let '(dz, dy, dx) := vdims T in
  let inside u d := Qle_bool 0 u && Qle_bool u (inject_Z (d - 1)) in
  if inside uz dz && inside uy dy && inside ux dx then
    qsum (flat_map (fun nz => flat_map (fun ny => map (fun nx =>
      match vget T (fst nz) (fst ny) (fst nx) with
      | Some v => (snd nz * snd ny * snd nx * inject_Z v)%Q
      | None => 0%Q end) (nodes1 order ux)) (nodes1 order uy)) (nodes1 order uz))
  else 0%Q.

(** contribution of one molecule to tomogram voxel (z,y,x) *)
Definition contribution (T : vol) (order : Z) (N : Z * Z * Z) (pos : Q * Q * Q) (R : mat3) (z y x : Z) : Q :=
  let '(nz, ny, nx) := N in
  let '(pz, py, px) := pos in
  let '(sz, sy, sx) := vdims T in
  let az := placement pz sz in let ay := placement py sy in let ax := placement px sx in
  match clip az nz, clip ay ny, clip ax nx with
  | Some (a0, b0, _), Some (a1, b1, _), Some (a2, b2, _) =>
      if (a0 <=? z) && (z <? b0) && (a1 <=? y) && (y <? b1) && (a2 <=? x) && (x <? b2) then
        (* fragment index o = tomogram index - start *)
        let d := ((inject_Z (z - pl_start az) - pl_oc az)%Q, (inject_Z (y - pl_start ay) - pl_oc ay)%Q,
                  (inject_Z (x - pl_start ax) - pl_oc ax)%Q) in
        let rot := if sim_uses_inverse_rotation then mrowT R else mrow R in
        tsample T order (pl_center az + rot 0%nat d)%Q (pl_center ay + rot 1%nat d)%Q (pl_center ax + rot 2%nat d)%Q
      else 0%Q
  | _, _, _ => 0%Q
  end.

Definition zrange (n : Z) : list Z := map Z.of_nat (seq 0 (Z.to_nat n)).
Definition component := (vol * list ((Q * Q * Q) * mat3))%type.
Definition simulate (N : Z * Z * Z) (comps : list component) (order : Z) : list Q :=
  let '(nz, ny, nx) := N in
  flat_map (fun z => flat_map (fun y => map (fun x =>
    qsum (flat_map (fun c => map (fun m => contribution (fst c) order N (fst m) (snd m) z y x) (snd c)) comps))
    (zrange nx)) (zrange ny)) (zrange nz).

Fixpoint close_list (a b : list Q) : bool :=
  match a, b with
  | [], [] => true
  | x :: a', y :: b' => Qle_bool (Qabs (x - y)) (1 # 10000) && close_list a' b'
  | _, _ => false
  end.
Definition check_sim (N : Z * Z * Z) (comps : list component) (order : Z) (impl : list Q) : bool :=
  sim_affine_shape && sim_prep_slices_shape && sim_accumulates && close_list impl (simulate N comps order).
