From Coq Require Import ZArith QArith Qround Qabs Bool List Lia Lqa Permutation.
From Acryo Require Import Common.PyNum C14.Model.
From AcryoGen Require Import Anchors_C14.
Import ListNotations.
Local Open Scope Z_scope.

Ltac split_ltb :=
  repeat match goal with
         | |- context [(?a <? ?b)%Z] => destruct (Z.ltb_spec a b)
         | |- context [(?a <=? ?b)%Z] => destruct (Z.leb_spec a b)
         end.

(** the template centre lands on the molecule position, for every box parity and sign of the position *)
Lemma centre_rule pos s :
  (inject_Z (pl_start (placement pos s)) + pl_oc (placement pos s) == pos)%Q.
Proof.
  unfold placement. cbn [pl_start pl_oc]. unfold sim_start, sim_output_center, sim_residue.
  rewrite inject_Z_minus. ring.
Qed.

Lemma fragment_length pos s : pl_stop (placement pos s) - pl_start (placement pos s) = s.
Proof. unfold placement. cbn [pl_start pl_stop]. unfold sim_stop. lia. Qed.

(** identity orientation: fragment voxel o samples template coordinate o + (pos_frac shift) *)
Lemma identity_coordinate pos s (o : Z) :
  (pl_center (placement pos s) + (inject_Z o - pl_oc (placement pos s))
   == inject_Z o + ((inject_Z s - 1) / 2 - (pos - inject_Z (pl_start (placement pos s)))))%Q.
Proof.
  unfold placement. cbn [pl_start pl_oc pl_center].
  unfold sim_center, sim_output_center, sim_residue, sim_start. rewrite inject_Z_minus. field.
Qed.

(** exact paste: odd box & integer position, or even box & half-integer position (non-negative): coordinate = o *)
Lemma exact_paste_odd (a m o : Z) : 0 <= a -> 0 <= m ->
  let s := 2 * m + 1 in
  (pl_center (placement (inject_Z a) s) + (inject_Z o - pl_oc (placement (inject_Z a) s)) == inject_Z o)%Q /\
  pl_start (placement (inject_Z a) s) = a - m.
Proof.
  intros Ha Hm s.
  assert (Hc : sim_int_center (sim_center s) = m).
  { unfold sim_int_center, sim_center, s. rewrite inject_Z_plus, inject_Z_mult. change (inject_Z 2) with (2#1). change (inject_Z 1) with 1%Q.
    rewrite (Qtrunc_comp _ (inject_Z m)) by field. apply Qtrunc_Z. }
  assert (Hs : pl_start (placement (inject_Z a) s) = a - m).
  { unfold placement. cbn [pl_start]. rewrite Hc. unfold sim_start, sim_intpos. rewrite Qtrunc_Z. reflexivity. }
  split; [|exact Hs].
  rewrite identity_coordinate. rewrite Hs. rewrite inject_Z_minus. unfold s. rewrite inject_Z_plus, inject_Z_mult.
  change (inject_Z 2) with (2#1). change (inject_Z 1) with 1%Q. field.
Qed.

Lemma exact_paste_even (a m o : Z) : 0 <= a -> 1 <= m ->
  let s := 2 * m in
  let pos := (inject_Z a + (1#2))%Q in
  (pl_center (placement pos s) + (inject_Z o - pl_oc (placement pos s)) == inject_Z o)%Q /\
  pl_start (placement pos s) = a - (m - 1).
Proof.
  intros Ha Hm s pos.
  assert (Hc : sim_int_center (sim_center s) = m - 1).
  { unfold sim_int_center, sim_center, s. rewrite inject_Z_mult. change (inject_Z 2) with (2#1). change (inject_Z 1) with 1%Q.
    assert (0 <= ((2#1) * inject_Z m - 1) / (2#1))%Q as Hnn.
    { assert (1 <= inject_Z m)%Q by (change 1%Q with (inject_Z 1); rewrite <- Zle_Qle; exact Hm). qdiv2. lra. }
    rewrite (Qtrunc_nonneg _ Hnn). apply Qfloor_spec. rewrite inject_Z_plus, inject_Z_minus. change (inject_Z 1) with 1%Q. qdiv2. split; lra. }
  assert (Hi : sim_intpos pos = a).
  { unfold sim_intpos, pos. assert (0 <= inject_Z a + (1#2))%Q as Hnn.
    { assert (0 <= inject_Z a)%Q by (change 0%Q with (inject_Z 0); rewrite <- Zle_Qle; exact Ha). lra. }
    rewrite (Qtrunc_nonneg _ Hnn). apply Qfloor_spec. rewrite inject_Z_plus. change (inject_Z 1) with 1%Q. split; lra. }
  assert (Hs : pl_start (placement pos s) = a - (m - 1)).
  { unfold placement. cbn [pl_start]. rewrite Hc, Hi. reflexivity. }
  split; [|exact Hs].
  rewrite identity_coordinate. rewrite Hs. rewrite !inject_Z_minus. unfold s, pos. rewrite inject_Z_mult.
  change (inject_Z 2) with (2#1). change (inject_Z 1) with 1%Q. field.
Qed.

(** clipping: destination slice = window clipped to the volume, source slice aligned with it; disjoint windows are skipped *)
Lemma clip_spec pos s N a b p0 : 0 < N -> 0 < s ->
  clip (placement pos s) N = Some (a, b, p0) ->
  let st := pl_start (placement pos s) in
  a = Z.max st 0 /\ b = Z.min (st + s) N /\ p0 = a - st /\ a < b /\ 0 <= p0 /\ p0 + (b - a) <= s.
Proof.
  intros HN Hs. unfold clip. pose proof (fragment_length pos s) as Hl.
  set (st := pl_start (placement pos s)) in *. set (sp := pl_stop (placement pos s)) in *.
  unfold make_slice_and_pad. split_ltb; intro Hx; try discriminate; injection Hx as <- <- <-; cbn zeta; lia.
Qed.

Lemma clip_none_iff pos s N : 0 < N -> 0 < s ->
  (clip (placement pos s) N = None <-> (pl_start (placement pos s) + s <= 0 \/ N <= pl_start (placement pos s))).
Proof.
  intros HN Hs. unfold clip. pose proof (fragment_length pos s) as Hl.
  set (st := pl_start (placement pos s)) in *. set (sp := pl_stop (placement pos s)) in *.
  unfold make_slice_and_pad. split_ltb; split; intro Hx; try discriminate; try lia; try reflexivity.
Qed.

(** sums of contributions do not depend on the order of components / molecules *)
Lemma qsum_perm a b : Permutation a b -> (qsum a == qsum b)%Q.
Proof.
  induction 1; cbn; try reflexivity.
  - rewrite IHPermutation; reflexivity.
  - ring.
  - rewrite IHPermutation1; exact IHPermutation2.
Qed.

Example placement_even : let p := placement (21#2) 6 in pl_start p = 8 /\ pl_stop p = 14 /\ (pl_oc p == 5#2)%Q /\ (pl_center p == 5#2)%Q.
Proof. vm_compute. repeat split. Qed.
