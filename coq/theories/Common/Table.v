(** Row tables: stable selection, group-by-first-appearance, scatter of per-group task lists.
    Shared by C03 (loaders) and C12 (Molecules). *)
From Coq Require Import ZArith List Bool Lia Permutation.
Import ListNotations.
Local Open Scope Z_scope.

Section Table.
Variable row : Type.
Variable key : row -> Z.

Definition has (k : Z) (r : row) : bool := key r =? k.
Definition group (l : list row) (k : Z) : list row := filter (has k) l.

(** distinct values in order of first appearance *)
Fixpoint dedupf (l : list Z) : list Z :=
  match l with [] => [] | x :: t => x :: remove Z.eq_dec x (dedupf t) end.
Definition keys (l : list row) : list Z := dedupf (map key l).
Definition groups (l : list row) : list (Z * list row) := map (fun k => (k, group l k)) (keys l).

(** number of rows with key k among the first i rows *)
Fixpoint rank_before (k : Z) (l : list row) (i : nat) : nat :=
  match i, l with
  | S i', r :: t => ((if has k r then 1 else 0) + rank_before k t i')%nat
  | _, _ => 0%nat
  end.
(** BatchLoader.construct_loading_tasks after scattering: task i is the rank-th task of the group of row i *)
Definition task_row (l : list row) (i : nat) (d : row) : row :=
  let k := key (nth i l d) in nth (rank_before k l i) (group l k) d.
(** the pre-fix behaviour: plain concatenation of the per-group task lists *)
Definition concat_tasks (l : list row) : list row := concat (map snd (groups l)).

Lemma nth_rank_filter d : forall l i k, (i < length l)%nat -> key (nth i l d) = k ->
  nth (rank_before k l i) (filter (has k) l) d = nth i l d.
Proof.
  induction l as [|r t IH]; intros i k Hi Hk; [cbn in Hi; lia|].
  destruct i as [|i'].
  - cbn in Hk. cbn [rank_before filter nth]. unfold has at 1. rewrite Hk, Z.eqb_refl. reflexivity.
  - cbn [rank_before filter]. cbn [nth] in Hk |- *. cbn [length] in Hi.
    destruct (has k r); cbn [Nat.add nth]; apply IH; try lia; exact Hk.
Qed.

Theorem task_row_aligned l i d : (i < length l)%nat -> task_row l i d = nth i l d.
Proof. intro H. unfold task_row, group. apply nth_rank_filter; [exact H|reflexivity]. Qed.

(** ---- groups partition the table ---- *)
Lemma filter_or_perm (p q : row -> bool) : forall l,
  (forall r, p r = true -> q r = true -> False) ->
  Permutation (filter p l ++ filter q l) (filter (fun r => p r || q r) l).
Proof.
  induction l as [|r t IH]; intro Hd; [constructor|]. cbn [filter].
  destruct (p r) eqn:Ep, (q r) eqn:Eq; cbn [orb].
  - exfalso; eauto.
  - cbn [app]. constructor. apply IH; exact Hd.
  - apply Permutation_sym. eapply Permutation_trans; [|apply Permutation_middle]. constructor.
    apply Permutation_sym. apply IH; exact Hd.
  - apply IH; exact Hd.
Qed.

Definition in_keys (ks : list Z) (r : row) : bool := existsb (fun k => has k r) ks.

Lemma concat_groups_perm : forall ks l, NoDup ks ->
  Permutation (concat (map (group l) ks)) (filter (in_keys ks) l).
Proof.
  induction ks as [|k ks IH]; intros l Hnd.
  - cbn. induction l as [|r t IHt]; cbn; [constructor|exact IHt].
  - inversion Hnd as [|? ? Hnot Hnd']; subst. cbn [map concat].
    eapply Permutation_trans; [apply Permutation_app_head; apply IH; exact Hnd'|].
    unfold group. eapply Permutation_trans; [apply filter_or_perm|].
    + intros r H1 H2. unfold has in H1. apply Z.eqb_eq in H1. unfold in_keys in H2.
      apply existsb_exists in H2. destruct H2 as (k' & Hin & Hk'). unfold has in Hk'. apply Z.eqb_eq in Hk'.
      apply Hnot. congruence.
    + apply Permutation_refl.
Qed.

Lemma remove_In_neq x y l : In y (remove Z.eq_dec x l) <-> (In y l /\ y <> x).
Proof.
  split.
  - intro H. split; [eapply in_remove; eauto|]. eapply (in_remove Z.eq_dec); eauto.
  - intros [H1 H2]. apply in_in_remove; assumption.
Qed.
Lemma NoDup_remove_keep x l : NoDup l -> NoDup (remove Z.eq_dec x l).
Proof.
  induction l as [|y t IH]; intro H; [constructor|]. inversion H; subst. cbn.
  destruct (Z.eq_dec x y); [apply IH; assumption|]. constructor; [|apply IH; assumption].
  intro Hin. apply remove_In_neq in Hin. tauto.
Qed.
Lemma dedupf_NoDup l : NoDup (dedupf l).
Proof.
  induction l as [|x t IH]; [constructor|]. cbn. constructor.
  - apply remove_In.
  - apply NoDup_remove_keep; exact IH.
Qed.
Lemma dedupf_In l x : In x (dedupf l) <-> In x l.
Proof.
  induction l as [|y t IH]; [tauto|]. cbn. rewrite remove_In_neq, IH.
  destruct (Z.eq_dec x y); [subst; tauto|]. split; [tauto|]. intros [H|H]; [left; exact H|right; split; [exact H|congruence]].
Qed.

Lemma filter_all (p : row -> bool) l : (forall r, In r l -> p r = true) -> filter p l = l.
Proof.
  induction l as [|r t IH]; intro H; [reflexivity|]. cbn. rewrite (H r (or_introl eq_refl)). f_equal. apply IH.
  intros x Hx. apply H. right; exact Hx.
Qed.

Theorem groups_partition l : Permutation (concat_tasks l) l.
Proof.
  unfold concat_tasks, groups. rewrite map_map. cbn [snd].
  eapply Permutation_trans; [apply concat_groups_perm; apply dedupf_NoDup|].
  rewrite filter_all; [apply Permutation_refl|].
  intros r Hr. unfold in_keys. apply existsb_exists. exists (key r). split.
  - unfold keys. apply dedupf_In. apply in_map. exact Hr.
  - unfold has. apply Z.eqb_refl.
Qed.

Theorem groups_keys_distinct l : NoDup (map fst (groups l)).
Proof. unfold groups. rewrite map_map. cbn [fst]. rewrite map_id. apply dedupf_NoDup. Qed.

Theorem groups_constant_key l k g r : In (k, g) (groups l) -> In r g -> key r = k /\ In r l.
Proof.
  unfold groups. intros H Hr. apply in_map_iff in H. destruct H as (k' & E & _). injection E as <- <-.
  unfold group in Hr. apply filter_In in Hr. destruct Hr as [H1 H2]. unfold has in H2. apply Z.eqb_eq in H2. tauto.
Qed.

Theorem groups_complete l r : In r l -> exists g, In (key r, g) (groups l) /\ In r g.
Proof.
  intro H. exists (group l (key r)). split.
  - unfold groups. apply in_map_iff. exists (key r). split; [reflexivity|]. unfold keys. apply dedupf_In. apply in_map; exact H.
  - unfold group. apply filter_In. split; [exact H|]. unfold has. apply Z.eqb_refl.
Qed.

(** each group keeps the table order (it is a filter), so groups are sub-lists *)
Theorem group_is_filter l k : group l k = filter (has k) l.
Proof. reflexivity. Qed.

(** ---- derived tables ---- *)
Definition head_rows (n : nat) (l : list row) := firstn n l.
Definition tail_rows (n : nat) (l : list row) := skipn (length l - n) l.
Definition mask_rows (m : list bool) (l : list row) : list row :=
  map snd (filter fst (combine m l)).
Fixpoint pick_rows (idx : list nat) (l : list row) (d : row) : list row :=
  match idx with [] => [] | i :: t => nth i l d :: pick_rows t l d end.

Lemma In_firstn n (l : list row) r : In r (firstn n l) -> In r l.
Proof. intro H. rewrite <- (firstn_skipn n l). apply in_or_app. left; exact H. Qed.
Lemma In_skipn n (l : list row) r : In r (skipn n l) -> In r l.
Proof. intro H. rewrite <- (firstn_skipn n l). apply in_or_app. right; exact H. Qed.
Lemma head_tail_sublist n l : exists rest, l = head_rows n l ++ rest.
Proof. exists (skipn n l). unfold head_rows. symmetry. apply firstn_skipn. Qed.
Lemma tail_length n l : length (tail_rows n l) = Nat.min n (length l).
Proof. unfold tail_rows. rewrite skipn_length. lia. Qed.
Lemma head_length n l : length (head_rows n l) = Nat.min n (length l).
Proof. unfold head_rows. apply firstn_length. Qed.
Lemma mask_rows_In m l r : In r (mask_rows m l) -> In r l.
Proof.
  unfold mask_rows. intro H. apply in_map_iff in H. destruct H as ([b x] & E & Hin). cbn in E. subst x.
  apply filter_In in Hin. destruct Hin as [Hin _]. eapply in_combine_r; eauto.
Qed.
End Table.

(** old behaviour counter-example: ids [1;0;1;0] *)
Example concat_differs_when_interleaved :
  let l := [(10, 1); (11, 0); (12, 1); (13, 0)] in
  concat_tasks (Z * Z) snd l = [(10, 1); (12, 1); (11, 0); (13, 0)] /\ concat_tasks (Z * Z) snd l <> l /\
  map (fun i => task_row (Z * Z) snd l i (0, 0)) [0; 1; 2; 3]%nat = l.
Proof. vm_compute. repeat split. discriminate. Qed.
