(** Finite sums over R: Cauchy-Schwarz and normalised correlation. (Reals: classical axioms of the stdlib.) *)
From Coq Require Import Reals List Lra Psatz.
Import ListNotations.
Local Open Scope R_scope.

Fixpoint rsum (l : list R) : R := match l with [] => 0 | x :: t => x + rsum t end.
Fixpoint rdot (a b : list R) : R :=
  match a, b with x :: a', y :: b' => x * y + rdot a' b' | _, _ => 0 end.
Definition rsq (a : list R) : R := rdot a a.
Definition rscale (c : R) (a : list R) : list R := map (fun x => c * x) a.
Definition rshift (c : R) (a : list R) : list R := map (fun x => x + c) a.
Fixpoint rmulv (a b : list R) : list R := match a, b with x :: a', y :: b' => x * y :: rmulv a' b' | _, _ => [] end.
Definition rmean (a : list R) : R := rsum a / INR (length a).
Definition rcenter (a : list R) : list R := rshift (- rmean a) a.

Lemma rsq_nonneg a : 0 <= rsq a.
Proof. unfold rsq. induction a as [|x t IH]; cbn; [lra|]. pose proof (Rle_0_sqr x). unfold Rsqr in *. lra. Qed.

(** Cauchy-Schwarz: (a.b)^2 <= (a.a)(b.b), by induction via Lagrange's identity step *)
Lemma cauchy_schwarz : forall a b, length a = length b -> (rdot a b) * (rdot a b) <= rsq a * rsq b.
Proof.
  unfold rsq. induction a as [|x a IH]; intros [|y b] H; try discriminate; cbn; [lra|].
  injection H as H. specialize (IH b H).
  set (p := rdot a b) in *. set (A := rdot a a) in *. set (B := rdot b b) in *.
  assert (0 <= A) by apply rsq_nonneg. assert (0 <= B) by apply rsq_nonneg.
  (* (xy+p)^2 <= (x^2+A)(y^2+B)  <=>  2xyp <= x^2 B + y^2 A, and |p| <= sqrt(AB) *)
  assert (2 * (x * y) * p <= x * x * B + y * y * A) as K.
  { destruct (Rle_dec 0 (x * y * p)) as [Hpos|Hneg]; [|nra].
    (* (xyp)^2 <= x^2 y^2 A B <= ((x^2 B + y^2 A)/2)^2 *)
    assert ((x * y * p) * (x * y * p) <= (x * x * B) * (y * y * A)) as S1.
    { replace ((x * y * p) * (x * y * p)) with ((x * x) * (y * y) * (p * p)) by ring.
      replace ((x * x * B) * (y * y * A)) with ((x * x) * (y * y) * (A * B)) by ring.
      apply Rmult_le_compat_l; [|exact IH]. apply Rmult_le_pos; apply Rle_0_sqr. }
    assert (0 <= x * x * B) by (apply Rmult_le_pos; [apply Rle_0_sqr|assumption]).
    assert (0 <= y * y * A) by (apply Rmult_le_pos; [apply Rle_0_sqr|assumption]).
    set (u := x * x * B) in *. set (v := y * y * A) in *. set (w := x * y * p) in *.
    assert (0 <= (u - v) * (u - v)) by apply Rle_0_sqr.
    replace (2 * (x * y) * p) with (2 * w) by (unfold w; ring).
    (* w^2 <= uv <= ((u+v)/2)^2, w >= 0, u+v >= 0  =>  2w <= u+v *)
    destruct (Rle_dec (2 * w) (u + v)) as [|Hc]; [assumption|]. exfalso.
    assert (u + v < 2 * w) by lra. assert ((u + v) * (u + v) < (2 * w) * (2 * w)) by nra. nra. }
  nra.
Qed.

Lemma rdot_comm : forall a b, rdot a b = rdot b a.
Proof. induction a as [|x a IH]; intros [|y b]; cbn; try reflexivity. rewrite IH. ring. Qed.
Lemma rdot_scale_l c : forall a b, rdot (rscale c a) b = c * rdot a b.
Proof. induction a as [|x a IH]; intros [|y b]; cbn; try ring. rewrite IH. ring. Qed.
Lemma rdot_scale_r c a b : rdot a (rscale c b) = c * rdot a b.
Proof. rewrite rdot_comm, rdot_scale_l, rdot_comm. reflexivity. Qed.
Lemma rsq_scale c a : rsq (rscale c a) = c * c * rsq a.
Proof. unfold rsq. rewrite rdot_scale_l, rdot_scale_r. ring. Qed.
Lemma rscale_length c a : length (rscale c a) = length a.
Proof. apply map_length. Qed.

(** normalised (uncentred) correlation *)
Definition ncc (a b : list R) : R := rdot a b / sqrt (rsq a * rsq b).

Lemma ncc_range a b : length a = length b -> 0 < rsq a -> 0 < rsq b -> -1 <= ncc a b <= 1.
Proof.
  intros Hl Ha Hb. unfold ncc. pose proof (cauchy_schwarz a b Hl) as CS.
  assert (0 < rsq a * rsq b) as Hp by (apply Rmult_lt_0_compat; assumption).
  set (D := sqrt (rsq a * rsq b)). assert (0 < D) as HD by (apply sqrt_lt_R0; exact Hp).
  assert (D * D = rsq a * rsq b) as HDD by (apply sqrt_sqrt; lra).
  set (p := rdot a b) in *.
  assert (- D <= p <= D) as [H1 H2].
  { split.
    - destruct (Rle_dec (- D) p) as [|Hc]; [assumption|]. exfalso. assert (p < - D) by lra. nra.
    - destruct (Rle_dec p D) as [|Hc]; [assumption|]. exfalso. assert (D < p) by lra. nra. }
  split.
  - apply Rmult_le_reg_r with D; [exact HD|]. unfold Rdiv. rewrite Rmult_assoc, Rinv_l by lra. lra.
  - apply Rmult_le_reg_r with D; [exact HD|]. unfold Rdiv. rewrite Rmult_assoc, Rinv_l by lra. lra.
Qed.

Lemma ncc_self a : 0 < rsq a -> ncc a a = 1.
Proof.
  intro H. unfold ncc. fold (rsq a). rewrite sqrt_square by lra. field. lra.
Qed.

Lemma ncc_sym a b : ncc a b = ncc b a.
Proof. unfold ncc. rewrite rdot_comm. f_equal. f_equal. ring. Qed.

Lemma ncc_gain_l g a b : 0 < g -> 0 < rsq a -> 0 < rsq b -> ncc (rscale g a) b = ncc a b.
Proof.
  intros Hg Ha Hb. unfold ncc. rewrite rdot_scale_l, rsq_scale.
  replace (g * g * rsq a * rsq b) with ((g * g) * (rsq a * rsq b)) by ring.
  rewrite sqrt_mult by (nra || (apply Rmult_le_pos; lra)). rewrite sqrt_square by lra.
  assert (0 < sqrt (rsq a * rsq b)) by (apply sqrt_lt_R0; apply Rmult_lt_0_compat; assumption).
  field. split; lra.
Qed.

Lemma ncc_gain_r g a b : 0 < g -> 0 < rsq a -> 0 < rsq b -> ncc a (rscale g b) = ncc a b.
Proof. intros. rewrite ncc_sym, ncc_gain_l by assumption. apply ncc_sym. Qed.

(** centring *)
Lemma rshift_length c a : length (rshift c a) = length a.
Proof. apply map_length. Qed.
Lemma rsum_shift c a : rsum (rshift c a) = rsum a + INR (length a) * c.
Proof.
  induction a as [|x a IH]; [cbn; ring|]. change (rshift c (x :: a)) with ((x + c) :: rshift c a).
  change (rsum ((x + c) :: rshift c a)) with (x + c + rsum (rshift c a)). rewrite IH.
  change (length (x :: a)) with (S (length a)). rewrite S_INR. cbn [rsum]. ring.
Qed.
Lemma rmean_shift c a : a <> [] -> rmean (rshift c a) = rmean a + c.
Proof.
  intro H. unfold rmean. rewrite rsum_shift, rshift_length.
  assert (INR (length a) <> 0) by (destruct a; [congruence|]; apply not_0_INR; discriminate). field. assumption.
Qed.
Lemma rshift_rshift c d a : rshift c (rshift d a) = rshift (d + c) a.
Proof. unfold rshift. rewrite map_map. apply map_ext. intro x. ring. Qed.
Lemma rcenter_shift c a : a <> [] -> rcenter (rshift c a) = rcenter a.
Proof.
  intro H. unfold rcenter. rewrite rmean_shift by exact H. rewrite rshift_rshift. f_equal. ring.
Qed.
Lemma rsum_scale c a : rsum (rscale c a) = c * rsum a.
Proof. induction a as [|x a IH]; cbn; [ring|]. unfold rscale in IH. rewrite IH. ring. Qed.
Lemma rcenter_scale c a : a <> [] -> rcenter (rscale c a) = rscale c (rcenter a).
Proof.
  intro H. unfold rcenter, rmean. rewrite rsum_scale, rscale_length. unfold rshift, rscale. rewrite !map_map.
  apply map_ext. intro x. assert (INR (length a) <> 0) by (destruct a; [congruence|]; apply not_0_INR; discriminate).
  field. assumption.
Qed.

(** zero-mean normalised cross correlation = Pearson correlation *)
Definition zncc (a b : list R) : R := ncc (rcenter a) (rcenter b).
