(** Python/numpy scalar arithmetic on exact rationals.
    int() / np.fix / astype(int) = truncation toward zero; np.ceil / np.floor;
    round() = round-half-to-even.  Floats are modelled as exact rationals. *)
From Coq Require Import ZArith QArith Qround Qabs Bool Lia Lqa List.
Import ListNotations.
Local Open Scope Q_scope.

Definition Qltb (a b : Q) : bool := negb (Qle_bool b a).
Definition Qmax (a b : Q) : Q := if Qle_bool a b then b else a.
Definition Qmin (a b : Q) : Q := if Qle_bool a b then a else b.

(** truncation toward zero *)
Definition Qtrunc (x : Q) : Z := if Qle_bool 0 x then Qfloor x else Qceiling x.

(** round half to even (python's built-in round on floats) *)
Definition Qround_he (x : Q) : Z :=
  let f := Qfloor x in
  let d := x - inject_Z f in
  if Qltb d (1#2) then f
  else if Qltb (1#2) d then (f + 1)%Z
  else if Z.even f then f else (f + 1)%Z.

Lemma Qltb_lt a b : Qltb a b = true <-> a < b.
Proof.
  unfold Qltb. rewrite negb_true_iff. split; intro H.
  - apply Qnot_le_lt. intro Hle. apply Qle_bool_iff in Hle. congruence.
  - destruct (Qle_bool b a) eqn:E; auto. apply Qle_bool_iff in E. exfalso. apply (Qlt_not_le _ _ H E).
Qed.

Lemma Qltb_ge a b : Qltb a b = false <-> b <= a.
Proof.
  unfold Qltb. rewrite negb_false_iff. apply Qle_bool_iff.
Qed.

Lemma Qle_bool_false a b : Qle_bool a b = false <-> b < a.
Proof.
  split; intro H.
  - apply Qnot_le_lt. intro Hle. apply Qle_bool_iff in Hle. congruence.
  - destruct (Qle_bool a b) eqn:E; auto. apply Qle_bool_iff in E. exfalso. apply (Qlt_not_le _ _ H E).
Qed.

Lemma Qmax_ub_l a b : a <= Qmax a b.
Proof. unfold Qmax. destruct (Qle_bool a b) eqn:E. now apply Qle_bool_iff. apply Qle_refl. Qed.
Lemma Qmax_ub_r a b : b <= Qmax a b.
Proof. unfold Qmax. destruct (Qle_bool a b) eqn:E. apply Qle_refl. apply Qle_bool_false in E. now apply Qlt_le_weak. Qed.
Lemma Qmin_lb_l a b : Qmin a b <= a.
Proof. unfold Qmin. destruct (Qle_bool a b) eqn:E. apply Qle_refl. apply Qle_bool_false in E. now apply Qlt_le_weak. Qed.
Lemma Qmin_lb_r a b : Qmin a b <= b.
Proof. unfold Qmin. destruct (Qle_bool a b) eqn:E. now apply Qle_bool_iff. apply Qle_refl. Qed.

(** Integer characterisations of floor / ceiling. *)
Lemma Zle_Qfloor (n : Z) (x : Q) : inject_Z n <= x -> (n <= Qfloor x)%Z.
Proof. intro H. rewrite <- (Qfloor_Z n). now apply Qfloor_resp_le. Qed.

Lemma Qfloor_lt_Z (n : Z) (x : Q) : x < inject_Z n -> (Qfloor x < n)%Z.
Proof.
  intro H. apply Z.lt_nge. intro Hc.
  assert (inject_Z n <= inject_Z (Qfloor x)) by (rewrite <- Zle_Qle; exact Hc).
  pose proof (Qfloor_le x). lra.
Qed.

Lemma Qceiling_le_Z (n : Z) (x : Q) : x <= inject_Z n -> (Qceiling x <= n)%Z.
Proof. intro H. rewrite <- (Qceiling_Z n). now apply Qceiling_resp_le. Qed.

Lemma Z_lt_Qceiling (n : Z) (x : Q) : inject_Z n < x -> (n < Qceiling x)%Z.
Proof.
  intro H. apply Z.lt_nge. intro Hc.
  assert (inject_Z (Qceiling x) <= inject_Z n) by (rewrite <- Zle_Qle; exact Hc).
  pose proof (Qle_ceiling x). lra.
Qed.

Lemma Qfloor_spec (x : Q) (n : Z) :
  Qfloor x = n <-> (inject_Z n <= x /\ x < inject_Z (n + 1)).
Proof.
  split.
  - intros <-. split; [apply Qfloor_le | apply Qlt_floor].
  - intros [H1 H2]. apply Zle_Qfloor in H1. apply Qfloor_lt_Z in H2. lia.
Qed.

Lemma Qceiling_spec (x : Q) (n : Z) :
  Qceiling x = n <-> (inject_Z (n - 1) < x /\ x <= inject_Z n).
Proof.
  split.
  - intros <-. split; [apply Qceiling_lt | apply Qle_ceiling].
  - intros [H1 H2]. apply Z_lt_Qceiling in H1. apply Qceiling_le_Z in H2. lia.
Qed.

Lemma inject_Z_plus1 n : inject_Z (n + 1) == inject_Z n + 1.
Proof. rewrite inject_Z_plus. reflexivity. Qed.

Lemma inject_Z_minus1 n : inject_Z (n - 1) == inject_Z n - 1.
Proof. unfold Z.sub. rewrite inject_Z_plus. reflexivity. Qed.

Lemma inject_Z_minus a b : inject_Z (a - b) == inject_Z a - inject_Z b.
Proof. unfold Z.sub. rewrite inject_Z_plus, inject_Z_opp. reflexivity. Qed.

Lemma Qfloor_le_ceiling x : (Qfloor x <= Qceiling x)%Z.
Proof.
  rewrite <- (Qceiling_Z (Qfloor x)).
  apply Qceiling_resp_le. exact (Qfloor_le x).
Qed.

Lemma Qceiling_le_floor1 x : (Qceiling x <= Qfloor x + 1)%Z.
Proof.
  apply Qceiling_le_Z. apply Qlt_le_weak. apply Qlt_floor.
Qed.

(** truncation: |trunc x| <= |x|, same sign, within 1 *)
Lemma Qtrunc_nonneg x : 0 <= x -> Qtrunc x = Qfloor x.
Proof. intro H. unfold Qtrunc. apply Qle_bool_iff in H. now rewrite H. Qed.

Lemma Qtrunc_neg x : x < 0 -> Qtrunc x = Qceiling x.
Proof. intro H. unfold Qtrunc. apply Qle_bool_false in H. now rewrite H. Qed.

Lemma Qtrunc_comp x y : x == y -> Qtrunc x = Qtrunc y.
Proof.
  intro E. unfold Qtrunc. assert (Qle_bool 0 x = Qle_bool 0 y) as ->.
  { destruct (Qle_bool 0 x) eqn:A, (Qle_bool 0 y) eqn:B; try reflexivity.
    - apply Qle_bool_iff in A. rewrite E in A. apply Qle_bool_iff in A. congruence.
    - apply Qle_bool_iff in B. rewrite <- E in B. apply Qle_bool_iff in B. congruence. }
  destruct (Qle_bool 0 y); [apply Qfloor_comp|apply Qceiling_comp]; exact E.
Qed.

Lemma Qtrunc_Z n : Qtrunc (inject_Z n) = n.
Proof. unfold Qtrunc. destruct (Qle_bool 0 (inject_Z n)); [apply Qfloor_Z | apply Qceiling_Z]. Qed.

Lemma Qtrunc_bounds x :
  (0 <= x -> inject_Z (Qtrunc x) <= x /\ x < inject_Z (Qtrunc x) + 1 /\ (0 <= Qtrunc x)%Z) /\
  (x < 0 -> x <= inject_Z (Qtrunc x) /\ inject_Z (Qtrunc x) - 1 < x /\ (Qtrunc x <= 0)%Z).
Proof.
  split; intro H.
  - rewrite (Qtrunc_nonneg _ H). repeat split.
    + apply Qfloor_le.
    + rewrite <- inject_Z_plus1. apply Qlt_floor.
    + apply Zle_Qfloor. exact H.
  - rewrite (Qtrunc_neg _ H). repeat split.
    + apply Qle_ceiling.
    + rewrite <- inject_Z_minus1. apply Qceiling_lt.
    + apply Qceiling_le_Z. now apply Qlt_le_weak.
Qed.

(** half-even rounding is within 1/2 *)
Lemma Qround_he_bounds x :
  inject_Z (Qround_he x) - (1#2) <= x /\ x <= inject_Z (Qround_he x) + (1#2).
Proof.
  unfold Qround_he. set (f := Qfloor x).
  pose proof (Qfloor_le x) as H1. pose proof (Qlt_floor x) as H2. fold f in H1, H2.
  rewrite inject_Z_plus1 in H2.
  destruct (Qltb (x - inject_Z f) (1#2)) eqn:E1.
  - apply Qltb_lt in E1. split; lra.
  - apply Qltb_ge in E1.
    destruct (Qltb (1#2) (x - inject_Z f)) eqn:E2.
    + rewrite inject_Z_plus1. split; lra.
    + apply Qltb_ge in E2. destruct (Z.even f); [|rewrite inject_Z_plus1]; split; lra.
Qed.

(** Small list helpers used by correspondence files. *)
Fixpoint failing_from (i : nat) (l : list bool) : list nat :=
  match l with
  | [] => []
  | b :: t => if b then failing_from (S i) t else i :: failing_from (S i) t
  end.
Definition failing (l : list bool) : list nat := failing_from 0 l.

Definition Qclose (tol a b : Q) : bool := Qle_bool (Qabs (a - b)) tol.

(** normalise divisions by the literals 2 and 20 so that lra can see them *)
Ltac qdiv2 := unfold Qdiv in *; change (/ (2#1))%Q with (1#2) in *.
Ltac qdiv20 := unfold Qdiv in *; change (/ (20#1))%Q with (1#20) in *; change (/ (2#1))%Q with (1#2) in *.
