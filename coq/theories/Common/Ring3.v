(** 3-vectors (z,y,x order), 3x3 matrices, quaternions and rigid motions over an
    abstract commutative ring.  All identities are closed by [ring]; nothing is
    assumed about division or square roots, so they hold in R, Q and Z alike.
    Rotation matrices of quaternions are used unnormalised: [qmat q] = |q|^2 R(q). *)
From Coq Require Import Ring List.
Import ListNotations.

Section Ring3.
Variable A : Type.
Variables (rO rI : A) (radd rmul rsub : A -> A -> A) (ropp : A -> A).
Variable Rth : ring_theory rO rI radd rmul rsub ropp (@eq A).
Add Ring Aring : Rth.
Local Notation "0" := rO. Local Notation "1" := rI.
Local Infix "+" := radd. Local Infix "*" := rmul. Local Infix "-" := rsub.
Local Notation "- x" := (ropp x).

Record vec := V { v0 : A; v1 : A; v2 : A }.
Record mat := M { m00 : A; m01 : A; m02 : A; m10 : A; m11 : A; m12 : A; m20 : A; m21 : A; m22 : A }.
Record quat := Qn { qa : A; qb : A; qc : A; qw : A }.   (* scipy order: vector part (a,b,c), scalar w *)

Definition vadd u v := V (v0 u + v0 v) (v1 u + v1 v) (v2 u + v2 v).
Definition vsub u v := V (v0 u - v0 v) (v1 u - v1 v) (v2 u - v2 v).
Definition vopp u := V (- v0 u) (- v1 u) (- v2 u).
Definition vscale c u := V (c * v0 u) (c * v1 u) (c * v2 u).
Definition dot u v := v0 u * v0 v + v1 u * v1 v + v2 u * v2 v.
Definition cross u v := V (v1 u * v2 v - v2 u * v1 v) (v2 u * v0 v - v0 u * v2 v) (v0 u * v1 v - v1 u * v0 v).
(** acryo.molecules.core.cross: outer product in z,y,x coordinates *)
Definition cross_zyx u v := vopp (cross u v).
Definition e0 := V 1 0 0.  (* z axis *)
Definition e1 := V 0 1 0.  (* y axis *)
Definition e2 := V 0 0 1.  (* x axis *)

Definition mv m u := V (m00 m * v0 u + m01 m * v1 u + m02 m * v2 u)
                       (m10 m * v0 u + m11 m * v1 u + m12 m * v2 u)
                       (m20 m * v0 u + m21 m * v1 u + m22 m * v2 u).
Definition mm a b := M
  (m00 a * m00 b + m01 a * m10 b + m02 a * m20 b) (m00 a * m01 b + m01 a * m11 b + m02 a * m21 b) (m00 a * m02 b + m01 a * m12 b + m02 a * m22 b)
  (m10 a * m00 b + m11 a * m10 b + m12 a * m20 b) (m10 a * m01 b + m11 a * m11 b + m12 a * m21 b) (m10 a * m02 b + m11 a * m12 b + m12 a * m22 b)
  (m20 a * m00 b + m21 a * m10 b + m22 a * m20 b) (m20 a * m01 b + m21 a * m11 b + m22 a * m21 b) (m20 a * m02 b + m21 a * m12 b + m22 a * m22 b).
Definition mT a := M (m00 a) (m10 a) (m20 a) (m01 a) (m11 a) (m21 a) (m02 a) (m12 a) (m22 a).
Definition mI := M 1 0 0 0 1 0 0 0 1.
Definition mscale c a := M (c * m00 a) (c * m01 a) (c * m02 a) (c * m10 a) (c * m11 a) (c * m12 a) (c * m20 a) (c * m21 a) (c * m22 a).
Definition det a := m00 a * (m11 a * m22 a - m12 a * m21 a) - m01 a * (m10 a * m22 a - m12 a * m20 a)
                    + m02 a * (m10 a * m21 a - m11 a * m20 a).

(** Hamilton product, scipy convention r = p * q  <->  R(r) = R(p) R(q) *)
Definition qmul p q := Qn
  (qw p * qa q + qa p * qw q + qb p * qc q - qc p * qb q)
  (qw p * qb q - qa p * qc q + qb p * qw q + qc p * qa q)
  (qw p * qc q + qa p * qb q - qb p * qa q + qc p * qw q)
  (qw p * qw q - qa p * qa q - qb p * qb q - qc p * qc q).
Definition qconj q := Qn (- qa q) (- qb q) (- qc q) (qw q).
Definition qid := Qn 0 0 0 1.
Definition qN q := qa q * qa q + qb q * qb q + qc q * qc q + qw q * qw q.
Definition qscale c q := Qn (c * qa q) (c * qb q) (c * qc q) (c * qw q).
Definition qvec u := Qn (v0 u) (v1 u) (v2 u) 0.
Definition qvpart q := V (qa q) (qb q) (qc q).
Definition two := 1 + 1.
Definition qmat q := M
  (qw q * qw q + qa q * qa q - qb q * qb q - qc q * qc q) (two * (qa q * qb q - qw q * qc q)) (two * (qa q * qc q + qw q * qb q))
  (two * (qa q * qb q + qw q * qc q)) (qw q * qw q - qa q * qa q + qb q * qb q - qc q * qc q) (two * (qb q * qc q - qw q * qa q))
  (two * (qa q * qc q - qw q * qb q)) (two * (qb q * qc q + qw q * qa q)) (qw q * qw q - qa q * qa q - qb q * qb q + qc q * qc q).

Ltac vext := unfold cross_zyx; unfold vadd, vsub, vopp, vscale, dot, cross, mv, mm, mT, mI, mscale, det, qmul, qconj, qid, qN, qscale,
  qvec, qvpart, qmat, two, e0, e1, e2; cbn [v0 v1 v2 m00 m01 m02 m10 m11 m12 m20 m21 m22 qa qb qc qw].

Lemma vec_eq a b c a' b' c' : a = a' -> b = b' -> c = c' -> V a b c = V a' b' c'.
Proof. intros; subst; reflexivity. Qed.
Lemma mat_eq a b c d e f g h i a' b' c' d' e' f' g' h' i' :
  a = a' -> b = b' -> c = c' -> d = d' -> e = e' -> f = f' -> g = g' -> h = h' -> i = i' ->
  M a b c d e f g h i = M a' b' c' d' e' f' g' h' i'.
Proof. intros; subst; reflexivity. Qed.
Lemma quat_eq a b c d a' b' c' d' : a = a' -> b = b' -> c = c' -> d = d' -> Qn a b c d = Qn a' b' c' d'.
Proof. intros; subst; reflexivity. Qed.

Ltac vring := vext; first [apply vec_eq | apply mat_eq | apply quat_eq | idtac]; ring.

Lemma mv_mm a b u : mv (mm a b) u = mv a (mv b u).
Proof. destruct a, b, u. vring. Qed.
Lemma mv_vadd a u v : mv a (vadd u v) = vadd (mv a u) (mv a v).
Proof. destruct a, u, v. vring. Qed.
Lemma mv_vscale a c u : mv a (vscale c u) = vscale c (mv a u).
Proof. destruct a, u. vring. Qed.
Lemma mv_I u : mv mI u = u.
Proof. destruct u. vring. Qed.
Lemma mm_assoc a b c : mm (mm a b) c = mm a (mm b c).
Proof. destruct a, b, c. vring. Qed.
Lemma mm_I_l a : mm mI a = a.
Proof. destruct a. vring. Qed.
Lemma mm_I_r a : mm a mI = a.
Proof. destruct a. vring. Qed.
Lemma vadd_assoc u v w : vadd (vadd u v) w = vadd u (vadd v w).
Proof. destruct u, v, w. vring. Qed.

Lemma qmat_mul p q : qmat (qmul p q) = mm (qmat p) (qmat q).
Proof. destruct p, q. vring. Qed.
Lemma qmat_conj q : qmat (qconj q) = mT (qmat q).
Proof. destruct q. vring. Qed.
Lemma qmat_id : qmat qid = mI.
Proof. vring. Qed.
Lemma qmat_orth q : mm (qmat q) (mT (qmat q)) = mscale (qN q * qN q) mI.
Proof. destruct q. vring. Qed.
Lemma qmat_orth' q : mm (mT (qmat q)) (qmat q) = mscale (qN q * qN q) mI.
Proof. destruct q. vring. Qed.
Lemma qN_mul p q : qN (qmul p q) = qN p * qN q.
Proof. destruct p, q. vext. ring. Qed.
Lemma qmul_assoc p q r : qmul (qmul p q) r = qmul p (qmul q r).
Proof. destruct p, q, r. vring. Qed.
Lemma qmul_conj q : qmul q (qconj q) = qscale (qN q) qid.
Proof. destruct q. vring. Qed.
Lemma qmat_scale c q : qmat (qscale c q) = mscale (c * c) (qmat q).
Proof. destruct q. vring. Qed.
Lemma qmat_det q : det (qmat q) = qN q * qN q * qN q.
Proof. destruct q. vext. ring. Qed.

(** conjugation acts on the vector part through the rotation matrix *)
Lemma conj_action q u : qmul (qmul q (qvec u)) (qconj q) = qvec (mv (qmat q) u).
Proof. destruct q, u. vring. Qed.
Lemma conj_action_full q r :
  qmul (qmul q r) (qconj q) = Qn (v0 (mv (qmat q) (qvpart r))) (v1 (mv (qmat q) (qvpart r))) (v2 (mv (qmat q) (qvpart r))) (qN q * qw r).
Proof. destruct q, r. vring. Qed.

(** axes are orthogonal with squared length N^2 and right-handed in z,y,x order *)
Lemma axes_orthonormal q :
  let R := qmat q in
  dot (mv R e0) (mv R e0) = qN q * qN q /\ dot (mv R e1) (mv R e1) = qN q * qN q /\ dot (mv R e2) (mv R e2) = qN q * qN q /\
  dot (mv R e0) (mv R e1) = 0 /\ dot (mv R e0) (mv R e2) = 0 /\ dot (mv R e1) (mv R e2) = 0.
Proof. destruct q. cbv zeta. repeat split; vext; cbn [v0 v1 v2]; ring. Qed.
Lemma axes_right_handed q :
  let R := qmat q in
  cross_zyx (mv R e2) (mv R e1) = vscale (qN q) (mv R e0) /\
  cross_zyx (mv R e1) (mv R e0) = vscale (qN q) (mv R e2) /\
  cross_zyx (mv R e0) (mv R e2) = vscale (qN q) (mv R e1).
Proof. destruct q. cbv zeta. repeat split; vext; cbn [v0 v1 v2]; apply vec_eq; ring. Qed.

(** rigid motions  u |-> t + R u  *)
Record pose := P { pt : vec; pm : mat }.
Definition act a u := vadd (pt a) (mv (pm a) u).
Definition pcomp a b := P (vadd (pt a) (mv (pm a) (pt b))) (mm (pm a) (pm b)).
Definition pid := P (V 0 0 0) mI.
Lemma act_pcomp a b u : act (pcomp a b) u = act a (act b u).
Proof. destruct a as [[? ? ?] []], b as [[? ? ?] []], u. unfold act, pcomp. cbn [pt pm]. vring. Qed.
Lemma pcomp_assoc a b c : pcomp (pcomp a b) c = pcomp a (pcomp b c).
Proof.
  destruct a as [[? ? ?] []], b as [[? ? ?] []], c as [[? ? ?] []]. unfold pcomp. cbn [pt pm].
  f_equal; vring.
Qed.
Lemma act_pid u : act pid u = u.
Proof. destruct u. unfold act, pid. cbn [pt pm]. vring. Qed.

End Ring3.
