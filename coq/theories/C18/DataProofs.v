From Coq Require Import ZArith QArith Qabs Bool List Lia Lqa.
From Acryo Require Import Common.PyNum C18.DataModel.
From AcryoGen Require Import Anchors_C18.
Import ListNotations.

(** on the current code the data path is the specification: fit and clustering both see the masked stack,
    centred with the global column mean *)
Lemma fit_mean_is_spec m stack F : fit_mean m stack F = spec_mean m stack F.
Proof. reflexivity. Qed.
Lemma fit_centred_is_spec m stack F : fit_centred m stack F = spec_centred m stack F.
Proof. unfold fit_centred, spec_centred, fit_input, masked. cbn [andb run_fits_masked image_flat_mask_multiplies]. rewrite map_map. reflexivity. Qed.
Lemma projections_are_spec m stack F comps : projections m stack F comps = spec_projections m stack F comps.
Proof. unfold projections, spec_projections, clustering_input, masked, transform_row. cbn [andb get_transform_masks image_flat_mask_multiplies transform_subtracts_mean_then_dots]. rewrite map_map. reflexivity. Qed.
Lemma transform_new_masks m stack F comps input :
  transform_new m stack F comps input = map (fun r => map (fun c => qdot (vsub (vmul r m) (spec_mean m stack F)) c) comps) input.
Proof. unfold transform_new, transform_row, masked. cbn [transform_method_masks transform_subtracts_mean_then_dots]. rewrite map_map. reflexivity. Qed.

(** sums do not depend on how the rows are chunked, and the counts add up: the global column mean is the
    count-weighted combination of the per-chunk means, for every (ragged) chunking *)
Lemma qsum_app a b : qsum (a ++ b) == qsum a + qsum b.
Proof. induction a as [|x a IH]; cbn [qsum app]; [ring | rewrite IH; ring]. Qed.
Lemma qsum_concat (chunks : list vecQ) : qsum (concat chunks) == qsum (map qsum chunks).
Proof. induction chunks as [|c cs IH]; cbn [concat map qsum]; [reflexivity | rewrite qsum_app, IH; reflexivity]. Qed.
Lemma column_concat (chunks : list (list vecQ)) j : column (concat chunks) j = concat (map (fun ch => column ch j) chunks).
Proof. unfold column. rewrite concat_map. reflexivity. Qed.
Lemma column_sum_chunked (chunks : list (list vecQ)) j :
  qsum (column (concat chunks) j) == qsum (map (fun ch => qsum (column ch j)) chunks).
Proof. rewrite column_concat, qsum_concat, map_map. reflexivity. Qed.
Lemma count_chunked (chunks : list (list vecQ)) : length (concat chunks) = fold_right Nat.add 0%nat (map (@length vecQ) chunks).
Proof. induction chunks as [|c cs IH]; cbn [concat map fold_right]; [reflexivity | rewrite app_length, IH; reflexivity]. Qed.
Lemma mean_times_count (l : vecQ) : l <> [] -> qmean l * inject_Z (Z.of_nat (length l)) == qsum l.
Proof.
  intro H. unfold qmean. field. intro E.
  unfold Qeq, inject_Z in E. cbn [Qnum Qden] in E. rewrite Z.mul_1_r in E.
  destruct l as [|x l]; [congruence|]. cbn [length] in E. rewrite Nat2Z.inj_succ in E. lia.
Qed.
Lemma weighted_chunk_means (chunks : list (list vecQ)) j : Forall (fun ch => ch <> []) chunks ->
  qsum (column (concat chunks) j) == qsum (map (fun ch => qmean (column ch j) * inject_Z (Z.of_nat (length ch))) chunks).
Proof.
  intro H. rewrite column_sum_chunked. induction chunks as [|c cs IH]; cbn [map qsum]; [reflexivity|].
  inversion H as [|? ? Hc Hcs]; subst. rewrite (IH Hcs).
  assert (length c = length (column c j)) as -> by (unfold column; rewrite map_length; reflexivity).
  rewrite mean_times_count; [reflexivity|]. unfold column. destruct c; [congruence | discriminate].
Qed.
(** ... whereas the unweighted mean of chunk means is wrong for ragged chunks *)
Lemma unweighted_chunk_means_refuted :
  exists chunks : list (list vecQ), ~ qmean (map (fun ch => qmean (column ch 0)) chunks) == qmean (column (concat chunks) 0).
Proof. exists [[[1]; [3]]; [[8]]]. vm_compute. discriminate. Qed.

(** centring removes the mean: every centred column sums to zero *)
Lemma qsum_map_sub (l : vecQ) (c : Q) : qsum (map (fun x => x - c) l) == qsum l - c * inject_Z (Z.of_nat (length l)).
Proof.
  induction l as [|x l IH]; cbn [map qsum length]; [ring|]. rewrite IH, Nat2Z.inj_succ. unfold Z.succ. rewrite inject_Z_plus. ring.
Qed.
Lemma centred_column_sums_to_zero (l : vecQ) : l <> [] -> qsum (map (fun x => x - qmean l) l) == 0.
Proof. intro H. rewrite qsum_map_sub, mean_times_count by exact H. ring. Qed.

(** a 0/1 mask cannot be told from no mask by a component that vanishes outside it -- which is why only soft
    masks expose a projection of unmasked images *)
Lemma binary_mask_invisible : forall (x m c : vecQ), Forall (fun mi => mi == 0 \/ mi == 1) m ->
  qdot (vmul x m) (vmul c m) == qdot x (vmul c m).
Proof.
  unfold qdot, vmul. induction x as [|xi x IH]; intros m c Hm; [destruct m; reflexivity|].
  destruct m as [|mi m]; [destruct c; reflexivity|]. destruct c as [|ci c]; [reflexivity|].
  inversion Hm as [|? ? Hmi Hrest]; subst. cbn [zipq qsum]. rewrite (IH m c Hrest).
  destruct Hmi as [E|E]; rewrite E; ring.
Qed.
Lemma soft_mask_visible : exists x m c : vecQ, ~ qdot (vmul x m) (vmul c m) == qdot x (vmul c m).
Proof. exists [2], [1#2], [1]. vm_compute. discriminate. Qed.

Example data_path_example :
  vclose 0 (spec_mean [1; 1#2] [[2; 4]; [4; 8]] 2) [3; 3] = true /\
  check_pca [1; 1] [[1; 0]; [-1; 0]] 2 [0; 0] [[1; 0]; [0; 1]] [1414213562#1000000000 ; 0] [[1; 0]; [-1; 0]] = true /\
  (* a wrong singular value, or projections of the unmasked images under a soft mask, are rejected *)
  check_pca [1; 1] [[1; 0]; [-1; 0]] 2 [0; 0] [[1; 0]; [0; 1]] [1; 0] [[1; 0]; [-1; 0]] = false /\
  check_pca [1#2; 1] [[2; 0]; [-2; 0]] 2 [0; 0] [[1; 0]; [0; 1]] [1414213562#1000000000 ; 0] [[2; 0]; [-2; 0]] = false.
Proof. repeat split; vm_compute; reflexivity. Qed.
