(** C18 property theorems (partial: the SVD is a kernel). *)
From Coq Require Import ZArith QArith Bool List.
From Acryo Require Import Common.PyNum C18.Model C18.Proofs.
From AcryoGen Require Import Anchors_C18.
Local Open Scope Z_scope.

Theorem C18_solver_exact : forall N F c s, get_solver classifier_solver N F c = Some s -> exact s = true.
Proof. exact classifier_is_exact. Qed.
Theorem C18_solver_total : forall N F c, 0 <= c <= Z.min N F -> exists s, get_solver classifier_solver N F c = Some s.
Proof. exact classifier_accepts. Qed.
Theorem C18_auto_refuted : exists N F c, get_solver Auto N F c = Some Randomized.
Proof. exact auto_refuted. Qed.
Theorem C18_auto_partial : forall N F c s, Z.max N F <= 500 -> get_solver Auto N F c = Some s -> exact s = true.
Proof. exact auto_partial. Qed.
Theorem C18_chunk_ok : forall z y x cz cy cx, 0 < z -> 0 < y -> 0 < x -> 0 < cz -> 0 < cy -> 0 < cx ->
  (column_chunks z y x cz cy cx = 1 <-> (z <= cz /\ y <= cy /\ x <= cx)).
Proof. exact column_chunks_one. Qed.
Theorem C18_anchors : flat_rechunks_columns = true /\ classify_appends_label_column = true /\ exact_branch_is_linalg_svd = true.
Proof. exact rechunk_anchors. Qed.

Print Assumptions C18_solver_exact.
Print Assumptions C18_solver_total.
Print Assumptions C18_auto_refuted.
Print Assumptions C18_auto_partial.
Print Assumptions C18_chunk_ok.
Print Assumptions C18_anchors.
