(** C18 data-path theorems: what "the centred, masked data" is, for every mask, stack and chunking. *)
From Coq Require Import ZArith QArith Qabs Bool List.
From Acryo Require Import Common.PyNum C18.DataModel C18.DataProofs.
From AcryoGen Require Import Anchors_C18.
Import ListNotations.

Theorem C18_fit_sees_centred_masked_data : forall m stack F,
  fit_mean m stack F = spec_mean m stack F /\ fit_centred m stack F = spec_centred m stack F.
Proof. intros. split; [apply fit_mean_is_spec | apply fit_centred_is_spec]. Qed.
Print Assumptions C18_fit_sees_centred_masked_data.

Theorem C18_projections_of_masked_data : forall m stack F comps,
  projections m stack F comps = spec_projections m stack F comps.
Proof. exact projections_are_spec. Qed.
Print Assumptions C18_projections_of_masked_data.

Theorem C18_transform_masks_new_images : forall m stack F comps input,
  transform_new m stack F comps input = map (fun r => map (fun c => qdot (vsub (vmul r m) (spec_mean m stack F)) c) comps) input.
Proof. exact transform_new_masks. Qed.
Print Assumptions C18_transform_masks_new_images.

Theorem C18_mean_any_chunking : forall (chunks : list (list vecQ)) j,
  qsum (column (concat chunks) j) == qsum (map (fun ch => qsum (column ch j)) chunks) /\
  length (concat chunks) = fold_right Nat.add 0%nat (map (@length vecQ) chunks).
Proof. intros. split; [apply column_sum_chunked | apply count_chunked]. Qed.
Print Assumptions C18_mean_any_chunking.

Theorem C18_mean_is_count_weighted : forall (chunks : list (list vecQ)) j, Forall (fun ch => ch <> []) chunks ->
  qsum (column (concat chunks) j) == qsum (map (fun ch => qmean (column ch j) * inject_Z (Z.of_nat (length ch))) chunks).
Proof. exact weighted_chunk_means. Qed.
Print Assumptions C18_mean_is_count_weighted.

Theorem C18_unweighted_chunk_means_refuted :
  exists chunks : list (list vecQ), ~ qmean (map (fun ch => qmean (column ch 0)) chunks) == qmean (column (concat chunks) 0).
Proof. exact unweighted_chunk_means_refuted. Qed.

Theorem C18_centred_columns_sum_to_zero : forall l : vecQ, l <> [] -> qsum (map (fun x => x - qmean l) l) == 0.
Proof. exact centred_column_sums_to_zero. Qed.
Print Assumptions C18_centred_columns_sum_to_zero.

Theorem C18_binary_mask_invisible : forall (x m c : vecQ), Forall (fun mi => mi == 0 \/ mi == 1) m ->
  qdot (vmul x m) (vmul c m) == qdot x (vmul c m).
Proof. exact binary_mask_invisible. Qed.
Theorem C18_soft_mask_visible : exists x m c : vecQ, ~ qdot (vmul x m) (vmul c m) == qdot x (vmul c m).
Proof. exact soft_mask_visible. Qed.
Print Assumptions C18_binary_mask_invisible.
