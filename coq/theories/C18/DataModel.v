(** C18 data path: what is centred, what is masked, what is projected.  Images are flattened rows over Q;
    the SVD itself is a kernel (dask), whose output is checked against this model as a certificate. *)
From Coq Require Import ZArith QArith Qabs Bool List.
From Acryo Require Import Common.PyNum.
From AcryoGen Require Import Anchors_C18.
Import ListNotations.

Definition vecQ := list Q.
Fixpoint zipq (f : Q -> Q -> Q) (a b : vecQ) : vecQ :=
  match a, b with x :: a', y :: b' => f x y :: zipq f a' b' | _, _ => [] end.
Definition vmul := zipq Qmult.
Definition vsub := zipq Qminus.
Definition vadd := zipq Qplus.
Fixpoint qsum (l : vecQ) : Q := match l with [] => 0 | x :: t => x + qsum t end.
Definition qdot (a b : vecQ) : Q := qsum (vmul a b).
Definition column (rows : list vecQ) (j : nat) : vecQ := map (fun r => nth j r 0) rows.
Definition qmean (l : vecQ) : Q := qsum l / inject_Z (Z.of_nat (length l)).
Definition colmean (rows : list vecQ) (F : nat) : vecQ := map (fun j => qmean (column rows j)) (seq 0 F).
Definition masked (m : vecQ) (rows : list vecQ) : list vecQ := map (fun r => vmul r m) rows.

(** ---- the implementation's data path, branching on the generated structural facts ---- *)
(* PcaClassifier.run: what is handed to DaskPCA.fit *)
Definition fit_input (m : vecQ) (stack : list vecQ) : list vecQ :=
  if run_fits_masked && image_flat_mask_multiplies then masked m stack else stack.
(* DaskPCA._fit: mean_ = X.mean(0); X -= mean_ *)
Definition fit_mean (m : vecQ) (stack : list vecQ) (F : nat) : vecQ :=
  if fit_mean_is_global_column_mean then colmean (fit_input m stack) F else repeat 0 F.
Definition fit_centred (m : vecQ) (stack : list vecQ) (F : nat) : list vecQ :=
  map (fun r => vsub r (fit_mean m stack F)) (fit_input m stack).
(* DaskPCA.transform: (X - mean_) . components_^T *)
Definition transform_row (mean : vecQ) (comps : list vecQ) (r : vecQ) : vecQ :=
  if transform_subtracts_mean_then_dots then map (fun c => qdot (vsub r mean) c) comps else map (fun c => qdot r c) comps.
(* PcaClassifier.get_transform (labels None or given): what is projected, i.e. what k-means clusters *)
Definition clustering_input (m : vecQ) (stack : list vecQ) : list vecQ :=
  if get_transform_masks && image_flat_mask_multiplies then masked m stack else stack.
Definition projections (m : vecQ) (stack : list vecQ) (F : nat) (comps : list vecQ) : list vecQ :=
  map (transform_row (fit_mean m stack F) comps) (clustering_input m stack).
(* PcaClassifier.transform(input, mask=True) *)
Definition transform_new (m : vecQ) (stack : list vecQ) (F : nat) (comps : list vecQ) (input : list vecQ) : list vecQ :=
  map (transform_row (fit_mean m stack F) comps) (if transform_method_masks then masked m input else input).

(** ---- specification: exact PCA quantities of the centred, masked data ---- *)
Definition spec_mean (m : vecQ) (stack : list vecQ) (F : nat) : vecQ := colmean (masked m stack) F.
Definition spec_centred (m : vecQ) (stack : list vecQ) (F : nat) : list vecQ :=
  map (fun r => vsub (vmul r m) (spec_mean m stack F)) stack.
Definition spec_projections (m : vecQ) (stack : list vecQ) (F : nat) (comps : list vecQ) : list vecQ :=
  map (fun r => map (fun c => qdot (vsub (vmul r m) (spec_mean m stack F)) c) comps) stack.

(** ---- certificate check of an SVD returned by the implementation (evaluated by vm_compute) ---- *)
Definition qclose (tol a b : Q) : bool := Qle_bool (Qabs (a - b)) tol.
Fixpoint vclose (tol : Q) (a b : vecQ) : bool :=
  match a, b with [], [] => true | x :: a', y :: b' => qclose tol x y && vclose tol a' b' | _, _ => false end.
Fixpoint mclose (tol : Q) (a b : list vecQ) : bool :=
  match a, b with [], [] => true | x :: a', y :: b' => vclose tol x y && mclose tol a' b' | _, _ => false end.
Definition frob2 (rows : list vecQ) : Q := qsum (map (fun r => qdot r r) rows).
(* X^T (X v) *)
Definition gram_apply (X : list vecQ) (F : nat) (v : vecQ) : vecQ :=
  fold_right vadd (repeat 0 F) (map (fun r => map (Qmult (qdot r v)) r) X).
Fixpoint descending (l : vecQ) : bool :=
  match l with x :: ((y :: _) as t) => Qle_bool y (x + (1#1000000) * (1 + x)) && descending t | _ => true end.
Definition orthonormal (tol : Q) (comps : list vecQ) : bool :=
  forallb (fun i => forallb (fun j => qclose tol (qdot (nth i comps []) (nth j comps [])) (if Nat.eqb i j then 1 else 0))
                            (seq 0 (length comps))) (seq 0 (length comps)).
(** full decomposition (all min(N,F) components requested): rows of [comps] orthonormal, each an eigenvector of Xc^T Xc with
    eigenvalue sv^2, singular values in descending order and complete (their squares sum to |Xc|_F^2);
    the reported mean is the column mean of the masked stack and the reported projections are those of the model *)
Definition check_pca (m : vecQ) (stack : list vecQ) (F : nat) (mean : vecQ) (comps : list vecQ) (sv : vecQ) (proj : list vecQ) : bool :=
  let Xc := spec_centred m stack F in
  let scale := 1 + frob2 Xc in
  let tol := (1 # 1000000) * scale in
  vclose (1 # 1000000) mean (fit_mean m stack F)
  && vclose (1 # 1000000) mean (spec_mean m stack F)
  && orthonormal (1 # 1000000) comps
  && forallb (fun p => vclose tol (gram_apply Xc F (fst p)) (map (Qmult (snd p * snd p)) (fst p))) (combine comps sv)
  && descending sv
  && qclose tol (qsum (map (fun s => s * s) sv)) (frob2 Xc)
  && mclose ((1 # 1000000) * scale) proj (projections m stack F comps)
  && mclose ((1 # 1000000) * scale) proj (spec_projections m stack F comps).
