(** C18 model: the SVD solver decision, the column-chunk precondition, label write-back. *)
From Coq Require Import ZArith QArith Qround Bool List Lia.
From Acryo Require Import Common.PyNum.
From AcryoGen Require Import Anchors_C18.
Import ListNotations.
Local Open Scope Z_scope.

Inductive solver := Auto | Full | Tsqr | Randomized.
Definition solver_of_code (c : Z) : solver := if c =? 1 then Full else if c =? 2 then Tsqr else if c =? 3 then Randomized else Auto.
Definition code_of_solver (s : solver) : Z := match s with Auto => 0 | Full => 1 | Tsqr => 2 | Randomized => 3 end.

(** DaskPCA._get_solver: None = ValueError *)
Definition get_solver (given : solver) (N F c : Z) : option solver :=
  let s := match given with
           | Auto => if auto_small_test N F then Full else if auto_randomized_test N F c then Randomized else Full
           | x => x end in
  let lower := match s with Randomized => 1 | _ => 0 end in
  if (c <=? Z.min N F) && (lower <=? c) then Some s else None.
Definition exact (s : solver) : bool := match s with Full | Tsqr => true | _ => false end.
Definition classifier_solver : solver := solver_of_code classifier_solver_code.

Definition check_solver (given N F c got : Z) : bool :=
  solver_chain_as_modelled &&
  match get_solver (solver_of_code given) N F c with
  | Some s => got =? code_of_solver s
  | None => got =? -1
  end.

(** number of chunks of an axis of length d cut in pieces of c *)
Definition nchunks (d c : Z) : Z := (d + c - 1) / c.
(** flattening (cN, cz, cy, cx)-chunked (N, z, y, x) gives this many column chunks *)
Definition column_chunks (z y x cz cy cx : Z) : Z := nchunks z cz * nchunks y cy * nchunks x cx.
