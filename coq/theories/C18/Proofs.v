From Coq Require Import ZArith QArith Qround Bool List Lia.
From Acryo Require Import Common.PyNum C18.Model.
From AcryoGen Require Import Anchors_C18.
Import ListNotations.
Local Open Scope Z_scope.

Ltac Zify.zify_post_hook ::= Z.to_euclidean_division_equations.

(** with the solver PcaClassifier requests, the SVD is the exact one for every data size *)
Lemma classifier_is_exact N F c s : get_solver classifier_solver N F c = Some s -> exact s = true.
Proof.
  unfold classifier_solver, classifier_solver_code, solver_of_code. cbn. unfold get_solver.
  destruct ((c <=? Z.min N F) && (0 <=? c)); intro H; [injection H as <-; reflexivity|discriminate].
Qed.

Lemma classifier_accepts N F c : 0 <= c <= Z.min N F -> exists s, get_solver classifier_solver N F c = Some s.
Proof.
  intro H. unfold classifier_solver, classifier_solver_code, solver_of_code. cbn. unfold get_solver.
  assert ((c <=? Z.min N F) && (0 <=? c) = true) as -> by (apply andb_true_iff; split; apply Z.leb_le; lia). eauto.
Qed.

(** the library default ('auto') is NOT exact for essentially every image stack: refuted witness and partial statement *)
Lemma auto_refuted : exists N F c, get_solver Auto N F c = Some Randomized.
Proof. exists 600, 64, 2. vm_compute. reflexivity. Qed.

Lemma auto_partial N F c s : Z.max N F <= 500 -> get_solver Auto N F c = Some s -> exact s = true.
Proof.
  intros H. unfold get_solver, auto_small_test. assert ((Z.max N F <=? 500) = true) as -> by (apply Z.leb_le; exact H).
  destruct ((c <=? Z.min N F) && (0 <=? c)); intro E; [injection E as <-; reflexivity|discriminate].
Qed.

(** exactly one chunk iff the chunk covers the axis *)
Lemma nchunks_one d c : 0 < d -> 0 < c -> (nchunks d c = 1 <-> d <= c).
Proof.
  intros Hd Hc. unfold nchunks. split; intro H.
  - pose proof (Z.mul_succ_div_gt (d + c - 1) c Hc) as G. rewrite H in G. lia.
  - symmetry. apply Z.div_unique with (d - 1); lia.
Qed.

Lemma nchunks_pos d c : 0 < d -> 0 < c -> 1 <= nchunks d c.
Proof. intros Hd Hc. unfold nchunks. apply Z.div_le_lower_bound; lia. Qed.

(** the flattened stack has a single column chunk iff no image axis is chunked *)
Lemma column_chunks_one z y x cz cy cx : 0 < z -> 0 < y -> 0 < x -> 0 < cz -> 0 < cy -> 0 < cx ->
  (column_chunks z y x cz cy cx = 1 <-> (z <= cz /\ y <= cy /\ x <= cx)).
Proof.
  intros. unfold column_chunks.
  pose proof (nchunks_pos z cz) as A. pose proof (nchunks_pos y cy) as B. pose proof (nchunks_pos x cx) as C.
  rewrite <- (nchunks_one z cz), <- (nchunks_one y cy), <- (nchunks_one x cx) by assumption.
  split; [|intros (-> & -> & ->); reflexivity]. intro E. nia.
Qed.

Lemma rechunk_anchors : flat_rechunks_columns = true /\ classify_appends_label_column = true /\ exact_branch_is_linalg_svd = true.
Proof. repeat split; reflexivity. Qed.
