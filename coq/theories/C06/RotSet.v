(** C06 (and C01): the searched rotation set of a (max, step) range -- acryo._rotation._seq_of_max_and_step_to_quat.
    Angles in degrees over Q; the conversion of angle triples to quaternions is a kernel (scipy). *)
From Coq Require Import ZArith QArith Qround Bool List Lia Lqa.
From Acryo Require Import Common.PyNum.
From AcryoGen Require Import Anchors_C06.
Import ListNotations.
Local Open Scope Z_scope.

(** np.linspace(a, b, num)[i] = a + i (b - a) / (num - 1)  (num = 1: [a]) *)
Definition linspace (a b : Q) (num : Z) : list Q :=
  map (fun i => if num =? 1 then a else (a + inject_Z (Z.of_nat i) * (b - a) / inject_Z (num - 1))%Q) (seq 0 (Z.to_nat num)).

Definition rot_angles (max_rot step : Q) : list Q :=
  if Qeq_bool step 0 then [0%Q]
  else if rot_linspace_as_modelled
       then let n := rot_n max_rot step in linspace (- inject_Z n * step) (inject_Z n * step) (2 * n + 1)
       else [].

Definition qclose_deg (a b : Q) : bool := Qle_bool (Qabs.Qabs (a - b)) (1 # 1000).
Fixpoint all_close (a b : list Q) : bool :=
  match a, b with [], [] => true | x :: a', y :: b' => qclose_deg x y && all_close a' b' | _, _ => false end.
Definition check_rot_angles (max_rot step : Q) (got : list Q) : bool := all_close got (rot_angles max_rot step).
