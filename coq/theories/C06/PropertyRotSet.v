(** the searched rotation set of a (max, step) range: exactly the multiples of the step within [-max, max], per axis *)
From Coq Require Import ZArith QArith Qround Bool List.
From Acryo Require Import Common.PyNum C06.RotSet C06.RotSetProofs.
From AcryoGen Require Import Anchors_C06.
Import ListNotations.
Local Open Scope Z_scope.

Theorem C06_rotation_set_sound : forall max_rot step i, (0 <= max_rot)%Q -> (0 < step)%Q ->
  (i < length (rot_angles max_rot step))%nat ->
  exists k : Z, (nth i (rot_angles max_rot step) 0 == inject_Z k * step)%Q /\ (- max_rot <= inject_Z k * step <= max_rot)%Q.
Proof. exact rot_angles_sound. Qed.
Print Assumptions C06_rotation_set_sound.

Theorem C06_rotation_set_complete : forall max_rot step (k : Z), (0 <= max_rot)%Q -> (0 < step)%Q ->
  (- max_rot <= inject_Z k * step <= max_rot)%Q ->
  exists i, (i < length (rot_angles max_rot step))%nat /\ (nth i (rot_angles max_rot step) 0 == inject_Z k * step)%Q.
Proof. exact rot_angles_complete. Qed.
Print Assumptions C06_rotation_set_complete.

Theorem C06_rotation_set_size : forall max_rot step, (0 <= max_rot)%Q -> (0 < step)%Q ->
  length (rot_angles max_rot step) = Z.to_nat (2 * rot_n max_rot step + 1).
Proof. exact rot_angles_length. Qed.
Print Assumptions C06_rotation_set_size.
