(** C06 property theorems. *)
From Coq Require Import ZArith QArith Bool List.
From Acryo Require Import Common.PyNum C06.Model C06.Proofs.
From AcryoGen Require Import Anchors_C06.
Import ListNotations.
Local Open Scope Z_scope.

(** for every T >= 1, K >= 1 (T <= 256 labels fit the uint8 column) and every score list: the result is a
    best-scoring candidate, and the reported rotation / label are exactly that candidate's (k, j) *)
Theorem C06_search_correct : forall T K (l : list Q),
  0 < T -> T <= 256 -> 0 < K -> Z.of_nat (length l) = niter T K ->
  exists k j, 0 <= j < T /\ 0 <= k < K /\ argmax l = flat T k j /\
    model_rot T K l = k /\ loader_label T K (argmax l) = j /\ group_label T K (argmax l) = j /\
    forall k' j', 0 <= j' < T -> 0 <= k' < K -> (nthq l (flat T k' j') <= nthq l (flat T k j))%Q.
Proof. exact search_correct. Qed.
Print Assumptions C06_search_correct.

Theorem C06_codec : forall T K k j, 0 <= j < T -> 0 <= k < K -> T <= 256 ->
  align_quat_index (flat T k j) T K = k /\ loader_label T K (flat T k j) = j /\ group_label T K (flat T k j) = j.
Proof. intros T K k j Hj Hk HT. split; [apply codec_rot; exact Hj|split; [apply codec_label_loader|apply codec_label_group]; assumption]. Qed.
Print Assumptions C06_codec.

Theorem C06_candidate_mask : forall T K k j, 0 <= j < T ->
  mask_rot_index (flat T k j) T K = k /\ multiple_pairs_template_with_mask = true /\ landscape_pairs_template_with_mask = true.
Proof. intros T K k j H. split; [apply codec_mask; exact H | split; reflexivity]. Qed.
Print Assumptions C06_candidate_mask.

Theorem C06_fit_candidates : forall T k j, 0 <= j < T ->
  fit_task_quat_index (flat T k j) T = k /\ fit_result_quat_index (flat T k j) T = k /\ fit_result_label (flat T k j) T = j.
Proof. exact codec_fit. Qed.
Print Assumptions C06_fit_candidates.

Theorem C06_group_remainder : forall T K i, group_label T K i = loader_label T K i.
Proof. exact group_equals_loader. Qed.
Print Assumptions C06_group_remainder.

Theorem C06_argmax : forall l c, l <> [] -> 0 <= c < Z.of_nat (length l) ->
  0 <= argmax l < Z.of_nat (length l) /\ (nthq l c <= nthq l (argmax l))%Q.
Proof. intros l c Hne Hc. split; [apply argmax_in_range; exact Hne|apply argmax_is_max; assumption]. Qed.
Print Assumptions C06_argmax.

Theorem C06_candidate_order_anchor : candidates_rotation_major = true /\ optimize_multiple_uses_argmax = true.
Proof. split; reflexivity. Qed.
Print Assumptions C06_candidate_order_anchor.
