(** C06 model: flat candidate index codec and arg-max selection. *)
From Coq Require Import ZArith QArith Bool List.
From Acryo Require Import Common.PyNum.
From AcryoGen Require Import Anchors_C06.
Import ListNotations.
Local Open Scope Z_scope.

(** candidates are generated rotation-major, template-minor *)
Definition flat (T k j : Z) : Z := k * T + j.

(** numpy argmax: index of the first maximum *)
Fixpoint argmax_from (i : Z) (best : Z) (bv : Q) (l : list Q) : Z :=
  match l with
  | [] => best
  | x :: t => if Qltb bv x then argmax_from (i + 1) i x t else argmax_from (i + 1) best bv t
  end.
Definition argmax (l : list Q) : Z :=
  match l with [] => 0 | x :: t => argmax_from 1 0 x t end.
Definition nthq (l : list Q) (i : Z) : Q := nth (Z.to_nat i) l 0%Q.

(** model-level align: (label = flat index, rotation index, score) *)
Definition model_label (T K : Z) (l : list Q) : Z := argmax l.
Definition model_rot (T K : Z) (l : list Q) : Z := align_quat_index (argmax l) T K.

(** loader-level label *)
Definition u8 (x : Z) : Z := x mod 256.
(** labels are collected as uint32, reduced modulo the number of templates, then stored as uint8 (generated fact) *)
Definition loader_label (T K iopt : Z) : Z :=
  if label_cast_after_modulo then u8 (post_label iopt (loader_remainder K T)) else post_label (u8 iopt) (loader_remainder K T).
Definition group_label (T K iopt : Z) : Z :=
  if label_cast_after_modulo then u8 (post_label iopt (group_remainder (has_rotation K) T))
  else post_label (u8 iopt) (group_remainder (has_rotation K) T).

Definition check_align (T K : Z) (l : list Q) (label rot shiftcode : Z) (score : Q) : bool :=
  let i := argmax l in
  (Z.of_nat (length l) =? niter T K) &&
  (label =? i) && (rot =? model_rot T K l) && (shiftcode =? i) && Qeq_bool score (nthq l i)
  && candidates_rotation_major && optimize_multiple_uses_argmax.

Definition check_loader (T K : Z) (l : list Q) (label rot : Z) (score : Q) : bool :=
  let i := argmax l in
  (label =? (if is_multiple T K then (if (1 <? T) then loader_label T K i else 0) else 0)) &&
  (label =? (if (1 <? T) then group_label T K i else 0)) &&
  (rot =? model_rot T K l) && Qeq_bool score (nthq l i).
