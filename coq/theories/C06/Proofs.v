From Coq Require Import ZArith QArith Bool List Lia Lqa.
From Acryo Require Import Common.PyNum C06.Model.
From AcryoGen Require Import Anchors_C06.
Import ListNotations.
Local Open Scope Z_scope.

(** codec: decoding the flat index k*T+j gives back (j,k) *)
Lemma flat_div T k j : 0 <= j < T -> (flat T k j) / T = k.
Proof. intro H. unfold flat. symmetry. apply Z.div_unique with j; lia. Qed.

Lemma flat_mod T k j : 0 <= j < T -> (flat T k j) mod T = j.
Proof. intro H. unfold flat. symmetry. apply Z.mod_unique with k; lia. Qed.

Lemma codec_rot T K k j : 0 <= j < T -> align_quat_index (flat T k j) T K = k.
Proof. intro H. unfold align_quat_index. apply flat_div; exact H. Qed.

(** candidate (rotation k, template j) is scored under the mask rotated by rotation k -- in align and in landscape *)
Lemma codec_mask T K k j : 0 <= j < T -> mask_rot_index (flat T k j) T K = k.
Proof. intro H. unfold mask_rot_index. apply flat_div; exact H. Qed.

Lemma codec_fit T k j : 0 <= j < T ->
  fit_task_quat_index (flat T k j) T = k /\ fit_result_quat_index (flat T k j) T = k /\ fit_result_label (flat T k j) T = j.
Proof.
  intro H. unfold fit_task_quat_index, fit_result_quat_index, fit_result_label.
  rewrite flat_div, flat_mod by exact H. auto.
Qed.

Lemma codec_label_loader T K k j : 0 <= j < T -> 0 <= k < K -> T <= 256 ->
  loader_label T K (flat T k j) = j.
Proof.
  intros Hj Hk HT. unfold loader_label, label_cast_after_modulo, u8, post_label, loader_remainder. cbn [andb].
  destruct (Z.ltb_spec 1 K) as [HK|HK].
  - destruct (Z.ltb_spec 0 T) as [H0|H0]; [|lia]. rewrite flat_mod by exact Hj. apply Z.mod_small. lia.
  - assert (k = 0) by lia. subst k.
    replace (flat T 0 j) with j by (unfold flat; lia).
    destruct (Z.ltb_spec 0 (- (1))) as [Hc|Hc]; [lia|]. apply Z.mod_small; lia.
Qed.

Lemma codec_label_group T K k j : 0 <= j < T -> 0 <= k < K -> T <= 256 ->
  group_label T K (flat T k j) = j.
Proof.
  intros Hj Hk HT. unfold group_label, label_cast_after_modulo, u8, post_label, group_remainder, has_rotation.
  destruct (Z.ltb_spec 1 K) as [HK|HK].
  - destruct (Z.ltb_spec 0 T) as [H0|H0]; [|lia]. rewrite flat_mod by exact Hj. apply Z.mod_small. lia.
  - assert (k = 0) by lia. subst k.
    replace (flat T 0 j) with j by (unfold flat; lia).
    destruct (Z.ltb_spec 0 (- (1))) as [Hc|Hc]; [lia|]. apply Z.mod_small; lia.
Qed.

Lemma group_equals_loader T K i : group_label T K i = loader_label T K i.
Proof. unfold group_label, loader_label, label_cast_after_modulo, group_remainder, loader_remainder, has_rotation. cbn [andb]. reflexivity. Qed.

(** the flat index ranges over exactly niter = T*K candidates *)
Lemma flat_range T K k j : 0 <= j < T -> 0 <= k < K -> 0 <= flat T k j < niter T K.
Proof. intros Hj Hk. unfold flat, niter. nia. Qed.

Lemma flat_surjective T K i : 0 < T -> 0 <= i < niter T K ->
  exists k j, 0 <= j < T /\ 0 <= k < K /\ i = flat T k j.
Proof.
  intros HT Hi. unfold niter in Hi. exists (i / T), (i mod T).
  pose proof (Z.mod_pos_bound i T HT). pose proof (Z.div_mod i T ltac:(lia)) as E.
  split; [lia|]. split.
  - split; [apply Z.div_pos; lia|]. apply Z.div_lt_upper_bound; lia.
  - unfold flat. lia.
Qed.

(** argmax returns an in-range index of a maximal element, and the first such *)
Lemma argmax_from_spec l : forall i best bv,
  0 <= best < i ->
  let r := argmax_from i best bv l in
  (r = best \/ i <= r < i + Z.of_nat (length l)).
Proof.
  induction l as [|x t IH]; intros i best bv Hb; cbn [argmax_from length].
  - left; reflexivity.
  - destruct (Qltb bv x).
    + specialize (IH (i + 1) i x ltac:(lia)). cbn zeta in IH. destruct IH as [IH|IH]; right; lia.
    + specialize (IH (i + 1) best bv ltac:(lia)). cbn zeta in IH. destruct IH as [IH|IH]; [left; exact IH|right; lia].
Qed.

Lemma argmax_in_range l : l <> [] -> 0 <= argmax l < Z.of_nat (length l).
Proof.
  destruct l as [|x t]; [congruence|]. intros _. unfold argmax.
  pose proof (argmax_from_spec t 1 0 x ltac:(lia)) as H. cbn zeta in H. cbn [length]. lia.
Qed.

(** value-level invariant: the running best value is >= everything seen, and the result is maximal *)
Lemma argmax_from_max l : forall (pre : list Q) (best : Z) (bv : Q),
  0 <= best < Z.of_nat (length pre) ->
  nthq pre best == bv ->
  (forall c, 0 <= c < Z.of_nat (length pre) -> (nthq pre c <= bv)%Q) ->
  let r := argmax_from (Z.of_nat (length pre)) best bv l in
  forall c, 0 <= c < Z.of_nat (length (pre ++ l)) -> (nthq (pre ++ l) c <= nthq (pre ++ l) r)%Q.
Proof.
  induction l as [|x t IH]; intros pre best bv Hb Hv Hmax; cbn [argmax_from].
  - cbn zeta. rewrite app_nil_r. intros c Hc. rewrite Hv. apply Hmax; exact Hc.
  - assert (Hlen : Z.of_nat (length (pre ++ [x])) = Z.of_nat (length pre) + 1)
      by (rewrite app_length; cbn; lia).
    assert (Hnth_old : forall c, 0 <= c < Z.of_nat (length pre) -> nthq (pre ++ [x]) c = nthq pre c).
    { intros c Hc. unfold nthq. rewrite app_nth1; [reflexivity|lia]. }
    assert (Hnth_new : nthq (pre ++ [x]) (Z.of_nat (length pre)) = x).
    { unfold nthq. rewrite Nat2Z.id. rewrite app_nth2 by lia. rewrite Nat.sub_diag. reflexivity. }
    replace (pre ++ x :: t) with ((pre ++ [x]) ++ t) by (rewrite <- app_assoc; reflexivity).
    rewrite <- Hlen.
    destruct (Qltb bv x) eqn:E.
    + apply Qltb_lt in E.
      apply (IH (pre ++ [x]) (Z.of_nat (length pre)) x).
      * lia.
      * rewrite Hnth_new. reflexivity.
      * intros c Hc. destruct (Z.eq_dec c (Z.of_nat (length pre))) as [->|Hne].
        -- rewrite Hnth_new. apply Qle_refl.
        -- rewrite Hnth_old by lia. apply Qle_trans with bv; [apply Hmax; lia|apply Qlt_le_weak; exact E].
    + apply Qltb_ge in E.
      apply (IH (pre ++ [x]) best bv).
      * lia.
      * rewrite Hnth_old by lia. exact Hv.
      * intros c Hc. destruct (Z.eq_dec c (Z.of_nat (length pre))) as [->|Hne].
        -- rewrite Hnth_new. exact E.
        -- rewrite Hnth_old by lia. apply Hmax; lia.
Qed.

Lemma argmax_is_max l c : l <> [] -> 0 <= c < Z.of_nat (length l) -> (nthq l c <= nthq l (argmax l))%Q.
Proof.
  destruct l as [|x t]; [congruence|]. intros _ Hc. unfold argmax.
  pose proof (argmax_from_max t [x] 0 x) as H. cbn [length] in H.
  change (Z.of_nat 1) with 1 in H. cbn [app] in H.
  apply H; try lia; try exact Hc.
  - unfold nthq. cbn. reflexivity.
  - intros c' Hc'. assert (c' = 0) by lia. subst c'. unfold nthq. cbn. apply Qle_refl.
Qed.

(** full search statement: the reported (label, rotation) are those of a best-scoring candidate *)
Lemma search_correct T K (l : list Q) :
  0 < T -> T <= 256 -> 0 < K -> Z.of_nat (length l) = niter T K ->
  exists k j, 0 <= j < T /\ 0 <= k < K /\ argmax l = flat T k j /\
    model_rot T K l = k /\ loader_label T K (argmax l) = j /\ group_label T K (argmax l) = j /\
    forall k' j', 0 <= j' < T -> 0 <= k' < K -> (nthq l (flat T k' j') <= nthq l (flat T k j))%Q.
Proof.
  intros HT HT2 HK Hlen.
  assert (l <> []) as Hne. { intro; subst l. cbn in Hlen. unfold niter in Hlen. nia. }
  pose proof (argmax_in_range l Hne) as Hr. rewrite Hlen in Hr.
  destruct (flat_surjective T K (argmax l) HT Hr) as (k & j & Hj & Hk & E).
  exists k, j. repeat split; try lia.
  - unfold model_rot. rewrite E. apply codec_rot; exact Hj.
  - rewrite E. apply codec_label_loader; assumption.
  - rewrite E. apply codec_label_group; assumption.
  - intros k' j' Hj' Hk'. rewrite <- E. apply argmax_is_max; [exact Hne|].
    rewrite Hlen. apply flat_range; assumption.
Qed.

(** the defect class the old code had: decoding with [iopt mod K] is wrong for T>1, K>1 *)
(** casting to uint8 before the modulo is wrong beyond 256 candidates unless T divides 256 *)
Example early_cast_would_be_wrong : post_label (u8 (flat 3 86 1)) 3 = 0 /\ (flat 3 86 1) mod 3 = 1.
Proof. vm_compute. split; reflexivity. Qed.

Example old_decoding_was_wrong : (flat 3 1 0) mod 5 = 3 /\ align_quat_index (flat 3 1 0) 3 5 = 1.
Proof. vm_compute. split; reflexivity. Qed.

Example search_example :
  argmax [1; 5; 2; 5; 0; 3]%Q = 1 /\ model_rot 3 2 [1; 5; 2; 5; 0; 3]%Q = 0 /\ loader_label 3 2 4 = 1 /\ loader_label 1 4 3 = 0.
Proof. vm_compute. repeat split. Qed.
