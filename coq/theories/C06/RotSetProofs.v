From Coq Require Import ZArith QArith Qround Bool List Lia Lqa.
From Acryo Require Import Common.PyNum C06.RotSet.
From AcryoGen Require Import Anchors_C06.
Import ListNotations.
Local Open Scope Z_scope.

Lemma rot_n_spec max_rot step : (0 <= max_rot)%Q -> (0 < step)%Q ->
  0 <= rot_n max_rot step /\ (inject_Z (rot_n max_rot step) * step <= max_rot)%Q /\ (max_rot < (inject_Z (rot_n max_rot step) + 1) * step)%Q.
Proof.
  intros Hm Hs. unfold rot_n.
  assert (0 <= max_rot / step)%Q as Hq by (apply Qle_shift_div_l; [exact Hs | lra]).
  destruct (Qtrunc_bounds (max_rot / step)) as [Hb _]. destruct (Hb Hq) as (H1 & H2 & H3).
  set (n := Qtrunc (max_rot / step)) in *.
  assert (max_rot == (max_rot / step) * step)%Q as E by (field; lra).
  set (r := (max_rot / step)%Q) in *.
  repeat split; [exact H3 | |].
  - rewrite E. apply Qmult_le_compat_r; [exact H1 | lra].
  - rewrite E. apply Qmult_lt_compat_r; [exact Hs | exact H2].
Qed.

Lemma nth_map_lt {A B} (f : A -> B) (l : list A) (i : nat) (d : B) (d' : A) : (i < length l)%nat -> nth i (map f l) d = f (nth i l d').
Proof. revert i. induction l as [|x l IH]; intros i Hi; [cbn in Hi; lia|]. destruct i; [reflexivity|]. cbn [map nth]. apply IH. cbn in Hi. lia. Qed.

Lemma linspace_nth a b num i : 1 < num -> (i < Z.to_nat num)%nat ->
  nth i (linspace a b num) 0%Q = (a + inject_Z (Z.of_nat i) * (b - a) / inject_Z (num - 1))%Q.
Proof.
  intros Hn Hi. unfold linspace. rewrite (nth_map_lt _ _ _ _ 0%nat) by (rewrite seq_length; exact Hi).
  rewrite seq_nth by exact Hi. cbn [Nat.add].
  destruct (num =? 1) eqn:E; [apply Z.eqb_eq in E; lia | reflexivity].
Qed.

(** the i-th searched angle is (i - n) * step: the set is {k * step : -n <= k <= n} with n = trunc(max / step) *)
Lemma rot_angle_nth max_rot step i : (0 <= max_rot)%Q -> (0 < step)%Q ->
  let n := rot_n max_rot step in (i < Z.to_nat (2 * n + 1))%nat ->
  (nth i (rot_angles max_rot step) 0 == inject_Z (Z.of_nat i - n) * step)%Q.
Proof.
  intros Hm Hs n Hi. destruct (rot_n_spec max_rot step Hm Hs) as (Hn0 & _ & _). fold n in Hn0.
  unfold rot_angles. assert (Qeq_bool step 0 = false) as -> by (destruct (Qeq_bool step 0) eqn:Eb; [apply Qeq_bool_eq in Eb; lra | reflexivity]).
  unfold rot_linspace_as_modelled. fold n.
  destruct (Z.eq_dec n 0) as [E0 | Hnz].
  - rewrite E0 in *. assert (i = 0)%nat as -> by (cbn in Hi; lia). unfold linspace. change (Z.to_nat (2 * 0 + 1)) with 1%nat. cbn [seq map nth Z.eqb Z.mul Z.add Pos.eqb]. change (inject_Z (Z.of_nat 0 - 0)) with 0%Q. change (inject_Z 0) with 0%Q. ring.
  - rewrite linspace_nth by (try lia; exact Hi).
    assert (2 * n + 1 - 1 = 2 * n) as -> by lia. rewrite inject_Z_mult, inject_Z_minus.
    change (inject_Z 2) with (2#1)%Q. field. intro E.
    assert (inject_Z n == inject_Z 0)%Q as E' by (rewrite E; reflexivity).
    unfold Qeq, inject_Z in E'. cbn [Qnum Qden] in E'. lia.
Qed.

Lemma rot_angles_length max_rot step : (0 <= max_rot)%Q -> (0 < step)%Q ->
  length (rot_angles max_rot step) = Z.to_nat (2 * rot_n max_rot step + 1).
Proof.
  intros Hm Hs. unfold rot_angles. assert (Qeq_bool step 0 = false) as -> by (destruct (Qeq_bool step 0) eqn:Eb; [apply Qeq_bool_eq in Eb; lra | reflexivity]).
  unfold rot_linspace_as_modelled, linspace. rewrite map_length, seq_length. reflexivity.
Qed.

(** soundness: every searched angle is a multiple of the step within [-max, max] *)
Lemma rot_angles_sound max_rot step i : (0 <= max_rot)%Q -> (0 < step)%Q ->
  (i < length (rot_angles max_rot step))%nat ->
  exists k : Z, (nth i (rot_angles max_rot step) 0 == inject_Z k * step)%Q /\ (- max_rot <= inject_Z k * step <= max_rot)%Q.
Proof.
  intros Hm Hs Hi. rewrite rot_angles_length in Hi by assumption.
  destruct (rot_n_spec max_rot step Hm Hs) as (Hn0 & Hle & _). set (n := rot_n max_rot step) in *.
  exists (Z.of_nat i - n). split; [apply rot_angle_nth; assumption|].
  assert (- n <= Z.of_nat i - n <= n) as [Hk1 Hk2] by lia.
  rewrite Zle_Qle in Hk1, Hk2. rewrite inject_Z_opp in Hk1.
  set (k := inject_Z (Z.of_nat i - n)) in *. set (N := inject_Z n) in *. split; nra.
Qed.

(** completeness: every multiple of the step within [-max, max] is searched *)
Lemma rot_angles_complete max_rot step (k : Z) : (0 <= max_rot)%Q -> (0 < step)%Q ->
  (- max_rot <= inject_Z k * step <= max_rot)%Q ->
  exists i, (i < length (rot_angles max_rot step))%nat /\ (nth i (rot_angles max_rot step) 0 == inject_Z k * step)%Q.
Proof.
  intros Hm Hs [Hk1 Hk2]. destruct (rot_n_spec max_rot step Hm Hs) as (Hn0 & _ & Hlt). set (n := rot_n max_rot step) in *.
  assert (- n <= k) as Ha.
  { apply Z.le_ngt. intro Hc. assert (k <= - n - 1) as Hc' by lia. rewrite Zle_Qle in Hc'.
    rewrite inject_Z_minus, inject_Z_opp in Hc'. change (inject_Z 1) with 1%Q in Hc'.
    set (K := inject_Z k) in *. set (N := inject_Z n) in *. nra. }
  assert (k <= n) as Hb.
  { apply Z.le_ngt. intro Hc. assert (n + 1 <= k) as Hc' by lia. rewrite Zle_Qle in Hc'.
    rewrite inject_Z_plus in Hc'. change (inject_Z 1) with 1%Q in Hc'.
    set (K := inject_Z k) in *. set (N := inject_Z n) in *. nra. }
  exists (Z.to_nat (k + n)). rewrite rot_angles_length by assumption. split; [lia|].
  rewrite rot_angle_nth by (try assumption; lia). rewrite Z2Nat.id by lia.
  assert (k + n - rot_n max_rot step = k) as -> by (fold n; lia). reflexivity.
Qed.

Example rot_angles_example :
  all_close (rot_angles (20#1) (15#1)) [-(15#1); 0; 15#1]%Q = true /\
  all_close (rot_angles (30#1) (10#1)) [-(30#1); -(20#1); -(10#1); 0; 10#1; 20#1; 30#1]%Q = true /\
  rot_angles (45#1) 0 = [0%Q] /\ all_close (rot_angles (9#1) (10#1)) [0%Q] = true.
Proof. repeat split; vm_compute; reflexivity. Qed.
