(** C09 property theorems. *)
From Coq Require Import ZArith QArith Qabs List Bool Lia Permutation.
From Acryo Require Import Common.PyNum C09.Model C09.Proofs.
From AcryoGen Require Import Anchors_C09.
Import ListNotations.

(** any chunking / batching / grouping of the stack has the same sum and count, hence the same mean *)
Theorem C09_chunking : forall chunks : list (list Q),
  qsum (concat chunks) == qsum (map qsum chunks) /\
  length (concat chunks) = fold_right Nat.add 0%nat (map (@length Q) chunks).
Proof. exact chunked_mean. Qed.

Theorem C09_mean_is_sum_over_count : forall l : list Q, l <> [] -> qmean l * inject_Z (Z.of_nat (length l)) == qsum l.
Proof. exact mean_times_count. Qed.

(** batch average = molecule-count-weighted mean of the per-tomogram averages (per voxel; every tomogram holds a molecule) *)
Theorem C09_batch_mean_is_weighted_mean : forall chunks : list (list Q), Forall (fun c => c <> []) chunks ->
  qmean (concat chunks) ==
  qsum (map (fun c => inject_Z (Z.of_nat (length c)) * qmean c) chunks) / inject_Z (Z.of_nat (length (concat chunks))).
Proof. exact batch_mean_is_weighted_mean. Qed.

Example C09_batch_mean_nonvacuous :
  Forall (fun c : list Q => c <> []) [[1; 2]; [6]] /\ qmean (concat [[1; 2]; [6]]) == 3 /\
  qsum (map (fun c => inject_Z (Z.of_nat (length c)) * qmean c) [[1; 2]; [6]]) / 3 == 3.
Proof. split; [repeat constructor; discriminate|split; vm_compute; reflexivity]. Qed.

Theorem C09_order_independent : forall a b : list Q, Permutation a b -> qsum a == qsum b.
Proof. exact qsum_perm. Qed.

(** the split is a partition (disjoint, exhaustive) for every sampled list, repeats included *)
Theorem C09_split_partition : forall n sl i, (i < n)%nat ->
  nth i (ind1 n sl) false = negb (nth i (ind0 n sl) false).
Proof. exact split_partition. Qed.

Theorem C09_split_nonempty : forall n sl, (2 <= n)%nat -> length sl = Nat.div n 2 -> Forall (fun x => (x < n)%nat) sl ->
  (exists i, (i < n)%nat /\ nth i (ind0 n sl) false = true) /\ (exists j, (j < n)%nat /\ nth j (ind1 n sl) false = true).
Proof. exact split_nonempty. Qed.

Theorem C09_split_recombine : forall n sl (xs : list Q), length xs = n ->
  qsum (select (ind0 n sl) xs) + qsum (select (ind1 n sl) xs) == qsum xs /\
  (length (select (ind0 n sl) xs) + length (select (ind1 n sl) xs) = n)%nat.
Proof. exact split_recombine. Qed.

(** loaders store their inputs and options only - no remembered task graph that add_tomogram / add_loader (which update a batch in place)
    could leave behind - and the lazy sub-volume arrays are named by dask from their content, so the graphs of different loaders or
    tomograms never share a key (generated class-state and call facts) *)
Theorem C09_no_stale_or_shared_graphs : loader_base_stores_options_only = true /\ single_loader_stores_inputs_only = true /\
  batch_loader_stores_inputs_only = true /\ task_arrays_named_by_content = true.
Proof. repeat split; reflexivity. Qed.

Print Assumptions C09_chunking.
Print Assumptions C09_mean_is_sum_over_count.
Print Assumptions C09_order_independent.
Print Assumptions C09_split_partition.
Print Assumptions C09_split_nonempty.
Print Assumptions C09_split_recombine.
Print Assumptions C09_no_stale_or_shared_graphs.
Print Assumptions C09_batch_mean_is_weighted_mean.
