From Coq Require Import ZArith QArith Qabs List Bool Lia Permutation Setoid.
From Acryo Require Import Common.PyNum C09.Model.
From AcryoGen Require Import Anchors_C09.
Import ListNotations.

(** sums: chunking, permutation invariance, split recombination *)
Lemma qsum_app a b : qsum (a ++ b) == qsum a + qsum b.
Proof. induction a as [|x t IH]; cbn; [ring|rewrite IH; ring]. Qed.

Lemma qsum_concat (chunks : list (list Q)) : qsum (concat chunks) == qsum (map qsum chunks).
Proof. induction chunks as [|c t IH]; cbn; [reflexivity|rewrite qsum_app, IH; reflexivity]. Qed.

Lemma length_concat {A} (chunks : list (list A)) : length (concat chunks) = fold_right Nat.add 0%nat (map (@length A) chunks).
Proof. induction chunks as [|c t IH]; cbn; [reflexivity|rewrite app_length, IH; reflexivity]. Qed.

Lemma qsum_perm a b : Permutation a b -> qsum a == qsum b.
Proof.
  induction 1; cbn; try reflexivity.
  - rewrite IHPermutation; reflexivity.
  - ring.
  - rewrite IHPermutation1; exact IHPermutation2.
Qed.

Lemma select_split_sum (m : list bool) : forall (l : list Q), length m = length l ->
  qsum (select m l) + qsum (select (map negb m) l) == qsum l.
Proof.
  induction m as [|b m IH]; intros [|x l] H; try discriminate; cbn; [ring|].
  injection H as H. destruct b; cbn; rewrite <- (IH l H); ring.
Qed.

Lemma select_split_count {A} (m : list bool) : forall (l : list A), length m = length l ->
  (length (select m l) + length (select (map negb m) l) = length l)%nat.
Proof.
  induction m as [|b m IH]; intros [|x l] H; try discriminate; cbn; [reflexivity|].
  injection H as H. destruct b; cbn; rewrite <- (IH l H); lia.
Qed.

(** the two index vectors are complementary *)
Lemma ind1_is_complement n sl : ind1 n sl = map negb (ind0 n sl).
Proof.
  unfold ind0, ind1, splitter_marks_sample. rewrite map_map. apply map_ext. intro i. reflexivity.
Qed.

Lemma ind_lengths n sl : length (ind0 n sl) = n /\ length (ind1 n sl) = n.
Proof. unfold ind0, ind1. rewrite !map_length, seq_length. auto. Qed.

Lemma nth_ind0 n sl i : (i < n)%nat -> nth i (ind0 n sl) false = in_sl sl i.
Proof.
  intro H. unfold ind0, splitter_marks_sample.
  rewrite nth_indep with (d' := (fun j => in_sl sl j) 0%nat) by (rewrite map_length, seq_length; exact H).
  rewrite map_nth. rewrite seq_nth by exact H. reflexivity.
Qed.

Lemma in_sl_In sl i : in_sl sl i = true <-> In i sl.
Proof.
  unfold in_sl. rewrite existsb_exists. split.
  - intros (x & Hx & E). apply Nat.eqb_eq in E. subst; exact Hx.
  - intro H. exists i. split; [exact H|apply Nat.eqb_refl].
Qed.

(** disjoint and jointly exhaustive *)
Lemma split_partition n sl i : (i < n)%nat ->
  nth i (ind1 n sl) false = negb (nth i (ind0 n sl) false).
Proof.
  intro H. rewrite ind1_is_complement.
  rewrite nth_indep with (d' := negb true) by (rewrite map_length; apply (proj1 (ind_lengths n sl)) || (destruct (ind_lengths n sl) as [E _]; rewrite E; exact H)).
  rewrite map_nth. f_equal. apply nth_indep. destruct (ind_lengths n sl) as [E _]. rewrite E; exact H.
Qed.

(** both halves are non-empty for two or more molecules *)
Lemma split_nonempty n sl : (2 <= n)%nat -> length sl = Nat.div n 2 -> Forall (fun x => (x < n)%nat) sl ->
  (exists i, (i < n)%nat /\ nth i (ind0 n sl) false = true) /\ (exists j, (j < n)%nat /\ nth j (ind1 n sl) false = true).
Proof.
  intros Hn Hlen Hall. split.
  - destruct sl as [|x t].
    + cbn [length] in Hlen. assert (1 <= Nat.div n 2)%nat by (apply Nat.div_le_lower_bound; lia). lia.
    + inversion Hall; subst. exists x. split; [assumption|]. rewrite nth_ind0 by assumption. apply in_sl_In. left; reflexivity.
  - destruct (Forall_Exists_dec (fun i => In i sl) (fun i => in_dec Nat.eq_dec i sl) (seq 0 n)) as [Hf|He].
    + exfalso. assert (incl (seq 0 n) sl) as Hincl by (intros i Hi; rewrite Forall_forall in Hf; apply Hf; exact Hi).
      pose proof (NoDup_incl_length (seq_NoDup n 0) Hincl) as Hl. rewrite seq_length, Hlen in Hl.
      assert (Nat.div n 2 < n)%nat by (apply Nat.div_lt; lia). lia.
    + apply Exists_exists in He. destruct He as (j & Hj & Hnot). apply in_seq in Hj.
      exists j. split; [lia|]. rewrite split_partition by lia. rewrite nth_ind0 by lia.
      destruct (in_sl sl j) eqn:E; [|reflexivity]. apply in_sl_In in E. contradiction.
Qed.

(** count-weighted recombination of the two half maps (stated on sums; means are sums divided by counts) *)
Lemma split_recombine n sl (xs : list Q) : length xs = n ->
  qsum (select (ind0 n sl) xs) + qsum (select (ind1 n sl) xs) == qsum xs /\
  (length (select (ind0 n sl) xs) + length (select (ind1 n sl) xs) = n)%nat.
Proof.
  intro H. rewrite ind1_is_complement. destruct (ind_lengths n sl) as [E _]. split.
  - apply select_split_sum. congruence.
  - rewrite select_split_count by congruence. exact H.
Qed.

(** mean = sum / count, and the mean of a chunked / regrouped stack is the count-weighted mean of the chunk means *)
Lemma mean_times_count (l : list Q) : l <> [] -> qmean l * inject_Z (Z.of_nat (length l)) == qsum l.
Proof.
  intro H. unfold qmean. field. destruct l; [congruence|]. cbn [length]. rewrite Nat2Z.inj_succ.
  intro E. assert (0 < inject_Z (Z.succ (Z.of_nat (length l)))) as Hpos.
  { change 0 with (inject_Z 0). rewrite <- Zlt_Qlt. lia. }
  rewrite E in Hpos. apply (Qlt_irrefl 0 Hpos).
Qed.

Lemma chunked_mean (chunks : list (list Q)) :
  qsum (concat chunks) == qsum (map qsum chunks) /\
  length (concat chunks) = fold_right Nat.add 0%nat (map (@length Q) chunks).
Proof. split; [apply qsum_concat|apply length_concat]. Qed.

Example split_example :
  ind0 5 [3; 3]%nat = [false; false; false; true; false] /\ ind1 5 [3; 3]%nat = [true; true; true; false; true] /\
  sample_size 5 = 2%Z.
Proof. vm_compute. repeat split. Qed.

(** batch clause at full strength (per voxel): the mean over all molecules of a batch is the molecule-count-weighted mean of the
    per-tomogram means, for any number of tomograms with at least one molecule each *)
Lemma weighted_sum_of_means (chunks : list (list Q)) : Forall (fun c => c <> []) chunks ->
  qsum (map (fun c => inject_Z (Z.of_nat (length c)) * qmean c) chunks) == qsum (map qsum chunks).
Proof.
  induction 1 as [|c chunks Hc _ IH]; [reflexivity|].
  cbn [map qsum]. rewrite IH. rewrite <- (mean_times_count c Hc). ring.
Qed.

Lemma batch_mean_is_weighted_mean (chunks : list (list Q)) : Forall (fun c => c <> []) chunks ->
  qmean (concat chunks) ==
  qsum (map (fun c => inject_Z (Z.of_nat (length c)) * qmean c) chunks) / inject_Z (Z.of_nat (length (concat chunks))).
Proof.
  intro H. unfold qmean at 1. rewrite (weighted_sum_of_means chunks H). destruct (chunked_mean chunks) as [E _]. rewrite E. reflexivity.
Qed.
