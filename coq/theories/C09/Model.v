(** C09 model: arithmetic means of stacks (one rational per voxel) and the random half split. *)
From Coq Require Import ZArith QArith Qabs List Bool Lia.
From Acryo Require Import Common.PyNum.
From AcryoGen Require Import Anchors_C09.
Import ListNotations.

Fixpoint qsum (l : list Q) : Q := match l with [] => 0 | x :: t => x + qsum t end.
Definition qmean (l : list Q) : Q := qsum l / inject_Z (Z.of_nat (length l)).

(** random_splitter(rng, n): sl = rng.choice(arange(n), n // 2) (with replacement: repeats allowed) *)
Definition sample_size (n : Z) : Z := splitter_sample_size n.
Definition in_sl (sl : list nat) (i : nat) : bool := existsb (Nat.eqb i) sl.
Definition ind0 (n : nat) (sl : list nat) : list bool :=
  map (fun i => if splitter_marks_sample then in_sl sl i else negb (in_sl sl i)) (seq 0 n).
Definition ind1 (n : nat) (sl : list nat) : list bool :=
  map (fun i => if splitter_marks_sample then negb (in_sl sl i) else in_sl sl i) (seq 0 n).

Fixpoint select {A} (m : list bool) (l : list A) : list A :=
  match m, l with
  | b :: m', x :: l' => if b then x :: select m' l' else select m' l'
  | _, _ => []
  end.

(** voxel-wise: a stack is a list (molecules) of lists (voxels) *)
Definition column (stack : list (list Q)) (v : nat) : list Q := map (fun img => nth v img 0) stack.
Definition mean_image (stack : list (list Q)) (nvox : nat) : list Q :=
  map (fun v => qmean (column stack v)) (seq 0 nvox).

Definition qtol : Q := 1 # 20000.
Fixpoint close_list (a b : list Q) : bool :=
  match a, b with
  | [], [] => true
  | x :: a', y :: b' => Qle_bool (Qabs (x - y)) (qtol * (1 + Qabs y)) && close_list a' b'
  | _, _ => false
  end.

Definition check_average (stack : list (list Q)) (nvox : nat) (avg : list Q) : bool :=
  average_is_mean_axis0 && close_list avg (mean_image stack nvox).

Definition check_split (stack : list (list Q)) (nvox : nat) (sl : list nat) (half0 half1 : list Q) : bool :=
  let n := length stack in
  (Z.of_nat (length sl) =? sample_size (Z.of_nat n))%Z &&
  close_list half0 (mean_image (select (ind0 n sl) stack) nvox) &&
  close_list half1 (mean_image (select (ind1 n sl) stack) nvox).

Fixpoint bools_eqb (a b : list bool) : bool :=
  match a, b with [], [] => true | x :: a', y :: b' => Bool.eqb x y && bools_eqb a' b' | _, _ => false end.
Definition check_splitter (n : nat) (sl : list nat) (m0 m1 : list bool) (requested : Z) : bool :=
  bools_eqb m0 (ind0 n sl) && bools_eqb m1 (ind1 n sl) && (requested =? sample_size (Z.of_nat n))%Z.

(** count-weighted mean of parts *)
Definition weighted_mean (parts : list (Z * list Q)) (nvox : nat) : list Q :=
  let total := inject_Z (fold_right Z.add 0%Z (map fst parts)) in
  map (fun v => qsum (map (fun p => inject_Z (fst p) * nth v (snd p) 0) parts) / total) (seq 0 nvox).
Definition check_weighted (parts : list (Z * list Q)) (nvox : nat) (avg : list Q) : bool :=
  close_list avg (weighted_mean parts nvox).
