(** C11 property theorems, for every commutative ring (so for R, i.e. all of SO(3) when |q| = 1). *)
From Coq Require Import ZArith QArith Ring List.
From Acryo Require Import Common.PyNum Common.Ring3 C11.Model C11.Proofs.
From AcryoGen Require Import Anchors_C11.
Import ListNotations.

Section Statements.
Variable A : Type.
Variables (rO rI : A) (radd rmul rsub : A -> A -> A) (ropp : A -> A).
Variable Rth : ring_theory rO rI radd rmul rsub ropp (@eq A).

(** axes = images of (0,0,1), (0,1,0), (1,0,0); orthogonal, equal length, right-handed in z,y,x order *)
Theorem C11_axes_images : forall s,
  axis_x A radd rmul (zinj A rO rI) s = mv A radd rmul (mr A s) (e2 A rO rI) /\
  axis_y A radd rmul (zinj A rO rI) s = mv A radd rmul (mr A s) (e1 A rO rI) /\
  axis_z A radd rmul (zinj A rO rI) s = mv A radd rmul (mr A s) (e0 A rO rI).
Proof. exact (axes_are_images A rO rI radd rmul). Qed.

Theorem C11_orthonormal : forall q,
  let R := qmat A rI radd rmul rsub q in let N := qN A radd rmul q in
  let d := dot A radd rmul in let mv' := mv A radd rmul in
  d (mv' R (e0 A rO rI)) (mv' R (e0 A rO rI)) = rmul N N /\ d (mv' R (e1 A rO rI)) (mv' R (e1 A rO rI)) = rmul N N /\
  d (mv' R (e2 A rO rI)) (mv' R (e2 A rO rI)) = rmul N N /\
  d (mv' R (e0 A rO rI)) (mv' R (e1 A rO rI)) = rO /\ d (mv' R (e0 A rO rI)) (mv' R (e2 A rO rI)) = rO /\
  d (mv' R (e1 A rO rI)) (mv' R (e2 A rO rI)) = rO.
Proof. exact (axes_orthonormal A rO rI radd rmul rsub ropp Rth). Qed.

Theorem C11_right_handed : forall q, qN A radd rmul q = rI ->
  cross_zyx A rmul rsub ropp (mv A radd rmul (qmat A rI radd rmul rsub q) (e2 A rO rI))
                             (mv A radd rmul (qmat A rI radd rmul rsub q) (e1 A rO rI))
  = mv A radd rmul (qmat A rI radd rmul rsub q) (e0 A rO rI).
Proof. exact (unit_quat_right_handed A rO rI radd rmul rsub ropp Rth). Qed.

Theorem C11_world_left : forall s m,
  mp A (rotW A radd rmul s m) = mp A s /\ mr A (rotW A radd rmul s m) = mm A radd rmul m (mr A s) /\
  axis_x A radd rmul (zinj A rO rI) (rotW A radd rmul s m) = mv A radd rmul m (axis_x A radd rmul (zinj A rO rI) s) /\
  axis_y A radd rmul (zinj A rO rI) (rotW A radd rmul s m) = mv A radd rmul m (axis_y A radd rmul (zinj A rO rI) s) /\
  axis_z A radd rmul (zinj A rO rI) (rotW A radd rmul s m) = mv A radd rmul m (axis_z A radd rmul (zinj A rO rI) s).
Proof. exact (world_left A rO rI radd rmul rsub ropp Rth). Qed.

Theorem C11_internal_right : forall s m, orth A rO rI radd rmul (mr A s) ->
  mp A (rotI A radd rmul s m) = mp A s /\ mr A (rotI A radd rmul s m) = mm A radd rmul (mr A s) m.
Proof. exact (internal_right A rO rI radd rmul rsub ropp Rth). Qed.

Theorem C11_internal_right_quaternion : forall a q,
  qmul A radd rmul rsub (qmul A radd rmul rsub (qmul A radd rmul rsub a q) (qconj A ropp a)) a
  = qscale A rmul (qN A radd rmul a) (qmul A radd rmul rsub a q).
Proof. exact (internal_right_quat A rO rI radd rmul rsub ropp Rth). Qed.

Theorem C11_translate_internal : forall s v,
  mp A (trI A radd rmul s v) = vadd A radd (mp A s) (mv A radd rmul (mr A s) v) /\ mr A (trI A radd rmul s v) = mr A s.
Proof. exact (translate_internal_spec A radd rmul). Qed.

Theorem C11_sequences : forall ops s, orth A rO rI radd rmul (mr A s) ->
  Forall (internal_ok A rO rI radd rmul) ops ->
  sem A (run A radd rmul s ops) = pcomp A radd rmul (sem A s) (product A rO rI radd rmul ops).
Proof. exact (sequences_internal A rO rI radd rmul rsub ropp Rth). Qed.

Theorem C11_affine : forall dst R u,
  affine_apply A radd rmul dst R false u = act A radd rmul (P A dst R) u /\
  affine_apply A radd rmul dst R true u = act A radd rmul (P A dst (mT A R)) u.
Proof. exact (affine_spec A radd rmul). Qed.

Theorem C11_local_coords : forall shift R d,
  cross_zyx A rmul rsub ropp (mv A radd rmul R (e2 A rO rI)) (mv A radd rmul R (e1 A rO rI)) = mv A radd rmul R (e0 A rO rI) ->
  local_coord A radd rmul rsub ropp (zinj A rO rI) shift R d = vadd A radd shift (mv A radd rmul R d).
Proof. exact (local_coord_spec A rO rI radd rmul rsub ropp Rth). Qed.
End Statements.

Theorem C11_euler_involution : forall l, tr_euler (tr_euler l) = l.
Proof. exact tr_euler_involutive. Qed.

(** from two axes: full statement refuted on the current code (known finding), partial statement *)
Theorem C11_from_axes_refuted :
  exists d, d = (-1, 0, 0)%Z /\ rotpi (pick_axis d) (1, 0, 0)%Z = d /\ rotpi (pick_axis d) (0, 1, 0)%Z = (0, -1, 0)%Z.
Proof. exact from_axes_step2_refuted. Qed.
Theorem C11_from_axes_partial : forall n, n = (0, 1, 0)%Z \/ n = (0, -1, 0)%Z ->
  rotpi n (0, 1, 0)%Z = (0, 1, 0)%Z /\ rotpi n (1, 0, 0)%Z = (-1, 0, 0)%Z.
Proof. exact from_axes_step2_partial. Qed.

Theorem C11_local_grid_centred : forall s k : Z,
  (lc_center s == (inject_Z s - 1) / (2#1))%Q /\
  ((inject_Z k - lc_center s) + (inject_Z (s - 1 - k) - lc_center s) == 0)%Q.
Proof. intros s k. split; [apply lc_center_spec | apply lc_point_symmetric]. Qed.

(** a Molecules object stores positions, orientations and the feature table, and nothing derived from them: every view
    (axes, matrices, rotation vectors, data frames) is recomputed from the current state (generated fact) *)
Theorem C11_no_stale_views : molecules_store_only_pos_rot_features = true.
Proof. reflexivity. Qed.

Print Assumptions C11_local_grid_centred.
Print Assumptions C11_axes_images.
Print Assumptions C11_orthonormal.
Print Assumptions C11_right_handed.
Print Assumptions C11_world_left.
Print Assumptions C11_internal_right.
Print Assumptions C11_internal_right_quaternion.
Print Assumptions C11_translate_internal.
Print Assumptions C11_sequences.
Print Assumptions C11_affine.
Print Assumptions C11_local_coords.
Print Assumptions C11_euler_involution.
Print Assumptions C11_from_axes_refuted.
Print Assumptions C11_from_axes_partial.
