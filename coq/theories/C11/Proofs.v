From Coq Require Import ZArith Ring List Lia Bool.
From Acryo Require Import Common.PyNum Common.Ring3 C11.Model.
From AcryoGen Require Import Anchors_C11.
Import ListNotations.

Section Proofs.
Variable A : Type.
Variables (rO rI : A) (radd rmul rsub : A -> A -> A) (ropp : A -> A).
Variable Rth : ring_theory rO rI radd rmul rsub ropp (@eq A).
Add Ring Aring2 : Rth.
Local Notation mv' := (mv A radd rmul).
Local Notation mm' := (mm A radd rmul).
Local Notation vadd' := (vadd A radd).
Local Notation vscale' := (vscale A rmul).
Local Notation crossz' := (cross_zyx A rmul rsub ropp).
Local Notation mI' := (mI A rO rI).
Local Notation e0' := (e0 A rO rI). Local Notation e1' := (e1 A rO rI). Local Notation e2' := (e2 A rO rI).
Local Notation qmat' := (qmat A rI radd rmul rsub).
Local Notation qmul' := (qmul A radd rmul rsub).
Local Notation qN' := (qN A radd rmul).
Local Notation P' := (P A). Local Notation pcomp' := (pcomp A radd rmul). Local Notation act' := (act A radd rmul).

Definition zinj (z : Z) : A := match z with 1%Z => rI | _ => rO end.
Local Notation axis_x' := (axis_x A radd rmul zinj).
Local Notation axis_y' := (axis_y A radd rmul zinj).
Local Notation axis_z' := (axis_z A radd rmul zinj).
Local Notation step' := (step A radd rmul).
Local Notation run' := (run A radd rmul).
Local Notation rotW' := (rotW A radd rmul). Local Notation rotI' := (rotI A radd rmul).
Local Notation tr' := (tr A radd). Local Notation trI' := (trI A radd rmul).
Local Notation MP' := (MP A).

Definition orth (R : mat A) := mm' R (mT A R) = mI' /\ mm' (mT A R) R = mI'.
Definition sem (s : mpose A) := P' (mp A s) (mr A s).

(** the axes are the images of (0,0,1), (0,1,0), (1,0,0) *)
Lemma axes_are_images s : axis_x' s = mv' (mr A s) e2' /\ axis_y' s = mv' (mr A s) e1' /\ axis_z' s = mv' (mr A s) e0'.
Proof. repeat split; reflexivity. Qed.

Lemma mT_mm a b : mT A (mm' a b) = mm' (mT A b) (mT A a).
Proof. destruct a, b. unfold mT, mm; cbn. apply mat_eq; ring. Qed.
Lemma mT_mT a : mT A (mT A a) = a.
Proof. destruct a. reflexivity. Qed.
Lemma orth_mm a b : orth a -> orth b -> orth (mm' a b).
Proof.
  intros [Ha1 Ha2] [Hb1 Hb2]. unfold orth. rewrite mT_mm. split.
  - rewrite (mm_assoc A rO rI radd rmul rsub ropp Rth a b). rewrite <- (mm_assoc A rO rI radd rmul rsub ropp Rth b (mT A b) (mT A a)).
    rewrite Hb1. rewrite (mm_I_l A rO rI radd rmul rsub ropp Rth). exact Ha1.
  - rewrite (mm_assoc A rO rI radd rmul rsub ropp Rth (mT A b) (mT A a)). rewrite <- (mm_assoc A rO rI radd rmul rsub ropp Rth (mT A a) a b).
    rewrite Ha2. rewrite (mm_I_l A rO rI radd rmul rsub ropp Rth). exact Hb2.
Qed.
Lemma orth_I : orth mI'.
Proof. unfold orth, mT, mm, mI; cbn. split; apply mat_eq; ring. Qed.

(** world rotations compose on the left and leave positions fixed *)
Lemma world_left s m :
  mp A (rotW' s m) = mp A s /\ mr A (rotW' s m) = mm' m (mr A s) /\
  axis_x' (rotW' s m) = mv' m (axis_x' s) /\ axis_y' (rotW' s m) = mv' m (axis_y' s) /\ axis_z' (rotW' s m) = mv' m (axis_z' s).
Proof.
  unfold rotW, rotate_by_left_mult, axis_x, axis_y, axis_z. cbn [mp mr].
  repeat split; apply (mv_mm A rO rI radd rmul rsub ropp Rth).
Qed.

(** internal rotations act on the right (for an orthogonal current orientation) *)
Lemma internal_right s m : orth (mr A s) ->
  mp A (rotI' s m) = mp A s /\ mr A (rotI' s m) = mm' (mr A s) m.
Proof.
  intros [H1 H2]. unfold rotI, rotvec_internal_zyx, rotW, rotate_by_left_mult. cbn [mp mr]. split; [reflexivity|].
  rewrite (mm_assoc A rO rI radd rmul rsub ropp Rth). rewrite H2. apply (mm_I_r A rO rI radd rmul rsub ropp Rth).
Qed.

(** quaternion form of the same fact: (a q a* ) a = |a|^2 (a q) *)
Lemma internal_right_quat a q :
  qmul' (qmul' (qmul' a q) (qconj A ropp a)) a = qscale A rmul (qN' a) (qmul' a q).
Proof. destruct a, q. unfold qmul, qconj, qscale, qN; cbn. apply quat_eq; ring. Qed.

Lemma translate_internal_spec s v :
  mp A (trI' s v) = vadd' (mp A s) (mv' (mr A s) v) /\ mr A (trI' s v) = mr A s.
Proof. unfold trI, tr, translate_internal_forward, translate_adds. cbn [mp mr]. split; reflexivity. Qed.

Lemma translate_spec s v : mp A (tr' s v) = vadd' (mp A s) v /\ mr A (tr' s v) = mr A s.
Proof. unfold tr, translate_adds. cbn [mp mr]. split; reflexivity. Qed.

(** linear_transform(shift, rotator) = right composition with the rigid motion (shift, rotator) *)
Lemma linear_transform_spec s v m : orth (mr A s) ->
  sem (step' s (OLin A v m)) = pcomp' (sem s) (P' v m).
Proof.
  intro H. unfold step, linear_transform_shape, sem, pcomp. cbn [pt pm].
  destruct (translate_internal_spec s v) as [E1 E2].
  assert (orth (mr A (trI' s v))) as H' by (rewrite E2; exact H).
  destruct (internal_right (trI' s v) m H') as [E3 E4].
  rewrite E3, E4, E1, E2. reflexivity.
Qed.

(** any sequence of internal operations is right composition with the product of their motions *)
Definition motion (o : op A) : option (pose A) :=
  match o with
  | OTrI _ v => Some (P' v mI')
  | ORotI _ m => Some (P' (V A rO rO rO) m)
  | OLin _ v m => Some (P' v m)
  | _ => None
  end.
Definition internal_ok (o : op A) : Prop :=
  match o with
  | OTrI _ _ => True | ORotI _ m => orth m | OLin _ _ m => orth m | _ => False
  end.
Fixpoint product (ops : list (op A)) : pose A :=
  match ops with
  | [] => pid A rO rI
  | o :: t => match motion o with Some g => pcomp' g (product t) | None => product t end
  end.

Lemma vadd_0_r v : vadd' v (V A rO rO rO) = v.
Proof. destruct v. unfold vadd; cbn. apply vec_eq; ring. Qed.
Lemma mv_0 m : mv' m (V A rO rO rO) = V A rO rO rO.
Proof. destruct m. unfold mv; cbn. apply vec_eq; ring. Qed.

Lemma step_internal s o : orth (mr A s) -> internal_ok o ->
  exists g, motion o = Some g /\ sem (step' s o) = pcomp' (sem s) g /\ orth (mr A (step' s o)).
Proof.
  intros Ho Hok. destruct o as [v|v|m|m|v m]; cbn in Hok; try contradiction.
  - exists (P' v mI'). split; [reflexivity|]. destruct (translate_internal_spec s v) as [E1 E2].
    cbn [step]. unfold sem, pcomp. cbn [pt pm]. rewrite E1, E2.
    rewrite (mm_I_r A rO rI radd rmul rsub ropp Rth). split; [reflexivity|exact Ho].
  - exists (P' (V A rO rO rO) m). split; [reflexivity|]. destruct (internal_right s m Ho) as [E1 E2].
    cbn [step]. unfold sem, pcomp. cbn [pt pm]. rewrite E1, E2. rewrite mv_0, vadd_0_r.
    split; [reflexivity|apply orth_mm; assumption].
  - exists (P' v m). split; [reflexivity|]. split; [apply linear_transform_spec; exact Ho|].
    assert (E : pm A (sem (step' s (OLin A v m))) = mm' (mr A s) m) by (rewrite linear_transform_spec by exact Ho; reflexivity).
    cbn [sem pm] in E. rewrite E. apply orth_mm; assumption.
Qed.

Lemma sequences_internal : forall ops s, orth (mr A s) -> Forall internal_ok ops ->
  sem (run' s ops) = pcomp' (sem s) (product ops).
Proof.
  induction ops as [|o t IH]; intros s Ho Hall.
  - cbn. unfold sem, pcomp, pid. cbn [pt pm]. rewrite mv_0, vadd_0_r, (mm_I_r A rO rI radd rmul rsub ropp Rth). reflexivity.
  - inversion Hall as [|? ? Hok Ht]; subst. destruct (step_internal s o Ho Hok) as (g & Hg & Hs & Ho').
    change (run' s (o :: t)) with (run' (step' s o) t). rewrite (IH _ Ho' Ht). rewrite Hs. cbn [product]. rewrite Hg.
    apply (pcomp_assoc A rO rI radd rmul rsub ropp Rth).
Qed.

(** affine_matrix: maps src + u to dst + R u (R^T u with inverse=True) *)
Lemma affine_spec dst R u :
  affine_apply A radd rmul dst R false u = act' (P' dst R) u /\
  affine_apply A radd rmul dst R true u = act' (P' dst (mT A R)) u.
Proof. split; reflexivity. Qed.

(** local sampling coordinates agree with the axes:  pos/scale + R (k - c)  for right-handed R *)
Lemma local_coord_spec shift R d :
  crossz' (mv' R e2') (mv' R e1') = mv' R e0' ->
  local_coord A radd rmul rsub ropp zinj shift R d = vadd' shift (mv' R d).
Proof.
  intro H. unfold local_coord, cross_mol, cross_is_negated, axis_x, axis_y. cbn [mr].
  change (lit A zinj axis_x_literal) with e2'. change (lit A zinj axis_y_literal) with e1'.
  rewrite H. destruct shift, R, d. unfold vadd, vscale, mv, e0, e1, e2; cbn. apply vec_eq; ring.
Qed.

Lemma unit_quat_right_handed q : qN' q = rI ->
  crossz' (mv' (qmat' q) e2') (mv' (qmat' q) e1') = mv' (qmat' q) e0'.
Proof.
  intro H. destruct (axes_right_handed A rO rI radd rmul rsub ropp Rth q) as [E _]. cbv zeta in E.
  rewrite E, H. destruct (mv' (qmat' q) e0'). unfold vscale; cbn. apply vec_eq; ring.
Qed.
End Proofs.

(** ---- translate_euler is an involution on sequences of axis letters ---- *)
Local Open Scope Z_scope.
Fixpoint assoc (t : list (Z * Z)) (c : Z) : Z :=
  match t with [] => c | (k, v) :: r => if c =? k then v else assoc r c end.
Definition sw (c : Z) : Z := assoc euler_table c.
Definition tr_euler (l : list Z) : list Z := map sw (if euler_reverses then rev l else l).

Lemma sw_involutive c : sw (sw c) = c.
Proof.
  destruct (Z.eq_dec c 120) as [->|H1]; [reflexivity|].
  destruct (Z.eq_dec c 122) as [->|H2]; [reflexivity|].
  destruct (Z.eq_dec c 88) as [->|H3]; [reflexivity|].
  destruct (Z.eq_dec c 90) as [->|H4]; [reflexivity|].
  assert (sw c = c) as E.
  { unfold sw, euler_table. cbn [assoc]. rewrite !(proj2 (Z.eqb_neq _ _)) by assumption. reflexivity. }
  rewrite E. exact E.
Qed.

Lemma tr_euler_involutive l : tr_euler (tr_euler l) = l.
Proof.
  unfold tr_euler, euler_reverses. rewrite <- map_rev, rev_involutive, map_map.
  rewrite <- (map_id l) at 2. apply map_ext. apply sw_involutive.
Qed.

Example euler_example : tr_euler [90; 88; 90] = [88; 90; 88] /\ tr_euler [120; 121; 122] = [120; 121; 122]
  /\ tr_euler [122; 121; 120] = [122; 121; 120] /\ tr_euler [120; 121] = [121; 122].
Proof. vm_compute. repeat split. Qed.

(** ---- axes_to_rotator, anti-parallel branch: which pi-axis the code picks (integer model) ---- *)
Definition pick_axis (d : Z * Z * Z) : Z * Z * Z :=
  let '(d0, d1, d2) := d in
  let n0 := d1 * d1 + d0 * d0 in let n1 := d2 * d2 + d0 * d0 in
  if (if antiparallel_pick_strict then n1 <? n0 else n1 <=? n0) then (d1, - d0, 0) else (d2, 0, - d0).
(** rotation by pi about axis n, scaled by |n|^2 :  v |-> 2 (n.v) n - |n|^2 v *)
Definition rotpi (n v : Z * Z * Z) : Z * Z * Z :=
  let '(n0, n1, n2) := n in let '(a, b, c) := v in
  let dt := n0 * a + n1 * b + n2 * c in let L := n0 * n0 + n1 * n1 + n2 * n2 in
  (2 * dt * n0 - L * a, 2 * dt * n1 - L * b, 2 * dt * n2 - L * c).

(** full statement refuted on the current code: when the second step of axes_to_rotator is anti-parallel
    (z maps to -e_z in the y-aligned frame) the chosen pi-rotation flips the already aligned y axis *)
Lemma from_axes_step2_refuted :
  exists d, d = (-1, 0, 0) /\ rotpi (pick_axis d) (1, 0, 0) = d /\ rotpi (pick_axis d) (0, 1, 0) = (0, -1, 0).
Proof. exists (-1, 0, 0). vm_compute. repeat split. Qed.

(** partial: whenever the picked axis is the y axis itself, y is preserved and z is reversed *)
Lemma from_axes_step2_partial n : n = (0, 1, 0) \/ n = (0, -1, 0) ->
  rotpi n (0, 1, 0) = (0, 1, 0) /\ rotpi n (1, 0, 0) = (-1, 0, 0).
Proof. intros [->| ->]; vm_compute; split; reflexivity. Qed.

(** ---- local_coordinates: the sampling grid is centred on the molecule ----
    index k and its mirror image (s - 1 - k) lie symmetrically about the grid centre, for odd and even lengths alike *)
Require Import QArith Lqa.
Lemma lc_center_spec (s : Z) : (lc_center s == (inject_Z s - 1) / (2#1))%Q.
Proof. unfold lc_center. field. Qed.
Lemma lc_point_symmetric (s k : Z) :
  ((inject_Z k - lc_center s) + (inject_Z (s - 1 - k) - lc_center s) == 0)%Q.
Proof.
  rewrite lc_center_spec. unfold Z.sub. rewrite !inject_Z_plus, !inject_Z_opp. change (inject_Z 1) with 1%Q. field.
Qed.
Lemma lc_shift_spec (p scale : Q) : (lc_shift p scale == p / scale)%Q.
Proof. reflexivity. Qed.
