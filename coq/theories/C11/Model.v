(** C11 model: Molecules pose operations as functions on (position, rotation matrix)
    over an abstract commutative ring; instantiated at Q for the correspondence. *)
From Coq Require Import ZArith QArith Qabs Bool List.
From Acryo Require Import Common.PyNum Common.Ring3.
From AcryoGen Require Import Anchors_C11.
Import ListNotations.

Section Generic.
Variable A : Type.
Variables (rO rI : A) (radd rmul rsub : A -> A -> A) (ropp : A -> A).
Local Notation mv' := (mv A radd rmul).
Local Notation mm' := (mm A radd rmul).
Local Notation vadd' := (vadd A radd).
Local Notation vsub' := (vsub A rsub).
Local Notation vscale' := (vscale A rmul).
Local Notation crossz' := (cross_zyx A rmul rsub ropp).
Local Notation cross' := (cross A rmul rsub).

Variable inj : Z -> A.   (* embedding of the integer literals found in the source *)
Definition lit (t : Z * Z * Z) : vec A := let '(a, b, c) := t in V A (inj a) (inj b) (inj c).

Record mpose := MP { mp : vec A; mr : mat A }.

(** molecule axes *)
Definition axis_x (s : mpose) := mv' (mr s) (lit axis_x_literal).
Definition axis_y (s : mpose) := mv' (mr s) (lit axis_y_literal).
Definition axis_z (s : mpose) := mv' (mr s) (lit axis_z_literal).
Definition cross_mol (u v : vec A) := if cross_is_negated then crossz' u v else cross' u v.

Inductive op :=
| OTr (v : vec A)            (* translate *)
| OTrI (v : vec A)           (* translate_internal *)
| ORotW (m : mat A)          (* rotate_by / _matrix / _quaternion / _rotvec: world rotation *)
| ORotI (m : mat A)          (* rotate_by_rotvec_internal *)
| OLin (v : vec A) (m : mat A).  (* linear_transform(shift, rotator) *)

Definition tr (s : mpose) v := if translate_adds then MP (vadd' (mp s) v) (mr s) else s.
Definition trI (s : mpose) v :=
  tr s (if translate_internal_forward then mv' (mr s) v else mv' (mT A (mr s)) v).
Definition rotW (s : mpose) m := MP (mp s) (if rotate_by_left_mult then mm' m (mr s) else mm' (mr s) m).
(** world_rotvec = R v (z,y,x combination of the axes), Rot(R v) = R Rot(v) R^T, then left multiplication *)
Definition rotI (s : mpose) m :=
  if rotvec_internal_zyx then rotW s (mm' (mm' (mr s) m) (mT A (mr s))) else rotW s m.
Definition step (s : mpose) (o : op) : mpose :=
  match o with
  | OTr v => tr s v
  | OTrI v => trI s v
  | ORotW m => rotW s m
  | ORotI m => rotI s m
  | OLin v m => if linear_transform_shape then rotI (trI s v) m else rotI (trI s (mv' m v)) m
  end.
Definition run (s : mpose) (ops : list op) : mpose := fold_left step ops s.

(** affine_matrix(src, dst, inverse) applied to src + u *)
Definition affine_apply (dst : vec A) (R : mat A) (inverse : bool) (u : vec A) : vec A :=
  vadd' dst (mv' (if inverse then mT A R else R) u).

(** local_coordinates: pos/scale + z_ax*kz + y_ax*ky + x_ax*kx with z_ax = cross(x, y) *)
Definition local_coord (shift : vec A) (R : mat A) (d : vec A) : vec A :=
  let s := MP shift R in
  let X := axis_x s in let Y := axis_y s in let Zv := cross_mol X Y in
  vadd' (vadd' (vadd' (vscale' (v0 A d) Zv) (vscale' (v1 A d) Y)) (vscale' (v2 A d) X)) shift.
End Generic.

(** ---- instance at Q for execution ---- *)
Definition qinj (z : Z) : Q := inject_Z z.
Definition stepQ := step Q Qplus Qmult.
Definition runQ := run Q Qplus Qmult.
Definition mat_of_list (l : list Q) : mat Q :=
  M Q (nth 0 l 0) (nth 1 l 0) (nth 2 l 0) (nth 3 l 0) (nth 4 l 0) (nth 5 l 0) (nth 6 l 0) (nth 7 l 0) (nth 8 l 0).
Definition tolq : Q := 1 # 50000.
Definition vclose (a b : vec Q) : bool :=
  Qclose tolq (v0 Q a) (v0 Q b) && Qclose tolq (v1 Q a) (v1 Q b) && Qclose tolq (v2 Q a) (v2 Q b).
Definition mclose (a b : mat Q) : bool :=
  Qclose tolq (m00 Q a) (m00 Q b) && Qclose tolq (m01 Q a) (m01 Q b) && Qclose tolq (m02 Q a) (m02 Q b) &&
  Qclose tolq (m10 Q a) (m10 Q b) && Qclose tolq (m11 Q a) (m11 Q b) && Qclose tolq (m12 Q a) (m12 Q b) &&
  Qclose tolq (m20 Q a) (m20 Q b) && Qclose tolq (m21 Q a) (m21 Q b) && Qclose tolq (m22 Q a) (m22 Q b).

Definition check_seq (p0 : vec Q) (r0 : mat Q) (ops : list (op Q)) (pos : vec Q) (m : mat Q) (z y x : vec Q) (flag : bool) : bool :=
  let f := runQ (MP Q p0 r0) ops in
  flag && vclose pos (mp Q f) && mclose m (mr Q f)
  && vclose z (axis_z Q Qplus Qmult qinj f) && vclose y (axis_y Q Qplus Qmult qinj f) && vclose x (axis_x Q Qplus Qmult qinj f).

Definition check_affine (dst : vec Q) (R : mat Q) (inverse : bool) (u got : vec Q) : bool :=
  affine_matrix_shape && vclose got (affine_apply Q Qplus Qmult dst R inverse u).

Definition check_local (p : vec Q) (scale : Q) (R : mat Q) (shape k : list Z) (got : vec Q) : bool :=
  let c i := lc_center (nth i shape 0%Z) in
  let d := V Q (inject_Z (nth 0 k 0%Z) - c 0%nat) (inject_Z (nth 1 k 0%Z) - c 1%nat) (inject_Z (nth 2 k 0%Z) - c 2%nat) in
  let sh := V Q (lc_shift (v0 Q p) scale) (lc_shift (v1 Q p) scale) (lc_shift (v2 Q p) scale) in
  lc_structure && vclose got (local_coord Q Qplus Qmult Qminus Qopp qinj sh R d).
