(** C04 over R: the (circular) cross-correlation of a displaced copy attains its maximum exactly at the displacement. *)
From Coq Require Import Reals List Lra Lia.
From Acryo Require Import Common.Sums.
Import ListNotations.
Local Open Scope R_scope.

Definition rotl (k : nat) (a : list R) : list R := skipn k a ++ firstn k a.
Definition corr_at (a b : list R) (l : nat) : R := rdot (rotl l a) b.

Lemma rdot_app : forall a1 a2 b1 b2, length a1 = length b1 -> rdot (a1 ++ a2) (b1 ++ b2) = rdot a1 b1 + rdot a2 b2.
Proof.
  induction a1 as [|x a1 IH]; intros a2 [|y b1] b2 H; try discriminate; cbn; [lra|]. injection H as H. rewrite IH by exact H. lra.
Qed.
Lemma rsq_app a b : rsq (a ++ b) = rsq a + rsq b.
Proof. unfold rsq. apply rdot_app. reflexivity. Qed.
Lemma rsq_rotl k a : rsq (rotl k a) = rsq a.
Proof. unfold rotl. rewrite rsq_app. rewrite <- (firstn_skipn k a) at 3. rewrite rsq_app. lra. Qed.
Lemma rotl_length k a : length (rotl k a) = length a.
Proof. unfold rotl. rewrite app_length, skipn_length, firstn_length. lia. Qed.

(** sub-volume a is the template b displaced by d (rotating a back by d gives b): the correlation at lag d is |b|^2 and no lag beats it *)
Theorem C04_peak_at_true_displacement : forall a b d, rotl d a = b ->
  corr_at a b d = rsq b /\ forall l, corr_at a b l <= corr_at a b d.
Proof.
  intros a b d H. unfold corr_at. split; [rewrite H; reflexivity|].
  intro l. rewrite H. fold (rsq b).
  assert (length (rotl l a) = length b) as Hl by (rewrite <- H, !rotl_length; reflexivity).
  pose proof (cauchy_schwarz (rotl l a) b Hl) as CS. rewrite rsq_rotl in CS.
  assert (rsq a = rsq b) as E by (rewrite <- H, rsq_rotl; reflexivity). rewrite E in CS.
  pose proof (rsq_nonneg b). set (p := rdot (rotl l a) b) in *. set (q := rsq b) in *.
  destruct (Rle_dec p q) as [|Hc]; [assumption|]. exfalso. assert (q < p) by lra. nra.
Qed.

(** normalised: the score at the true displacement is 1 and nothing exceeds it *)
Theorem C04_normalised_peak : forall a b d, rotl d a = b -> 0 < rsq b ->
  ncc (rotl d a) b = 1 /\ forall l, ncc (rotl l a) b <= 1.
Proof.
  intros a b d H Hb. split; [rewrite H; apply ncc_self; exact Hb|].
  intro l. assert (length (rotl l a) = length b) as Hl by (rewrite <- H, !rotl_length; reflexivity).
  assert (rsq a = rsq b) as E by (rewrite <- H, rsq_rotl; reflexivity).
  apply (ncc_range (rotl l a) b Hl); [rewrite rsq_rotl, E; exact Hb|exact Hb].
Qed.

Example C04_example : rotl 1 [0; 1; 2; 0] = [1; 2; 0; 0] /\ corr_at [0; 1; 2; 0] [1; 2; 0; 0] 1 = 5.
Proof. unfold corr_at, rotl. cbn. split; [reflexivity|lra]. Qed.

Print Assumptions C04_peak_at_true_displacement.
Print Assumptions C04_normalised_peak.
