(** C04 model: which landscape index corresponds to which displacement (sign and index conventions),
    built on the C05 anchors (same generated expressions). *)
From Coq Require Import ZArith QArith Qround Bool List.
From Acryo Require Import Common.PyNum C05.Model.
From AcryoGen Require Import Anchors_C05.
Import ListNotations.
Local Open Scope Z_scope.

(** ZNCC / NCC cropped landscape: index j along an axis denotes displacement j - trunc(m) *)
Definition zncc_lag (m : Q) (j : Z) : Z := up_z (zn_n m) j.
(** FSC landscape: index i denotes displacement i - ceil(m)  (phase ramp range(-s, s+1), s = len // 2) *)
Definition fsc_lag (m : Q) (i : Z) : Z := i - fsc_phase_half (fs_n m).
(** PCC landscape (fftshift-ed, cropped around the centre N//2): index j denotes j - (centre - start) *)
Definition pcc_lag (N : Z) (m : Q) (j : Z) : Z :=
  let c := pcc_landscape_center N in j + pcc_landscape_start c m N - c.

Definition check_peak (kind : Z) (N : Z) (m : Q) (argmax d : Z) : bool :=
  if kind =? 0 then zncc_lag m argmax =? d
  else if kind =? 1 then fsc_lag m argmax =? d
  else pcc_lag N m argmax =? d.
