(** C04 index/sign convention theorems (Z/Q); the optimality theorems over R are in PropertyR.v. *)
From Coq Require Import ZArith QArith Qround Bool List.
From Acryo Require Import Common.PyNum C05.Model C05.Proofs C04.Model C04.Proofs.
From AcryoGen Require Import Anchors_C05.
Local Open Scope Z_scope.

Theorem C04_zncc_index : forall m j, (0 <= m)%Q -> 0 <= j < zn_n m -> zncc_lag m j = j - Qtrunc m /\ - Qtrunc m <= zncc_lag m j <= Qtrunc m.
Proof. exact zncc_lag_spec. Qed.
Theorem C04_fsc_phase : forall m i, (0 <= m)%Q -> 0 <= i < fs_n m -> fsc_lag m i = i - Qceiling m /\ - Qceiling m <= fsc_lag m i <= Qceiling m.
Proof. exact fsc_lag_spec. Qed.
Theorem C04_pcc_index : forall N m j, 1 <= N -> (0 <= m)%Q -> Qtrunc m <= (N - 1) / 2 -> 0 <= j < 2 * Qtrunc m + 1 -> pcc_lag N m j = j - Qtrunc m.
Proof. exact pcc_lag_spec. Qed.
Theorem C04_pcc_unwrap : forall P j im c,
  0 <= j < P -> ((P = 2 * im + 1) \/ (P = 2 * c /\ c <= im) \/ (P = 2 * c + 1 /\ c <= im)) -> 0 <= im -> - im <= pc_unwrap P j <= im.
Proof. exact pc_unwrap_bound. Qed.
Theorem C04_mesh : forall (z : Z) (m : Q), (0 <= m)%Q -> (- m <= inject_Z z <= m)%Q ->
  let b := mesh_bounds (mesh_left (inject_Z z) m) (mesh_right (inject_Z z) m) in fst b <= 0 <= snd b.
Proof. exact refinement_contains_peak. Qed.
Theorem C04_reported_shift : forall n j m t, (up_final n j m t == inject_Z (up_z n j) + inject_Z t / (20#1))%Q.
Proof. exact up_final_eq. Qed.

Print Assumptions C04_zncc_index.
Print Assumptions C04_fsc_phase.
Print Assumptions C04_pcc_index.
Print Assumptions C04_pcc_unwrap.
Print Assumptions C04_mesh.
Print Assumptions C04_reported_shift.
