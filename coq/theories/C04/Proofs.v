From Coq Require Import ZArith QArith Qround Bool List Lia Lqa.
From Acryo Require Import Common.PyNum C05.Model C05.Proofs C04.Model.
From AcryoGen Require Import Anchors_C05.
Local Open Scope Z_scope.
Ltac Zify.zify_post_hook ::= Z.to_euclidean_division_equations.

(** index <-> displacement maps are bijections onto the search range *)
Lemma zncc_lag_spec m j : (0 <= m)%Q -> 0 <= j < zn_n m -> zncc_lag m j = j - Qtrunc m /\ - Qtrunc m <= zncc_lag m j <= Qtrunc m.
Proof.
  intros Hm Hj. destruct (zn_slices_wellformed m Hm) as (_ & Hn & _). unfold zncc_lag, up_z, up_midpoint. rewrite Hn in *. lia.
Qed.

Lemma fsc_lag_spec m i : (0 <= m)%Q -> 0 <= i < fs_n m -> fsc_lag m i = i - Qceiling m /\ - Qceiling m <= fsc_lag m i <= Qceiling m.
Proof.
  intros Hm Hi. unfold fsc_lag, fsc_phase_half, fs_n, fsc_out_len in *. rewrite Qtrunc_Z in *.
  assert (0 <= Qceiling m) by (rewrite <- (Qceiling_Z 0); apply Qceiling_resp_le; exact Hm). lia.
Qed.

Lemma pcc_lag_spec N m j : 1 <= N -> (0 <= m)%Q -> Qtrunc m <= (N - 1) / 2 -> 0 <= j < 2 * Qtrunc m + 1 ->
  pcc_lag N m j = j - Qtrunc m.
Proof.
  intros HN Hm Hfit Hj. unfold pcc_lag, pcc_landscape_center, pcc_landscape_start.
  assert (0 <= Qtrunc m) by (destruct (Qtrunc_bounds m) as [Hb _]; destruct (Hb Hm) as (_ & _ & H); exact H). lia.
Qed.

(** the integer peak is a mesh point and refinement moves by at most one pixel in steps of 1/20 (from C05) *)
Lemma refinement_contains_peak (z : Z) (m : Q) : (0 <= m)%Q -> (- m <= inject_Z z <= m)%Q ->
  let b := mesh_bounds (mesh_left (inject_Z z) m) (mesh_right (inject_Z z) m) in fst b <= 0 <= snd b.
Proof.
  intros Hm [H1 H2]. cbn zeta. unfold mesh_bounds, mesh_left, mesh_right. cbn [fst snd].
  set (L := (- inject_Z z - m)%Q). set (R := (- inject_Z z + m)%Q). split.
  - apply Qceiling_le_Z. change (inject_Z 0) with 0%Q. unfold Qmax. destruct (Qle_bool L (- (1#1))); subst L; lra.
  - apply Zle_Qfloor. change (inject_Z 0) with 0%Q. unfold Qmin. destruct (Qle_bool R (1#1)); subst R; lra.
Qed.
