From Coq Require Import ZArith QArith Qabs Bool List Lia Ring.
From Acryo Require Import Common.PyNum Common.Ring3 C08.Model.
From AcryoGen Require Import Anchors_C08.
Import ListNotations.
Local Open Scope Z_scope.

Ltac Zify.zify_post_hook ::= Z.to_euclidean_division_equations.

(** the index grid is the FFT index order for every size, odd and even, in all three copies *)
Lemma grid_is_fft_index_generic (sub : Z -> Z) (s j : Z) :
  (forall n, sub n = n / 2) -> 1 <= s -> 0 <= j < s -> grid sub false s j = fft_index s j.
Proof.
  intros Hsub Hs Hj. unfold grid, fft_index. rewrite Hsub.
  destruct (Z.lt_ge_cases (j + s / 2) s) as [Hlt|Hge].
  - rewrite Z.mod_small by lia. destruct (Z.leb_spec j ((s - 1) / 2)); lia.
  - assert ((j + s / 2) mod s = j + s / 2 - s) as -> by (symmetry; apply Z.mod_unique with 1; lia).
    destruct (Z.leb_spec j ((s - 1) / 2)); lia.
Qed.

Lemma grid_tilt_ok s j : 1 <= s -> 0 <= j < s -> grid_tilt s j = fft_index s j.
Proof. intros. unfold grid_tilt, grid_uses_fftshift_tilt. apply grid_is_fft_index_generic; auto. Qed.
Lemma grid_backend_ok s j : 1 <= s -> 0 <= j < s -> grid_backend s j = fft_index s j.
Proof. intros. unfold grid_backend, grid_uses_fftshift_backend. apply grid_is_fft_index_generic; auto. Qed.
Lemma grid_utils_ok s j : 1 <= s -> 0 <= j < s -> grid_utils s j = fft_index s j.
Proof. intros. unfold grid_utils, grid_uses_fftshift_utils. apply grid_is_fft_index_generic; auto. Qed.

(** the pre-fix grid (ceil(s/2), fftshift) is wrong for odd sizes *)
Example old_grid_refuted : grid (fun n => (n + 1) / 2) true 5 2 = -3 /\ fft_index 5 2 = 2.
Proof. vm_compute. split; reflexivity. Qed.

Lemma fft_index_range s j : 1 <= s -> 0 <= j < s -> - (s / 2) <= fft_index s j <= (s - 1) / 2.
Proof. intros Hs Hj. unfold fft_index. destruct (Z.leb_spec j ((s - 1) / 2)); lia. Qed.

(** mirror bin: fft_index of (s - j) mod s is the negated index, except at the Nyquist bin of an even axis *)
Lemma fft_index_mirror s j : 1 <= s -> 0 <= j < s -> (2 * j <> s) ->
  fft_index s ((s - j) mod s) = - fft_index s j.
Proof.
  intros Hs Hj Hny. unfold fft_index.
  destruct (Z.eq_dec j 0) as [->|Hj0].
  - rewrite Z.sub_0_r, Z.mod_same by lia. cbn. destruct (Z.leb_spec 0 ((s - 1) / 2)); lia.
  - rewrite Z.mod_small by lia.
    destruct (Z.leb_spec (s - j) ((s - 1) / 2)), (Z.leb_spec j ((s - 1) / 2)); lia.
Qed.

(** geometry, over any commutative ring: with t_i * shape_i = 1 the code's value k . (t * R^T n) equals the
    property's value (R (t * k)) . n, i.e. the physical frequency k / shape mapped by the orientation and
    projected on the plane normal - for EVERY box shape (the cubic restriction is gone) *)
Section Geometry.
Variable A : Type.
Variables (rO rI : A) (radd rmul rsub : A -> A -> A) (ropp : A -> A).
Variable Rth : ring_theory rO rI radd rmul rsub ropp (@eq A).
Add Ring Aring8 : Rth.
Definition vmul (t u : vec A) : vec A := V A (rmul (v0 A t) (v0 A u)) (rmul (v1 A t) (v1 A u)) (rmul (v2 A t) (v2 A u)).

Lemma geometry_adjoint (R : mat A) (k n t : vec A) :
  dot A radd rmul k (vmul t (mv A radd rmul (mT A R) n)) = dot A radd rmul (mv A radd rmul R (vmul t k)) n.
Proof. destruct R, k, n, t. unfold dot, vmul, mv, mT; cbn. ring. Qed.

(** the predicate value changes by the factor (-1)^2 = 1 under k -> -k: the wedge is centrally symmetric and keeps DC *)
Lemma predicate_even (k v w : vec A) :
  rmul (dot A radd rmul (vopp A ropp k) v) (dot A radd rmul (vopp A ropp k) w) = rmul (dot A radd rmul k v) (dot A radd rmul k w).
Proof. destruct k, v, w. unfold dot, vopp; cbn. ring. Qed.

Lemma predicate_dc (v w : vec A) : rmul (dot A radd rmul (V A rO rO rO) v) (dot A radd rmul (V A rO rO rO) w) = rO.
Proof. destruct v, w. unfold dot; cbn. ring. Qed.

End Geometry.

(** bin decisions: DC is always kept, decided bins are symmetric *)
Lemma wedge_bin_dc v0 v1 : wedge_bin v0 v1 (0, 0, 0) = Some true.
Proof.
  unfold wedge_bin, qdot. destruct v0 as [[a b] c], v1 as [[d e] f].
  assert (forall x y z : Q, Qeq_bool (inject_Z 0 * x + inject_Z 0 * y + inject_Z 0 * z) 0 = true) as H.
  { intros. apply Qeq_bool_iff. change (inject_Z 0) with 0%Q. ring. }
  rewrite !H. reflexivity.
Qed.

Lemma qdot_neg (k0 k1 k2 : Z) v : (qdot ((- k0)%Z, (- k1)%Z, (- k2)%Z) v == - qdot (k0, k1, k2) v)%Q.
Proof. destruct v as [[a b] c]. unfold qdot. rewrite !inject_Z_opp. ring. Qed.

Lemma wedge_bin_symmetric v0 v1 (k0 k1 k2 : Z) : wedge_bin v0 v1 (- k0, - k1, - k2) = wedge_bin v0 v1 (k0, k1, k2).
Proof.
  unfold wedge_bin. pose proof (qdot_neg k0 k1 k2 v0) as E0. pose proof (qdot_neg k0 k1 k2 v1) as E1.
  set (a := qdot (k0, k1, k2) v0) in *. set (b := qdot (k0, k1, k2) v1) in *.
  set (a' := qdot (- k0, - k1, - k2) v0) in *. set (b' := qdot (- k0, - k1, - k2) v1) in *.
  assert (Qeq_bool a' 0 = Qeq_bool a 0) as ->.
  { destruct (Qeq_bool a 0) eqn:X.
    - apply Qeq_bool_iff in X. apply Qeq_bool_iff. rewrite E0, X. ring.
    - destruct (Qeq_bool a' 0) eqn:Y; [|reflexivity]. apply Qeq_bool_iff in Y. rewrite E0 in Y.
      assert (a == 0)%Q as Z by (rewrite <- (Qopp_opp a), Y; ring). apply Qeq_bool_iff in Z. congruence. }
  assert (Qeq_bool b' 0 = Qeq_bool b 0) as ->.
  { destruct (Qeq_bool b 0) eqn:X.
    - apply Qeq_bool_iff in X. apply Qeq_bool_iff. rewrite E1, X. ring.
    - destruct (Qeq_bool b' 0) eqn:Y; [|reflexivity]. apply Qeq_bool_iff in Y. rewrite E1 in Y.
      assert (b == 0)%Q as Z by (rewrite <- (Qopp_opp b), Y; ring). apply Qeq_bool_iff in Z. congruence. }
  assert (Qle_bool (Qabs a') tol = Qle_bool (Qabs a) tol) as ->.
  { assert (Qabs a' == Qabs a)%Q as E by (rewrite E0; apply Qabs_opp).
    destruct (Qle_bool (Qabs a) tol) eqn:X.
    - apply Qle_bool_iff in X. apply Qle_bool_iff. rewrite E; exact X.
    - destruct (Qle_bool (Qabs a') tol) eqn:Y; [|reflexivity]. apply Qle_bool_iff in Y. rewrite E in Y. apply Qle_bool_iff in Y. congruence. }
  assert (Qle_bool (Qabs b') tol = Qle_bool (Qabs b) tol) as ->.
  { assert (Qabs b' == Qabs b)%Q as E by (rewrite E1; apply Qabs_opp).
    destruct (Qle_bool (Qabs b) tol) eqn:X.
    - apply Qle_bool_iff in X. apply Qle_bool_iff. rewrite E; exact X.
    - destruct (Qle_bool (Qabs b') tol) eqn:Y; [|reflexivity]. apply Qle_bool_iff in Y. rewrite E in Y. apply Qle_bool_iff in Y. congruence. }
  assert (Qle_bool (a' * b') 0 = Qle_bool (a * b) 0) as ->.
  { assert (a' * b' == a * b)%Q as E by (rewrite E0, E1; ring).
    destruct (Qle_bool (a * b) 0) eqn:X.
    - apply Qle_bool_iff in X. apply Qle_bool_iff. rewrite E; exact X.
    - destruct (Qle_bool (a' * b') 0) eqn:Y; [|reflexivity]. apply Qle_bool_iff in Y. rewrite E in Y. apply Qle_bool_iff in Y. congruence. }
  reflexivity.
Qed.

(** every accepted way of giving a tilt range selects the same model (structural anchor of TomographyInput.__init__) *)
Lemma entry_points_agree : legacy_tilt_range_honoured = true /\ nowedge_is_ones = true /\ union_is_maximum = true /\ factories_as_modelled = true.
Proof. repeat split; reflexivity. Qed.
