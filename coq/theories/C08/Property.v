(** C08 property theorems. *)
From Coq Require Import ZArith QArith Qabs Bool List Ring.
From Acryo Require Import Common.PyNum Common.Ring3 C08.Model C08.Proofs.
From AcryoGen Require Import Anchors_C08.
Local Open Scope Z_scope.

Theorem C08_grid : forall s j, 1 <= s -> 0 <= j < s ->
  grid_tilt s j = fft_index s j /\ grid_backend s j = fft_index s j /\ grid_utils s j = fft_index s j.
Proof. intros s j Hs Hj. split; [apply grid_tilt_ok|split; [apply grid_backend_ok|apply grid_utils_ok]]; assumption. Qed.

Theorem C08_grid_range : forall s j, 1 <= s -> 0 <= j < s -> - (s / 2) <= fft_index s j <= (s - 1) / 2.
Proof. exact fft_index_range. Qed.

Theorem C08_grid_mirror : forall s j, 1 <= s -> 0 <= j < s -> (2 * j <> s) ->
  fft_index s ((s - j) mod s) = - fft_index s j.
Proof. exact fft_index_mirror. Qed.

Theorem C08_scaling_anchor : mask_scaling_tilt = 1 /\ mask_scaling_backend = 1 /\ mask_scaling_utils = 1.
Proof. repeat split; reflexivity. Qed.

Section Geometry.
Variable A : Type.
Variables (rO rI : A) (radd rmul rsub : A -> A -> A) (ropp : A -> A).
Variable Rth : ring_theory rO rI radd rmul rsub ropp (@eq A).
Theorem C08_geometry : forall (R : mat A) (k n t : vec A),
  dot A radd rmul k (vmul A rmul t (mv A radd rmul (mT A R) n)) = dot A radd rmul (mv A radd rmul R (vmul A rmul t k)) n.
Proof. exact (geometry_adjoint A rO rI radd rmul rsub ropp Rth). Qed.
Theorem C08_pred_sym : forall k v w : vec A,
  rmul (dot A radd rmul (vopp A ropp k) v) (dot A radd rmul (vopp A ropp k) w) = rmul (dot A radd rmul k v) (dot A radd rmul k w).
Proof. exact (predicate_even A rO rI radd rmul rsub ropp Rth). Qed.
Theorem C08_dc_value : forall v w : vec A,
  rmul (dot A radd rmul (V A rO rO rO) v) (dot A radd rmul (V A rO rO rO) w) = rO.
Proof. exact (predicate_dc A rO rI radd rmul rsub ropp Rth). Qed.
End Geometry.

Theorem C08_dc : forall v0 v1, wedge_bin v0 v1 (0, 0, 0) = Some true.
Proof. exact wedge_bin_dc. Qed.

Theorem C08_bin_sym : forall v0 v1 k0 k1 k2, wedge_bin v0 v1 (- k0, - k1, - k2) = wedge_bin v0 v1 (k0, k1, k2).
Proof. exact wedge_bin_symmetric. Qed.

Theorem C08_entry_points : legacy_tilt_range_honoured = true /\ nowedge_is_ones = true /\ union_is_maximum = true /\ factories_as_modelled = true.
Proof. exact entry_points_agree. Qed.

Print Assumptions C08_grid.
Print Assumptions C08_grid_range.
Print Assumptions C08_grid_mirror.
Print Assumptions C08_scaling_anchor.
Print Assumptions C08_geometry.
Print Assumptions C08_pred_sym.
Print Assumptions C08_dc_value.
Print Assumptions C08_dc.
Print Assumptions C08_bin_sym.
Print Assumptions C08_entry_points.
