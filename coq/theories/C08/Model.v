(** C08 model: FFT-ordered index grid and the wedge predicate, assembled from generated anchors. *)
From Coq Require Import ZArith QArith Qabs Bool List Lia.
From Acryo Require Import Common.PyNum.
From AcryoGen Require Import Anchors_C08.
Import ListNotations.
Local Open Scope Z_scope.

(** numpy fftfreq(n) * n *)
Definition fft_index (n i : Z) : Z := if i <=? (n - 1) / 2 then i else i - n.

(** what get_indices computes at position j of an axis of length s:
    centred = i - sub(s), then fftshift (roll +s/2) or ifftshift (roll -(s/2)) *)
Definition grid (sub : Z -> Z) (uses_fftshift : bool) (s j : Z) : Z :=
  let src := if uses_fftshift then (j - s / 2) mod s else (j + s / 2) mod s in
  src - sub s.
Definition grid_tilt := grid grid_sub_tilt grid_uses_fftshift_tilt.
Definition grid_backend := grid grid_sub_backend grid_uses_fftshift_backend.
Definition grid_utils := grid grid_sub_utils grid_uses_fftshift_utils.

Definition zrange (n : Z) : list Z := map Z.of_nat (seq 0 (Z.to_nat n)).
Fixpoint zlist_eqb (a b : list Z) : bool :=
  match a, b with [] , [] => true | x :: a', y :: b' => (x =? y) && zlist_eqb a' b' | _, _ => false end.
Definition check_grid_tilt (s : Z) (impl : list Z) : bool := zlist_eqb impl (map (grid_tilt s) (zrange s)).
Definition check_grid_backend (s : Z) (impl : list Z) : bool := zlist_eqb impl (map (grid_backend s) (zrange s)).
Definition check_grid_utils (s : Z) (impl : list Z) : bool := zlist_eqb impl (map (grid_utils s) (zrange s)).

(** wedge predicate for one pair of plane normals.  R is the molecule orientation (row-major, z,y,x),
    v = R^T n / shape (scaling 1) or R^T (n * shape) (scaling 2, the pre-fix code) *)
Definition q3 := (Q * Q * Q)%type.
Definition qnth (l : list Q) (i : nat) : Q := nth i l 0%Q.
Definition znth (l : list Z) (i : nat) : Z := nth i l 0%Z.
Definition rT_apply (R : list Z) (n : q3) : q3 :=
  let '(a, b, c) := n in
  ((inject_Z (znth R 0) * a + inject_Z (znth R 3) * b + inject_Z (znth R 6) * c)%Q,
   (inject_Z (znth R 1) * a + inject_Z (znth R 4) * b + inject_Z (znth R 7) * c)%Q,
   (inject_Z (znth R 2) * a + inject_Z (znth R 5) * b + inject_Z (znth R 8) * c)%Q).
Definition scaled_normal (scaling : Z) (R : list Z) (shape : list Z) (n : list Q) : q3 :=
  let s i := inject_Z (znth shape i) in
  if scaling =? 1 then
    let '(a, b, c) := rT_apply R (qnth n 0, qnth n 1, qnth n 2) in ((a / s 0%nat)%Q, (b / s 1%nat)%Q, (c / s 2%nat)%Q)
  else rT_apply R ((qnth n 0 * s 0%nat)%Q, (qnth n 1 * s 1%nat)%Q, (qnth n 2 * s 2%nat)%Q).
Definition qdot (k : Z * Z * Z) (v : q3) : Q :=
  let '(k0, k1, k2) := k in let '(a, b, c) := v in (inject_Z k0 * a + inject_Z k1 * b + inject_Z k2 * c)%Q.

(** Some true/false: decided; None: within float noise of a plane (skipped) *)
Definition tol : Q := 1 # 10000.
Definition wedge_bin (v0 v1 : q3) (k : Z * Z * Z) : option bool :=
  let d0 := qdot k v0 in let d1 := qdot k v1 in
  if Qeq_bool d0 0 && Qeq_bool d1 0 then Some true
  else if Qle_bool (Qabs d0) tol || Qle_bool (Qabs d1) tol then None
  else Some (Qle_bool (d0 * d1) 0).

Definition union_bin (pairs : list (q3 * q3)) (k : Z * Z * Z) : option bool :=
  fold_right (fun p acc =>
                match wedge_bin (fst p) (snd p) k, acc with
                | Some true, _ => Some true
                | _, Some true => Some true
                | Some false, Some false => Some false
                | _, _ => None
                end) (Some false) pairs.

Definition mask_model (gridf : Z -> Z -> Z) (scaling : Z) (shape : list Z) (R : list Z) (norms : list (list Q * list Q))
  : list (option bool) :=
  let pairs := map (fun p => (scaled_normal scaling R shape (fst p), scaled_normal scaling R shape (snd p))) norms in
  let s i := znth shape i in
  flat_map (fun i => flat_map (fun j => map (fun l =>
     union_bin pairs (gridf (s 0%nat) i, gridf (s 1%nat) j, gridf (s 2%nat) l))
     (zrange (s 2%nat))) (zrange (s 1%nat))) (zrange (s 0%nat)).

Fixpoint agree (m : list (option bool)) (i : list bool) : bool :=
  match m, i with
  | [], [] => true
  | Some b :: m', x :: i' => Bool.eqb b x && agree m' i'
  | None :: m', _ :: i' => agree m' i'
  | _, _ => false
  end.
Definition check_mask_tilt shape R norms impl :=
  union_is_maximum && agree (mask_model grid_tilt mask_scaling_tilt shape R norms) impl.
Definition check_mask_backend shape R norms impl := agree (mask_model grid_backend mask_scaling_backend shape R norms) impl.
Definition check_mask_utils shape R norms impl := agree (mask_model grid_utils mask_scaling_utils shape R norms) impl.
