(** C01 property theorems (any commutative ring: R for SO(3) x R^3, Q/Z for execution). *)
From Coq Require Import ZArith QArith Ring List Bool Lia.
From Acryo Require Import Common.PyNum Common.Ring3 C11.Model C11.Proofs C01.Model C01.Proofs.
From AcryoGen Require Import Anchors_C11 Anchors_C01.

Section Statements.
Variable A : Type.
Variables (rO rI : A) (radd rmul rsub : A -> A -> A) (ropp : A -> A).
Variable Rth : ring_theory rO rI radd rmul rsub ropp (@eq A).

Theorem C01_pose_update : forall s scale v m, orth A rO rI radd rmul (mr A s) ->
  sem A (post_align A radd rmul s scale v m) = pcomp A radd rmul (sem A s) (P A (vscale A rmul scale v) m).
Proof. exact (pose_update A rO rI radd rmul rsub ropp Rth). Qed.

Theorem C01_pose_update_explicit : forall s scale v m, orth A rO rI radd rmul (mr A s) ->
  mp A (post_align A radd rmul s scale v m) = vadd A radd (mp A s) (mv A radd rmul (mr A s) (vscale A rmul scale v)) /\
  mr A (post_align A radd rmul s scale v m) = mm A radd rmul (mr A s) m.
Proof. exact (pose_update_explicit A rO rI radd rmul rsub ropp Rth). Qed.

Theorem C01_recovers_truth : forall (V : Type) (T Tmpl : vec A -> V) (a b F : pose A),
  (forall g g' : pose A, (forall u, T (act A radd rmul g u) = Tmpl u) -> (forall u, T (act A radd rmul g' u) = Tmpl u) ->
                         forall u, act A radd rmul g u = act A radd rmul g' u) ->
  (forall u, T (act A radd rmul b u) = Tmpl u) ->
  (forall u, T (act A radd rmul a (act A radd rmul F u)) = Tmpl u) ->
  forall u, act A radd rmul (pcomp A radd rmul a F) u = act A radd rmul b u.
Proof. exact (recovers_truth A rO rI radd rmul rsub ropp Rth). Qed.

Theorem C01_units : forall (p : vec A) (R : mat A) (sc : A) (s ppx : vec A),
  p = vscale A rmul sc ppx ->
  vscale A rmul sc (vadd A radd ppx (mv A radd rmul R s)) = vadd A radd p (mv A radd rmul R (vscale A rmul sc s)).
Proof. exact (units A rO rI radd rmul rsub ropp Rth). Qed.

Theorem C01_molecule_displacement : forall s scale v m, orth A rO rI radd rmul (mr A s) ->
  mv A radd rmul (mT A (mr A s)) (vsub A rsub (mp A (post_align A radd rmul s scale v m)) (mp A s)) = vscale A rmul scale v.
Proof. exact (displacement_in_molecule_frame A rO rI radd rmul rsub ropp Rth). Qed.
End Statements.

(** the search range reaches every alignment model in pixels: nanometres divided by the scale exactly once, whichever
    loader entry point is used (align with one or several templates, align_multi_templates, align_no_template) *)
Theorem C01_search_range_units : forall entry, (0 <= entry <= 3)%Z -> max_shift_divisions entry = 1%Z.
Proof. intros entry H. assert (entry = 0 \/ entry = 1 \/ entry = 2 \/ entry = 3)%Z as [->|[->|[->| ->]]] by (destruct H; clear - H H0; Lia.lia); reflexivity. Qed.
Print Assumptions C01_search_range_units.

(** the same through a loader group: every group is searched over the range in nanometres divided by that group's scale exactly once
    (the range itself is bound once, outside the loop over the groups) *)
Theorem C01_group_search_range_units : forall entry, (0 <= entry <= 2)%Z -> group_max_shift_divisions entry = 1%Z.
Proof. intros entry H. assert (entry = 0 \/ entry = 1 \/ entry = 2)%Z as [->|[->| ->]] by (destruct H; clear - H H0; Lia.lia); reflexivity. Qed.
Print Assumptions C01_group_search_range_units.

Print Assumptions C01_pose_update.
Print Assumptions C01_pose_update_explicit.
Print Assumptions C01_recovers_truth.
Print Assumptions C01_units.
Print Assumptions C01_molecule_displacement.
