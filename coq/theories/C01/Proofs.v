From Coq Require Import ZArith QArith Ring List Bool.
From Acryo Require Import Common.PyNum Common.Ring3 C11.Model C11.Proofs C01.Model.
From AcryoGen Require Import Anchors_C11 Anchors_C01.

Section Proofs.
Variable A : Type.
Variables (rO rI : A) (radd rmul rsub : A -> A -> A) (ropp : A -> A).
Variable Rth : ring_theory rO rI radd rmul rsub ropp (@eq A).
Add Ring Aring3 : Rth.
Local Notation mv' := (mv A radd rmul).
Local Notation mm' := (mm A radd rmul).
Local Notation vadd' := (vadd A radd).
Local Notation vscale' := (vscale A rmul).
Local Notation P' := (P A). Local Notation pcomp' := (pcomp A radd rmul). Local Notation act' := (act A radd rmul).
Local Notation sem' := (sem A).
Local Notation orth' := (orth A rO rI radd rmul).
Local Notation post' := (post_align A radd rmul).

(** the aligned pose is the old pose composed (on the right) with the rigid motion (s*scale, q) *)
Lemma pose_update s scale v m : orth' (mr A s) ->
  sem' (post' s scale v m) = pcomp' (sem' s) (P' (vscale' scale v) m).
Proof.
  intro H. unfold post_align, post_align_uses_linear_transform, post_align_multi_templates_uses_linear_transform. cbn [andb].
  apply (linear_transform_spec A rO rI radd rmul rsub ropp Rth); exact H.
Qed.

(** explicit form: position p + R (scale s), orientation R q *)
Lemma pose_update_explicit s scale v m : orth' (mr A s) ->
  mp A (post' s scale v m) = vadd' (mp A s) (mv' (mr A s) (vscale' scale v)) /\
  mr A (post' s scale v m) = mm' (mr A s) m.
Proof.
  intro H. pose proof (pose_update s scale v m H) as E. split.
  - apply (f_equal (pt A)) in E. exact E.
  - apply (f_equal (pm A)) in E. exact E.
Qed.

(** sampling semantics: sub-volume of pose a is S(u) = T(act a u).  If the tomogram holds the template at pose b
    (T(act b u) = Tmpl u), the alignment result F satisfies S(act F u) = Tmpl u, and the template pins its pose
    (non-degeneracy), then the updated pose acts exactly like b. *)
Lemma recovers_truth (V : Type) (T Tmpl : vec A -> V) (a b F : pose A) :
  (forall g g' : pose A, (forall u, T (act' g u) = Tmpl u) -> (forall u, T (act' g' u) = Tmpl u) -> forall u, act' g u = act' g' u) ->
  (forall u, T (act' b u) = Tmpl u) ->
  (forall u, T (act' a (act' F u)) = Tmpl u) ->
  forall u, act' (pcomp' a F) u = act' b u.
Proof.
  intros Hnd Hb HF u. apply (Hnd (pcomp' a F) b); [|exact Hb].
  intro w. rewrite (act_pcomp A rO rI radd rmul rsub ropp Rth). apply HF.
Qed.

(** units: working in pixels and converting back is the same as updating the nm position by scale*s *)
Lemma units (p : vec A) (R : mat A) (sc : A) (s : vec A) (ppx : vec A) :
  p = vscale' sc ppx ->
  vscale' sc (vadd' ppx (mv' R s)) = vadd' p (mv' R (vscale' sc s)).
Proof. intros ->. destruct ppx, R, s. unfold vscale, vadd, mv; cbn. apply vec_eq; ring. Qed.

(** displacement seen from the input molecule's own frame is exactly scale*s (hence bounded by max_shifts) *)
Lemma displacement_in_molecule_frame s scale v m : orth' (mr A s) ->
  mv' (mT A (mr A s)) (vsub A rsub (mp A (post' s scale v m)) (mp A s)) = vscale' scale v.
Proof.
  intros H. destruct (pose_update_explicit s scale v m H) as [E1 _]. rewrite E1.
  destruct H as [_ H2].
  assert (forall p w, vsub A rsub (vadd' p w) p = w) as Hs.
  { intros [] []. unfold vsub, vadd; cbn. apply vec_eq; ring. }
  rewrite Hs. rewrite <- (mv_mm A rO rI radd rmul rsub ropp Rth). rewrite H2.
  apply (mv_I A rO rI radd rmul rsub ropp Rth).
Qed.
End Proofs.

(** the defect the unfixed code had: rotating the shift by the found rotation is a different pose unless q s = s *)
Example rotated_shift_differs :
  let R := M Z 0%Z (-1)%Z 0%Z 1%Z 0%Z 0%Z 0%Z 0%Z 1%Z in   (* 90 degrees about the third axis *)
  mv Z Z.add Z.mul R (V Z 0%Z 1%Z 0%Z) <> V Z 0%Z 1%Z 0%Z.
Proof. vm_compute. discriminate. Qed.
