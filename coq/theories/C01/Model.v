(** C01 model: how an alignment result (shift in pixels, rotation) updates a molecule. *)
From Coq Require Import ZArith QArith Qabs Bool List.
From Acryo Require Import Common.PyNum Common.Ring3 C11.Model.
From AcryoGen Require Import Anchors_C11 Anchors_C01.
Import ListNotations.

Section Generic.
Variable A : Type.
Variables (radd rmul : A -> A -> A).
(** _post_align: local_shifts = loc_shift * scale (nm), then Molecules.linear_transform *)
Definition post_align (s : mpose A) (scale : A) (shift_px : vec A) (m : mat A) : mpose A :=
  if andb post_align_uses_linear_transform post_align_multi_templates_uses_linear_transform
  then step A radd rmul s (OLin A (vscale A rmul scale shift_px) m) else s.
End Generic.

Definition check_post (p0 : vec Q) (r0 : mat Q) (scale : Q) (s : vec Q) (q : mat Q) (score : Q)
           (pos : vec Q) (m : mat Q) (fshift : vec Q) (frot : mat Q) (fscore : Q) : bool :=
  let f := post_align Q Qplus Qmult (MP Q p0 r0) scale s q in
  (* the scale factor in the code is the generated anchor *)
  let snm := V Q (post_shift_nm (v0 Q s) scale) (post_shift_nm (v1 Q s) scale) (post_shift_nm_multi (v2 Q s) scale) in
  feature_list_layout &&
  vclose pos (mp Q f) && mclose m (mr Q f) &&
  vclose snm (vscale Q Qmult scale s) &&
  Qclose (6#1000) (v0 Q fshift) (v0 Q snm) && Qclose (6#1000) (v1 Q fshift) (v1 Q snm) && Qclose (6#1000) (v2 Q fshift) (v2 Q snm) &&
  mclose frot q && Qeq_bool fscore score.
