(** C03: "... refer to the i-th molecule of that loader and to the tomogram that molecule was registered with",
    for every history of add_tomogram / molecule selection on a BatchLoader. *)
From Coq Require Import ZArith List Bool.
From Acryo Require Import C03.Registry C03.RegistryProofs.
From AcryoGen Require Import Anchors_C03.
Import ListNotations.
Local Open Scope Z_scope.

Theorem C03_auto_id_unused : forall r, ~ In (auto_id r) (keys r).
Proof. exact auto_id_fresh. Qed.
Print Assumptions C03_auto_id_unused.

Theorem C03_registry_invariant : forall ops, explicit_fresh (Batch [] []) ops -> consistent (run (Batch [] []) ops).
Proof. intros ops H. apply run_consistent; [exact empty_consistent | exact H]. Qed.
Print Assumptions C03_registry_invariant.

Theorem C03_registry_step : forall b o, consistent b ->
  (match o with OAdd (Some i) _ _ => ~ In i (keys (images b)) | _ => True end) -> consistent (step b o).
Proof. exact step_consistent. Qed.
Print Assumptions C03_registry_step.
