(** C03 model: loader histories over row tables.  row = (tag, (image id, v)). *)
From Coq Require Import ZArith List Bool Lia Permutation.
From Acryo Require Import Common.PyNum Common.Table.
From AcryoGen Require Import Anchors_C03.
Import ListNotations.
Local Open Scope Z_scope.

Definition row := (Z * (Z * Z))%type.
Definition tag (r : row) : Z := fst r.
Definition rid (r : row) : Z := fst (snd r).
Definition rv (r : row) : Z := snd (snd r).
Definition d0 : row := (-1, (-1, -1)).

Inductive op :=
| OFilter (a b : Z)          (* tag mod a = b *)
| OHead (n : nat) | OTail (n : nat)
| OSort (desc : bool)        (* by feature v; order among ties is polars' business: checked relation *)
| OSample (n : nat)          (* checked relation: n distinct rows of the input *)
| OSubset (idx : list nat).  (* replace(molecules=molecules.subset(idx)) *)

Fixpoint zlist_eqb (a b : list Z) : bool :=
  match a, b with [] , [] => true | x :: a', y :: b' => (x =? y) && zlist_eqb a' b' | _, _ => false end.
Definition row_eqb (a b : row) : bool := (tag a =? tag b) && (rid a =? rid b) && (rv a =? rv b).
Fixpoint rows_eqb (a b : list row) : bool :=
  match a, b with [] , [] => true | x :: a', y :: b' => row_eqb x y && rows_eqb a' b' | _, _ => false end.
Fixpoint mem_row (r : row) (l : list row) : bool :=
  match l with [] => false | x :: t => row_eqb r x || mem_row r t end.
Fixpoint remove1 (r : row) (l : list row) : list row :=
  match l with [] => [] | x :: t => if row_eqb r x then t else x :: remove1 r t end.
(** a is a sub-multiset of b *)
Fixpoint submset (a b : list row) : bool :=
  match a with [] => true | x :: t => mem_row x b && submset t (remove1 x b) end.
Definition is_perm (a b : list row) : bool := submset a b && (length a =? length b)%nat.
Fixpoint sorted_v (desc : bool) (l : list row) : bool :=
  match l with
  | x :: ((y :: _) as t) => (if desc then rv y <=? rv x else rv x <=? rv y) && sorted_v desc t
  | _ => true
  end.

(** deterministic part of an operation; for sort/sample the observed rows are validated against the relation *)
Definition step (prev : list row) (o : op) (observed : list row) : option (list row) :=
  match o with
  | OFilter a b => Some (filter (fun r => (tag r) mod a =? b) prev)
  | OHead n => Some (head_rows row n prev)
  | OTail n => Some (tail_rows row n prev)
  | OSubset idx => Some (pick_rows row idx prev d0)
  | OSort desc => if is_perm observed prev && sorted_v desc observed then Some observed else None
  | OSample n => if submset observed prev && (length observed =? n)%nat then Some observed else None
  end.

(** tasks of a batch loader: group by image id (first appearance), scatter back (generated fact) or concat *)
Definition batch_task_tags (l : list row) : list Z :=
  if batch_tasks_scattered then map (fun i => tag (task_row row rid l i d0)) (seq 0 (length l))
  else map tag (concat_tasks row rid l).

Record obs := Obs {
  o_rows : list row;        (* tag / image-id / v columns of the derived loader, row order *)
  o_loaded : list Z;        (* tag decoded from the voxel each loading task returned *)
  o_applied : list Z;       (* tag decoded from row i of loader.apply(max) *)
  o_gkeys : list Z;         (* keys of loader.groupby("v") in iteration order *)
  o_gtags : list (list Z);  (* tags of each group's molecules *)
  o_gloaded : list (list Z);(* tags decoded from each group's loaded voxels *)
  o_pure : bool }.          (* every previously created loader / molecules object is unchanged *)

Fixpoint zll_eqb (a b : list (list Z)) : bool :=
  match a, b with [] , [] => true | x :: a', y :: b' => zlist_eqb x y && zll_eqb a' b' | _, _ => false end.

Definition check_obs (expected : list row) (ob : obs) : bool :=
  rows_eqb (o_rows ob) expected &&
  zlist_eqb (o_loaded ob) (batch_task_tags expected) &&
  zlist_eqb (o_loaded ob) (map tag expected) &&
  zlist_eqb (o_applied ob) (map tag expected) &&
  zlist_eqb (o_gkeys ob) (keys row rv expected) &&
  zll_eqb (o_gtags ob) (map (fun g => map tag (snd g)) (groups row rv expected)) &&
  zll_eqb (o_gloaded ob) (o_gtags ob) &&
  o_pure ob.

Fixpoint check_hist (cur : list row) (h : list (op * obs)) : bool :=
  match h with
  | [] => true
  | (o, ob) :: t =>
      match step cur o (o_rows ob) with
      | Some nxt => check_obs nxt ob && check_hist nxt t
      | None => false
      end
  end.
