(** C03, apply(): the result table is built column by column - one column per function, each column holding that function's value
    for molecule 0, 1, ... in molecule order (generated facts for LoaderBase.apply and LoaderGroup.apply).  Hence entry (i, j) is
    function j applied to molecule i, for every number of molecules and functions (square tables included). *)
From Coq Require Import List Arith Lia.
Import ListNotations.

Section ApplyTable.
Variables (Mol Val : Type).
Variable dflt : Val.

(** the code: for fn in funcs: tasks = mapping tasks of fn over the molecules; table = one column per entry of that list *)
Definition columns (funcs : list (Mol -> Val)) (mols : list Mol) : list (list Val) :=
  map (fun f => map f mols) funcs.

Definition entry (cols : list (list Val)) (i j : nat) : Val := nth i (nth j cols []) dflt.

Lemma nth_map_in {X Y} (f : X -> Y) (l : list X) (k : nat) (dx : X) (dy : Y) :
  k < length l -> nth k (map f l) dy = f (nth k l dx).
Proof.
  revert k; induction l as [|x l IH]; intros k Hk; cbn in *; [lia|].
  destruct k as [|k]; [reflexivity|]. apply IH; lia.
Qed.

Theorem entry_is_function_of_molecule funcs mols i j (f0 : Mol -> Val) (m0 : Mol) :
  i < length mols -> j < length funcs ->
  entry (columns funcs mols) i j = (nth j funcs f0) (nth i mols m0).
Proof.
  intros Hi Hj. unfold entry, columns.
  rewrite (nth_map_in (fun f => map f mols) funcs j f0 []) by exact Hj.
  apply nth_map_in; exact Hi.
Qed.

Theorem table_shape funcs mols :
  length (columns funcs mols) = length funcs /\ Forall (fun c => length c = length mols) (columns funcs mols).
Proof.
  unfold columns; split; [apply map_length|].
  apply Forall_forall; intros c Hc. apply in_map_iff in Hc. destruct Hc as [f [<- _]]. apply map_length.
Qed.

End ApplyTable.
