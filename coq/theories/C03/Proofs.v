From Coq Require Import ZArith List Bool Lia Permutation.
From Acryo Require Import Common.PyNum Common.Table C03.Model.
From AcryoGen Require Import Anchors_C03.
Import ListNotations.
Local Open Scope Z_scope.

Lemma map_nth_seq_id {A} (l : list A) (d : A) : map (fun i => nth i l d) (seq 0 (length l)) = l.
Proof.
  apply nth_ext with (d := d) (d' := d).
  - rewrite map_length, seq_length. reflexivity.
  - intros n Hn. rewrite map_length, seq_length in Hn.
    rewrite nth_indep with (d' := nth 0 l d) by (rewrite map_length, seq_length; exact Hn).
    change (nth 0 l d) with ((fun i => nth i l d) 0%nat). rewrite map_nth. rewrite seq_nth by exact Hn. reflexivity.
Qed.

Lemma batch_tasks_are_rows l : batch_task_tags l = map tag l.
Proof.
  unfold batch_task_tags, batch_tasks_scattered.
  rewrite <- (map_nth_seq_id l d0) at 2. rewrite map_map. apply map_ext_in.
  intros i Hi. apply in_seq in Hi. rewrite task_row_aligned by lia. reflexivity.
Qed.

Lemma groups_partition_all (key : row -> Z) (l : list row) :
  Permutation (concat_tasks row key l) l /\ NoDup (map fst (groups row key l)) /\
  (forall k g r, In (k, g) (groups row key l) -> In r g -> key r = k /\ In r l) /\
  (forall r, In r l -> exists g, In (key r, g) (groups row key l) /\ In r g).
Proof.
  split; [apply groups_partition|]. split; [apply groups_keys_distinct|]. split.
  - intros k g r H1 H2. eapply groups_constant_key; eauto.
  - apply groups_complete.
Qed.

Lemma derived_exact (l : list row) n :
  length (head_rows row n l) = Nat.min n (length l) /\ length (tail_rows row n l) = Nat.min n (length l) /\
  (exists rest, l = head_rows row n l ++ rest) /\ (exists pre, l = pre ++ tail_rows row n l).
Proof.
  split; [apply head_length|]. split; [apply tail_length|]. split; [apply head_tail_sublist|].
  exists (firstn (length l - n) l). unfold tail_rows. symmetry. apply firstn_skipn.
Qed.

Lemma old_concat_refuted : exists l : list row, map tag (concat_tasks row rid l) <> map tag l.
Proof. exists [(10, (1, 0)); (11, (0, 0)); (12, (1, 0)); (13, (0, 0))]. vm_compute. discriminate. Qed.

Example history_example :
  check_hist [(1, (0, 2)); (2, (1, 0)); (3, (0, 1))]
    [(OSort false, Obs [(2, (1, 0)); (3, (0, 1)); (1, (0, 2))] [2; 3; 1] [2; 3; 1] [0; 1; 2] [[2]; [3]; [1]] [[2]; [3]; [1]] true)] = true.
Proof. vm_compute. reflexivity. Qed.
