(** C03 property theorems about apply(). *)
From Coq Require Import List Arith.
From Acryo Require Import C03.ApplyTable.
From AcryoGen Require Import Anchors_C03.
Import ListNotations.

(** both apply() implementations build their table as the model says (generated facts) *)
Theorem C03_apply_as_modelled : apply_table_is_list_of_columns = true /\ group_apply_table_is_named_columns = true.
Proof. split; reflexivity. Qed.

(** entry (i, j) of the table is function j of molecule i - for every number of molecules and of functions, equal numbers included *)
Theorem C03_apply_rows_are_molecules : forall (Mol Val : Type) (dflt : Val) funcs mols i j (f0 : Mol -> Val) (m0 : Mol),
  i < length mols -> j < length funcs ->
  entry Val dflt (columns Mol Val funcs mols) i j = (nth j funcs f0) (nth i mols m0).
Proof. exact entry_is_function_of_molecule. Qed.

Theorem C03_apply_table_shape : forall (Mol Val : Type) (funcs : list (Mol -> Val)) (mols : list Mol),
  length (columns Mol Val funcs mols) = length funcs /\ Forall (fun c => length c = length mols) (columns Mol Val funcs mols).
Proof. exact table_shape. Qed.

Print Assumptions C03_apply_as_modelled.
Print Assumptions C03_apply_rows_are_molecules.
Print Assumptions C03_apply_table_shape.
