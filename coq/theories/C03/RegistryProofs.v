From Coq Require Import ZArith List Bool Lia FinFun.
From Acryo Require Import C03.Registry.
From AcryoGen Require Import Anchors_C03.
Import ListNotations.
Local Open Scope Z_scope.

Lemma memz_In k l : memz k l = true <-> In k l.
Proof.
  induction l as [|x l IH]; cbn [memz In]; [split; [discriminate | tauto]|].
  rewrite orb_true_iff, Z.eqb_eq, IH. split; intros [H|H]; auto.
Qed.

(** the automatic id is never one that is in use: among length+1 consecutive candidates one is free (pigeonhole) *)
Lemma fresh_from_spec fuel n ids :
  (forall j, 0 <= j < Z.of_nat fuel -> In (n + j) ids) \/ ~ In (fresh_from fuel n ids) ids.
Proof.
  revert n. induction fuel as [|f IH]; intro n; cbn [fresh_from].
  - left. intros j Hj. lia.
  - destruct (memz n ids) eqn:E.
    + destruct (IH (n + 1)) as [Hall | Hfree]; [left | right; exact Hfree].
      intros j Hj. destruct (Z.eq_dec j 0) as [-> | Hnz]; [rewrite Z.add_0_r; apply memz_In; exact E|].
      replace (n + j) with (n + 1 + (j - 1)) by lia. apply Hall. lia.
    + right. intro H. apply memz_In in H. congruence.
Qed.

Lemma seq_Z_NoDup n k : NoDup (map (fun j => n + Z.of_nat j) (seq 0 k)).
Proof.
  apply FinFun.Injective_map_NoDup; [|apply seq_NoDup]. intros a b H. lia.
Qed.

Lemma auto_id_fresh r : ~ In (auto_id r) (keys r).
Proof.
  unfold auto_id, auto_id_skips_used. set (n := Z.of_nat (length r)).
  destruct (fresh_from_spec (S (length r)) n (keys r)) as [Hall | Hfree]; [|exact Hfree].
  exfalso.
  assert (incl (map (fun j => n + Z.of_nat j) (seq 0 (S (length r)))) (keys r)) as Hincl.
  { intros x Hx. apply in_map_iff in Hx. destruct Hx as (j & <- & Hj). apply in_seq in Hj. apply Hall. lia. }
  pose proof (NoDup_incl_length (seq_Z_NoDup n (S (length r))) Hincl) as Hlen.
  rewrite map_length, seq_length in Hlen. unfold keys in Hlen. rewrite map_length in Hlen. lia.
Qed.

Lemma lookup_remove_other k k' r : k <> k' -> lookup k (remove_key k' r) = lookup k r.
Proof.
  intro Hne. induction r as [|[a v] r IH]; cbn [remove_key lookup]; [reflexivity|].
  destruct (k' =? a) eqn:E1.
  - apply Z.eqb_eq in E1. subst a. destruct (k =? k') eqn:E2; [apply Z.eqb_eq in E2; congruence | exact IH].
  - cbn [lookup]. rewrite IH. reflexivity.
Qed.
Lemma lookup_assign_same k v r : lookup k (assign k v r) = Some v.
Proof. unfold assign. cbn [lookup]. rewrite Z.eqb_refl. reflexivity. Qed.
Lemma lookup_assign_other k k' v r : k <> k' -> lookup k (assign k' v r) = lookup k r.
Proof. intro H. unfold assign. cbn [lookup]. destruct (k =? k') eqn:E; [apply Z.eqb_eq in E; congruence|]. apply lookup_remove_other. exact H. Qed.
Lemma lookup_Some_key k v r : lookup k r = Some v -> In k (keys r).
Proof.
  induction r as [|[a w] r IH]; cbn [lookup keys map fst]; [discriminate|].
  destruct (k =? a) eqn:E; [apply Z.eqb_eq in E; intros _; left; congruence | intro H; right; apply IH; exact H].
Qed.
Lemma lookup_filter (f : Z -> bool) k r : f k = true -> lookup k (filter (fun kv => f (fst kv)) r) = lookup k r.
Proof.
  intro Hf. induction r as [|[a w] r IH]; cbn [filter lookup fst]; [reflexivity|].
  destruct (f a) eqn:Ea; cbn [lookup].
  - destruct (k =? a); [reflexivity | exact IH].
  - destruct (k =? a) eqn:E; [apply Z.eqb_eq in E; congruence | exact IH].
Qed.
Lemma In_select {A} (sel : list bool) (l : list A) x : In x (select sel l) -> In x l.
Proof.
  revert l. induction sel as [|b s IH]; intros [|y l]; cbn [select]; try tauto; [cbn; tauto|].
  destruct b; cbn [In]; intros H; [destruct H as [->|H]; [left; reflexivity | right; apply IH; exact H] | right; apply IH; exact H].
Qed.

(** one step preserves "every molecule is served by the tomogram it was registered with" *)
Lemma step_consistent b o :
  consistent b -> (match o with OAdd (Some i) _ _ => ~ In i (keys (images b)) | _ => True end) -> consistent (step b o).
Proof.
  intros Hc Hfresh. destruct o as [e tomo n | sel]; unfold step.
  - unfold add_registers_under_id. set (id := match e with Some i => i | None => auto_id (images b) end).
    assert (~ In id (keys (images b))) as Hid by (destruct e; [exact Hfresh | apply auto_id_fresh]).
    intros m Hm. cbn [mols images] in *. apply in_app_or in Hm. destruct Hm as [Hm | Hm].
    + assert (m_id m <> id) as Hne by (intro E; apply Hid; rewrite <- E; eapply lookup_Some_key; apply Hc; exact Hm).
      rewrite lookup_assign_other by exact Hne. apply Hc. exact Hm.
    + apply repeat_spec in Hm. subst m. cbn [m_id m_tomo]. apply lookup_assign_same.
  - unfold replace_drops_unused_images. intros m Hm. cbn [mols images] in *.
    rewrite (lookup_filter (fun k => memz k (map m_id (select sel (mols b))))).
    + apply Hc. eapply In_select. exact Hm.
    + apply memz_In. apply in_map. exact Hm.
Qed.

(** every reachable batch: any sequence of add_tomogram (automatic or unused explicit ids) and molecule selections *)
Theorem run_consistent ops : forall b, consistent b -> explicit_fresh b ops -> consistent (run b ops).
Proof.
  induction ops as [|o ops IH]; intros b Hc Hf; cbn [run fold_left]; [exact Hc|].
  destruct Hf as [Ho Hrest]. apply IH; [apply step_consistent; assumption | exact Hrest].
Qed.

Lemma empty_consistent : consistent (Batch [] []).
Proof. intros m []. Qed.

(** without the "skip used ids" loop the invariant fails: add, add, drop the first, add *)
Example naive_id_refuted :
  let naive r := Z.of_nat (length r) in
  let b := Batch [(1, 11); (0, 10)] [Mol 1 11] in          (* tomograms 0 and 1 were added, then all molecules of 0 were filtered out ... *)
  let b' := Batch (filter (fun kv => memz (fst kv) [1]) (images b)) (mols b) in
  naive (images b') = 1 /\ lookup 1 (assign (naive (images b')) 12 (images b')) = Some 12.   (* ... the next automatic id would overwrite tomogram 1 *)
Proof. cbn. split; reflexivity. Qed.

Example registry_example :
  let b := run (Batch [] []) [OAdd None 10 2; OAdd (Some 5) 11 1; OKeep [false; false; true]; OAdd None 12 1; OAdd None 13 2] in
  map m_id (mols b) = [5; 1; 2; 2] /\ map m_tomo (mols b) = [11; 12; 13; 13] /\ sort_kv (images b) = [(1, 12); (2, 13); (5, 11)].
Proof. vm_compute. repeat split. Qed.
