(** C03 property theorems (over every table = every history, since no invariant on the table is needed). *)
From Coq Require Import ZArith List Bool Lia Permutation.
From Acryo Require Import Common.PyNum Common.Table C03.Model C03.Proofs.
From AcryoGen Require Import Anchors_C03.
Import ListNotations.
Local Open Scope Z_scope.

(** task i loads molecule i from the tomogram molecule i was registered with, for every ordering of image ids *)
Theorem C03_rows_aligned : forall (l : list row) (i : nat), (i < length l)%nat ->
  task_row row rid l i d0 = nth i l d0.
Proof. intros. apply task_row_aligned; assumption. Qed.

Theorem C03_batch_tasks : forall l, batch_task_tags l = map tag l.
Proof. exact batch_tasks_are_rows. Qed.

(** grouping partitions the molecules without loss or duplication, each group has one key, keys are distinct *)
Theorem C03_groups_partition : forall (key : row -> Z) (l : list row),
  Permutation (concat_tasks row key l) l /\ NoDup (map fst (groups row key l)) /\
  (forall k g r, In (k, g) (groups row key l) -> In r g -> key r = k /\ In r l) /\
  (forall r, In r l -> exists g, In (key r, g) (groups row key l) /\ In r g).
Proof. exact groups_partition_all. Qed.

(** derived loaders contain exactly the selected rows *)
Theorem C03_derived_exact : forall (l : list row) n,
  length (head_rows row n l) = Nat.min n (length l) /\ length (tail_rows row n l) = Nat.min n (length l) /\
  (exists rest, l = head_rows row n l ++ rest) /\ (exists pre, l = pre ++ tail_rows row n l).
Proof. exact derived_exact. Qed.

(** the pre-fix behaviour (concatenated per-tomogram task lists) violates row alignment on interleaved ids *)
Theorem C03_concat_order_refuted_for_old_code :
  exists l : list row, map tag (concat_tasks row rid l) <> map tag l.
Proof. exact old_concat_refuted. Qed.

(** per-tomogram loaders of a batch and loaders derived by replace() carry every loader option (interpolation order, scale,
    output shape, corner_safe) of the loader they come from (generated call-binding facts) *)
Theorem C03_options_forwarded : accessor_forwards_options = true /\ accessor_getitem_forwards_options = true /\
  single_replace_forwards_options = true /\ batch_replace_forwards_options = true /\ mock_replace_forwards_options = true.
Proof. repeat split; reflexivity. Qed.

Print Assumptions C03_rows_aligned.
Print Assumptions C03_batch_tasks.
Print Assumptions C03_groups_partition.
Print Assumptions C03_derived_exact.
Print Assumptions C03_concat_order_refuted_for_old_code.
