(** C03: the tomogram registry of a BatchLoader as a state machine.
    images : id -> tomogram (a dict, modelled as an association list without duplicate keys once the invariant holds);
    every molecule carries the id it was registered under.  Tomograms and molecules are abstracted to integer tags. *)
From Coq Require Import ZArith List Bool Lia.
From AcryoGen Require Import Anchors_C03.
Import ListNotations.
Local Open Scope Z_scope.

Definition registry := list (Z * Z).          (* (image id, tomogram tag), newest binding first *)
Record mol := Mol { m_id : Z; m_tomo : Z }.   (* image-id feature, tag of the tomogram it was added with *)
Record batch := Batch { images : registry; mols : list mol }.

Fixpoint lookup (k : Z) (r : registry) : option Z :=
  match r with [] => None | (k', v) :: t => if k =? k' then Some v else lookup k t end.
Definition keys (r : registry) : list Z := map fst r.
Fixpoint memz (k : Z) (l : list Z) : bool := match l with [] => false | x :: t => (k =? x) || memz k t end.
Fixpoint remove_key (k : Z) (r : registry) : registry :=
  match r with [] => [] | (k', v) :: t => if k =? k' then remove_key k t else (k', v) :: remove_key k t end.
(* dict assignment: an existing key keeps its place in a Python dict; only the mapping matters here *)
Definition assign (k v : Z) (r : registry) : registry := (k, v) :: remove_key k r.

(** add_tomogram(image_id=None): len(images), then count up while the id is taken *)
Fixpoint fresh_from (fuel : nat) (n : Z) (ids : list Z) : Z :=
  match fuel with O => n | S f => if memz n ids then fresh_from f (n + 1) ids else n end.
Definition auto_id (r : registry) : Z :=
  let n := Z.of_nat (length r) in
  if auto_id_skips_used then fresh_from (S (length r)) n (keys r) else n.

Inductive op :=
| OAdd (explicit : option Z) (tomo : Z) (n : nat)      (* add_tomogram(image, molecules (n of them), image_id) *)
| OKeep (sel : list bool).                             (* replace(molecules=subset): filter / head / tail / sample / sort-free subset *)

Fixpoint select {A} (sel : list bool) (l : list A) : list A :=
  match sel, l with b :: s', x :: l' => if b then x :: select s' l' else select s' l' | _, _ => [] end.

Definition step (b : batch) (o : op) : batch :=
  match o with
  | OAdd e tomo n =>
      let id := match e with Some i => i | None => auto_id (images b) end in
      if add_registers_under_id
      then Batch (assign id tomo (images b)) (mols b ++ repeat (Mol id tomo) n)
      else b
  | OKeep sel =>
      let ms := select sel (mols b) in
      if replace_drops_unused_images
      then Batch (filter (fun kv => memz (fst kv) (map m_id ms)) (images b)) ms
      else Batch (images b) ms
  end.
Definition run (b : batch) (ops : list op) : batch := fold_left step ops b.

(** every molecule is served by the tomogram it was registered with *)
Definition consistent (b : batch) : Prop := forall m, In m (mols b) -> lookup (m_id m) (images b) = Some (m_tomo m).
(** explicit ids must be unused at the time of the call (re-using a live id replaces that tomogram: the caller's decision) *)
Fixpoint explicit_fresh (b : batch) (ops : list op) : Prop :=
  match ops with
  | [] => True
  | o :: t => (match o with OAdd (Some i) _ _ => ~ In i (keys (images b)) | _ => True end) /\ explicit_fresh (step b o) t
  end.

(** ---- executable check for the correspondence ---- *)
Fixpoint zeqb_list (a b : list Z) : bool :=
  match a, b with [], [] => true | x :: a', y :: b' => (x =? y) && zeqb_list a' b' | _, _ => false end.
Definition mol_ids (b : batch) : list Z := map m_id (mols b).
Definition mol_tomos (b : batch) : list Z := map m_tomo (mols b).
(* observed: sorted (id, tag) pairs of batch.images, image-id of every molecule, and the tag of the tomogram each molecule is cut from *)
Fixpoint insert_kv (kv : Z * Z) (l : registry) : registry :=
  match l with [] => [kv] | x :: t => if fst kv <=? fst x then kv :: l else x :: insert_kv kv t end.
Definition sort_kv (l : registry) : registry := fold_right insert_kv [] l.
Definition check_registry (ops : list op) (obs_keys obs_tags ids served : list Z) : bool :=
  let b := run (Batch [] []) ops in
  let s := sort_kv (images b) in
  zeqb_list obs_keys (map fst s) && zeqb_list obs_tags (map snd s) && zeqb_list ids (mol_ids b) && zeqb_list served (mol_tomos b).
