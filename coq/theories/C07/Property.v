(** C07 property theorems (over R; stdlib Reals axioms are reported by Print Assumptions). *)
From Coq Require Import Reals List Lra.
From Acryo Require Import Common.Sums C07.Proofs.
Import ListNotations.
Local Open Scope R_scope.

Theorem C07_cauchy_schwarz : forall a b, length a = length b -> (rdot a b) * (rdot a b) <= rsq a * rsq b.
Proof. exact cauchy_schwarz. Qed.
Theorem C07_zncc_range : forall a b, length a = length b -> 0 < rsq (rcenter a) -> 0 < rsq (rcenter b) -> -1 <= zncc a b <= 1.
Proof. exact zncc_range. Qed.
Theorem C07_zncc_self : forall a, 0 < rsq (rcenter a) -> zncc a a = 1.
Proof. exact zncc_self. Qed.
Theorem C07_zncc_is_pearson : forall a b, zncc a b = rdot (rcenter a) (rcenter b) / sqrt (rsq (rcenter a) * rsq (rcenter b)).
Proof. exact zncc_is_pearson. Qed.
Theorem C07_zncc_gain : forall g a b, a <> [] -> 0 < g -> 0 < rsq (rcenter a) -> 0 < rsq (rcenter b) -> zncc (rscale g a) b = zncc a b.
Proof. exact zncc_gain. Qed.
Theorem C07_zncc_offset : forall o a b, a <> [] -> zncc (rshift o a) b = zncc a b.
Proof. exact zncc_offset. Qed.
Theorem C07_zncc_gain_masked : forall g m a b, length m = length a -> a <> [] -> 0 < g ->
  0 < rsq (rcenter (rmulv m a)) -> 0 < rsq (rcenter (rmulv m b)) ->
  zncc (rmulv m (rscale g a)) (rmulv m b) = zncc (rmulv m a) (rmulv m b).
Proof. exact zncc_gain_masked. Qed.
Theorem C07_ncc_range : forall a b, length a = length b -> 0 < rsq a -> 0 < rsq b -> -1 <= ncc a b <= 1.
Proof. exact ncc_range'. Qed.
Theorem C07_ncc_gain : forall g a b, 0 < g -> 0 < rsq a -> 0 < rsq b -> ncc (rscale g a) b = ncc a b.
Proof. exact ncc_gain'. Qed.
Theorem C07_landscape_centre : forall a b V, V <> 0 -> rsum a = 0 -> rmean b = 0 ->
  response (rdot a b) (rsum a) (rsq a) (rmean b) V (rsq (rcenter b)) = ncc a b.
Proof. exact landscape_centre. Qed.

(** non-vacuity: a concrete non-constant pair *)
Example C07_example : 0 < rsq (rcenter [1; 2; 4]) /\ rsum (rcenter [1; 2; 3]) = 0.
Proof. unfold rsq, rcenter, rmean, rshift. cbn. split; lra. Qed.

Print Assumptions C07_cauchy_schwarz.
Print Assumptions C07_zncc_range.
Print Assumptions C07_zncc_self.
Print Assumptions C07_zncc_is_pearson.
Print Assumptions C07_zncc_gain.
Print Assumptions C07_zncc_offset.
Print Assumptions C07_zncc_gain_masked.
Print Assumptions C07_ncc_range.
Print Assumptions C07_ncc_gain.
Print Assumptions C07_landscape_centre.
