(** C07 executable twin: exact integer form of the (zero-mean) normalised correlation.
    zncc(a,b) = N / sqrt(D1 D2) with a' = n a - sum a, b' = n b - sum b (integers), N = a'.b', D1 = a'.a', D2 = b'.b'.
    A float score s is accepted when |s^2 D1 D2 - N^2| <= tol D1 D2 and sign s = sign N. *)
From Coq Require Import ZArith QArith Qabs Bool List.
From Acryo Require Import Common.PyNum.
From AcryoGen Require Import Anchors_C07.
Import ListNotations.
Local Open Scope Z_scope.

Fixpoint zsum (l : list Z) : Z := match l with [] => 0 | x :: t => x + zsum t end.
Fixpoint zdot (a b : list Z) : Z := match a, b with x :: a', y :: b' => x * y + zdot a' b' | _, _ => 0 end.
Fixpoint zmulv (a b : list Z) : list Z := match a, b with x :: a', y :: b' => x * y :: zmulv a' b' | _, _ => [] end.
Definition zcenter (a : list Z) : list Z := let n := Z.of_nat (length a) in let s := zsum a in map (fun x => n * x - s) a.

Definition score_matches (num d1 d2 : Z) (s tol : Q) : bool :=
  let dd := inject_Z (d1 * d2) in
  Qle_bool (Qabs (s * s * dd - inject_Z (num * num))) (tol * dd) &&
  (if Qle_bool (Qabs s) tol then true else Bool.eqb (Qle_bool 0 s) (0 <=? num)).

(** mask m (scaled integers) applied to both images, as BaseAlignmentModel.score / _get_template_and_mask_input do *)
Definition check_zncc (a b m : list Z) (s : Q) : bool :=
  let a' := zcenter (if score_masks_both then zmulv m a else a) in
  let b' := zcenter (zmulv m b) in
  zncc_centres_both && score_matches (zdot a' b') (zdot a' a') (zdot b' b') s (1 # 20000).
Definition check_ncc (a b m : list Z) (s : Q) : bool :=
  let a' := if score_masks_both then zmulv m a else a in
  let b' := zmulv m b in
  ncc_is_uncentred && score_matches (zdot a' b') (zdot a' a') (zdot b' b') s (1 # 20000).
