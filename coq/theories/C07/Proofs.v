From Coq Require Import Reals List Lra Psatz.
From Acryo Require Import Common.Sums.
Import ListNotations.
Local Open Scope R_scope.

(** non-constant <-> positive centred energy is taken as the hypothesis 0 < rsq (rcenter a) *)
Lemma zncc_range a b : length a = length b -> 0 < rsq (rcenter a) -> 0 < rsq (rcenter b) -> -1 <= zncc a b <= 1.
Proof. intros Hl Ha Hb. unfold zncc. apply ncc_range; [|assumption|assumption]. unfold rcenter. rewrite !rshift_length. exact Hl. Qed.

Lemma zncc_self a : 0 < rsq (rcenter a) -> zncc a a = 1.
Proof. intro H. unfold zncc. apply ncc_self; exact H. Qed.

Lemma zncc_is_pearson a b : zncc a b = rdot (rcenter a) (rcenter b) / sqrt (rsq (rcenter a) * rsq (rcenter b)).
Proof. reflexivity. Qed.

Lemma zncc_gain g a b : a <> [] -> 0 < g -> 0 < rsq (rcenter a) -> 0 < rsq (rcenter b) -> zncc (rscale g a) b = zncc a b.
Proof. intros Hne Hg Ha Hb. unfold zncc. rewrite rcenter_scale by exact Hne. apply ncc_gain_l; assumption. Qed.

Lemma zncc_offset o a b : a <> [] -> zncc (rshift o a) b = zncc a b.
Proof. intros Hne. unfold zncc. rewrite rcenter_shift by exact Hne. reflexivity. Qed.

(** masked: gain invariance survives (the mask multiplies after the gain) *)
Lemma rmulv_scale g m a : rmulv m (rscale g a) = rscale g (rmulv m a).
Proof. unfold rscale. revert a. induction m as [|x m IH]; intros [|y a]; cbn; try reflexivity. rewrite IH. f_equal. ring. Qed.
Lemma rmulv_nil_iff m a : length m = length a -> a <> [] -> rmulv m a <> [].
Proof. destruct m, a; cbn; intros; congruence. Qed.

Lemma zncc_gain_masked g m a b : length m = length a -> a <> [] -> 0 < g ->
  0 < rsq (rcenter (rmulv m a)) -> 0 < rsq (rcenter (rmulv m b)) ->
  zncc (rmulv m (rscale g a)) (rmulv m b) = zncc (rmulv m a) (rmulv m b).
Proof. intros Hl Hne Hg Ha Hb. rewrite rmulv_scale. apply zncc_gain; try assumption. apply rmulv_nil_iff; assumption. Qed.

(** NCC analogues without centring *)
Lemma ncc_range' a b : length a = length b -> 0 < rsq a -> 0 < rsq b -> -1 <= ncc a b <= 1.
Proof. exact (ncc_range a b). Qed.
Lemma ncc_gain' g a b : 0 < g -> 0 < rsq a -> 0 < rsq b -> ncc (rscale g a) b = ncc a b.
Proof. exact (ncc_gain_l g a b). Qed.

(** window-normalised response of ncc_landscape_no_pad at the lag whose window is exactly the sub-volume *)
Definition response (corr ws1 ws2 tmean V tssd : R) : R := (corr - ws1 * tmean) / sqrt ((ws2 - ws1 * ws1 / V) * tssd).

Lemma rcenter_zero_mean a : rmean a = 0 -> rcenter a = a.
Proof.
  intro H. unfold rcenter, rshift. rewrite H. rewrite <- (map_id a) at 2. apply map_ext. intro x. ring.
Qed.

Lemma landscape_centre a b V : V <> 0 -> rsum a = 0 -> rmean b = 0 ->
  response (rdot a b) (rsum a) (rsq a) (rmean b) V (rsq (rcenter b)) = ncc a b.
Proof.
  intros HV Ha Hb. unfold response, ncc. rewrite Ha, Hb, (rcenter_zero_mean b Hb).
  replace (rdot a b - 0 * 0) with (rdot a b) by ring. replace (rsq a - 0 * 0 / V) with (rsq a) by (field; exact HV). reflexivity.
Qed.

(** for centred inputs the zero-lag landscape value is the ZNCC score *)
Lemma landscape_centre_zncc a b V : a <> [] -> b <> [] -> V <> 0 ->
  let a' := rcenter a in let b' := rcenter b in
  rsum a' = 0 -> rmean b' = 0 ->
  response (rdot a' b') (rsum a') (rsq a') (rmean b') V (rsq (rcenter b')) = zncc a b.
Proof. intros Hna Hnb HV a' b' H1 H2. unfold zncc. fold a' b'. apply landscape_centre; assumption. Qed.
