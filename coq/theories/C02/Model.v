(** C02 model: crop window, affine coordinates and order-0/1 sampling of one
    subtomogram, built on the definitions generated from acryo/_utils.py. *)
From Coq Require Import ZArith QArith Qround Qabs Bool List.
From Acryo Require Import Common.PyNum.
From AcryoGen Require Import Anchors_C02.
Import ListNotations.
Local Open Scope Z_scope.

Definition msp_t := option ((Z * Z) * (Z * Z) * bool).
Definition msp_eqb (a b : msp_t) : bool :=
  match a, b with
  | None, None => true
  | Some ((a0, a1), (p0, p1), o), Some ((b0, b1), (q0, q1), o') =>
      (a0 =? b0) && (a1 =? b1) && (p0 =? q0) && (p1 =? q1) && Bool.eqb o o'
  | _, _ => false
  end.

(** 3-D integer volume, z-major nested lists *)
Definition vol := list (list (list Z)).
Definition vget (v : vol) (z y x : Z) : option Z :=
  if (z <? 0) || (y <? 0) || (x <? 0) then None else
  match nth_error v (Z.to_nat z) with
  | Some p => match nth_error p (Z.to_nat y) with
              | Some r => nth_error r (Z.to_nat x)
              | None => None end
  | None => None end.
Definition vdims (v : vol) : Z * Z * Z :=
  (Z.of_nat (length v),
   Z.of_nat (length (hd [] v)),
   Z.of_nat (length (hd [] (hd [] v)))).

(** per-axis crop window exactly as prepare_affine / prepare_affine_cornersafe compute it *)
Record axwin := { w_x0 : Z; w_x1 : Z; w_nc : Q }.
Definition axis_window (corner_safe : bool) (c : Q) (s order : Z) (max_len : Q) : axwin :=
  if corner_safe then
    let x0 := pac_x0 c (pac_half_len max_len) order in
    {| w_x0 := x0; w_x1 := pac_x1 x0 max_len order; w_nc := pac_new_center c x0 |}
  else
    let x0 := pa_x0 c s order in
    {| w_x0 := x0; w_x1 := pa_x1 x0 s order; w_nc := pa_new_center c x0 |}.
Definition w_len (w : axwin) : Z := w_x1 w - w_x0 w.
Definition output_center (corner_safe : bool) (s : Z) : Q :=
  if corner_safe then pac_output_center s else pa_output_center s.

(** interpolation nodes and weights along one axis, in padded-crop coordinates *)
Definition nodes1 (order : Z) (u : Q) : list (Z * Q) :=
  if order =? 0 then [(Qfloor (u + (1#2)), 1%Q)]
  else let f := Qfloor u in
       let w := (u - inject_Z f)%Q in
       if Qeq_bool w 0 then [(f, 1%Q)] else [(f, (1 - w)%Q); ((f + 1)%Z, w)].

Definition in_window (w : axwin) (u : Q) : bool :=
  Qle_bool 0 u && Qle_bool u (inject_Z (w_len w - 1)).

Definition mat3 := list Z.   (* row-major 9 entries, acting on (z,y,x) *)
Definition mrow (m : mat3) (i : nat) (v : Q * Q * Q) : Q :=
  let '(a, b, c) := v in
  (inject_Z (nth (3 * i) m 0%Z) * a + inject_Z (nth (3 * i + 1) m 0%Z) * b + inject_Z (nth (3 * i + 2) m 0%Z) * c)%Q.

Fixpoint opt_sum (l : list (option Q)) : option Q :=
  match l with
  | [] => Some 0%Q
  | None :: _ => None
  | Some q :: t => match opt_sum t with Some s => Some (q + s)%Q | None => None end
  end.

(** value of one output voxel: Some v when every contributing tomogram node is
    inside the tomogram and the sample lies inside the crop window; None = fill *)
Definition sample (T : vol) (wz wy wx : axwin) (order : Z) (uz uy ux : Q) : option Q :=
  if in_window wz uz && in_window wy uy && in_window wx ux then
    opt_sum
      (flat_map (fun nz => flat_map (fun ny => map (fun nx =>
         match vget T (w_x0 wz + fst nz) (w_x0 wy + fst ny) (w_x0 wx + fst nx) with
         | Some v => Some (snd nz * snd ny * snd nx * inject_Z v)%Q
         | None => None end) (nodes1 order ux)) (nodes1 order uy)) (nodes1 order uz))
  else None.

Definition zrange (n : Z) : list Z := map Z.of_nat (seq 0 (Z.to_nat n)).

Definition load_model (T : vol) (c : Q * Q * Q) (R : mat3) (shape : Z * Z * Z) (order : Z)
           (corner_safe : bool) (max_len : Q) : option (list (option Q)) :=
  let '(cz, cy, cx) := c in
  let '(sz, sy, sx) := shape in
  let '(dz, dy, dx) := vdims T in
  let wz := axis_window corner_safe cz sz order max_len in
  let wy := axis_window corner_safe cy sy order max_len in
  let wx := axis_window corner_safe cx sx order max_len in
  match make_slice_and_pad (w_x0 wz) (w_x1 wz) dz,
        make_slice_and_pad (w_x0 wy) (w_x1 wy) dy,
        make_slice_and_pad (w_x0 wx) (w_x1 wx) dx with
  | Some _, Some _, Some _ =>
      let oz := output_center corner_safe sz in
      let oy := output_center corner_safe sy in
      let ox := output_center corner_safe sx in
      Some (flat_map (fun kz => flat_map (fun ky => map (fun kx =>
              let d := ((inject_Z kz - oz)%Q, (inject_Z ky - oy)%Q, (inject_Z kx - ox)%Q) in
              sample T wz wy wx order
                     (w_nc wz + mrow R 0 d)%Q (w_nc wy + mrow R 1 d)%Q (w_nc wx + mrow R 2 d)%Q)
            (zrange sx)) (zrange sy)) (zrange sz))
  | _, _, _ => None
  end.

Fixpoint agree (m : list (option Q)) (i : list Q) : bool :=
  match m, i with
  | [], [] => true
  | Some q :: m', v :: i' => Qeq_bool q v && agree m' i'
  | None :: m', _ :: i' => agree m' i'
  | _, _ => false
  end.

Definition max_len_ok (shape : Z * Z * Z) (ml : Q) : bool :=
  let '(sz, sy, sx) := shape in
  let n := inject_Z (sz * sz + sy * sy + sx * sx) in
  Qle_bool (Qabs (ml * ml - n)) (n * (1 # 1000000))%Q.

Definition check_load (T : vol) (c : Q * Q * Q) (R : mat3) (shape : Z * Z * Z) (order : Z)
           (corner_safe : bool) (max_len : Q) (impl : option (list Q)) : bool :=
  max_len_ok shape max_len &&
  match load_model T c R shape order corner_safe max_len, impl with
  | None, None => true
  | Some m, Some i => agree m i
  | _, _ => false
  end.
