(** C02 property theorems (statements only; proofs in Proofs.v). *)
From Coq Require Import ZArith QArith Qround Qabs Bool List.
From Acryo Require Import Common.PyNum C02.Model C02.Proofs.
From AcryoGen Require Import Anchors_C02.
Local Open Scope Z_scope.

(** a window with no overlap raises; any overlap does not *)
Theorem C02_oob_iff : forall z0 z1 size, 0 < size -> z0 < z1 ->
  (make_slice_and_pad z0 z1 size = None <-> (z1 <= 0 \/ size <= z0)).
Proof. exact msp_oob_iff. Qed.
(** the box of a load: the shape passed to the call wins over the loader's own default; without either the call is rejected *)
Theorem C02_call_box : forall s own, call_box (Some s) own = Some s /\ call_box None own = own.
Proof. intros; split; reflexivity. Qed.

Print Assumptions C02_oob_iff.

(** partial overlap: clipped slice, pads, length conservation, index shift *)
Theorem C02_partial_overlap : forall z0 z1 size a b p0 p1 oob, 0 < size -> z0 < z1 ->
  make_slice_and_pad z0 z1 size = Some ((a, b), (p0, p1), oob) ->
  a = Z.max z0 0 /\ b = Z.min z1 size /\ p0 = Z.max 0 (- z0) /\ p1 = Z.max 0 (z1 - size) /\
  a - p0 = z0 /\ (b - a) + p0 + p1 = z1 - z0 /\ a < b /\ (oob = true <-> (z0 < 0 \/ size < z1)).
Proof. exact msp_partial_overlap. Qed.
Print Assumptions C02_partial_overlap.

Theorem C02_index_shift : forall z0 z1 size a b p0 p1 oob j, 0 < size -> z0 < z1 ->
  make_slice_and_pad z0 z1 size = Some ((a, b), (p0, p1), oob) ->
  p0 <= j < p0 + (b - a) -> 0 <= z0 + j < size /\ a + (j - p0) = z0 + j.
Proof. exact msp_index_shift. Qed.
Print Assumptions C02_index_shift.

(** voxel k samples tomogram coordinate c + (R(k - (s-1)/2))_axis on every axis *)
Theorem C02_coordinate_rule : forall cs c s order ml r,
  (inject_Z (w_x0 (axis_window cs c s order ml)) + (w_nc (axis_window cs c s order ml) + r) == c + r)%Q.
Proof. exact coordinate_rule. Qed.
Print Assumptions C02_coordinate_rule.

Theorem C02_output_center : forall cs s, (output_center cs s == (inject_Z s - 1) / 2)%Q.
Proof. exact output_center_mid. Qed.
Print Assumptions C02_output_center.

Theorem C02_exact_block : forall p m k order,
  let s := 2 * m + 1 in
  let w := axis_window false (inject_Z p) s order 0 in
  (inject_Z (w_x0 w) + (w_nc w + (inject_Z k - output_center false s)) == inject_Z (p + k - m))%Q.
Proof. exact exact_block_coordinate. Qed.
Print Assumptions C02_exact_block.

(** the crop contains the interpolation support of every sample with |r| <= (s-1)/2, order >= 1 *)
Theorem C02_window_covers : forall c s order r, 1 <= order ->
  (Qabs r <= (inject_Z s - 1) / 2)%Q ->
  let w := axis_window false c s order 0 in
  let u := (w_nc w + r)%Q in
  (0 < u /\ u < inject_Z (w_len w - 1) - (1#2))%Q.
Proof. exact window_order_ge1_inside. Qed.
Print Assumptions C02_window_covers.

(** order 0: full statement is refuted on the current code (known finding), partial holds *)
Theorem C02_window_covers_order0_refuted :
  exists (c : Q) (s : Z) (r : Q),
    (Qabs r <= (inject_Z s - 1) / 2)%Q /\
    let w := axis_window false c s 0 0 in
    in_window w (w_nc w + r)%Q = false /\ (Qfloor (w_nc w + r + (1#2)) <= w_len w - 1)%Z.
Proof. exact order0_upper_edge_refuted. Qed.
Print Assumptions C02_window_covers_order0_refuted.

Theorem C02_window_covers_order0_partial : forall c s r,
  (Qabs r <= (inject_Z s - 1) / 2)%Q ->
  let w := axis_window false c s 0 0 in
  let u := (w_nc w + r)%Q in
  (((1#2) <= u)%Q \/ (w_x0 w <= 0 /\ (- (1#2) < u)%Q)) /\ (u < inject_Z (w_len w - 1) + (1#2))%Q.
Proof. exact window_order0_partial. Qed.
Print Assumptions C02_window_covers_order0_partial.

Theorem C02_window_cornersafe_lower : forall c order ml r, 0 <= order -> (0 <= ml)%Q ->
  (Qabs r <= ml / 2 - (1#2))%Q ->
  let w := axis_window true c 0 order ml in
  let u := (w_nc w + r)%Q in
  ((inject_Z order + (1#2) <= u)%Q \/ (w_x0 w <= 0 /\ (inject_Z order - (1#2) < u)%Q)).
Proof. exact window_cornersafe. Qed.
Print Assumptions C02_window_cornersafe_lower.
