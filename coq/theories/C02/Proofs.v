From Coq Require Import ZArith QArith Qround Qabs Bool List Lia Lqa.
From Acryo Require Import Common.PyNum C02.Model.
From AcryoGen Require Import Anchors_C02.
Import ListNotations.
Local Open Scope Z_scope.

Ltac split_ltb :=
  repeat match goal with
         | |- context [(?a <? ?b)%Z] => destruct (Z.ltb_spec a b)
         | |- context [(?a <=? ?b)%Z] => destruct (Z.leb_spec a b)
         | |- context [(?a =? ?b)%Z] => destruct (Z.eqb_spec a b)
         end.

(** make_slice_and_pad raises exactly when [z0,z1) and [0,size) are disjoint *)
Lemma msp_oob_iff z0 z1 size :
  0 < size -> z0 < z1 ->
  (make_slice_and_pad z0 z1 size = None <-> (z1 <= 0 \/ size <= z0)).
Proof.
  intros Hs Hz. unfold make_slice_and_pad. split_ltb; split; intro Hx; try discriminate; try lia; try reflexivity.
Qed.

Lemma msp_partial_overlap z0 z1 size a b p0 p1 oob :
  0 < size -> z0 < z1 ->
  make_slice_and_pad z0 z1 size = Some ((a, b), (p0, p1), oob) ->
  a = Z.max z0 0 /\ b = Z.min z1 size /\ p0 = Z.max 0 (- z0) /\ p1 = Z.max 0 (z1 - size) /\
  a - p0 = z0 /\ (b - a) + p0 + p1 = z1 - z0 /\ a < b /\
  (oob = true <-> (z0 < 0 \/ size < z1)).
Proof.
  intros Hs Hz. unfold make_slice_and_pad.
  split_ltb; intro Hx; try discriminate; injection Hx as <- <- <- <- <-.
  all: (split; [lia|split; [lia|split; [lia|split; [lia|split; [lia|split; [lia|split; [lia|]]]]]]]).
  all: cbn; split; intro Hy; try discriminate; try reflexivity; try lia.
Qed.

(** padded-crop index j holds tomogram index j + x0 *)
Lemma msp_index_shift z0 z1 size a b p0 p1 oob j :
  0 < size -> z0 < z1 ->
  make_slice_and_pad z0 z1 size = Some ((a, b), (p0, p1), oob) ->
  p0 <= j < p0 + (b - a) ->
  0 <= z0 + j < size /\ a + (j - p0) = z0 + j.
Proof.
  intros Hs Hz H Hj. destruct (msp_partial_overlap _ _ _ _ _ _ _ _ Hs Hz H) as (Ha & Hb & Hp0 & Hp1 & Hd & _).
  lia.
Qed.

(** coordinate rule *)
Lemma coordinate_rule cs c s order ml r :
  (inject_Z (w_x0 (axis_window cs c s order ml)) + (w_nc (axis_window cs c s order ml) + r) == c + r)%Q.
Proof.
  unfold axis_window. destruct cs; cbn [w_x0 w_nc]; unfold pac_new_center, pa_new_center; ring.
Qed.

Lemma output_center_mid cs s : (output_center cs s == (inject_Z s - 1) / 2)%Q.
Proof.
  unfold output_center, pac_output_center, pa_output_center. destruct cs; field.
Qed.

Lemma pa_len c s order : w_len (axis_window false c s order 0) = s + 2 * order + 1.
Proof. unfold w_len, axis_window. cbn [w_x0 w_x1]. unfold pa_x1. lia. Qed.

(** the window of the default (not corner-safe) loader covers every sample with |r| <= (s-1)/2 *)
Lemma window_lower c s order r :
  0 <= order ->
  (- ((inject_Z s - 1) / 2) <= r)%Q ->
  let w := axis_window false c s order 0 in
  let u := (w_nc w + r)%Q in
  (inject_Z order + (1#2) <= u)%Q \/ (w_x0 w <= 0 /\ (inject_Z order - (1#2) < u)%Q).
Proof.
  intros Ho Hr. cbn zeta. unfold axis_window. cbn [w_nc w_x0]. unfold pa_new_center, pa_x0.
  set (a := ((c - inject_Z s / (2#1))%Q - inject_Z order)%Q).
  destruct (Qlt_le_dec a 0) as [Hneg|Hpos].
  - right. destruct (Qtrunc_bounds a) as [_ Hb]. destruct (Hb Hneg) as (H1 & H2 & H3).
    split; [exact H3|]. subst a.
    set (t := inject_Z (Qtrunc ((c - inject_Z s / (2#1))%Q - inject_Z order)%Q)) in *.
    set (S := inject_Z s) in *. set (O := inject_Z order) in *.
    qdiv2.
    lra.
  - left. destruct (Qtrunc_bounds a) as [Hb _]. destruct (Hb Hpos) as (H1 & H2 & H3).
    subst a.
    set (t := inject_Z (Qtrunc ((c - inject_Z s / (2#1))%Q - inject_Z order)%Q)) in *.
    set (S := inject_Z s) in *. set (O := inject_Z order) in *.
    qdiv2.
    lra.
Qed.

Lemma window_upper c s order r :
  0 <= order ->
  (r <= (inject_Z s - 1) / 2)%Q ->
  let w := axis_window false c s order 0 in
  let u := (w_nc w + r)%Q in
  (u < inject_Z (w_len w - 1) - inject_Z order + (1#2))%Q.
Proof.
  intros Ho Hr. cbn zeta. rewrite pa_len. unfold axis_window. cbn [w_nc w_x0]. unfold pa_new_center, pa_x0.
  replace (s + 2 * order + 1 - 1) with (s + 2 * order) by lia.
  rewrite inject_Z_plus, inject_Z_mult.
  set (a := ((c - inject_Z s / (2#1))%Q - inject_Z order)%Q).
  destruct (Qlt_le_dec a 0) as [Hneg|Hpos].
  - destruct (Qtrunc_bounds a) as [_ Hb]. destruct (Hb Hneg) as (H1 & H2 & H3). subst a.
    set (t := inject_Z (Qtrunc ((c - inject_Z s / (2#1))%Q - inject_Z order)%Q)) in *.
    set (S := inject_Z s) in *. set (O := inject_Z order) in *.
    qdiv2.
    change (inject_Z 2) with (2#1). lra.
  - destruct (Qtrunc_bounds a) as [Hb _]. destruct (Hb Hpos) as (H1 & H2 & H3). subst a.
    set (t := inject_Z (Qtrunc ((c - inject_Z s / (2#1))%Q - inject_Z order)%Q)) in *.
    set (S := inject_Z s) in *. set (O := inject_Z order) in *.
    qdiv2.
    change (inject_Z 2) with (2#1). lra.
Qed.

(** For order >= 1 this gives full interpolation support inside the crop. *)
Lemma window_order_ge1_inside c s order r :
  1 <= order ->
  (Qabs r <= (inject_Z s - 1) / 2)%Q ->
  let w := axis_window false c s order 0 in
  let u := (w_nc w + r)%Q in
  (0 < u /\ u < inject_Z (w_len w - 1) - (1#2))%Q.
Proof.
  intros Ho Hr. cbn zeta.
  apply Qabs_Qle_condition in Hr. destruct Hr as [Hr1 Hr2].
  assert (0 <= order) as Ho' by lia.
  pose proof (window_lower c s order r Ho' Hr1) as HL. cbn zeta in HL.
  pose proof (window_upper c s order r Ho' Hr2) as HU. cbn zeta in HU.
  assert (1 <= inject_Z order)%Q as Hq by (change 1%Q with (inject_Z 1); rewrite <- Zle_Qle; exact Ho).
  split.
  - destruct HL as [HL|[_ HL]]; lra.
  - lra.
Qed.

(** exact block: identity orientation, integer pixel position, odd box *)
Lemma exact_block_coordinate (p : Z) (m : Z) (k : Z) order :
  let s := 2 * m + 1 in
  let w := axis_window false (inject_Z p) s order 0 in
  (inject_Z (w_x0 w) + (w_nc w + (inject_Z k - output_center false s)) == inject_Z (p + k - m))%Q.
Proof.
  cbn zeta. rewrite coordinate_rule. rewrite output_center_mid.
  unfold Z.sub. rewrite !inject_Z_plus, inject_Z_mult, inject_Z_opp. change (inject_Z 2) with (2#1). change (inject_Z 1) with 1%Q.
  field.
Qed.

(** Known finding: with nearest-neighbour sampling (order 0) the crop is one voxel
    too short on the upper side when frac(c - s/2) > 1/2. *)
Lemma order0_upper_edge_refuted :
  exists (c : Q) (s : Z) (r : Q),
    (Qabs r <= (inject_Z s - 1) / 2)%Q /\
    let w := axis_window false c s 0 0 in
    in_window w (w_nc w + r)%Q = false /\
    (* although the nearest tomogram node is inside the crop *)
    (Qfloor (w_nc w + r + (1#2)) <= w_len w - 1)%Z.
Proof.
  exists (27#4), 4, (3#2). split; [vm_compute; discriminate|]. vm_compute. split; [reflexivity|discriminate].
Qed.

Lemma window_order0_partial c s r :
  (Qabs r <= (inject_Z s - 1) / 2)%Q ->
  let w := axis_window false c s 0 0 in
  let u := (w_nc w + r)%Q in
  (((1#2) <= u)%Q \/ (w_x0 w <= 0 /\ (- (1#2) < u)%Q)) /\ (u < inject_Z (w_len w - 1) + (1#2))%Q.
Proof.
  intro Hr. cbn zeta. apply Qabs_Qle_condition in Hr. destruct Hr as [Hr1 Hr2].
  pose proof (window_lower c s 0 r (Z.le_refl 0) Hr1) as HL. cbn zeta in HL.
  pose proof (window_upper c s 0 r (Z.le_refl 0) Hr2) as HU. cbn zeta in HU.
  change (inject_Z 0) with 0%Q in *. split; [destruct HL as [HL|[HL0 HL]]; [left|right; split; auto]; lra | lra].
Qed.

(** corner-safe window: margins (the float truncation of x1 costs up to one voxel) *)
Lemma window_cornersafe c order ml r :
  0 <= order -> (0 <= ml)%Q ->
  (Qabs r <= ml / 2 - (1#2))%Q ->
  let w := axis_window true c 0 order ml in
  let u := (w_nc w + r)%Q in
  ((inject_Z order + (1#2) <= u)%Q \/ (w_x0 w <= 0 /\ (inject_Z order - (1#2) < u)%Q)).
Proof.
  intros Ho Hml Hr. cbn zeta. apply Qabs_Qle_condition in Hr. destruct Hr as [Hr1 Hr2].
  unfold axis_window. cbn [w_nc w_x0]. unfold pac_new_center, pac_x0, pac_half_len.
  set (a := ((c - ml / (2#1))%Q - inject_Z order)%Q).
  destruct (Qlt_le_dec a 0) as [Hneg|Hpos].
  - right. destruct (Qtrunc_bounds a) as [_ Hb]. destruct (Hb Hneg) as (H1 & H2 & H3).
    split; [exact H3|]. subst a.
    set (t := inject_Z (Qtrunc ((c - ml / (2#1))%Q - inject_Z order)%Q)) in *.
    set (O := inject_Z order) in *.
    qdiv2.
    lra.
  - left. destruct (Qtrunc_bounds a) as [Hb _]. destruct (Hb Hpos) as (H1 & H2 & H3). subst a.
    set (t := inject_Z (Qtrunc ((c - ml / (2#1))%Q - inject_Z order)%Q)) in *.
    set (O := inject_Z order) in *.
    qdiv2.
    lra.
Qed.

(** non-vacuity: a concrete interior window *)
Example window_example :
  let w := axis_window false (27#4) 4 1 0 in
  w_x0 w = 3 /\ w_len w = 7 /\ make_slice_and_pad (w_x0 w) (w_x1 w) 20 = Some ((3, 10), (0, 0), false).
Proof. vm_compute. repeat split. Qed.

Example msp_example_touch : make_slice_and_pad 10 20 10 = None /\ make_slice_and_pad (-5) 0 10 = None
  /\ make_slice_and_pad (-2) 3 10 = Some ((0, 3), (2, 0), true).
Proof. vm_compute. repeat split. Qed.
