From Coq Require Import ZArith QArith Qround Bool List Lia Lqa.
From Acryo Require Import Common.PyNum C10.Model.
From AcryoGen Require Import Anchors_C10.
Import ListNotations.

(** ---------- cache: with key equality defined, every call hits and nothing can raise ---------- *)
Definition good_pc (p : pc) : Prop := match p with PGet => True | PDone true => True | _ => False end.
Definition Inv (s : st) : Prop :=
  dict s <> [] /\ Forall (fun e => snd e = true) (dict s) /\
  Forall (fun t => good_pc (tpc t) /\ Forall (fun b => b = true) (returned t)) (threads s).

Lemma lookup_eq_hits k d : d <> [] -> Forall (fun e => snd e = true) d -> lookup true k d = Some true.
Proof.
  destruct d as [|[k' v] t]; [congruence|]. intros _ H. inversion H; subst. cbn in *. subst. reflexivity.
Qed.

Lemma Forall_update_nth {A} (P : A -> Prop) i x (l : list A) : Forall P l -> P x -> Forall P (update_nth i x l).
Proof.
  revert i. induction l as [|h t IH]; intros i Hl Hx; [destruct i; cbn; constructor|]. inversion Hl; subst.
  destruct i; cbn; constructor; auto.
Qed.

Lemma step_preserves_inv s tid : Inv s -> Inv (step true s tid).
Proof.
  intros (Hne & Hd & Ht). unfold step. destruct (nth_error (threads s) tid) as [t|] eqn:E; [|repeat split; assumption].
  assert (Hgood : good_pc (tpc t) /\ Forall (fun b => b = true) (returned t)).
  { rewrite Forall_forall in Ht. apply Ht. eapply nth_error_In; eauto. }
  destruct Hgood as [Hp Hr]. unfold step_thread.
  destruct (tpc t) as [| | | | | |v|] eqn:Ep; cbn in Hp; try contradiction.
  - rewrite (lookup_eq_hits (key t) (dict s) Hne Hd). cbn. repeat split; try assumption.
    apply Forall_update_nth; [exact Ht|]. cbn. split; [exact I|]. apply Forall_app. split; [exact Hr|constructor; [reflexivity|constructor]].
  - destruct v; [|contradiction]. destruct (calls_left t) as [|n]; cbn.
    + repeat split; try assumption. apply Forall_update_nth; [exact Ht|]. rewrite Ep. cbn. split; [exact I|exact Hr].
    + repeat split; try assumption. apply Forall_update_nth; [exact Ht|]. cbn. split; [exact I|exact Hr].
Qed.

Lemma run_preserves_inv schedule : forall s, Inv s -> Inv (run true s schedule).
Proof. induction schedule as [|tid r IH]; intros s H; [exact H|]. cbn. apply IH. apply step_preserves_inv; exact H. Qed.

Lemma init_inv keys n : Inv (init keys n).
Proof.
  unfold Inv, init; cbn. split; [discriminate|]. split; [repeat constructor|].
  induction keys as [|k t IH]; cbn; constructor; auto. cbn. split; [exact I|constructor].
Qed.

Lemma inv_no_error s : Inv s -> any_error s = false /\ all_returns_canonical s = true.
Proof.
  intros (_ & _ & Ht). unfold any_error, all_returns_canonical. split.
  - induction Ht as [|t l [Hp _] _ IH]; cbn; [reflexivity|]. rewrite IH, orb_false_r. unfold crashed.
    destruct (tpc t); cbn in Hp; try contradiction; reflexivity.
  - induction Ht as [|t l [_ Hr] _ IH]; cbn; [reflexivity|]. rewrite IH, andb_true_r.
    induction Hr as [|b r Hb _ IHr]; cbn; [reflexivity|]. subst b. exact IHr.
Qed.

(** for every number of threads, calls and every schedule: no spurious error, canonical values, one cache entry *)
Theorem cache_safe_with_eq keys n schedule :
  let s := run true (init keys n) schedule in any_error s = false /\ all_returns_canonical s = true.
Proof. cbn zeta. apply inv_no_error. apply run_preserves_inv. apply init_inv. Qed.

Lemma store_eq_length k v d : d <> [] -> length (store true k v d) = length d.
Proof. destruct d as [|[k' v'] t]; [congruence|]. reflexivity. Qed.

(** values are canonical under EVERY schedule even without key equality *)
Definition InvV (s : st) : Prop :=
  Forall (fun e => snd e = true) (dict s) /\
  Forall (fun t => Forall (fun b => b = true) (returned t) /\ match tpc t with PInsert v => v = true | PDone v => v = true | _ => True end) (threads s).

Lemma store_values eqdef k d : Forall (fun e => snd e = true) d -> Forall (fun e => snd e = true) (store eqdef k true d).
Proof.
  induction d as [|[k' v'] t IH]; intro H; cbn; [repeat constructor|]. inversion H; subst. cbn in *.
  destruct (keq eqdef k k'); constructor; cbn; auto.
Qed.
Lemma lookup_values eqdef k d v : Forall (fun e => snd e = true) d -> lookup eqdef k d = Some v -> v = true.
Proof.
  induction d as [|[k' v'] t IH]; intros H E; cbn in E; [discriminate|]. inversion H; subst. cbn in *.
  destruct (keq eqdef k k'); [congruence|apply IH; assumption].
Qed.

Lemma step_preserves_invV eqdef s tid : InvV s -> InvV (step eqdef s tid).
Proof.
  intros (Hd & Ht). unfold step. destruct (nth_error (threads s) tid) as [t|] eqn:E; [|split; assumption].
  assert (Hg : Forall (fun b => b = true) (returned t) /\ match tpc t with PInsert v => v = true | PDone v => v = true | _ => True end).
  { rewrite Forall_forall in Ht. apply Ht. eapply nth_error_In; eauto. }
  destruct Hg as [Hr Hp]. unfold step_thread.
  destruct (tpc t) as [| |n|v| | |v|] eqn:Ep.
  - destruct (lookup eqdef (key t) (dict s)) as [v|] eqn:El; cbn; (split; [exact Hd|]); apply Forall_update_nth; try exact Ht; cbn.
    + pose proof (lookup_values _ _ _ _ Hd El) as ->. split; [|reflexivity]. apply Forall_app. split; [exact Hr|repeat constructor].
    + split; [exact Hr|exact I].
  - cbn. split; [exact Hd|]. apply Forall_update_nth; [exact Ht|]. cbn. split; [exact Hr|exact I].
  - destruct (negb (Nat.eqb (length (dict s)) n)); cbn.
    + split; [exact Hd|]. apply Forall_update_nth; [exact Ht|]. cbn. split; [exact Hr|exact I].
    + destruct (dict s) as [|[k' v'] r] eqn:Ed; cbn.
      * split; [exact Hd|]. apply Forall_update_nth; [exact Ht|]. cbn. split; [exact Hr|exact I].
      * split; [exact Hd|]. apply Forall_update_nth; [exact Ht|]. cbn. split; [exact Hr|]. inversion Hd; subst. cbn in *. assumption.
  - cbn in Hp. subst v. cbn. split; [apply store_values; exact Hd|]. apply Forall_update_nth; [exact Ht|]. cbn.
    split; [|reflexivity]. apply Forall_app. split; [exact Hr|repeat constructor].
  - cbn. split; [exact Hd|]. apply Forall_update_nth; [exact Ht|]. cbn. split; [exact Hr|exact I].
  - cbn. split; [apply store_values; exact Hd|]. apply Forall_update_nth; [exact Ht|]. cbn.
    split; [|reflexivity]. apply Forall_app. split; [exact Hr|repeat constructor].
  - cbn in Hp. destruct (calls_left t) as [|n]; cbn; (split; [exact Hd|]); apply Forall_update_nth; try exact Ht; cbn.
    + rewrite Ep. split; [exact Hr|exact Hp].
    + split; [exact Hr|exact I].
  - cbn. split; [exact Hd|]. apply Forall_update_nth; [exact Ht|]. cbn. rewrite Ep. split; [exact Hr|exact I].
Qed.

Theorem cache_value_any_schedule eqdef keys n schedule :
  all_returns_canonical (run eqdef (init keys n) schedule) = true.
Proof.
  assert (H : InvV (run eqdef (init keys n) schedule)).
  { assert (G : forall sch s, InvV s -> InvV (run eqdef s sch)).
    { induction sch as [|tid r IH]; intros s Hs; [exact Hs|]. cbn. apply IH. apply step_preserves_invV; exact Hs. }
    apply G. unfold InvV, init; cbn. split; [repeat constructor|].
    induction keys as [|k t IH]; cbn; constructor; auto. cbn. split; [constructor|exact I]. }
  destruct H as [_ Ht]. unfold all_returns_canonical.
  induction Ht as [|t l [Hr _] _ IH]; cbn; [reflexivity|]. rewrite IH, andb_true_r.
  induction Hr as [|b r Hb _ IHr]; cbn; [reflexivity|]. subst b. exact IHr.
Qed.

(** without key equality (the pre-fix code) two tasks with fresh Backend() instances can interleave
    iter / __setitem__ / next and raise: a 7-step witness schedule *)
Theorem cache_no_error_refuted_without_eq :
  exists schedule, any_error (run false (init [1; 2]%nat 0) schedule) = true.
Proof. exists [0; 0; 1; 1; 1; 1; 0]%nat. vm_compute. reflexivity. Qed.

(** ---------- task pools: any execution order gives map f ---------- *)
Lemma run_in_order_spec {A B} (f : A -> B) tasks d : forall order res j,
  run_in_order f tasks d order res j = if existsb (Nat.eqb j) order then Some (f (nth j tasks d)) else res j.
Proof.
  induction order as [|i r IH]; intros res j; [reflexivity|]. unfold run_in_order in *. cbn [fold_left existsb].
  rewrite IH. destruct (existsb (Nat.eqb j) r) eqn:E; [rewrite orb_true_r; reflexivity|]. rewrite orb_false_r.
  destruct (Nat.eqb j i) eqn:E2; [apply Nat.eqb_eq in E2; subst; reflexivity|reflexivity].
Qed.

Theorem schedule_independent {A B} (f : A -> B) tasks d order order' :
  (forall j, (j < length tasks)%nat -> In j order) -> (forall j, (j < length tasks)%nat -> In j order') ->
  forall j, (j < length tasks)%nat ->
    run_in_order f tasks d order (fun _ => None) j = run_in_order f tasks d order' (fun _ => None) j /\
    run_in_order f tasks d order (fun _ => None) j = Some (f (nth j tasks d)).
Proof.
  intros H1 H2 j Hj. rewrite !run_in_order_spec.
  assert (forall o, In j o -> existsb (Nat.eqb j) o = true) as Hex.
  { intros o Hin. apply existsb_exists. exists j. split; [exact Hin|apply Nat.eqb_refl]. }
  rewrite (Hex _ (H1 j Hj)), (Hex _ (H2 j Hj)). split; reflexivity.
Qed.

(** ---------- declared shape of construct_landscape ---------- *)
Local Open Scope Z_scope.
Theorem landscape_shape_refuted :
  (exists m u, declared_len m <> actual_len false m u) /\ (exists m, declared_len m <> actual_len false m 1).
Proof. split; [exists (1#1)%Q, 3|exists (3#2)%Q]; vm_compute; discriminate. Qed.

Theorem landscape_shape_partial (z : Z) is_fsc : 0 <= z -> declared_len (inject_Z z) = actual_len is_fsc (inject_Z z) 1.
Proof.
  intro H. unfold declared_len, landscape_declared_len, actual_len.
  replace (1 <? 1) with false by reflexivity.
  rewrite Qceiling_Z. destruct is_fsc; rewrite ?Qtrunc_Z, ?Qceiling_Z; lia.
Qed.
