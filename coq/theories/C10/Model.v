(** C10 model: (1) TemplateMaskCache under arbitrary interleavings of the atomic dict operations of
    BaseAlignmentModel._get_template_and_mask_input; (2) order-independent task pools; (3) declared shapes. *)
From Coq Require Import ZArith QArith Qround Bool List Lia.
From Acryo Require Import Common.PyNum.
From AcryoGen Require Import Anchors_C10.
Import ListNotations.
Local Open Scope nat_scope.

(** ---------- (1) the shared cache ---------- *)
Inductive pc :=
| PGet                    (* about to run  self._dict.get(backend) *)
| PIter                   (* about to run  iter(self._dict.values()) *)
| PNext (size : nat)      (* about to run  next(it, None); the iterator remembers the dict size *)
| PInsert (v : bool)      (* about to run  self._dict[backend] = asarray(val) *)
| PCompute                (* cache empty: compute template and mask *)
| PSet                    (* about to run  cache.set(backend, ...) *)
| PDone (v : bool)        (* call returned; v = returned value is the canonical (template, mask) *)
| PCrashed.               (* RuntimeError: dictionary changed size during iteration *)

Record thread := Th { key : nat; tpc : pc; calls_left : nat; returned : list bool }.
Record st := St { dict : list (nat * bool); threads : list thread }.

(** key equality of the dict: with Backend.__eq__ every numpy backend is the same key, without it identity *)
Definition keq (eqdef : bool) (a b : nat) : bool := if eqdef then true else Nat.eqb a b.
Fixpoint lookup (eqdef : bool) (k : nat) (d : list (nat * bool)) : option bool :=
  match d with [] => None | (k', v) :: t => if keq eqdef k k' then Some v else lookup eqdef k t end.
Fixpoint store (eqdef : bool) (k : nat) (v : bool) (d : list (nat * bool)) : list (nat * bool) :=
  match d with [] => [(k, v)] | (k', v') :: t => if keq eqdef k k' then (k', v) :: t else (k', v') :: store eqdef k v t end.

Definition step_thread (eqdef : bool) (d : list (nat * bool)) (t : thread) : list (nat * bool) * thread :=
  match tpc t with
  | PGet => match lookup eqdef (key t) d with
            | Some v => (d, Th (key t) (PDone v) (calls_left t) (returned t ++ [v]))
            | None => (d, Th (key t) PIter (calls_left t) (returned t))
            end
  | PIter => (d, Th (key t) (PNext (length d)) (calls_left t) (returned t))
  | PNext n => if negb (Nat.eqb (length d) n) then (d, Th (key t) PCrashed (calls_left t) (returned t))
               else match d with
                    | [] => (d, Th (key t) PCompute (calls_left t) (returned t))
                    | (_, v) :: _ => (d, Th (key t) (PInsert v) (calls_left t) (returned t))
                    end
  | PInsert v => (store eqdef (key t) v d, Th (key t) (PDone v) (calls_left t) (returned t ++ [v]))
  | PCompute => (d, Th (key t) PSet (calls_left t) (returned t))
  | PSet => (store eqdef (key t) true d, Th (key t) (PDone true) (calls_left t) (returned t ++ [true]))
  | PDone v => match calls_left t with
               | O => (d, t)
               | S n => (d, Th (key t) PGet n (returned t))
               end
  | PCrashed => (d, t)
  end.

Fixpoint update_nth {A} (i : nat) (x : A) (l : list A) : list A :=
  match l, i with [], _ => [] | _ :: t, O => x :: t | h :: t, S i' => h :: update_nth i' x t end.

Definition step (eqdef : bool) (s : st) (tid : nat) : st :=
  match nth_error (threads s) tid with
  | None => s
  | Some t => let '(d', t') := step_thread eqdef (dict s) t in St d' (update_nth tid t' (threads s))
  end.
Definition run (eqdef : bool) (s : st) (schedule : list nat) : st := fold_left (step eqdef) schedule s.

Definition crashed (t : thread) : bool := match tpc t with PCrashed => true | _ => false end.
Definition any_error (s : st) : bool := existsb crashed (threads s).
Definition all_returns_canonical (s : st) : bool := forallb (fun t => forallb (fun b => b) (returned t)) (threads s).

(** the constructor caches the template for Backend(): one canonical entry *)
Definition init (keys : list nat) (ncalls : nat) : st :=
  St [(0%nat, true)] (map (fun k => Th k PGet ncalls []) keys).

(** observation of one replay on the real TemplateMaskCache *)
Definition check_schedule (eqdef : bool) (keys : list nat) (ncalls : nat) (schedule : list nat)
           (obs_crashed : list bool) (obs_returns : list (list bool)) (obs_size : nat) : bool :=
  let s := run eqdef (init keys ncalls) schedule in
  let fix eqbl (a b : list bool) := match a, b with [], [] => true | x :: a', y :: b' => Bool.eqb x y && eqbl a' b' | _, _ => false end in
  let fix eqbll (a b : list (list bool)) := match a, b with [], [] => true | x :: a', y :: b' => eqbl x y && eqbll a' b' | _, _ => false end in
  eqbl (map crashed (threads s)) obs_crashed && eqbll (map returned (threads s)) obs_returns && Nat.eqb (length (dict s)) obs_size.

(** ---------- (2) task pools ---------- *)
(** executing pure tasks in any order and storing result i at slot i *)
Definition run_in_order {A B} (f : A -> B) (tasks : list A) (d : A) (order : list nat) (res : nat -> option B) : nat -> option B :=
  fold_left (fun r i => fun j => if Nat.eqb j i then Some (f (nth i tasks d)) else r j) order res.

(** ---------- (3) declared vs computed landscape shape ---------- *)
Local Open Scope Z_scope.
Definition declared_len (m : Q) : Z := landscape_declared_len m.
(** what BaseAlignmentModel.landscape returns per axis (is_fsc selects the FSC layout) *)
Definition actual_len (is_fsc : bool) (m : Q) (upsample : Z) : Z :=
  if 1 <? upsample then 2 * Qtrunc (m * inject_Z upsample) + 1
  else if is_fsc then 2 * Qceiling m + 1 else 2 * Qtrunc m + 1.
Definition check_shape (is_fsc : bool) (m : Q) (upsample : Z) (declared actual : Z) : bool :=
  (declared =? declared_len m) && (actual =? actual_len is_fsc m upsample).
