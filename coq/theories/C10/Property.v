(** C10 property theorems. *)
From Coq Require Import ZArith QArith Qround Bool List.
From Acryo Require Import Common.PyNum C10.Model C10.Proofs.
From AcryoGen Require Import Anchors_C10.
Import ListNotations.

(** with Backend.__eq__ (structural anchor) the shared cache raises no spurious error and returns the canonical
    template/mask under EVERY schedule, for any number of threads and calls *)
Theorem C10_cache_no_error : backend_defines_eq = true /\ cache_steps_as_modelled = true /\ constructor_fills_cache = true /\
  forall keys n schedule,
    let s := run backend_defines_eq (init keys n) schedule in any_error s = false /\ all_returns_canonical s = true.
Proof. repeat split; try reflexivity; apply cache_safe_with_eq. Qed.

Theorem C10_cache_value : forall eqdef keys n schedule, all_returns_canonical (run eqdef (init keys n) schedule) = true.
Proof. exact cache_value_any_schedule. Qed.

Theorem C10_cache_no_error_refuted_for_old_code :
  exists schedule, any_error (run false (init [1; 2]%nat 0) schedule) = true.
Proof. exact cache_no_error_refuted_without_eq. Qed.

Theorem C10_schedule_independent : forall (A B : Type) (f : A -> B) tasks d order order',
  (forall j, (j < length tasks)%nat -> In j order) -> (forall j, (j < length tasks)%nat -> In j order') ->
  forall j, (j < length tasks)%nat ->
    run_in_order f tasks d order (fun _ => None) j = run_in_order f tasks d order' (fun _ => None) j /\
    run_in_order f tasks d order (fun _ => None) j = Some (f (nth j tasks d)).
Proof. intros A B. exact (@schedule_independent A B). Qed.

(** declared landscape shape: full statement refuted on the current code (known finding), partial statement *)
Theorem C10_landscape_shape_refuted :
  (exists m u, declared_len m <> actual_len false m u) /\ (exists m, declared_len m <> actual_len false m 1).
Proof. exact landscape_shape_refuted. Qed.
Theorem C10_landscape_shape_partial : forall (z : Z) is_fsc, (0 <= z)%Z -> declared_len (inject_Z z) = actual_len is_fsc (inject_Z z) 1.
Proof. exact landscape_shape_partial. Qed.

(** the hypothesis "f is a function of the task" of C10_schedule_independent, for the task bodies of the alignment models:
    syntactically, none of them changes its arguments, the cached template/mask or the shared model (generated fact) *)
Theorem C10_tasks_are_functions : tasks_do_not_mutate_shared_state = true /\ models_hold_no_per_call_state = true /\
  concrete_models_hold_no_state = true /\ loaders_hold_no_derived_state = true /\ batch_holds_no_derived_state = true.
Proof. repeat split; reflexivity. Qed.

Print Assumptions C10_cache_no_error.
Print Assumptions C10_cache_value.
Print Assumptions C10_cache_no_error_refuted_for_old_code.
Print Assumptions C10_schedule_independent.
Print Assumptions C10_landscape_shape_refuted.
Print Assumptions C10_landscape_shape_partial.
