(** C12 model: Molecules table operations on rows (tag, v, fq) where v is an integer feature and
    fq a rational feature used by cutby.  Position, orientation and every feature of a molecule encode the tag. *)
From Coq Require Import ZArith QArith List Bool Lia Permutation.
From Acryo Require Import Common.PyNum Common.Table.
From AcryoGen Require Import Anchors_C12.
Import ListNotations.
Local Open Scope Z_scope.

Definition row := (Z * (Z * Q))%type.
Definition tag (r : row) : Z := fst r.
Definition rv (r : row) : Z := fst (snd r).
Definition rf (r : row) : Q := snd (snd r).
Definition d0 : row := (-1, (-1, 0%Q)).

Inductive op :=
| OSubInt (i : Z)                 (* subset(int) / __getitem__(int): errors are the model's None *)
| OSubSlice (a b : nat)           (* subset(slice(a, b)) with 0 <= a <= b *)
| OSubIdx (idx : list nat)        (* subset(list of int) *)
| OSubMask (m : list bool)        (* subset(boolean mask) *)
| OFilter (a b : Z)               (* filter(pl.col("tag") % a == b) *)
| OHead (n : nat) | OTail (n : nat)
| OConcat (other : list row)      (* concat_with / Molecules.concat / append *)
| OSort (desc : bool)             (* by v: checked relation *)
| OSample (n : nat).              (* checked relation *)

Definition row_eqb (a b : row) : bool := (tag a =? tag b) && (rv a =? rv b) && Qeq_bool (rf a) (rf b).
Fixpoint rows_eqb (a b : list row) : bool :=
  match a, b with [] , [] => true | x :: a', y :: b' => row_eqb x y && rows_eqb a' b' | _, _ => false end.
Fixpoint mem_row (r : row) (l : list row) : bool :=
  match l with [] => false | x :: t => row_eqb r x || mem_row r t end.
Fixpoint remove1 (r : row) (l : list row) : list row :=
  match l with [] => [] | x :: t => if row_eqb r x then t else x :: remove1 r t end.
Fixpoint submset (a b : list row) : bool :=
  match a with [] => true | x :: t => mem_row x b && submset t (remove1 x b) end.
Definition is_perm (a b : list row) : bool := submset a b && (length a =? length b)%nat.
Fixpoint sorted_v (desc : bool) (l : list row) : bool :=
  match l with
  | x :: ((y :: _) as t) => (if desc then rv y <=? rv x else rv x <=? rv y) && sorted_v desc t
  | _ => true
  end.

(** None = the implementation must reject (IndexError) *)
Definition step (prev : list row) (o : op) (observed : list row) : option (list row) :=
  match o with
  | OSubInt i => if (i <? 0) || (Z.of_nat (length prev) <=? i) then None
                 else Some (if subset_int_is_unit_slice then [nth (Z.to_nat i) prev d0] else [])
  | OSubSlice a b => Some (firstn (b - a) (skipn a prev))
  | OSubIdx idx => Some (pick_rows row idx prev d0)
  | OSubMask m => Some (mask_rows row m prev)
  | OFilter a b => Some (filter (fun r => (tag r) mod a =? b) prev)
  | OHead n => Some (head_rows row n prev)
  | OTail n => Some (tail_rows row n prev)
  | OConcat other => Some (if concat_self_first then prev ++ other else other ++ prev)
  | OSort desc => if is_perm observed prev && sorted_v desc observed then Some observed else None
  | OSample n => if submset observed prev && (length observed =? n)%nat then Some observed else None
  end.

(** cutby: polars cut with right-closed intervals; the bin index is the number of break points below the value *)
Definition bin_index (bins : list Q) (x : Q) : Z := Z.of_nat (length (filter (fun b => Qltb b x) bins)).
Definition cut_key (bins : list Q) (r : row) : Z := bin_index bins (rf r).

Fixpoint zlist_eqb (a b : list Z) : bool :=
  match a, b with [] , [] => true | x :: a', y :: b' => (x =? y) && zlist_eqb a' b' | _, _ => false end.
Fixpoint zll_eqb (a b : list (list Z)) : bool :=
  match a, b with [] , [] => true | x :: a', y :: b' => zlist_eqb x y && zll_eqb a' b' | _, _ => false end.

Record obs := Obs {
  o_ok : bool;                 (* false: the implementation raised IndexError/ValueError *)
  o_rows : list row;           (* rows decoded from the *positions* *)
  o_consistent : bool;         (* tag decoded from position = from orientation = from every feature column; counts agree *)
  o_gkeys : list Z; o_gtags : list (list Z);      (* group_by("v") *)
  o_ckeys : list Z; o_ctags : list (list Z);      (* cutby("f", bins): bin index of each group, member tags *)
  o_pure : bool }.

Definition anchors_ok : bool :=
  via_dataframe_filter && via_dataframe_head && via_dataframe_tail && via_dataframe_sample && via_dataframe_sort &&
  cutby_maintains_order && append_rejects_extra && to_dataframe_rejects_dup.

Definition check_obs (bins : list Q) (expected : list row) (ob : obs) : bool :=
  anchors_ok && o_ok ob && rows_eqb (o_rows ob) expected && o_consistent ob &&
  zlist_eqb (o_gkeys ob) (keys row rv expected) &&
  zll_eqb (o_gtags ob) (map (fun g => map tag (snd g)) (groups row rv expected)) &&
  zlist_eqb (o_ckeys ob) (keys row (cut_key bins) expected) &&
  zll_eqb (o_ctags ob) (map (fun g => map tag (snd g)) (groups row (cut_key bins) expected)) &&
  o_pure ob.

Fixpoint check_hist (bins : list Q) (cur : list row) (h : list (op * obs)) : bool :=
  match h with
  | [] => true
  | (o, ob) :: t =>
      match step cur o (o_rows ob) with
      | Some nxt => check_obs bins nxt ob && check_hist bins nxt t
      | None => negb (o_ok ob) && check_hist bins cur t     (* rejected: table unchanged *)
      end
  end.

(** every operation returns rows of its inputs *)
Definition extra (o : op) : list row := match o with OConcat other => other | _ => [] end.
Definition idx_ok (o : op) (n : nat) : Prop :=
  match o with OSubIdx idx => Forall (fun i => (i < n)%nat) idx | _ => True end.
