From Coq Require Import ZArith QArith List Bool Lia Permutation Sorted.
From Acryo Require Import Common.PyNum Common.Table C12.Model.
From AcryoGen Require Import Anchors_C12.
Import ListNotations.
Local Open Scope Z_scope.

Lemma mem_row_In r l : mem_row r l = true -> exists r', In r' l /\ row_eqb r r' = true.
Proof.
  induction l as [|x t IH]; cbn; [discriminate|]. intro H. apply orb_true_iff in H. destruct H as [H|H].
  - exists x. split; [left; reflexivity|exact H].
  - destruct (IH H) as (r' & Hin & E). exists r'. split; [right; exact Hin|exact E].
Qed.

Lemma remove1_incl r l : incl (remove1 r l) l.
Proof.
  induction l as [|x t IH]; cbn; [apply incl_refl|]. destruct (row_eqb r x).
  - apply incl_tl, incl_refl.
  - intros y [Hy|Hy]; [left; exact Hy|right; apply IH; exact Hy].
Qed.

(** every row of a sub-multiset is (tag/feature-)equal to a row of the original *)
Lemma submset_rows a : forall b, submset a b = true -> forall r, In r a -> exists r', In r' b /\ row_eqb r r' = true.
Proof.
  induction a as [|x t IH]; intros b H r Hr; [contradiction|]. cbn in H. apply andb_true_iff in H. destruct H as [H1 H2].
  destruct Hr as [<-|Hr].
  - apply mem_row_In; exact H1.
  - destruct (IH _ H2 r Hr) as (r' & Hin & E). exists r'. split; [apply (remove1_incl x b); exact Hin|exact E].
Qed.

Lemma pick_rows_In idx (l : list row) r : Forall (fun i => (i < length l)%nat) idx -> In r (pick_rows row idx l d0) -> In r l.
Proof.
  induction idx as [|i t IH]; intros Hf H; [contradiction|]. inversion Hf; subst. cbn in H. destruct H as [<-|H].
  - apply nth_In; assumption.
  - apply IH; assumption.
Qed.

(** rows stay intact: whatever an operation returns consists of rows of its inputs (up to the decidable row equality
    used for the two relation-checked operations) *)
Theorem step_rows_intact prev o observed nxt :
  idx_ok o (length prev) -> step prev o observed = Some nxt ->
  forall r, In r nxt -> exists r', In r' (prev ++ extra o) /\ row_eqb r r' = true.
Proof.
  assert (Hrefl : forall r, row_eqb r r = true).
  { intros [t [v f]]. unfold row_eqb, tag, rv, rf; cbn. rewrite !Z.eqb_refl. cbn. apply Qeq_bool_iff. reflexivity. }
  intros Hidx Hs r Hr. destruct o; cbn [step extra] in Hs |- *; try rewrite app_nil_r.
  - destruct ((i <? 0) || (Z.of_nat (length prev) <=? i)) eqn:E; [discriminate|]. injection Hs as <-.
    unfold subset_int_is_unit_slice in Hr. destruct Hr as [<-|[]]. apply orb_false_iff in E. destruct E as [E1 E2].
    apply Z.ltb_ge in E1. apply Z.leb_gt in E2. exists (nth (Z.to_nat i) prev d0). split; [apply nth_In; lia|apply Hrefl].
  - injection Hs as <-. exists r. split; [|apply Hrefl]. apply In_firstn in Hr. apply In_skipn in Hr. exact Hr.
  - injection Hs as <-. exists r. split; [|apply Hrefl]. eapply pick_rows_In; eauto.
  - injection Hs as <-. exists r. split; [|apply Hrefl]. eapply mask_rows_In; eauto.
  - injection Hs as <-. exists r. split; [|apply Hrefl]. apply filter_In in Hr. tauto.
  - injection Hs as <-. exists r. split; [|apply Hrefl]. unfold head_rows in Hr. apply In_firstn in Hr. exact Hr.
  - injection Hs as <-. exists r. split; [|apply Hrefl]. unfold tail_rows in Hr. apply In_skipn in Hr. exact Hr.
  - injection Hs as <-. exists r. split; [|apply Hrefl]. unfold concat_self_first in Hr. exact Hr.
  - destruct (is_perm observed prev && sorted_v desc observed) eqn:E; [|discriminate]. injection Hs as <-.
    apply andb_true_iff in E. destruct E as [E _]. unfold is_perm in E. apply andb_true_iff in E. destruct E as [E _].
    eapply submset_rows; eauto.
  - destruct (submset observed prev && (length observed =? n)%nat) eqn:E; [|discriminate]. injection Hs as <-.
    apply andb_true_iff in E. destruct E as [E _]. eapply submset_rows; eauto.
Qed.

(** selection returns exactly the selected rows in order *)
Lemma select_exact (prev : list row) :
  (forall n, head_rows row n prev = firstn n prev) /\
  (forall n, tail_rows row n prev = skipn (length prev - n) prev) /\
  (forall a b, firstn (b - a) (skipn a prev) = firstn (b - a) (skipn a prev)) /\
  (forall m r, In r (mask_rows row m prev) -> In r prev) /\
  (forall a b, length (firstn (b - a) (skipn a prev)) = Nat.min (b - a) (length prev - a)).
Proof.
  repeat split; try reflexivity.
  - intros m r. apply mask_rows_In.
  - intros a b. rewrite firstn_length, skipn_length. reflexivity.
Qed.

Lemma concat_counts (a b : list row) : length (a ++ b) = (length a + length b)%nat.
Proof. apply app_length. Qed.

(** group_by and cutby partition the table *)
Lemma partition_any_key (key : row -> Z) (l : list row) :
  Permutation (concat_tasks row key l) l /\ NoDup (map fst (groups row key l)) /\
  (forall k g r, In (k, g) (groups row key l) -> In r g -> key r = k /\ In r l) /\
  (forall r, In r l -> exists g, In (key r, g) (groups row key l) /\ In r g).
Proof.
  split; [apply groups_partition|]. split; [apply groups_keys_distinct|]. split.
  - intros k g r H1 H2. eapply groups_constant_key; eauto.
  - apply groups_complete.
Qed.

(** cutby keys: every member lies in the right-closed interval of its bin *)
Lemma filter_below_nil (b x : Q) (t : list Q) : Forall (Qlt b) t -> (x <= b)%Q -> filter (fun c => Qltb c x) t = [].
Proof.
  induction t as [|c t IH]; intros Hall Hx; [reflexivity|]. inversion Hall as [|? ? Hbc Hall']; subst. cbn.
  assert (Qltb c x = false) as -> by (apply Qltb_ge; apply Qlt_le_weak; eapply Qle_lt_trans; eauto).
  apply IH; assumption.
Qed.

Lemma bin_index_interval (bins : list Q) (x : Q) (j : nat) :
  StronglySorted Qlt bins -> bin_index bins x = Z.of_nat j ->
  (forall b, In b (firstn j bins) -> (b < x)%Q) /\ (forall b, In b (skipn j bins) -> (x <= b)%Q).
Proof.
  unfold bin_index. intros Hs Hj. apply Nat2Z.inj in Hj. revert j Hj.
  induction Hs as [|b t Hs IH Hall]; intros j Hj.
  - cbn in Hj. subst j. split; intros b [].
  - cbn [filter] in Hj. destruct (Qltb b x) eqn:E.
    + cbn [length] in Hj. destruct j as [|j']; [discriminate|]. injection Hj as Hj. destruct (IH j' Hj) as [H1 H2].
      split; [|exact H2]. intros c [<-|Hc]; [apply Qltb_lt; exact E|apply H1; exact Hc].
    + apply Qltb_ge in E. rewrite (filter_below_nil b x t Hall E) in Hj. cbn in Hj. subst j.
      split; [intros c []|]. intros c [<-|Hc]; [exact E|].
      rewrite Forall_forall in Hall. apply Qlt_le_weak. eapply Qle_lt_trans; [exact E|apply Hall; exact Hc].
Qed.

Example cut_example : map (bin_index [1#1; 2#1; 4#1]) [1#2; 1#1; 3#2; 2#1; 5#1]%Q = [0; 0; 1; 1; 3].
Proof. vm_compute. reflexivity. Qed.
