(** C12 property theorems. *)
From Coq Require Import ZArith QArith List Bool Lia Permutation Sorted.
From Acryo Require Import Common.PyNum Common.Table C12.Model C12.Proofs.
From AcryoGen Require Import Anchors_C12.
Import ListNotations.
Local Open Scope Z_scope.

(** after any operation the rows are rows of the inputs: position, orientation and features travel as one value *)
Theorem C12_rows_intact : forall prev o observed nxt,
  idx_ok o (length prev) -> step prev o observed = Some nxt ->
  forall r, In r nxt -> exists r', In r' (prev ++ extra o) /\ row_eqb r r' = true.
Proof. exact step_rows_intact. Qed.

Theorem C12_select_exact : forall prev : list row,
  (forall n, head_rows row n prev = firstn n prev) /\
  (forall n, tail_rows row n prev = skipn (length prev - n) prev) /\
  (forall a b, firstn (b - a) (skipn a prev) = firstn (b - a) (skipn a prev)) /\
  (forall m r, In r (mask_rows row m prev) -> In r prev) /\
  (forall a b, length (firstn (b - a) (skipn a prev)) = Nat.min (b - a) (length prev - a)).
Proof. exact select_exact. Qed.

Theorem C12_concat_counts : forall a b : list row, length (a ++ b) = (length a + length b)%nat.
Proof. exact concat_counts. Qed.

(** group_by and cutby partition the input; concatenating the groups gives a permutation of it *)
Theorem C12_partition : forall (key : row -> Z) (l : list row),
  Permutation (concat_tasks row key l) l /\ NoDup (map fst (groups row key l)) /\
  (forall k g r, In (k, g) (groups row key l) -> In r g -> key r = k /\ In r l) /\
  (forall r, In r l -> exists g, In (key r, g) (groups row key l) /\ In r g).
Proof. exact partition_any_key. Qed.

Theorem C12_cut_interval : forall (bins : list Q) (x : Q) (j : nat),
  StronglySorted Qlt bins -> bin_index bins x = Z.of_nat j ->
  (forall b, In b (firstn j bins) -> (b < x)%Q) /\ (forall b, In b (skipn j bins) -> (x <= b)%Q).
Proof. exact bin_index_interval. Qed.

(** a Molecules object stores positions, orientations and the feature table, and nothing derived from them: every view
    (axes, matrices, rotation vectors, data frames) is recomputed from the current state (generated fact) *)
Theorem C12_no_stale_views : molecules_store_only_pos_rot_features = true.
Proof. reflexivity. Qed.

(** no table operation returns the molecule set it was called on (only the documented copy=False forms do): a result can be changed in
    place (append, copy=False) without changing the input it was derived from (generated fact over the listed methods) *)
Theorem C12_results_are_new_objects : table_operations_return_new_objects = true.
Proof. reflexivity. Qed.

Print Assumptions C12_rows_intact.
Print Assumptions C12_select_exact.
Print Assumptions C12_concat_counts.
Print Assumptions C12_partition.
Print Assumptions C12_cut_interval.
