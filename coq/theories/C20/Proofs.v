From Coq Require Import ZArith QArith Qround Bool List Lia Lqa.
From Acryo Require Import Common.PyNum C20.Model.
From AcryoGen Require Import Anchors_C20.
Import ListNotations.
Local Open Scope Z_scope.

Definition covers (b : Z * Z) (g : Q) : Prop :=
  (inject_Z (fst b) - (1#2) <= g /\ g < inject_Z (fst b + snd b) - (1#2))%Q.

(** the core test of the code is exactly "g lies in the half-open cell [start - 1/2, start + size - 1/2)" *)
Lemma in_core_iff s c d g : in_core s c d (local_of s d g) = true <-> covers (s, c) g.
Proof.
  unfold in_core, core_lower_ok, core_upper_ok, core_depth, local_of, covers. cbn [fst snd].
  replace (c + 2 * d - c) with (2 * d) by lia.
  rewrite andb_true_iff, Qle_bool_iff, Qltb_lt.
  rewrite !inject_Z_mult, !inject_Z_minus, inject_Z_plus. change (inject_Z 2) with (2#1).
  assert (((2#1) * inject_Z d) / (2#1) == inject_Z d)%Q as E by field. rewrite E. split; intros [H1 H2]; split; lra.
Qed.

(** the reported global coordinate is the true one: local + start - depth *)
Lemma offset_roundtrip s d g : (global_of s d (local_of s d g) == g)%Q.
Proof. unfold global_of, local_of, pick_global_px, pick_add_start. rewrite inject_Z_minus. ring. Qed.

Lemma tiling_starts_ge : forall blocks start N b, tiling start blocks N = true -> In b blocks -> start <= fst b /\ fst b + snd b <= N /\ 0 < snd b.
Proof.
  induction blocks as [|[s c] t IH]; intros start N b H Hin; [contradiction|].
  cbn in H. apply andb_true_iff in H. destruct H as [H H3]. apply andb_true_iff in H. destruct H as [H1 H2].
  apply Z.eqb_eq in H1. apply Z.ltb_lt in H2. subst s.
  assert (start + c <= N) as HN.
  { clear IH Hin. revert H3. generalize (start + c). induction t as [|[s' c'] t' IHt]; intros st Ht; cbn in Ht.
    - apply Z.eqb_eq in Ht. lia.
    - apply andb_true_iff in Ht. destruct Ht as [Ht Ht3]. apply andb_true_iff in Ht. destruct Ht as [Ht1 Ht2].
      apply Z.ltb_lt in Ht2. specialize (IHt _ Ht3). lia. }
  destruct Hin as [<-|Hin]; cbn [fst snd]; [lia|].
  destruct (IH _ _ _ H3 Hin) as (A & B & C). lia.
Qed.

(** every position of the image belongs to the core of exactly one block, for every chunking and depth *)
Theorem cores_partition : forall blocks start N, tiling start blocks N = true ->
  forall g : Q, (inject_Z start - (1#2) <= g)%Q -> (g < inject_Z N - (1#2))%Q ->
  exists b, In b blocks /\ covers b g /\ forall b', In b' blocks -> covers b' g -> b' = b.
Proof.
  induction blocks as [|[s c] t IH]; intros start N H g Hlo Hhi.
  - cbn in H. apply Z.eqb_eq in H. subst. lra.
  - pose proof H as H0. cbn in H. apply andb_true_iff in H. destruct H as [H H3]. apply andb_true_iff in H. destruct H as [H1 H2].
    apply Z.eqb_eq in H1. apply Z.ltb_lt in H2. subst s.
    destruct (Qlt_le_dec g (inject_Z (start + c) - (1#2))) as [Hin|Hout].
    + exists (start, c). split; [left; reflexivity|]. split; [split; cbn [fst snd]; assumption|].
      intros b' [<-|Hb'] Hc; [reflexivity|]. exfalso.
      destruct (tiling_starts_ge _ _ _ _ H3 Hb') as (A & _ & _). destruct Hc as [Hc _].
      rewrite Zle_Qle in A. lra.
    + destruct (IH _ _ H3 g Hout Hhi) as (b & Hb & Hcov & Huniq).
      exists b. split; [right; exact Hb|]. split; [exact Hcov|].
      intros b' [<-|Hb'] Hc; [|apply Huniq; assumption]. exfalso. destruct Hc as [_ Hc]. cbn [fst snd] in Hc. lra.
Qed.

(** hence: the code's core filter keeps a pick in exactly one block (no duplicates, no losses) *)
Corollary no_duplicates blocks N d g : tiling 0 blocks N = true -> (- (1#2) <= g)%Q -> (g < inject_Z N - (1#2))%Q ->
  exists b, In b blocks /\ in_core (fst b) (snd b) d (local_of (fst b) d g) = true /\
            forall b', In b' blocks -> in_core (fst b') (snd b') d (local_of (fst b') d g) = true -> b' = b.
Proof.
  intros H Hlo Hhi. destruct (cores_partition blocks 0 N H g) as (b & Hb & Hc & Hu); [change (inject_Z 0) with 0%Q; lra|exact Hhi|].
  exists b. split; [exact Hb|]. split.
  - destruct b as [s c]. apply in_core_iff. exact Hc.
  - intros [s' c'] Hb' Hc'. apply Hu; [exact Hb'|]. apply in_core_iff in Hc'. exact Hc'.
Qed.

Lemma units p scale : (pick_to_nm p scale == p * scale)%Q.
Proof. reflexivity. Qed.

Lemma picker_depths sigma s : log_depth sigma = Qceiling (sigma * (2#1)) /\ dog_depth sigma = Qceiling (sigma * (2#1)) /\
  (matcher_offset s == (inject_Z s + 1) / 2)%Q.
Proof.
  unfold log_depth, dog_depth, matcher_offset. rewrite !Qtrunc_Z. split; [reflexivity|]. split; [reflexivity|].
  rewrite inject_Z_plus. reflexivity.
Qed.

Example reporters_example : reporters [(0, 4); (4, 3); (7, 5)] 2 4 = [(4, 3)] /\ reporters [(0, 4); (4, 3); (7, 5)] 2 3 = [(0, 4)].
Proof. vm_compute. split; reflexivity. Qed.
