(** C20 property theorems (partial: chunk bookkeeping). *)
From Coq Require Import ZArith QArith Qround Bool List.
From Acryo Require Import Common.PyNum C20.Model C20.Proofs.
From AcryoGen Require Import Anchors_C20.
Local Open Scope Z_scope.

Theorem C20_cores_partition : forall blocks start N, tiling start blocks N = true ->
  forall g : Q, (inject_Z start - (1#2) <= g)%Q -> (g < inject_Z N - (1#2))%Q ->
  exists b, In b blocks /\ covers b g /\ forall b', In b' blocks -> covers b' g -> b' = b.
Proof. exact cores_partition. Qed.

Theorem C20_no_duplicates : forall blocks N d g, tiling 0 blocks N = true -> (- (1#2) <= g)%Q -> (g < inject_Z N - (1#2))%Q ->
  exists b, In b blocks /\ in_core (fst b) (snd b) d (local_of (fst b) d g) = true /\
            forall b', In b' blocks -> in_core (fst b') (snd b') d (local_of (fst b') d g) = true -> b' = b.
Proof. exact no_duplicates. Qed.

Theorem C20_offset : forall s d g, (global_of s d (local_of s d g) == g)%Q.
Proof. exact offset_roundtrip. Qed.

Theorem C20_units : forall p scale, (pick_to_nm p scale == p * scale)%Q.
Proof. exact units. Qed.

Theorem C20_depths : forall sigma s, log_depth sigma = Qceiling (sigma * (2#1)) /\ dog_depth sigma = Qceiling (sigma * (2#1)) /\
  (matcher_offset s == (inject_Z s + 1) / 2)%Q.
Proof. exact picker_depths. Qed.

Theorem C20_anchors : depth_passed_as_tuple = true /\ matcher_quaternion_lookup = true.
Proof. split; reflexivity. Qed.

(** lengths given in nanometres reach the per-chunk kernels in voxels: sigma / scale for the LoG and DoG filters and for their
    exclusion radius, min_distance / scale for the template matcher (generated expressions and call-binding facts); so the same
    physical length selects the same physical neighbourhood at every voxel size *)
Theorem C20_lengths_in_voxels : forall sigma scale : Q, ~ Qeq scale 0 ->
  Qeq (Qmult (log_sigma_px sigma scale) scale) sigma /\ Qeq (Qmult (dog_sigma_low_px sigma scale) scale) sigma /\
  Qeq (Qmult (dog_sigma_high_px sigma scale) scale) sigma /\ picker_lengths_reach_the_kernels_in_voxels = true.
Proof.
  intros sigma scale H. unfold log_sigma_px, dog_sigma_low_px, dog_sigma_high_px.
  split; [field; exact H|]. split; [field; exact H|]. split; [field; exact H|]. reflexivity.
Qed.

Print Assumptions C20_cores_partition.
Print Assumptions C20_no_duplicates.
Print Assumptions C20_offset.
Print Assumptions C20_units.
Print Assumptions C20_depths.
Print Assumptions C20_anchors.
Print Assumptions C20_lengths_in_voxels.
