(** C20 model: overlapped block bookkeeping of BasePickerModel.pick_molecules. *)
From Coq Require Import ZArith QArith Qround Bool List Lia.
From Acryo Require Import Common.PyNum.
From AcryoGen Require Import Anchors_C20.
Import ListNotations.
Local Open Scope Z_scope.

(** one axis: blocks given by their un-overlapped (start, size); the overlapped block is extended by d on both sides *)
Fixpoint tiling (start : Z) (blocks : list (Z * Z)) (N : Z) : bool :=
  match blocks with
  | [] => start =? N
  | (s, c) :: t => (s =? start) && (0 <? c) && tiling (start + c) t N
  end.

(** local coordinate (in the overlapped block) of global coordinate g *)
Definition local_of (s d : Z) (g : Q) : Q := (g - inject_Z (s - d))%Q.
(** global coordinate reported for a local pick: local + start, minus depth at the end *)
Definition global_of (s d : Z) (l : Q) : Q := pick_global_px (pick_add_start l s) d.
(** core test of _pick_in_chunk_wrapped (generated anchors): depth recovered from the block shape *)
Definition in_core (s c d : Z) (l : Q) : bool :=
  let size := c in
  let dep := core_depth (c + 2 * d) size in
  core_lower_ok l dep && core_upper_ok l dep size.

(** integer markers: the blocks that report marker g along one axis *)
Definition reporters (blocks : list (Z * Z)) (d : Z) (g : Z) : list (Z * Z) :=
  filter (fun b => let '(s, c) := b in
                   (s - d <=? g) && (g <? s + c + d) && in_core s c d (local_of s d (inject_Z g))) blocks.

Definition marker := (Z * Z * Z)%type.
Definition pick_model (bz by_ bx : list (Z * Z)) (d : Z * Z * Z) (markers : list marker) : list marker :=
  let '(dz, dy, dx) := d in
  flat_map (fun m => let '(gz, gy, gx) := m in
     flat_map (fun _ => flat_map (fun _ => map (fun _ => m) (reporters bx dx gx)) (reporters by_ dy gy)) (reporters bz dz gz)) markers.

Definition marker_eqb (a b : marker) : bool :=
  let '(a0, a1, a2) := a in let '(b0, b1, b2) := b in (a0 =? b0) && (a1 =? b1) && (a2 =? b2).
Definition count (m : marker) (l : list marker) : nat := length (filter (marker_eqb m) l).
Definition same_multiset (a b : list marker) : bool :=
  Nat.eqb (length a) (length b) && forallb (fun m => Nat.eqb (count m a) (count m b)) (a ++ b).

(** observed: block layout per axis (from block_info), depth used, scale, planted markers, reported positions in nm *)
Definition check_picks (N : Z * Z * Z) (bz by_ bx : list (Z * Z)) (d : Z * Z * Z) (scale : Q)
           (markers : list marker) (reported_nm : list (Q * Q * Q)) : bool :=
  let '(nz, ny, nx) := N in
  let model := pick_model bz by_ bx d markers in
  let to_nm m := let '(a, b, c) := m in (pick_to_nm (inject_Z a) scale, pick_to_nm (inject_Z b) scale, pick_to_nm (inject_Z c) scale) in
  let close p q := let '(a, b, c) := p in let '(x, y, z) := q in
                   Qclose (1#10000) a x && Qclose (1#10000) b y && Qclose (1#10000) c z in
  depth_passed_as_tuple &&
  tiling 0 bz nz && tiling 0 by_ ny && tiling 0 bx nx &&
  same_multiset model markers &&
  Nat.eqb (length reported_nm) (length model) &&
  forallb (fun m => Nat.eqb (length (filter (close (to_nm m)) reported_nm)) (count m model)) markers.
