(** C16 model: Butterworth weights on the FFT grid, real-FFT lengths, identity guard. *)
From Coq Require Import ZArith QArith Qabs Bool List Lia.
From Acryo Require Import Common.PyNum.
From AcryoGen Require Import Anchors_C16.
Import ListNotations.
Local Open Scope Z_scope.

Definition fft_index (n i : Z) : Z := if i <=? (n - 1) / 2 then i else i - n.
(** integer frequency at position i of an axis of length d: arange(lo, hi)[ (i + d/2) mod d ]  (ifftshift) *)
Definition butter_axis (lo : Z -> Z) (d i : Z) : Z := lo d + (i + d / 2) mod d.
Definition axis_utils := butter_axis bw_lo_utils.
Definition axis_backend := butter_axis bw_lo_backend.
Definition arange_len (lo hi : Z -> Z) (d : Z) : Z := hi d - lo d.

Fixpoint qpow (x : Q) (n : nat) : Q := match n with O => 1 | S n' => x * qpow x n' end.
Definition q2term (k d : Z) (cutoff : Q) : Q := let a := (inject_Z k / (inject_Z d * cutoff))%Q in (a * a)%Q.
Definition weight (ks ds : list Z) (cutoff : Q) (order : Z) : Q :=
  let q2 := fold_right Qplus 0%Q (map (fun p => q2term (fst p) (snd p) cutoff) (combine ks ds)) in
  (1 / (1 + qpow q2 (Z.to_nat order)))%Q.

Definition zrange (n : Z) : list Z := map Z.of_nat (seq 0 (Z.to_nat n)).
Definition znth (l : list Z) (i : nat) : Z := nth i l 0.

Definition weight_grid (ax : Z -> Z -> Z) (limit : Z -> Z) (shape : list Z) (cutoff : Q) (order : Z) (real : bool)
  : list Z * list Q :=
  let d0 := znth shape 0 in let d1 := znth shape 1 in let d2 := znth shape 2 in
  let n2 := if real then limit d2 else d2 in
  ([d0; d1; n2],
   flat_map (fun i => flat_map (fun j => map (fun l => weight [ax d0 i; ax d1 j; ax d2 l] [d0; d1; d2] cutoff order)
     (zrange n2)) (zrange d1)) (zrange d0)).

Fixpoint zlist_eqb (a b : list Z) : bool :=
  match a, b with [] , [] => true | x :: a', y :: b' => (x =? y) && zlist_eqb a' b' | _, _ => false end.
Fixpoint close_list (a b : list Q) : bool :=
  match a, b with
  | [], [] => true
  | x :: a', y :: b' => Qle_bool (Qabs (x - y)) (1 # 100000) && close_list a' b'
  | _, _ => false
  end.
Definition check_weight (ax : Z -> Z -> Z) (limit : Z -> Z) (structure : bool) shape cutoff order real (wshape : list Z) (vals : list Q) : bool :=
  let '(s, w) := weight_grid ax limit shape cutoff order real in
  structure && zlist_eqb wshape s && close_list vals w.
Definition check_weight_utils := check_weight axis_utils bw_limit_utils bw_structure_utils.
Definition check_weight_backend := check_weight axis_backend bw_limit_backend bw_structure_backend.

(** identity guard in squared form: cutoff <= 0 or cutoff^2 >= ndim/4 *)
Definition guard (cutoff : Q) (ndim : Z) : bool := Qle_bool cutoff 0 || Qle_bool (inject_Z ndim / 4) (cutoff * cutoff).
(** length of irfftn's last axis: the requested one when s is passed, 2(m-1) otherwise *)
Definition irfft_last (passes_shape : bool) (limit : Z -> Z) (d : Z) : Z := if passes_shape then d else 2 * (limit d - 1).
Definition out_shape (passes_shape : bool) (limit : Z -> Z) (shape : list Z) (cutoff : Q) : list Z :=
  if guard cutoff 3 then shape else [znth shape 0; znth shape 1; irfft_last passes_shape limit (znth shape 2)].
Definition check_shape (g : bool) (passes_shape : bool) (ftg : bool) (limit : Z -> Z) shape cutoff (got gotft : list Z) (ident : bool) : bool :=
  g && ftg && zlist_eqb got (out_shape passes_shape limit shape cutoff) && zlist_eqb gotft shape &&
  (if guard cutoff 3 then ident else true).
Definition check_shape_utils := check_shape lp_guard_utils lp_passes_shape_utils lp_ft_guard_utils bw_limit_utils.
Definition check_shape_backend := check_shape lp_guard_backend lp_passes_shape_backend lp_ft_guard_backend bw_limit_backend.
