(** C16 property theorems. *)
From Coq Require Import ZArith QArith Qabs Bool List.
From Acryo Require Import Common.PyNum C16.Model C16.Proofs.
From AcryoGen Require Import Anchors_C16.
Import ListNotations.
Local Open Scope Z_scope.

Theorem C16_grid : forall d i, 1 <= d -> 0 <= i < d -> axis_utils d i = fft_index d i /\ axis_backend d i = fft_index d i.
Proof. intros d i Hd Hi. split; [apply axis_utils_ok|apply axis_backend_ok]; assumption. Qed.

Theorem C16_arange_len : forall d, 1 <= d -> arange_len bw_lo_utils bw_hi_utils d = d /\ arange_len bw_lo_backend bw_hi_backend d = d.
Proof. intros d H. split; [apply arange_len_utils|apply arange_len_backend]; exact H. Qed.

Theorem C16_weight : forall ks ds cutoff order, (0 < weight ks ds cutoff order /\ weight ks ds cutoff order <= 1)%Q.
Proof. exact weight_range. Qed.

Theorem C16_weight_dc : forall ds cutoff order, 1 <= order -> ~ cutoff == 0 -> Forall (fun d => d <> 0) ds -> length ds = 3%nat ->
  (weight [0%Z; 0%Z; 0%Z] ds cutoff order == 1)%Q.
Proof. exact weight_dc. Qed.

Theorem C16_weight_even : forall (k0 k1 k2 : Z) ds cutoff order,
  (weight [(- k0)%Z; (- k1)%Z; (- k2)%Z] ds cutoff order == weight [k0; k1; k2] ds cutoff order)%Q.
Proof. exact weight_even. Qed.

(** the gain is the stated Butterworth formula 1 / (1 + (|f| / cutoff)^(2 order)) with |f|^2 = sum (k_i / d_i)^2 (cycles per pixel) ... *)
Theorem C16_weight_formula : forall (k0 k1 k2 d0 d1 d2 : Z) cutoff order, d0 <> 0 -> d1 <> 0 -> d2 <> 0 -> ~ (cutoff == 0)%Q ->
  (weight [k0; k1; k2] [d0; d1; d2] cutoff order == 1 / (1 + qpow (freq2 k0 k1 k2 d0 d1 d2 / (cutoff * cutoff)) (Z.to_nat order)))%Q.
Proof. exact weight_formula. Qed.

(** ... so it is exactly one half at |f| = cutoff whatever the order ... *)
Theorem C16_weight_half_at_cutoff : forall (k0 k1 k2 d0 d1 d2 : Z) cutoff order, d0 <> 0 -> d1 <> 0 -> d2 <> 0 -> ~ (cutoff == 0)%Q ->
  (freq2 k0 k1 k2 d0 d1 d2 == cutoff * cutoff)%Q -> (weight [k0; k1; k2] [d0; d1; d2] cutoff order == 1 # 2)%Q.
Proof. exact weight_half. Qed.

(** ... and never increases with |f| (low-pass) *)
Theorem C16_weight_monotone : forall (k0 k1 k2 k0' k1' k2' d0 d1 d2 : Z) cutoff order,
  d0 <> 0 -> d1 <> 0 -> d2 <> 0 -> ~ (cutoff == 0)%Q ->
  (freq2 k0 k1 k2 d0 d1 d2 <= freq2 k0' k1' k2' d0 d1 d2)%Q ->
  (weight [k0'; k1'; k2'] [d0; d1; d2] cutoff order <= weight [k0; k1; k2] [d0; d1; d2] cutoff order)%Q.
Proof. exact weight_monotone. Qed.

Example C16_weight_half_nonvacuous : (freq2 2 0 0 8 8 8 == (1#4) * (1#4))%Q /\ (weight [2%Z; 0%Z; 0%Z] [8%Z; 8%Z; 8%Z] (1#4) 3 == 1 # 2)%Q.
Proof. split; vm_compute; reflexivity. Qed.

Theorem C16_shape : forall shape cutoff, length shape = 3%nat -> lp_passes_shape_utils = true ->
  out_shape lp_passes_shape_utils bw_limit_utils shape cutoff = shape /\
  out_shape lp_passes_shape_backend bw_limit_backend shape cutoff = shape.
Proof. exact shape_preserved. Qed.

Theorem C16_shape_anchor : lp_passes_shape_utils = true /\ lp_passes_shape_backend = true.
Proof. split; reflexivity. Qed.

Theorem C16_two_impls : forall d i, axis_utils d i = axis_backend d i /\ bw_limit_utils d = bw_limit_backend d.
Proof. exact two_impls_agree. Qed.

Theorem C16_identity_guard : forall cutoff ndim,
  guard cutoff ndim = true <-> (cutoff <= 0 \/ inject_Z ndim / 4 <= cutoff * cutoff)%Q.
Proof. exact guard_spec. Qed.

Print Assumptions C16_grid.
Print Assumptions C16_arange_len.
Print Assumptions C16_weight.
Print Assumptions C16_weight_dc.
(** the filters are functions of (image, cutoff, order): no state survives a call (generated syntactic fact: neither the
    image argument nor the cached weights are modified in place) *)
Theorem C16_no_memory : filters_have_no_memory = true.
Proof. reflexivity. Qed.

Print Assumptions C16_weight_even.
Print Assumptions C16_shape.
Print Assumptions C16_shape_anchor.
Print Assumptions C16_two_impls.
Print Assumptions C16_identity_guard.
Print Assumptions C16_weight_formula.
Print Assumptions C16_weight_half_at_cutoff.
Print Assumptions C16_weight_monotone.
