From Coq Require Import ZArith QArith Qabs Bool List Lia Lqa Setoid Morphisms.
From Acryo Require Import Common.PyNum C16.Model.
From AcryoGen Require Import Anchors_C16.
Import ListNotations.
Local Open Scope Z_scope.

Ltac Zify.zify_post_hook ::= Z.to_euclidean_division_equations.

(** the arange has exactly d entries and, after ifftshift, is the FFT index order: |f| is in cycles per pixel after /d *)
Lemma arange_len_utils d : 1 <= d -> arange_len bw_lo_utils bw_hi_utils d = d.
Proof. intro H. unfold arange_len, bw_lo_utils, bw_hi_utils. lia. Qed.
Lemma arange_len_backend d : 1 <= d -> arange_len bw_lo_backend bw_hi_backend d = d.
Proof. intro H. unfold arange_len, bw_lo_backend, bw_hi_backend. lia. Qed.

Lemma butter_axis_generic (lo : Z -> Z) d i : (forall n, lo n = (- (n - 1)) / 2) -> 1 <= d -> 0 <= i < d ->
  butter_axis lo d i = fft_index d i.
Proof.
  intros Hlo Hd Hi. unfold butter_axis, fft_index. rewrite Hlo.
  destruct (Z.lt_ge_cases (i + d / 2) d) as [Hlt|Hge].
  - rewrite Z.mod_small by lia. destruct (Z.leb_spec i ((d - 1) / 2)); lia.
  - assert ((i + d / 2) mod d = i + d / 2 - d) as -> by (symmetry; apply Z.mod_unique with 1; lia).
    destruct (Z.leb_spec i ((d - 1) / 2)); lia.
Qed.
Lemma axis_utils_ok d i : 1 <= d -> 0 <= i < d -> axis_utils d i = fft_index d i.
Proof. intros. unfold axis_utils. apply butter_axis_generic; auto. Qed.
Lemma axis_backend_ok d i : 1 <= d -> 0 <= i < d -> axis_backend d i = fft_index d i.
Proof. intros. unfold axis_backend. apply butter_axis_generic; auto. Qed.

(** the two implementations agree on the grid and on the real-FFT length *)
Lemma two_impls_agree d i : axis_utils d i = axis_backend d i /\ bw_limit_utils d = bw_limit_backend d.
Proof. split; reflexivity. Qed.

Lemma limit_is_rfft_len d : 1 <= d -> bw_limit_utils d = d / 2 + 1 /\ 1 <= bw_limit_utils d <= d.
Proof. intro H. unfold bw_limit_utils. lia. Qed.

(** weights: Butterworth gain in (0,1], 1 at zero frequency, even in every index *)
Lemma qpow_nonneg x n : (0 <= x)%Q -> (0 <= qpow x n)%Q.
Proof. intro H. induction n; cbn; [lra|]. apply Qmult_le_0_compat; assumption. Qed.

Lemma fold_q2_nonneg l cutoff : (0 <= fold_right Qplus 0 (map (fun p => q2term (fst p) (snd p) cutoff) l))%Q.
Proof.
  induction l as [|p t IH]; cbn; [lra|].
  assert (0 <= q2term (fst p) (snd p) cutoff)%Q by (unfold q2term; apply Qsquare_nonneg || nra).
  lra.
Qed.

Lemma weight_range ks ds cutoff order : (0 < weight ks ds cutoff order /\ weight ks ds cutoff order <= 1)%Q.
Proof.
  unfold weight. set (q2 := fold_right Qplus 0%Q _).
  assert (0 <= qpow q2 (Z.to_nat order))%Q as H by (apply qpow_nonneg; apply fold_q2_nonneg).
  set (p := qpow q2 (Z.to_nat order)) in *.
  assert (0 < 1 + p)%Q as Hpos by lra.
  split.
  - apply Qlt_shift_div_l; [exact Hpos|lra].
  - apply Qle_shift_div_r; [exact Hpos|lra].
Qed.

Lemma weight_dc ds cutoff order : 1 <= order -> ~ cutoff == 0 -> Forall (fun d => d <> 0) ds -> length ds = 3%nat ->
  (weight [0%Z; 0%Z; 0%Z] ds cutoff order == 1)%Q.
Proof.
  intros Ho Hc Hd Hl. destruct ds as [|d0 [|d1 [|d2 [|]]]]; try discriminate.
  unfold weight. cbn [combine map fold_right fst snd].
  set (q2 := (q2term 0%Z d0 cutoff + (q2term 0%Z d1 cutoff + (q2term 0%Z d2 cutoff + 0)))%Q).
  assert (E : (q2 == 0)%Q).
  { unfold q2, q2term. change (inject_Z 0) with 0%Q. unfold Qdiv. ring. }
  destruct (Z.to_nat order) as [|n] eqn:En; [lia|]. cbn [qpow].
  assert (q2 * qpow q2 n == 0)%Q as -> by (rewrite E at 1; ring). reflexivity.
Qed.

Global Instance qpow_Proper : Proper (Qeq ==> eq ==> Qeq) qpow.
Proof.
  intros x y E n m <-. induction n as [|n IH]; cbn; [reflexivity|]. rewrite IH, E. reflexivity.
Qed.

Lemma q2term_even (k : Z) d cutoff : (q2term (- k)%Z d cutoff == q2term k d cutoff)%Q.
Proof. unfold q2term. rewrite inject_Z_opp. unfold Qdiv. ring. Qed.

Lemma weight_even (k0 k1 k2 : Z) ds cutoff order :
  (weight [(- k0)%Z; (- k1)%Z; (- k2)%Z] ds cutoff order == weight [k0; k1; k2] ds cutoff order)%Q.
Proof.
  unfold weight. destruct ds as [|d0 [|d1 [|d2 t]]]; cbn [combine map fold_right fst snd]; try reflexivity.
  - rewrite (q2term_even k0). reflexivity.
  - rewrite (q2term_even k0), (q2term_even k1). reflexivity.
  - rewrite (q2term_even k0), (q2term_even k1), (q2term_even k2). reflexivity.
Qed.

(** shape: with the input shape passed to irfftn the output shape is the input shape for every parity *)
Lemma shape_preserved shape cutoff : length shape = 3%nat ->
  lp_passes_shape_utils = true -> out_shape lp_passes_shape_utils bw_limit_utils shape cutoff = shape /\
  out_shape lp_passes_shape_backend bw_limit_backend shape cutoff = shape.
Proof.
  intros Hl _. destruct shape as [|a [|b [|c [|]]]]; try discriminate.
  unfold out_shape, irfft_last, lp_passes_shape_utils, lp_passes_shape_backend, znth. cbn [nth].
  destruct (guard cutoff 3); split; reflexivity.
Qed.

(** the pre-fix behaviour: without s the last axis has 2 (d/2+1-1) = d - 1 samples when d is odd *)
Example old_shape_refuted : irfft_last false bw_limit_utils 9 = 8 /\ irfft_last false bw_limit_utils 8 = 8.
Proof. vm_compute. split; reflexivity. Qed.

(** identity guard: non-positive cutoff, or cutoff beyond the Nyquist diagonal sqrt(ndim)/2 *)
Lemma guard_spec cutoff ndim : guard cutoff ndim = true <-> (cutoff <= 0 \/ inject_Z ndim / 4 <= cutoff * cutoff)%Q.
Proof.
  unfold guard. rewrite orb_true_iff. rewrite !Qle_bool_iff. reflexivity.
Qed.

(** ---- the weight is the stated Butterworth gain 1 / (1 + (|f| / cutoff)^(2 order)), |f| in cycles per pixel ---- *)
Lemma qpow_comp x y n : (x == y)%Q -> (qpow x n == qpow y n)%Q.
Proof. intro E. induction n as [|n IH]; cbn [qpow]; [reflexivity|]. rewrite IH, E. reflexivity. Qed.

Lemma qpow_le x y n : (0 <= x)%Q -> (x <= y)%Q -> (qpow x n <= qpow y n)%Q.
Proof.
  intros Hx Hxy. induction n as [|n IH]; cbn [qpow]; [apply Qle_refl|].
  apply Qle_trans with (x * qpow y n)%Q.
  - rewrite !(Qmult_comm x). apply Qmult_le_compat_r; assumption.
  - apply Qmult_le_compat_r; [assumption|]. apply qpow_nonneg. apply Qle_trans with x; assumption.
Qed.

Definition freq2 (k0 k1 k2 d0 d1 d2 : Z) : Q :=
  ((inject_Z k0 / inject_Z d0) * (inject_Z k0 / inject_Z d0) + (inject_Z k1 / inject_Z d1) * (inject_Z k1 / inject_Z d1)
   + (inject_Z k2 / inject_Z d2) * (inject_Z k2 / inject_Z d2))%Q.

Lemma inject_Z_nz d : d <> 0%Z -> ~ (inject_Z d == 0)%Q.
Proof. intros H E. apply H. apply (proj1 (inject_Z_injective d 0)). exact E. Qed.

Lemma weight_formula (k0 k1 k2 d0 d1 d2 : Z) cutoff order : d0 <> 0%Z -> d1 <> 0%Z -> d2 <> 0%Z -> ~ (cutoff == 0)%Q ->
  (weight [k0; k1; k2] [d0; d1; d2] cutoff order == 1 / (1 + qpow (freq2 k0 k1 k2 d0 d1 d2 / (cutoff * cutoff)) (Z.to_nat order)))%Q.
Proof.
  intros H0 H1 H2 Hc. unfold weight. cbn [combine map fold_right fst snd].
  assert (q2term k0 d0 cutoff + (q2term k1 d1 cutoff + (q2term k2 d2 cutoff + 0)) == freq2 k0 k1 k2 d0 d1 d2 / (cutoff * cutoff))%Q as E.
  { unfold q2term, freq2. field. repeat split; try assumption; apply inject_Z_nz; assumption. }
  rewrite (qpow_comp _ _ (Z.to_nat order) E). reflexivity.
Qed.

(** half gain exactly at |f| = cutoff, for every order *)
Lemma weight_half (k0 k1 k2 d0 d1 d2 : Z) cutoff order : d0 <> 0%Z -> d1 <> 0%Z -> d2 <> 0%Z -> ~ (cutoff == 0)%Q ->
  (freq2 k0 k1 k2 d0 d1 d2 == cutoff * cutoff)%Q ->
  (weight [k0; k1; k2] [d0; d1; d2] cutoff order == 1 # 2)%Q.
Proof.
  intros H0 H1 H2 Hc E. rewrite weight_formula by assumption.
  assert (freq2 k0 k1 k2 d0 d1 d2 / (cutoff * cutoff) == 1)%Q as E1 by (rewrite E; field; exact Hc).
  rewrite (qpow_comp _ _ (Z.to_nat order) E1).
  assert (forall n, qpow 1 n == 1)%Q as P1 by (induction n as [|n IH]; cbn [qpow]; [reflexivity|rewrite IH; reflexivity]).
  rewrite P1. reflexivity.
Qed.

(** low-pass: the gain never increases with |f| *)
Lemma weight_monotone (k0 k1 k2 k0' k1' k2' d0 d1 d2 : Z) cutoff order :
  d0 <> 0%Z -> d1 <> 0%Z -> d2 <> 0%Z -> ~ (cutoff == 0)%Q ->
  (freq2 k0 k1 k2 d0 d1 d2 <= freq2 k0' k1' k2' d0 d1 d2)%Q ->
  (weight [k0'; k1'; k2'] [d0; d1; d2] cutoff order <= weight [k0; k1; k2] [d0; d1; d2] cutoff order)%Q.
Proof.
  intros H0 H1 H2 Hc Hle. rewrite !weight_formula by assumption.
  assert (0 < cutoff * cutoff)%Q as Hcc.
  { destruct (Qlt_le_dec 0 (cutoff * cutoff)) as [|Hn]; [assumption|]. exfalso.
    assert (0 <= cutoff * cutoff)%Q by (destruct (Qlt_le_dec cutoff 0); nra). assert (cutoff * cutoff == 0)%Q as Z0 by lra.
    apply Qmult_integral in Z0. destruct Z0; contradiction. }
  assert (0 <= freq2 k0 k1 k2 d0 d1 d2)%Q as Hf.
  { unfold freq2. set (a := (inject_Z k0 / inject_Z d0)%Q). set (b := (inject_Z k1 / inject_Z d1)%Q). set (c := (inject_Z k2 / inject_Z d2)%Q). nra. }
  set (x := (freq2 k0 k1 k2 d0 d1 d2 / (cutoff * cutoff))%Q). set (y := (freq2 k0' k1' k2' d0 d1 d2 / (cutoff * cutoff))%Q).
  assert (0 <= x)%Q as Hx. { unfold x. apply Qle_shift_div_l; [exact Hcc|]. lra. }
  assert (x <= y)%Q as Hxy. { unfold x, y. unfold Qdiv. apply Qmult_le_compat_r; [exact Hle|]. apply Qlt_le_weak, Qinv_lt_0_compat, Hcc. }
  pose proof (qpow_le x y (Z.to_nat order) Hx Hxy) as Hp. pose proof (qpow_nonneg x (Z.to_nat order) Hx) as Hpx.
  set (px := qpow x (Z.to_nat order)) in *. set (py := qpow y (Z.to_nat order)) in *.
  apply Qle_shift_div_l; [lra|]. 
  assert (1 / (1 + py) * (1 + px) == (1 + px) / (1 + py))%Q as -> by (field; lra).
  apply Qle_shift_div_r; lra.
Qed.
