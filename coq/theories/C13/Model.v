(** C13 model: serialisation layout, suffix dispatch, decimal rounding of CSV. *)
From Coq Require Import ZArith QArith Qround Qabs Bool List String.
From Acryo Require Import Common.PyNum.
From AcryoGen Require Import Anchors_C13.
Import ListNotations.
Local Open Scope string_scope.

Definition mem (s : string) (l : list string) : bool := existsb (String.eqb s) l.
Fixpoint slist_eqb (a b : list string) : bool :=
  match a, b with [], [] => true | x :: a', y :: b' => String.eqb x y && slist_eqb a' b' | _, _ => false end.

(** to_dataframe: coordinate columns then features; rejected when a feature is named like a coordinate column *)
Definition to_dataframe_columns (features : list string) : option (list string) :=
  if existsb (fun f => mem f csv_columns) features then None else Some (dataframe_columns ++ features)%list.
(** from_dataframe: features are the columns that are not position / rotation columns *)
Definition from_dataframe_features (columns : list string) : list string :=
  filter (fun c => negb (mem c csv_columns)) columns.

Definition check_layout (features : list string) (obs : option (list string * list string)) : bool :=
  from_dataframe_splits_by_name &&
  match to_dataframe_columns features, obs with
  | None, None => true
  | Some cols, Some (ocols, ofeats) => slist_eqb ocols cols && slist_eqb ofeats (from_dataframe_features cols) && slist_eqb ofeats features
  | _, _ => false
  end.

Definition writer_is_parquet (suffix : string) : bool := mem suffix writer_parquet_suffixes.
Definition reader_is_parquet (suffix : string) : bool := mem suffix reader_parquet_suffixes.
Definition check_dispatch (suffix : string) (w r : bool) : bool :=
  Bool.eqb w (writer_is_parquet suffix) && Bool.eqb r (reader_is_parquet suffix).

(** decimal rounding to p places (nearest; ties are measure-zero for binary floats) *)
Definition pow10 (p : nat) : Q := inject_Z (Z.pow 10 (Z.of_nat p)).
Definition csv_round (p : nat) (x : Q) : Q := (inject_Z (Qround_he (x * pow10 p)) / pow10 p)%Q.
Definition check_csv (p : nat) (x txt : Q) : bool :=
  Qle_bool (Qabs (txt - x)) ((1#2) / pow10 p + (1 # 1000000000000)) && Qle_bool (Qabs (txt - csv_round p x)) ((1#1) / pow10 p).
