From Coq Require Import ZArith QArith Qround Qabs Bool List String Lia Lqa.
From Acryo Require Import Common.PyNum C13.Model.
From AcryoGen Require Import Anchors_C13.
Import ListNotations.

(** layout: z, y, x, zvec, yvec, xvec, then the features in order; collisions rejected *)
Lemma layout features cols : to_dataframe_columns features = Some cols ->
  cols = List.app ["z"%string; "y"%string; "x"%string; "zvec"%string; "yvec"%string; "xvec"%string] features /\
  Forall (fun f => mem f csv_columns = false) features.
Proof.
  unfold to_dataframe_columns. destruct (existsb (fun f => mem f csv_columns) features) eqn:E; [discriminate|].
  intro H. injection H as <-. split; [reflexivity|].
  apply Forall_forall. intros f Hf. destruct (mem f csv_columns) eqn:M; [|reflexivity].
  assert (existsb (fun f => mem f csv_columns) features = true) by (apply existsb_exists; exists f; auto). congruence.
Qed.

Lemma collision_rejected features f : In f features -> mem f csv_columns = true -> to_dataframe_columns features = None.
Proof.
  intros Hin Hm. unfold to_dataframe_columns.
  assert (existsb (fun f => mem f csv_columns) features = true) as -> by (apply existsb_exists; exists f; auto). reflexivity.
Qed.

Lemma filter_all_false {A} (p : A -> bool) l : Forall (fun x => p x = false) l -> filter p l = [].
Proof. induction 1 as [|x l Hx _ IH]; cbn; [reflexivity|]. rewrite Hx. exact IH. Qed.
Lemma filter_all_true {A} (p : A -> bool) l : Forall (fun x => p x = true) l -> filter p l = l.
Proof. induction 1 as [|x l Hx _ IH]; cbn; [reflexivity|]. rewrite Hx, IH. reflexivity. Qed.

(** data-frame round trip of the column structure: splitting what to_dataframe laid out gives back the features *)
Lemma df_roundtrip features cols : to_dataframe_columns features = Some cols -> from_dataframe_features cols = features.
Proof.
  intro H. destruct (layout features cols H) as [-> Hf]. unfold from_dataframe_features. rewrite filter_app.
  assert (filter (fun c => negb (mem c csv_columns)) ["z"; "y"; "x"; "zvec"; "yvec"; "xvec"]%string = []) as -> by reflexivity.
  cbn [app]. apply filter_all_true. eapply Forall_impl; [|exact Hf]. intros a Ha. cbn beta. rewrite Ha. reflexivity.
Qed.

(** reader and writer dispatch on the same suffixes *)
Lemma dispatch_consistent s : reader_is_parquet s = writer_is_parquet s.
Proof. reflexivity. Qed.
Lemma dispatch_parquet : writer_is_parquet ".pq" = true /\ writer_is_parquet ".parquet" = true /\ writer_is_parquet ".csv" = false /\ writer_is_parquet "" = false.
Proof. repeat split; reflexivity. Qed.

(** CSV precision *)
Lemma pow10_pos p : (0 < pow10 p)%Q.
Proof. unfold pow10. change 0%Q with (inject_Z 0). rewrite <- Zlt_Qlt. apply Z.pow_pos_nonneg; lia. Qed.

Lemma csv_precision p x : (Qabs (csv_round p x - x) <= (1#2) / pow10 p)%Q.
Proof.
  pose proof (pow10_pos p) as Hp. unfold csv_round.
  pose proof (Qround_he_bounds (x * pow10 p)) as [H1 H2].
  set (r := inject_Z (Qround_he (x * pow10 p))) in *. set (t := pow10 p) in *.
  assert (r / t - x == (r - x * t) / t)%Q as -> by (field; lra).
  apply Qabs_Qle_condition. split.
  - apply Qle_shift_div_l; [exact Hp|]. assert (- ((1#2) / t) * t == - (1#2))%Q as -> by (field; lra). lra.
  - apply Qle_shift_div_r; [exact Hp|]. assert ((1#2) / t * t == (1#2))%Q as -> by (field; lra). lra.
Qed.

Example csv_example : (csv_round 2 (31415927#10000000) == 314#100)%Q /\ (csv_round 0 (-(26#10)) == -(3#1))%Q.
Proof. vm_compute. split; reflexivity. Qed.
