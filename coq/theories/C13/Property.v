(** C13 property theorems. *)
From Coq Require Import ZArith QArith Qround Qabs Bool List String.
From Acryo Require Import Common.PyNum C13.Model C13.Proofs.
From AcryoGen Require Import Anchors_C13.
Import ListNotations.

Theorem C13_layout : forall features cols, to_dataframe_columns features = Some cols ->
  cols = List.app ["z"%string; "y"%string; "x"%string; "zvec"%string; "yvec"%string; "xvec"%string] features /\
  Forall (fun f => mem f csv_columns = false) features.
Proof. exact layout. Qed.
Theorem C13_collision_rejected : forall features f, In f features -> mem f csv_columns = true -> to_dataframe_columns features = None.
Proof. exact collision_rejected. Qed.
Theorem C13_df_roundtrip : forall features cols, to_dataframe_columns features = Some cols -> from_dataframe_features cols = features.
Proof. exact df_roundtrip. Qed.
Theorem C13_dispatch_consistent : forall s, reader_is_parquet s = writer_is_parquet s.
Proof. exact dispatch_consistent. Qed.
Theorem C13_dispatch_suffixes : writer_is_parquet ".pq" = true /\ writer_is_parquet ".parquet" = true /\ writer_is_parquet ".csv" = false /\ writer_is_parquet "" = false.
Proof. exact dispatch_parquet. Qed.
Theorem C13_csv_precision : forall p x, (Qabs (csv_round p x - x) <= (1#2) / pow10 p)%Q.
Proof. exact csv_precision. Qed.

(** a Molecules object stores positions, orientations and the feature table, and nothing derived from them: every view
    (axes, matrices, rotation vectors, data frames) is recomputed from the current state (generated fact) *)
Theorem C13_no_stale_views : molecules_store_only_pos_rot_features = true.
Proof. reflexivity. Qed.

Print Assumptions C13_layout.
Print Assumptions C13_collision_rejected.
Print Assumptions C13_df_roundtrip.
Print Assumptions C13_dispatch_consistent.
Print Assumptions C13_dispatch_suffixes.
Print Assumptions C13_csv_precision.
