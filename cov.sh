#!/bin/bash
HERE=/tmp/verif_dev
export ACRYO_REPO=/repo PYTHONPATH=/repo:$HERE/harness PYTHONHASHSEED=0 PYTHONDONTWRITEBYTECODE=1 OMP_NUM_THREADS=1 OPENBLAS_NUM_THREADS=1 MKL_NUM_THREADS=1 ACRYO_VERIF=1
export COVERAGE_CORE=sysmon
cd $HERE; mkdir -p .cov
for i in $(seq -w 1 20); do
  /venv/bin/python -W ignore -m coverage run --branch --source=/repo/acryo --data-file=.cov/C$i.cov harness/main.py C$i quick 2>&1 | tail -1
done
