#!/bin/bash
cd /tmp/verif_dev
for sd in 7 8 9 11; do for i in $(seq -w 1 20); do
  out=$(VERIF_SEED=$sd ./check C$i quick 2>&1)
  echo "$out" | grep -q "^VIOLATION" && { echo "seed $sd C$i:"; echo "$out" | grep "^VIOLATION\|BROKEN" | head -3; }
  echo "$out" | tail -1
done; done
