"""Maintenance script (not used by the checks): imports the confirmed sub-agent changes from a staging directory into
/verif/seeded/<id>/ and (re-)evaluates every seeded change against the current checks.

  python3 harness/build_seeded.py import [--offset K] <staging> <confirm.log> [...]   # staging/<Cxx>/{patchN.diff,demoN.py,notesN.md} -> seeded/Cxx-(N+K)
  python3 harness/build_seeded.py eval [id ...]                          # applies each patch to a scratch worktree, runs ./check quick

The evaluation uses a scratch git worktree of /repo under /tmp (removed afterwards) and ACRYO_REPO, so /repo is never touched.
"""
import glob, json, os, re, shutil, subprocess, sys

HERE = os.path.dirname(os.path.dirname(os.path.abspath(__file__)))
SEEDED = os.path.join(HERE, "seeded")


def para(text, heads, limit):
    """text of the first section whose heading (## heading, **bold:** or **bold.**) starts with one of `heads`"""
    for h in heads:
        for pat in (r"^#+\s*" + h + r"[^\n]*\n(.*?)(?=^#|\Z)",
                    r"\*\*" + h + r"[^*]*\*\*:?(.*?)(?=\n\s*\n\*\*|\n#|\Z)"):
            m = re.search(pat, text, re.S | re.I | re.M)
            if m and m.group(1).strip():
                t = " ".join(m.group(1).split()).replace("|", "/")
                return (t[:limit] + " ...") if len(t) > limit else t
    return ""


def do_import(staging, logs, offset=0):
    conf = {}
    for lg in logs:
        for line in open(lg):
            m = re.match(r"(C\d\d) (\d) demo_clean=(\d+) demo_patched=(\d+) tests: (.*)", line.strip())
            if m:
                conf[(m.group(1), m.group(2))] = (m.group(3), m.group(4), m.group(5))
    n = 0
    for pdir in sorted(glob.glob(os.path.join(staging, "C??"))):
        pid = os.path.basename(pdir)
        for i in ("1", "2"):
            patch = os.path.join(pdir, f"patch{i}.diff")
            if not os.path.exists(patch) or (pid, i) not in conf:
                continue
            dc, dp, tests = conf[(pid, i)]
            if dc != "0" or dp == "0" or not tests.startswith("1 failed, 161 passed"):
                print("not kept (confirmation failed):", pid, i, conf[(pid, i)])
                continue
            sid = f"{pid}-{int(i) + offset}"
            out = os.path.join(SEEDED, sid)
            os.makedirs(out, exist_ok=True)
            shutil.copy(patch, os.path.join(out, "patch.diff"))
            shutil.copy(os.path.join(pdir, f"demo{i}.py"), os.path.join(out, "demo.py"))
            notes = ""
            nf = os.path.join(pdir, f"notes{i}.md")
            if os.path.exists(nf):
                shutil.copy(nf, os.path.join(out, "notes.md"))
                notes = open(nf).read()
            title = notes.splitlines()[0].lstrip("# ").strip() if notes else ""
            files = sorted(set(re.findall(r"^\+\+\+ b/(.*)$", open(patch).read(), re.M)))
            meta_path = os.path.join(out, "meta.json")
            meta = json.load(open(meta_path)) if os.path.exists(meta_path) else {}
            meta.update({
                "id": sid, "property": pid, "files": files,
                "change": (title + ". " + para(notes, ["Change", "What changed", "What was changed", "What", "Where"], 420)).strip().replace("|", "/"),
                "needs": para(notes, ["What is needed", "What it needs", "What is required", "Trigger", "Needed", "Needs"], 520),
                "author": "fresh sub-agent given only the property text and a scratch worktree of /repo",
                "confirmed": (f"by me in a scratch worktree: `pytest tests` with the patch -> {tests.split(',')[0]}, {tests.split(',')[1].strip()} "
                              f"(the 1 failure is the baseline's known test_axes_to_rotator_invert); demo.py exit {dc} on the unchanged tree, exit {dp} with the patch"),
            })
            json.dump(meta, open(meta_path, "w"), indent=1)
            n += 1
    print(n, "seeded changes imported")


def do_eval(ids):
    repo = os.environ.get("ACRYO_SEED_REPO", "/repo")
    wt = os.environ.get("SEED_EVAL_WORKTREE", "/tmp/acryo_seed_eval")
    subprocess.run(["git", "-C", repo, "worktree", "remove", "--force", wt], capture_output=True)
    subprocess.run(["git", "-C", repo, "worktree", "add", "-q", "--detach", wt, "HEAD"], check=True)
    try:
        for d in sorted(glob.glob(os.path.join(SEEDED, "C??-*")), key=lambda d: (os.path.basename(d)[:3], int(os.path.basename(d)[4:]))):
            sid = os.path.basename(d)
            if ids and sid not in ids:
                continue
            meta = json.load(open(os.path.join(d, "meta.json")))
            subprocess.run(["git", "-C", wt, "checkout", "-q", "--", "."], check=True)
            ap = subprocess.run(["git", "-C", wt, "apply", os.path.join(d, "patch.diff")], capture_output=True, text=True)
            if ap.returncode != 0:
                meta["check_outcome"] = "patch no longer applies to /repo HEAD: " + ap.stderr.strip()[:200]
                json.dump(meta, open(os.path.join(d, "meta.json"), "w"), indent=1)
                print(sid, "DOES NOT APPLY")
                continue
            env = dict(os.environ, ACRYO_REPO=wt)
            r = subprocess.run(["./check", meta["property"], "quick"], cwd=HERE, env=env, capture_output=True, text=True, timeout=3000)
            out = r.stdout + r.stderr
            viol = re.findall(r"^VIOLATION property=\S+ replay=(\S+)( no-failing-input-found)?", out, re.M)
            broken = sorted(set(re.findall(r"\] (ANCHOR BROKEN \S+|PROOF BROKEN \S+ \d+ \S+|CORR \S+)", out)))
            oracles = []
            for path, _ in viol:
                try:
                    rp = json.load(open(path))
                    oracles.append(f"{rp.get('oracle')}: {str(rp.get('what'))[:140]}")
                except Exception:
                    pass
            concrete = [v for v in viol if not v[1]]
            if concrete:
                outcome = f"caught (exit {r.returncode}): {len(concrete)} VIOLATION line(s) with a concrete failing input"
            elif viol:
                outcome = f"caught (exit {r.returncode}) as 'no-failing-input-found': a proof/anchor/correspondence broke but no failing input was found"
            else:
                outcome = f"MISSED (exit {r.returncode})"
            meta["check_outcome"] = outcome
            meta["caught_by"] = "; ".join((broken[:3] + sorted(set(oracles))[:3])) or "-"
            meta["ran"] = f"git apply patch.diff in a scratch worktree; ACRYO_REPO=<worktree> ./check {meta['property']} quick"
            if not os.environ.get("SEED_EVAL_DRYRUN"):
                json.dump(meta, open(os.path.join(d, "meta.json"), "w"), indent=1)
            print(sid, outcome, flush=True)
    finally:
        subprocess.run(["git", "-C", repo, "worktree", "remove", "--force", wt], capture_output=True)


if __name__ == "__main__":
    if sys.argv[1] == "import":
        args = sys.argv[2:]
        off = 0
        if args[0] == "--offset":
            off = int(args[1]); args = args[2:]
        do_import(args[0], args[1:], off)
    else:
        do_eval(sys.argv[2:])
