"""Shared machinery: Coq build + audit, correspondence shards, verdict protocol, evidence."""
from __future__ import annotations

import fcntl
import glob
import hashlib
import json
import os
import re
import shutil
import subprocess
import sys
import time
from fractions import Fraction

VERIF = os.path.dirname(os.path.dirname(os.path.abspath(__file__)))
REPO = os.environ.get("ACRYO_REPO", "/repo")
COQ = os.path.join(VERIF, "coq")
GEN = os.path.join(COQ, "generated")
WORKROOT = os.path.join(VERIF, ".work")
COQ_Q = ["-Q", os.path.join(COQ, "theories"), "Acryo", "-Q", GEN, "AcryoGen"]

FORBIDDEN = re.compile(
    r"\b(Admitted|admit|Axiom|Axioms|Parameter|Parameters|Conjecture|Hypothesis|Hypotheses|Variable|Variables|"
    r"Context|Admit Obligations|bypass_check)\b|Unset\s+Guard|Unset\s+Positivity|Unset\s+Universe|type-in-type")
STMT = re.compile(r"^\s*(?:Local\s+|Global\s+)?(Theorem|Lemma|Example|Corollary|Fact|Remark|Proposition)\s+([A-Za-z0-9_']+)", re.M)


def sh(cmd, timeout=600, cwd=None, env=None, input=None):
    t0 = time.time()
    try:
        p = subprocess.run(cmd, cwd=cwd, env=env, input=input, capture_output=True, text=True, timeout=timeout)
        return p.returncode, p.stdout + p.stderr, time.time() - t0
    except subprocess.TimeoutExpired as e:
        out = (e.stdout or b"")
        if isinstance(out, bytes):
            out = out.decode(errors="replace")
        return 124, out + f"\nTIMEOUT after {timeout}s", time.time() - t0


class CoqLock:
    """Exclusive lock on the shared Coq build tree (generated anchors + .vo files).  Re-entrant within a process: main.py holds it
    for a whole check run so that concurrent checks (e.g. one against /repo and one against a scratch tree) never mix anchors,
    compiled models and correspondence evaluations."""
    _depth = 0
    _file = None

    def __enter__(self):
        if CoqLock._depth == 0:
            os.makedirs(WORKROOT, exist_ok=True)
            CoqLock._file = open(os.path.join(WORKROOT, "coq.lock"), "w")
            fcntl.flock(CoqLock._file, fcntl.LOCK_EX)
        CoqLock._depth += 1
        return self

    def __exit__(self, *a):
        CoqLock._depth -= 1
        if CoqLock._depth == 0:
            fcntl.flock(CoqLock._file, fcntl.LOCK_UN)
            CoqLock._file.close()
            CoqLock._file = None


def write_if_changed(path, text):
    try:
        if open(path).read() == text:
            return False
    except OSError:
        pass
    os.makedirs(os.path.dirname(path), exist_ok=True)
    tmp = path + ".tmp%d" % os.getpid()
    with open(tmp, "w") as f:
        f.write(text)
    os.replace(tmp, path)
    return True


def regen_makefile():
    files = sorted(glob.glob(os.path.join(COQ, "theories", "**", "*.v"), recursive=True))
    files += sorted(glob.glob(os.path.join(GEN, "Anchors_*.v")))
    rel = [os.path.relpath(f, COQ) for f in files]
    listing = "-Q theories Acryo\n-Q generated AcryoGen\n" + "\n".join(rel) + "\n"
    changed = write_if_changed(os.path.join(COQ, "_CoqProject.full"), listing)
    if changed or not os.path.exists(os.path.join(COQ, "Makefile")):
        rc, out, _ = sh(["coq_makefile", "-f", "_CoqProject.full", "-o", "Makefile"], cwd=COQ, timeout=60)
        if rc != 0:
            raise RuntimeError("coq_makefile failed: " + out)


def enclosing_statement(vfile, line):
    try:
        lines = open(vfile).read().split("\n")
    except OSError:
        return None
    for i in range(min(line, len(lines)) - 1, -1, -1):
        m = STMT.match(lines[i])
        if m:
            return m.group(2)
    return None


def parse_coq_errors(out):
    errs = []
    for m in re.finditer(r'File "([^"]+)", line (\d+), characters [^\n]*\n((?:.*\n){0,12})', out):
        body = m.group(3)
        if "Error" not in body:
            continue
        f = m.group(1)
        absf = f if os.path.isabs(f) else os.path.normpath(os.path.join(COQ, f))
        errs.append({"file": os.path.relpath(absf, VERIF), "line": int(m.group(2)),
                     "statement": enclosing_statement(absf, int(m.group(2))),
                     "error": " ".join(body.split())[:400]})
    return errs


def count_statements(files):
    n = 0
    names = []
    for f in files:
        try:
            txt = open(f).read()
        except OSError:
            continue
        for m in STMT.finditer(txt):
            n += 1
            names.append(m.group(2))
    return n, names


def strip_comments(txt):
    out, depth, i = [], 0, 0
    while i < len(txt):
        if txt.startswith("(*", i):
            depth += 1
            i += 2
        elif txt.startswith("*)", i) and depth:
            depth -= 1
            i += 2
        else:
            if depth == 0:
                out.append(txt[i])
            i += 1
    return "".join(out)


def audit_files(files):
    bad = []
    for f in files:
        try:
            txt = strip_comments(open(f).read())
        except OSError:
            continue
        # Section-local Variable/Hypothesis are allowed only inside a Section.
        depth = 0
        for ln, line in enumerate(txt.split("\n"), 1):
            if re.match(r"\s*Section\s+\w+", line):
                depth += 1
            if re.match(r"\s*End\s+\w+", line) and depth:
                depth -= 1
            for m in FORBIDDEN.finditer(line):
                w = m.group(0)
                if re.match(r"Variables?|Hypothes[ie]s|Context", w) and depth > 0:
                    continue
                bad.append(f"{os.path.relpath(f, VERIF)}:{ln}: {w}")
    return bad


# --------------------------------------------------------------------------
# Gallina literal helpers

def zl(n) -> str:
    n = int(n)
    return f"({n})%Z" if n < 0 else f"{n}%Z"


def ql(x) -> str:
    fr = x if isinstance(x, Fraction) else Fraction(x)
    return f"(({fr.numerator})#{fr.denominator})" if fr.numerator < 0 else f"({fr.numerator}#{fr.denominator})"


def bl(b) -> str:
    return "true" if b else "false"


def lst(items) -> str:
    return "[" + "; ".join(items) + "]"


def zlist(xs) -> str:
    return lst([zl(x) for x in xs])


def qlist(xs) -> str:
    return lst([ql(x) for x in xs])


def natl(n) -> str:
    return f"{int(n)}%nat"


def known_findings():
    p = os.path.join(VERIF, "known_findings.json")
    try:
        return json.load(open(p))
    except OSError:
        return []


class Check:
    def __init__(self, pid, tier="quick", seed=0):
        self.pid = pid
        self.tier = tier
        self.seed = int(seed)
        self.t0 = time.time()
        self.work = os.path.join(WORKROOT, f"{pid}-{os.getpid()}")
        os.makedirs(self.work, exist_ok=True)
        self.broken = []          # proof / tie / correspondence obligations that no longer check
        self.violations = []      # concrete failing inputs on the implementation
        self.env_broken = []      # environment assumption probes that failed
        self.obligations = 0
        self.discharged = 0
        self.statement_names = []
        self.assumptions_printed = {}
        self.coqchk = None
        self.anchors_meta = []
        self.corr = {}            # name -> stats
        self.oracle = {}          # name -> stats
        self.samples = []
        self.notes = []
        self.coq_files = []
        self.partial = []
        self.trusted_base = []
        self.checker_cmd = ""
        self.design_ref = ""
        self.log_lines = []

    def log(self, *a):
        s = " ".join(str(x) for x in a)
        self.log_lines.append(s)
        print(f"[{self.pid}] {s}", flush=True)

    # ---------------------------------------------------------------- anchors
    def write_anchors(self, pid, anchors):
        """anchors: translate.Anchors.  Returns True if the tie is intact."""
        self.anchors_meta += anchors.meta
        for e in anchors.errors:
            self.broken.append({"kind": "anchor-translation", "name": e.split(":")[0], "detail": e})
            self.log("ANCHOR BROKEN", e)
        text = anchors.render(pid)
        self._anchor_texts = getattr(self, "_anchor_texts", {})
        self._anchor_texts[pid] = text
        with CoqLock():
            write_if_changed(os.path.join(GEN, f"Anchors_{pid}.v"), text)
        return not anchors.errors

    # ---------------------------------------------------------------- build
    def build(self, prop_dirs, property_files, extra=()):
        """make the .vo for the given property files (under lock), then recompile the
        Property.v files to capture Print Assumptions.  Records broken obligations."""
        files = []
        for d in prop_dirs:
            files += sorted(glob.glob(os.path.join(COQ, "theories", d, "*.v")))
        files += [os.path.join(GEN, f"Anchors_{self.pid}.v")]
        self.coq_files = files
        self.obligations, self.statement_names = count_statements(files)
        bad = audit_files(files + sorted(glob.glob(os.path.join(COQ, "theories", "Common", "*.v"))))
        for b in bad:
            self.broken.append({"kind": "audit", "name": b, "detail": "forbidden construct " + b})
        targets = [os.path.relpath(os.path.join(COQ, "theories", f), COQ)[:-2] + ".vo" for f in list(property_files) + list(extra)]
        self.checker_cmd = (f"make -C {COQ} -k {' '.join(targets)}  (coq_makefile project, full .vo build, coqc 8.16.1); "
                            f"then coqc on each Property.v to capture Print Assumptions")
        with CoqLock():
            # another check (possibly against another tree) may have regenerated the same anchor files since write_anchors:
            # put this run's anchors back before building, under the same lock as the build
            for apid, atext in getattr(self, "_anchor_texts", {}).items():
                write_if_changed(os.path.join(GEN, f"Anchors_{apid}.v"), atext)
            regen_makefile()
            rc, out, dt = sh(["make", "-k", "-j8"] + targets, cwd=COQ, timeout=1500)
            ok = rc == 0
            if not ok:
                errs = parse_coq_errors(out)
                if not errs:
                    errs = [{"file": "?", "line": 0, "statement": None, "error": out[-600:]}]
                for e in errs:
                    self.broken.append({"kind": "proof", "name": e["statement"] or e["file"],
                                        "detail": f"{e['file']}:{e['line']}: {e['error']}"})
                    self.log("PROOF BROKEN", e["file"], e["line"], e["statement"], e["error"][:200])
            # Print Assumptions: recompile property files (cheap) and capture stdout
            if ok:
                for f in property_files:
                    vf = os.path.join(COQ, "theories", f)
                    rc2, out2, _ = sh(["coqc"] + COQ_Q + [vf], cwd=COQ, timeout=600)
                    if rc2 != 0:
                        ok = False
                        for e in parse_coq_errors(out2) or [{"file": f, "line": 0, "statement": None, "error": out2[-400:]}]:
                            self.broken.append({"kind": "proof", "name": e["statement"] or f, "detail": e["error"]})
                    self._parse_assumptions(vf, out2)
            # thorough tier: re-check the compiled property files (and everything they depend on) with the independent checker
            if ok and self.tier == "thorough":
                self.coqchk = {}
                mods = ["Acryo." + f[:-2].replace("/", ".") for f in property_files]
                rc3, out3, dt3 = sh(["coqchk", "-silent", "-o"] + COQ_Q + mods, cwd=COQ, timeout=2400)
                summary = out3[out3.find("CONTEXT SUMMARY"):] if "CONTEXT SUMMARY" in out3 else out3[-800:]
                m = re.search(r"\* Axioms:(.*?)\n\s*\n?\* Constants", summary, re.S)
                axioms = [a.strip() for a in (m.group(1) if m else "").splitlines() if a.strip() and a.strip() != "<none>"]
                unsafe = [l.strip() for l in summary.splitlines() if l.strip().startswith("* ") and "Axioms" not in l and "Theory" not in l and not l.strip().endswith("<none>")]
                self.coqchk = {"modules": mods, "exit": rc3, "wall_s": round(dt3, 1), "axioms": axioms, "flags_not_none": unsafe}
                self.log(f"coqchk -o exit={rc3} in {dt3:.0f}s axioms={axioms or 'none'}")
                if rc3 != 0 or unsafe:
                    ok = False
                    self.broken.append({"kind": "proof", "name": "coqchk", "detail": (summary or out3)[-600:]})
        self.log(f"coq build {'ok' if ok else 'FAILED'} in {dt:.1f}s; statements={self.obligations}")
        self.discharged = self.obligations if ok else max(0, self.obligations - len([b for b in self.broken if b['kind'] == 'proof']))
        return ok

    def _parse_assumptions(self, vf, out):
        names = re.findall(r"Print Assumptions\s+([A-Za-z0-9_'.]+)\s*\.", strip_comments(open(vf).read()))
        blocks = re.split(r"(?=Closed under the global context|Axioms:)", out)
        blocks = [b.strip() for b in blocks if b.strip().startswith(("Closed under", "Axioms:"))]
        for n, b in zip(names, blocks):
            if b.startswith("Closed"):
                self.assumptions_printed[n] = "Closed under the global context"
            else:
                ax = re.findall(r"^([A-Za-z0-9_.']+)\s*:", b, re.M)
                self.assumptions_printed[n] = "Axioms: " + ", ".join(a for a in ax if a != "Axioms")

    # ---------------------------------------------------------------- correspondence
    def corr_run(self, name, imports, cases, prelude="", shard=400, observable=False, describe=None,
                 classes=None, timeout=900):
        """cases: list of (gallina_bool_expr, python_case_dict).  Evaluates inside Coq.
        Returns list of failing case dicts."""
        t0 = time.time()
        n = len(cases)
        shards = [cases[i:i + shard] for i in range(0, n, shard)]
        files = []
        for k, sh_cases in enumerate(shards):
            body = ["From Coq Require Import ZArith QArith Qround Qabs Bool List.", "Import ListNotations.",
                    "From Acryo Require Import Common.PyNum."]
            body += [f"Require Import {i}." for i in imports]
            body += ["Local Open Scope Z_scope.", prelude]
            body.append("Definition cases : list bool := [")
            body.append(";\n".join("  " + c[0] for c in sh_cases))
            body.append("].")
            body.append("Definition bad := failing cases.")
            body.append("Eval vm_compute in (List.length cases, bad).")
            fn = os.path.join(self.work, f"cases_{self.pid}_{name}_{k:03d}.v")
            open(fn, "w").write("\n".join(body) + "\n")
            files.append(fn)
        failing = []
        procs = []
        maxp = 8
        results = [None] * len(files)

        def launch(i):
            return subprocess.Popen(["timeout", str(timeout), "coqc"] + COQ_Q + ["-Q", self.work, "Work", files[i]],
                                    stdout=subprocess.PIPE, stderr=subprocess.STDOUT, text=True, cwd=self.work)
        idx = 0
        running = {}
        while idx < len(files) or running:
            while idx < len(files) and len(running) < maxp:
                running[idx] = launch(idx)
                idx += 1
            for i, p in list(running.items()):
                if p.poll() is not None:
                    results[i] = (p.returncode, p.stdout.read())
                    del running[i]
            time.sleep(0.02)
        evaluated = 0
        for k, (rc, out) in enumerate(results):
            m = re.search(r"=\s*\(\s*(\d+)(?:%nat)?\s*,\s*\[(.*?)\]\s*\)", out, re.S)
            if rc != 0 or not m:
                self.broken.append({"kind": "correspondence", "name": f"{name} (shard {k} did not evaluate)",
                                    "detail": out[-500:]})
                self.log("CORR shard failed to evaluate", name, k, out[-300:])
                continue
            evaluated += int(m.group(1))
            for tok in re.findall(r"\d+", m.group(2)):
                failing.append(shards[k][int(tok)][1])
        st = self.corr.setdefault(name, {"cases": 0, "disagreements": 0, "wall_s": 0.0})
        st["cases"] += evaluated
        st["disagreements"] += len(failing)
        st["wall_s"] = round(st["wall_s"] + time.time() - t0, 2)
        if classes:
            st["classes"] = classes
        if cases and len(self.samples) < 12:
            self.samples.append({"correspondence": name, "case": cases[min(len(cases) - 1, len(cases) // 3)][1],
                                 "coq_term": cases[min(len(cases) - 1, len(cases) // 3)][0][:400]})
        if failing:
            self.log(f"CORR {name}: {len(failing)} disagreement(s) of {evaluated}; first: {json.dumps(failing[0], default=str)[:400]}")
            self.broken.append({"kind": "correspondence", "name": name,
                                "detail": f"{len(failing)} of {evaluated} cases disagree; first: {json.dumps(failing[0], default=str)[:600]}"})
            if observable:
                for c in failing[:5]:
                    self.violation(what=f"model/implementation disagreement on a property observable ({name})",
                                   inp=c, key=(describe(c) if describe else {"corr": name}), oracle=f"corr:{name}")
        else:
            self.log(f"CORR {name}: {evaluated} cases agree ({time.time() - t0:.1f}s)")
        for f in files:
            for ext in ("", "o", "ok", "os", ".aux"):
                pass
        return failing

    # ---------------------------------------------------------------- oracle bookkeeping
    def oracle_count(self, name, n=1, nontrivial=0, **kw):
        st = self.oracle.setdefault(name, {"evaluations": 0, "nontrivial": 0})
        st["evaluations"] += n
        st["nontrivial"] += nontrivial
        for k, v in kw.items():
            st[k] = v

    def violation(self, what, inp, key, oracle="", measured=None):
        self.violations.append({"what": what, "input": inp, "key": key, "oracle": oracle, "measured": measured})

    # ---------------------------------------------------------------- verdict
    def _match_known(self, v):
        for k in known_findings():
            if k.get("status") != "known" or k.get("property") != self.pid:
                continue
            mt = k.get("match", {})
            if all(v["key"].get(a) == b for a, b in mt.items()):
                return k
        return None

    def finish(self):
        wall = time.time() - self.t0
        os.makedirs(os.path.join(VERIF, "replays"), exist_ok=True)
        os.makedirs(os.path.join(VERIF, "evidence"), exist_ok=True)
        known_seen, new_viol = {}, []
        for v in self.violations:
            k = self._match_known(v)
            if k is not None:
                known_seen.setdefault(k["key"], (k, v))
            else:
                new_viol.append(v)
        lines = []
        for key, (k, v) in known_seen.items():
            lines.append(f"KNOWN-FINDING: property={self.pid} {k['what']}")
        exit_code = 0
        replay_paths = []
        seen_keys = set()
        for v in new_viol:
            kk = json.dumps(v["key"], sort_keys=True, default=str)
            if kk in seen_keys:
                continue
            seen_keys.add(kk)
            body = {"property": self.pid, "seed": self.seed, "tier": self.tier, "what": v["what"], "oracle": v["oracle"],
                    "input": v["input"], "key": v["key"], "measured": v["measured"],
                    "broken_obligations": self.broken[:10], "repo": REPO}
            txt = json.dumps(body, indent=1, default=str, sort_keys=True)
            h = hashlib.sha256(txt.encode()).hexdigest()[:8]
            path = os.path.join(VERIF, "replays", f"{self.pid}-{h}.json")
            open(path, "w").write(txt)
            replay_paths.append(path)
            lines.append(f"VIOLATION property={self.pid} replay={path}")
            exit_code = 1
        if self.broken and not new_viol:
            body = {"property": self.pid, "seed": self.seed, "tier": self.tier,
                    "what": "a proof obligation / anchor translation / correspondence no longer checks and the search "
                            "found no concrete failing input on the implementation",
                    "broken_obligations": self.broken[:20], "repo": REPO,
                    "searched": {k: v for k, v in self.oracle.items()}}
            txt = json.dumps(body, indent=1, default=str, sort_keys=True)
            h = hashlib.sha256(txt.encode()).hexdigest()[:8]
            path = os.path.join(VERIF, "replays", f"{self.pid}-{h}.json")
            open(path, "w").write(txt)
            lines.append(f"VIOLATION property={self.pid} replay={path} no-failing-input-found")
            exit_code = 1
        for e in self.env_broken:
            lines.append(f"ENVIRONMENT-ASSUMPTION-BROKEN: property={self.pid} {e}")
        corr_cases = sum(s["cases"] for s in self.corr.values())
        orc_evals = sum(s["evaluations"] for s in self.oracle.values())
        orc_nontriv = sum(s.get("nontrivial", 0) for s in self.oracle.values())
        ev = {
            "property_id": self.pid, "tier": self.tier, "seed": self.seed, "level": "proof",
            "coverage": {
                "obligations": max(1, self.obligations), "discharged": self.discharged if self.obligations else 0,
                "checker_cmd": self.checker_cmd or "coqc",
                "trusted_base": self.trusted_base,
                "statements": self.statement_names,
                "assumptions_printed": self.assumptions_printed,
                "coqchk": getattr(self, "coqchk", None) or "not run in this tier (thorough only)",
                "anchors": self.anchors_meta,
                "correspondence": self.corr,
                "numeric_oracle": self.oracle,
                "evaluations": max(1, corr_cases + orc_evals),
                "distinct_nontrivial": max(2, corr_cases + orc_nontriv) if (corr_cases + orc_nontriv) >= 2 else 2,
                "rule": "evaluations = correspondence cases evaluated inside Coq (model vs implementation) + "
                        "implementation-only oracle evaluations; cases are generated from stratified classes with a "
                        "single seeded PRNG, distinct by construction (deduplicated input tuples); non-trivial = inside "
                        "the class the property quantifies over (not rejected as malformed)",
                "samples": self.samples[:12] or [{"note": "no samples"}],
                "partial": self.partial,
                "broken_obligations": self.broken[:20],
                "known_findings_seen": [k for k in known_seen],
                "design_ref": self.design_ref,
                "notes": self.notes,
            },
            "assumptions": self.trusted_base,
            "wall_s": round(wall, 2),
            "violations": len(new_viol) + (1 if (self.broken and not new_viol) else 0),
        }
        # evidence describes /repo itself: a run against another tree (ACRYO_REPO, used to evaluate seeded changes) writes elsewhere
        evdir = os.path.join(VERIF, "evidence") if os.path.realpath(REPO) == "/repo" else os.path.join(WORKROOT, "evidence_other_tree")
        os.makedirs(evdir, exist_ok=True)
        open(os.path.join(evdir, f"{self.pid}.json"), "w").write(json.dumps(ev, indent=1, default=str))
        for ln in lines:
            print(ln, flush=True)
        print(f"[{self.pid}] done tier={self.tier} seed={self.seed} wall={wall:.1f}s obligations={self.obligations} "
              f"corr_cases={corr_cases} oracle_evals={orc_evals} exit={exit_code}", flush=True)
        shutil.rmtree(self.work, ignore_errors=True)
        return exit_code


def frac(x) -> Fraction:
    """exact rational value of a python/numpy float or int"""
    if isinstance(x, Fraction):
        return x
    if isinstance(x, (int,)):
        return Fraction(x)
    return Fraction(float(x))
