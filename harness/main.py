"""Entry point: ./check Cxx [quick|thorough] [--replay file] | ./check --setup"""
from __future__ import annotations
import importlib
import json
import os
import sys
import traceback

sys.path.insert(0, os.path.dirname(os.path.abspath(__file__)))
import common  # noqa: E402
from translate import Anchors  # noqa: E402

ALL = [f"C{i:02d}" for i in range(1, 21)]


def load(pid):
    return importlib.import_module(f"props.{pid}")


def setup():
    import glob
    ok = True
    with common.CoqLock():
        for pid in ALL:
            try:
                mod = load(pid)
            except ModuleNotFoundError:
                continue
            a = Anchors(common.REPO)
            mod.anchors(a)
            if a.errors:
                print(f"[setup] anchor errors for {pid}: {a.errors}")
            common.write_if_changed(os.path.join(common.GEN, f"Anchors_{pid}.v"), a.render(pid))
        common.regen_makefile()
        rc, out, dt = common.sh(["make", "-k", "-j16"], cwd=common.COQ, timeout=3000)
        print(out[-3000:])
        print(f"[setup] make rc={rc} in {dt:.1f}s")
        ok = rc == 0
    return 0 if ok else 1


def main(argv):
    if not argv or argv[0] in ("-h", "--help"):
        print(__doc__)
        return 2
    if argv[0] == "--setup":
        return setup()
    pid = argv[0]
    tier = os.environ.get("VERIF_TIER", "quick")
    replay = None
    rest = argv[1:]
    while rest:
        a = rest.pop(0)
        if a in ("quick", "thorough"):
            tier = a
        elif a == "--replay":
            replay = rest.pop(0)
    seed = int(os.environ.get("VERIF_SEED", "0") or 0)
    mod = load(pid)
    if replay:
        data = json.load(open(replay))
        return mod.replay(data)
    ck = common.Check(pid, tier, seed)
    try:
        with common.CoqLock():
            mod.run(ck)
    except Exception:
        tb = traceback.format_exc()
        print(tb)
        ck.broken.append({"kind": "harness-exception", "name": "harness", "detail": tb[-1500:]})
    return ck.finish()


if __name__ == "__main__":
    sys.exit(main(sys.argv[1:]))
