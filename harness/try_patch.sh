#!/bin/bash
# usage: try_patch.sh <patch.diff> <Cxx> [tier]   -- applies the patch to /repo, runs the check, reverts /repo
set -u
P="$1"; PID="$2"; TIER="${3:-quick}"
cd /repo || exit 2
if [ -n "$(git status --porcelain)" ]; then echo "repo not clean"; exit 2; fi
git apply "$P" || { echo "patch does not apply"; exit 2; }
cd /verif && timeout 2400 ./check "$PID" "$TIER" 2>&1 | grep -E "VIOLATION|done|BROKEN|CORR .*disagree|KNOWN" | cut -c1-260
cd /repo && git checkout -- . && git status --short
