#!/bin/bash
# usage: try_patch.sh <patch.diff> <Cxx> [tier] -- applies the patch to a scratch worktree of /repo (/tmp/wt/eval),
# runs the check against it (ACRYO_REPO), reverts; then the caller should re-run the clean check to restore evidence.
set -u
P="$1"; PID="$2"; TIER="${3:-quick}"
W=/tmp/acryo_try_patch
[ -d "$W" ] || git -C /repo worktree add -q --detach "$W" HEAD
cd "$W" || exit 2
git checkout -q --detach "$(git -C /repo rev-parse HEAD)" 2>/dev/null
git checkout -- . ; 
git apply "$P" || { echo "patch does not apply"; exit 2; }
cd /verif && ACRYO_REPO="$W" timeout 2400 ./check "$PID" "$TIER" 2>&1 | grep -E "VIOLATION|done|BROKEN|CORR .*disagree|KNOWN" | cut -c1-260
cd "$W" && git checkout -- .
