"""Regenerates /verif/MANIFEST.json from the table below (run after adding a property module)."""
import json, os, sys
sys.path.insert(0, os.path.dirname(os.path.abspath(__file__)))
HERE = os.path.dirname(os.path.dirname(os.path.abspath(__file__)))

CLAIMED = {
    "C02": ("Theorems (Coq, all inputs): out-of-bound error iff the crop window and the tomogram are disjoint; "
            "clipped slice/pad bookkeeping; voxel k samples tomogram coordinate pos/scale + R(k-(shape-1)/2); exact block for "
            "identity/integer/odd; crop contains the interpolation support for order>=1 (order 0: refuted witness = known finding). "
            "Tie: anchors regenerated from acryo/_utils.py on every run + exact correspondence of load()/asnumpy()/load_iter()/"
            "construct_dask() voxels with the Coq model (orders 0/1, 24 exact rotations, numpy+dask chunkings). Order-3 / generic "
            "rotations only by numeric oracle (partial). The box given to a call wins over the loader's own box (generated rule).",
            "regenerated anchors + Coq theorems + in-Coq differential correspondence"),
}
CLAIMED["C05"] = (
    "Theorems (Coq, every rational max_shifts >= 0 and every admissible arg-max index): centre crop of the ZNCC/NCC response is "
    "well-formed (pad_width_eff >= 2, length 2*trunc(m)+1); the 1/20-px refinement mesh is non-empty, stays inside the padded "
    "response, and every sample keeps |shift| <= m (+5e-5 px code tolerance); FSC variant; PCC coarse crop/unwrap and the "
    "refinement window contain the coarse peak and keep |shift| <= m. Tie: all scalar index expressions of _zncc/_upsample/_fsc/"
    "_pcc are regenerated from source each run; _create_mesh and landscape shapes compared with the model inside Coq. "
    "PCC coarse peak within round(m) with a floor-restricted, non-empty refinement window; FSC phase tables: one ramp per landscape sample per axis, ramp j = lag of landscape index j. "
    "No-exception/finite-score clauses and loader-level displacement are exercised by an implementation oracle (partial).",
    "regenerated anchors + Coq theorems (lia/lra) + in-Coq correspondence")
CLAIMED["C06"] = (
    "Theorems (Coq, all T>=1 (<=256), K>=1, all score lists): the reported flat index is a first arg-max (>= every candidate), "
    "and decoding it with the code's own expressions (align: iopt // n_templates; loader/group label: % remainder with the code's "
    "guards, uint8) returns exactly the (template j, rotation k) of that candidate; fit() uses the same codec; group-level decoding "
    "Searched rotation set of a (max, step) range: exactly the multiples of the step within [-max, max] (sound, complete, 2*trunc(max/step)+1 per axis); "
    "equals loader-level. Tie: decode expressions regenerated from source; scripted-score correspondence drives model.align, "
    "loader.align(_multi_templates) and LoaderGroup.align_multi_templates (incl. per-group mappings) and compares label/rotation/"
    "score inside Coq; candidate order tied by a structural anchor + real-score oracle (ZNCC/NCC/PCC).",
    "regenerated anchors + Coq theorems (induction on score list) + scripted correspondence")
CLAIMED["C11"] = (
    "Theorems (Coq, abstract commutative ring => all of SO(3) x R^3): axes are the images of (0,0,1),(0,1,0),(1,0,0), orthogonal, "
    "equal length, right-handed in z,y,x order; world rotations compose on the left and fix positions; internal rotations act on the "
    "right ((a q a*) a = |a|^2 a q); translate_internal adds R s; linear_transform and any sequence of internal operations equal "
    "right composition with the product of their rigid motions (induction over the call list); affine_matrix and local_coordinates "
    "agree with axes and position; translate_euler is an involution; from_axes anti-parallel branch: refuted witness (known finding) "
    "+ partial. Tie: structural/scalar anchors regenerated from molecules/core.py and _rotation.py; random call sequences on real "
    "Molecules (24 exact rotations, quarter-grid vectors) compared with the model fold inside Coq, incl. copy=True non-mutation. "
    "Euler/quaternion/rotvec/matrix round trips are scipy kernels: oracle only (partial).",
    "regenerated anchors + Coq ring theorems + in-Coq history correspondence")
CLAIMED["C01"] = (
    "Theorems (Coq, abstract ring): the aligned pose is the input pose composed on the right with the rigid motion (shift*scale, q) "
    "denoted by the alignment result; hence, if the tomogram holds the template at pose B and the template pins its pose, the "
    "output molecule acts exactly like B; unit conversion px<->nm; the displacement seen in the input molecule frame is scale*shift; "
    "the search range is divided by the scale exactly once on every loader entry point (generated data-flow table). "
    "Tie: C11 anchors + loader anchors regenerated; _post_align/_post_align_multi_templates of Subtomogram/Batch loaders driven "
    "with synthetic results and compared (position, orientation, shift/rotation/score features) inside Coq. Sub-pixel recovery "
    "of a simulated particle through single/batch/group/multi-template loaders x ZNCC/NCC/PCC is a numeric oracle (partial).",
    "regenerated anchors + Coq ring theorems + in-Coq correspondence + end-to-end oracle")
CLAIMED["C03"] = (
    "Theorems (Coq, every table = every history, any interleaving of image ids): the i-th loading task of a batch loader is the "
    "i-th molecule, taken from the group (tomogram) that molecule is registered with (scatter by rank within its image-id group); "
    "group-by-first-appearance partitions the table (permutation, distinct keys, constant key per group, completeness); head/tail "
    "return exactly a prefix/suffix; refuted witness for the pre-fix concatenation order; BatchLoader registry as a state machine: "
    "the automatic image id is never in use and, for every add_tomogram/selection history, every molecule's id maps to the tomogram "
    "it was added with (invariant by induction). Tie: structural anchors regenerated from "
    "_batch.py/_base.py/_group.py; random operation histories (filter/head/tail/sort/sample/subset-replace, groupby) on real "
    "Subtomogram/Batch loaders whose tomograms encode (image, position): tags, image ids, loaded voxels, apply rows, group keys/"
    "members and purity of all earlier objects are checked against the model inside Coq; sort/sample are validated as (sorted) "
    "permutation / sub-multiset. align/score/landscape rows on interleaved batches: metamorphic oracle. apply(): the table is built one column per function, so entry (i, j) is function j of molecule i for every table shape (facts for LoaderBase.apply and LoaderGroup.apply); MockLoader.replace forwards every option.",
    "regenerated anchors + Coq list theorems + in-Coq history correspondence")
CLAIMED["C12"] = (
    "Theorems (Coq): every operation (subset by int/slice/index list/mask, filter, head, tail, concat, sort, sample) returns rows of "
    "its inputs (position, orientation, features modelled as one row value); selection returns exactly the selected rows in order; "
    "group_by and cutby partition the table for any key (permutation, distinct keys, constant key, completeness); cutby bin index "
    "characterised by right-closed intervals; lengths add on concat. Tie: structural anchors regenerated from molecules/core.py; "
    "random operation histories on real Molecules whose position, orientation and 6 feature columns (int/float/string/bool/nullable) "
    "all encode a tag: decoded independently and compared with the model inside Coq after every step, incl. group_by/cutby groups, "
    "rejected int indices and purity of earlier objects. Rejection of inconsistent inputs: oracle probes. cutby on null category: "
    "known finding. No table operation returns its receiver except the documented copy=False forms (generated fact over 23 methods), checked dynamically by an aliasing oracle.",
    "regenerated anchors + Coq list theorems + in-Coq history correspondence")
CLAIMED["C09"] = (
    "Theorems (Coq, Q and lists): the sum and count of a stack are invariant under chunking/batching (concat) and regrouping "
    "(Permutation), mean*count = sum, so any chunking and the count-weighted mean of per-tomogram/per-group means give the same "
    "mean; the split index vectors are complementary for EVERY sampled list (repeats allowed, as rng.choice draws with replacement), "
    "both halves are non-empty for n >= 2, and the half sums/counts recombine to the whole. Tie: sample-size expression and "
    "structural anchors regenerated; random_splitter driven by a scripted generator (exact masks); average / average_split / "
    "BatchLoader / LoaderGroup averages on integer tomograms (numpy + 3 dask chunkings) compared voxel-wise with the exact rational "
    "means computed in Coq; the batch clause at full strength (mean of the concatenation = count-weighted mean of the per-tomogram means, any number of non-empty tomograms); seeded reproducibility checked on the implementation. Generic poses / order 3 / n_set>1: numeric oracle. Loaders store their inputs and options only and task arrays are named by content (class-state / call facts): no stale or shared graphs.",
    "regenerated anchors + Coq theorems (Q, induction, pigeonhole) + in-Coq correspondence")
CLAIMED["C14"] = (
    "Theorems (Coq, Q/Z, every template side parity and every rational position): fragment start + output centre = pos/scale (the "
    "template centre lands on the molecule); exact paste for odd side & integer position and even side & half-integer position "
    "(sample coordinate = voxel index, start = a - floor((s-1)/2)); the destination slice is the window clipped to the volume with "
    "an aligned source slice, a window with no overlap is skipped (iff), never an exception; sums are order independent. Tie: all "
    "scalar expressions of _prep_iterators and make_slice_and_pad regenerated; simulate() on integer templates (sides 1..4), 24 exact "
    "rotations, half-integer positions, several components, orders 0/1 compared voxel-by-voxel with the Coq model; order "
    "independence, 2-D projection = sum over z, and load-back through SubtomogramLoader (exact / approximate) by oracle. Projections (simulate_projection / simulate_tilt_series): pixel coordinates and the template resampling rotation are invariant under rotating the scene and the plane axes rigidly about the centre (any commutative ring), tilt axes orthonormal, tilt 0 = z-projection; a simulator keeps no memo (class-state fact); coordinate expressions anchored as facts; colour simulation, projections and tilt series tied to simulate() by metamorphic oracles.",
    "regenerated anchors + Coq theorems + in-Coq voxel correspondence")
CLAIMED["C15"] = (
    "Theorems (Coq): binned length = floor(s/b), the kept prefix is the largest multiple of b, blocks tile it (every kept voxel "
    "belongs to exactly one block/offset, no block reaches the dropped remainder); for every b > 1 and scale != 0 the translated "
    "molecule satisfies b*c' + (b-1)/2 = c (same physical point) for single and batch loaders, b = 1 is a copy; voxel k / offset a of "
    "the binned box is voxel b*k+a of the b-times larger original box; binning composes (binning(b1) then binning(b2) = binning(b1*b2): scale, positions, shapes, per-axis block sums for every signal); block-wise binning of a chunked image is right exactly for cuts that are multiples of b (refuted witness otherwise). Tie: divmod, slice stop, tr and new scale regenerated from "
    "bin_image / SubtomogramLoader.binning / BatchLoader.binning; bin_image on integer images of random shapes x b (numpy + dask "
    "chunkings) compared exactly inside Coq; binning() scale/positions/ids compared inside Coq; binned.load == block-sum of the "
    "larger original load (exact integers, numpy/dask, compute flags, single/batch) and binning(b1).binning(b2) == binning(b1*b2) on the real loaders by metamorphic oracle.",
    "regenerated anchors + Coq theorems (lia/field) + in-Coq correspondence")
CLAIMED["C08"] = (
    "Theorems (Coq): the index grid of all three get_indices copies equals the FFT index order for every size (odd and even); "
    "over any commutative ring (hence R and every orientation / box shape) the value the code tests, k . (R^T n / shape), equals "
    "the property's (R (k/shape)) . n; the predicate is even in k and zero at k = 0; decided bins are symmetric under k -> -k and DC "
    "is always kept; mirror bins negate the index except at Nyquist; the tilt-selection chain honours tuple, model and legacy "
    "keyword; union = maximum, no-wedge = ones (structural anchors). Tie: grid subtrahend, (i)fftshift choice, normal scaling and "
    "predicate shape regenerated from all copies; index grids and masks (24 exact rotations, odd/even/non-cubic shapes, 5 tilt "
    "ranges, x/y/dual axes, 3 entry points) compared bin-by-bin with the exact rational predicate inside Coq (bins within 1e-4 of a "
    "plane skipped). Generic orientations vs an independent float reference, realness for odd shapes, entry points: oracle.",
    "regenerated anchors + Coq theorems (lia/ring) + in-Coq bin correspondence")
CLAIMED["C16"] = (
    "Theorems (Coq): the frequency axis (arange bounds from source + ifftshift) has exactly d entries and is the FFT index order "
    "for every d (odd/even), in both implementations, which translate to identical definitions; the Butterworth weight is in (0,1], "
    "equals 1 at zero frequency and is even in every index (zero phase / real output given the DFT laws), is literally 1/(1+(|f|/cutoff)^(2 order)) with |f| in cycles per pixel, is 1/2 at |f| = cutoff and never increases with |f|; output shape = input "
    "shape for every parity once irfftn receives the shape (refuted witness for the pre-fix d-1); identity guard <=> cutoff <= 0 or "
    "cutoff^2 >= ndim/4. Tie: arange bounds, rfft limit, guard and irfftn call regenerated from both copies; weights (real and "
    "complex layouts) compared with exact rational Butterworth gains and output shapes / identity for 105+ shapes x 3 cutoffs "
    "inside Coq. Linearity, mean, gain per component, ft-vs-real, numpy/backend/pipe/Model.pre_transform agreement: numeric oracle.",
    "regenerated anchors + Coq theorems (lia/lra) + in-Coq correspondence")
CLAIMED["C07"] = (
    "Theorems (Coq, Reals): Cauchy-Schwarz for finite sums; NCC in [-1,1]; ZNCC = Pearson = NCC of the centred images, in [-1,1], "
    "= 1 on identical non-constant inputs, invariant under positive gain (also under a mask) and under an offset (unmasked); the "
    "window-normalised landscape formula at the zero-lag window collapses to the score for centred inputs. Executable twin over Z "
    "(squared form, no sqrt). Tie: structural anchors for backend.ncc/zncc, score masking, response formula, landscape centring, "
    "fsc; ZNCC/NCC scores through Alignment.score, backend functions, landscape centre and zero-range align on integer images "
    "with none/binary/soft masks compared with the exact rational correlation inside Coq. Cutoff / tilt / generic orientation, "
    "range, invariances, FSC score = landscape centre, landscape arg-max vs align for all four models: numeric oracle.",
    "Coq theorems over R (Cauchy-Schwarz) + exact integer twin + in-Coq correspondence")
CLAIMED["C17"] = (
    "Theorems (Coq): per-shell FSC is the normalised correlation of the stacked (re,im) vectors = Re sum F1 conj F2 / sqrt(sum|F1|^2 "
    "sum|F2|^2); hence in [-1,1], symmetric, invariant under positive rescaling of either input, 1 on identical non-empty shells "
    "(Reals); shell label characterised without sqrt (L^2 df^2 <= r^2 < (L+1)^2 df^2), every bin in exactly one shell, frequency "
    "axis (i+1/2) df, loader default df = 1.5/min(shape) (Z/Q). Tie: freq-axis and default-dfreq expressions regenerated, structural "
    "anchor for fourier_shell_correlation; numpy DFT bins (kernel) fed to Coq which redoes labelling, per-shell sums, number of "
    "shells and the quotient (squared form) and compares with the implementation. Symmetry/scale/self/independent per-shell "
    "reference, loader-level FSC of masked half averages and seed reproducibility: oracle.",
    "Coq theorems over R and Z/Q + in-Coq correspondence on DFT bins")
CLAIMED["C10"] = (
    "Theorems (Coq): TemplateMaskCache as a transition system over the atomic dict operations of get/set (dict.get, iter(values), "
    "next, __setitem__, compute, set) with CPython's 'size changed during iteration' rule: with Backend.__eq__ (structural anchor) "
    "no schedule of any number of threads and calls raises, and every call returns the canonical template/mask (invariant by "
    "induction over the schedule); returned values are canonical under every schedule even without key equality; a 7-step "
    "witness schedule raises for the pre-fix code; executing pure tasks in any covering order yields map f; declared landscape "
    "shape: refuted witness (known finding) + partial (integer limit, no upsampling). Tie: anchors regenerated; random "
    "schedules are replayed deterministically on the real TemplateMaskCache (gated dict subclass, lock-step scheduler, real "
    "Backend keys and identity keys) and compared with the model inside Coq; declared vs computed shapes compared inside Coq. "
    "Scheduler x worker-count x chunking matrix with a 1e-6 switch interval: oracle.",
    "Coq invariant proofs over schedules + deterministic schedule replay correspondence")
CLAIMED["C19"] = (
    "Theorems (Coq): deep embedding of pipeline expressions (providers/converters, @, + - * /, reflected forms, negation, "
    "comparisons, constants); for EVERY expression of any depth, any leaves and any scale the implementation's operator dispatch "
    "(reflected operators taken from generated anchors) computes the mathematical meaning (mutual structural induction over an "
    "abstract commutative ring); composition is nested application and associative; _get_radius_px and the Gaussian provider's "
    "centre/sigma are invariant when parameters and scale are multiplied by the same factor; centre = (shape_px-1)/2 + shift/scale. "
    "Tie: operator/compose/curry anchors + translated radius and Gaussian expressions; random expression trees built with the real "
    "operators over exact 4-voxel images evaluated by the implementation and by the Coq model (exact equality); radius and Gaussian "
    "peak location compared inside Coq. Morphology extensivity, [0,1] ranges, rescaling providers, curry adapters, loader glue, "
    "scale covariance of the scipy-backed converters: oracle.",
    "deep embedding + mutual induction in Coq + in-Coq expression correspondence")
CLAIMED["C13"] = (
    "Theorems (Coq): the data-frame layout is z, y, x, zvec, yvec, xvec followed by the features in order, a feature named like a "
    "coordinate column is rejected, and splitting that layout by name returns exactly the features (column-structure round trip, "
    "any number of features); reader and writer dispatch on the same suffix list (.pq/.parquet -> Parquet, everything else CSV); "
    "rounding to p decimals moves a value by at most 10^-p/2. Tie: _CSV_COLUMNS, the to_dataframe dict order and both suffix "
    "lists are regenerated from source; real to_dataframe/from_dataframe column lists (incl. collisions), to_file/from_file "
    "dispatch over 12 suffixes and the CSV text of float columns for precisions 1..7 are compared inside Coq. Value round trips "
    "through real CSV/Parquet files (dtypes incl. nulls/strings/bools, angles near 0 and pi, wide positions): oracle.",
    "regenerated anchors + Coq list/Q theorems + in-Coq correspondence")
CLAIMED["C18"] = (
    "PARTIAL. Theorems (Coq): with the solver PcaClassifier requests (generated anchor) DaskPCA._get_solver (auto-branch tests "
    "translated from source) returns an exact solver for every (N, F, n_components) it accepts, and accepts every 0 <= c <= "
    "min(N,F); the library default 'auto' is refuted (N=600,F=64,c=2 -> randomized) and exact only when max(N,F) <= 500; the "
    "flattened stack has one column chunk iff no image axis is chunked (the precondition of the tall-skinny SVD, established by the "
    "anchored rechunk); data path: fit and clustering see exactly the centred masked stack, the mean is independent of the row "
    "chunking (count-weighted; unweighted refuted), binary masks are invisible to components vanishing outside them, soft masks are not. "
    "Tie: solver decision compared with the model inside Coq over a grid of (solver, N, F, c); SVD certificate of every generated "
    "stack/mask/chunking (mean, orthonormal eigenvectors of Xc^T Xc, complete, descending, projections) evaluated in Coq over Q. The headline "
    "claim - components, singular values, projections equal to an exact SVD for every chunking, separated groups split - and the "
    "label write-back (scripted classifier: one label per molecule in molecule order, nothing else changes) are numeric / "
    "implementation oracles, not theorems.",
    "regenerated anchors + Coq decision-logic theorems + in-Coq correspondence; numeric oracle for the SVD")
CLAIMED["C20"] = (
    "PARTIAL. Theorems (Coq): for every tiling of an axis into blocks (every chunking) and every overlap depth, the core test of "
    "_pick_in_chunk_wrapped (translated: depth recovered from the block shape, half-open cell [start-1/2, start+size-1/2)) "
    "assigns every position of the image to exactly one block (no duplicates, no losses); the reported coordinate local + start "
    "- depth is the true global coordinate; nm = px * scale; picker depths ceil(2 sigma), matcher offset (shape+1)/2. Tie: those "
    "expressions are regenerated from source; a scripted picker (reports the planted integer markers it sees in its block) is run "
    "through pick_molecules over random chunkings x depths x scales, the observed block layout is validated as a tiling and the "
    "reported positions are compared with the model inside Coq; the depth dask actually applied is checked against the requested "
    "per-axis depth. Blob detection with LoG/DoG (5 chunkings, 3 dtypes) and rotated-template matching are numeric oracles; "
    "the matcher's chunk-border behaviour is a known finding. Lengths in nm (sigma, min_distance) reach the kernels divided by the scale (generated expressions + fact).",
    "regenerated anchors + Coq tiling theorem + scripted-picker correspondence; numeric oracle for detection")
CLAIMED["C04"] = (
    "PARTIAL. Theorems (Coq): (Reals) for a sub-volume that is the template displaced by d, the exact circular cross-correlation "
    "attains |template|^2 at lag d and no lag exceeds it (Cauchy-Schwarz), the normalised score is 1 there and <= 1 elsewhere; "
    "(Z/Q, on the generated C05 anchors) landscape index j denotes displacement j - trunc(m) for ZNCC/NCC, i - ceil(m) for FSC, "
    "j - trunc(m) for the centred PCC crop, the FFT-ordered PCC arg-max unwraps into [-trunc m, trunc m], the refinement mesh "
    "contains the integer peak and the reported shift is coarse + t/20. Tie: anchors shared with C05 (regenerated); integer images "
    "rolled by integer d through all four landscape functions, arg-max index mapped to a displacement inside Coq and compared with "
    "d (sign and index conventions). The headline 0.1 px / 0.5 px accuracy for fractional displacements, faces and corners of the "
    "range, odd/even/non-cubic boxes, cutoffs and orientations is a numeric oracle on band-limited templates, not a theorem.",
    "Coq theorems over R and Z/Q + in-Coq peak-index correspondence; numeric oracle for sub-pixel accuracy")
NOT_YET = "machinery for this property is not built yet in this revision (see DESIGN.md §6 for the planned model)"

def main():
    checks = []
    for pid, (text, tech) in sorted(CLAIMED.items()):
        checks.append({
            "property_id": pid,
            "quick_cmd": f"./check {pid} quick",
            "thorough_cmd": f"./check {pid} thorough",
            "evidence_file": f"/verif/evidence/{pid}.json",
            "replay_cmd_template": f"./check {pid} --replay {{path}}",
            "engine": "coq-acryo",
            "level_claimed": {"category": "proof", "text": text, "design_ref": f"DESIGN.md §6 {pid}, §7"},
            "level_note": "Trusted: Coq 8.16.1 kernel (vm_compute, no native_compute), harness/translate.py (python-ast -> Gallina), "
                          "the correspondence harness and its exact-input generators, assumed laws of numpy/scipy/dask kernels "
                          "(DESIGN.md §7). Axioms per theorem as printed by Print Assumptions are copied into the evidence file.",
            "technique": tech,
        })
    na = [{"property_id": f"C{i:02d}", "reason": NOT_YET} for i in range(1, 21) if f"C{i:02d}" not in CLAIMED]
    m = {
        "version": 1,
        "setup_cmd": "./check --setup",
        "hooks": {"guard": "ACRYO_VERIF", "enable": "no source hooks are needed; checks import /repo directly (PYTHONPATH=/repo)",
                  "baseline_off_cmd": "cd /repo && /venv/bin/python -m pytest -ra -q -p no:cacheprovider --timeout=900 --continue-on-collection-errors",
                  "source_commits": [], "add_only": True},
        "engines": [{"name": "coq-acryo", "path": "/verif/coq", "serves_properties": sorted(CLAIMED),
                     "kind_free_text": "Coq 8.16.1 development (theories/ + generated/ anchors) driven by harness/*.py"}],
        "checks": checks,
        "not_applicable": na,
        "notes": "See DESIGN.md. known_findings.json lists recorded and fixed defects.",
    }
    json.dump(m, open(os.path.join(HERE, "MANIFEST.json"), "w"), indent=1)

if __name__ == "__main__":
    main()
