"""Fail-closed Python-ast -> Gallina translator for *anchors*.

An anchor is a scalar expression or a small straight-line/if-else function taken
from /repo.  The emitted Gallina is the leaf layer of the Coq model: theorems
are (re)checked against these generated definitions on every run.

Sorts: 'Z' (python int), 'Q' (python/numpy float, modelled as exact rational),
'B' (bool), tuples of sorts.  Anything outside the subset raises Untranslatable
(the caller reports the tie as broken).
"""
from __future__ import annotations

import ast
import hashlib
import os
from fractions import Fraction


class Untranslatable(Exception):
    pass


def _is_tuple_sort(s):
    return isinstance(s, tuple)


def zlit(n: int) -> str:
    return f"({n})%Z" if n < 0 else f"{n}%Z"


def qlit(fr: Fraction) -> str:
    return f"(({fr.numerator})#{fr.denominator})" if fr.numerator < 0 else f"({fr.numerator}#{fr.denominator})"


def to_q(code: str, sort: str) -> str:
    if sort == "Q":
        return code
    if sort == "Z":
        import re as _re
        m = _re.fullmatch(r"(\d+)%Z", code)
        if m:
            return f"({m.group(1)}#1)"
        return f"(inject_Z {code})"
    raise Untranslatable(f"cannot coerce sort {sort} to Q")


class ExprTr:
    """Translate expressions.  env: unparsed-python-text -> (coq_code, sort)."""

    def __init__(self, env: dict, src: str = ""):
        self.env = dict(env)
        self.src = src

    def lookup(self, node):
        key = ast.unparse(node)
        if key in self.env:
            return self.env[key]
        return None

    def tr(self, node) -> tuple[str, object]:
        hit = self.lookup(node)
        if hit is not None:
            return hit
        m = getattr(self, "tr_" + type(node).__name__, None)
        if m is None:
            raise Untranslatable(f"unsupported syntax {type(node).__name__}: {ast.unparse(node)}")
        return m(node)

    # --- leaves
    def tr_Constant(self, node):
        v = node.value
        if isinstance(v, bool):
            return ("true" if v else "false", "B")
        if isinstance(v, int):
            return (zlit(v), "Z")
        if isinstance(v, float):
            seg = ast.get_source_segment(self.src, node) if self.src else None
            try:
                fr = Fraction(seg) if seg else Fraction(repr(v))
            except Exception:
                fr = Fraction(repr(v))
            return (qlit(fr), "Q")
        raise Untranslatable(f"constant {v!r}")

    def tr_Name(self, node):
        raise Untranslatable(f"free variable {node.id} has no sort in the anchor env")

    def tr_Attribute(self, node):
        raise Untranslatable(f"attribute {ast.unparse(node)} not in anchor env")

    def tr_Subscript(self, node):
        raise Untranslatable(f"subscript {ast.unparse(node)} not in anchor env")

    def tr_Tuple(self, node):
        parts = [self.tr(e) for e in node.elts]
        return ("(" + ", ".join(p[0] for p in parts) + ")", tuple(p[1] for p in parts))

    tr_List = tr_Tuple

    # --- operators
    def tr_UnaryOp(self, node):
        c, s = self.tr(node.operand)
        if isinstance(node.op, ast.USub):
            if s == "Z":
                return (f"(- {c})%Z", "Z")
            if s == "Q":
                return (f"(- {c})%Q", "Q")
        if isinstance(node.op, ast.UAdd) and s in ("Z", "Q"):
            return (c, s)
        if isinstance(node.op, ast.Not) and s == "B":
            return (f"(negb {c})", "B")
        raise Untranslatable(f"unary {ast.unparse(node)} on sort {s}")

    def tr_BinOp(self, node):
        a, sa = self.tr(node.left)
        b, sb = self.tr(node.right)
        op = node.op
        if sa not in ("Z", "Q") or sb not in ("Z", "Q"):
            raise Untranslatable(f"binop on sorts {sa},{sb}: {ast.unparse(node)}")
        bothz = sa == "Z" and sb == "Z"
        if isinstance(op, (ast.Add, ast.Sub, ast.Mult)):
            sym = {ast.Add: "+", ast.Sub: "-", ast.Mult: "*"}[type(op)]
            if bothz:
                return (f"({a} {sym} {b})%Z", "Z")
            return (f"({to_q(a, sa)} {sym} {to_q(b, sb)})%Q", "Q")
        if isinstance(op, ast.Div):
            return (f"({to_q(a, sa)} / {to_q(b, sb)})%Q", "Q")
        if isinstance(op, ast.FloorDiv):
            if bothz:
                return (f"({a} / {b})%Z", "Z")
            return (f"(inject_Z (Qfloor ({to_q(a, sa)} / {to_q(b, sb)})%Q))", "Q")
        if isinstance(op, ast.Mod):
            if bothz:
                return (f"({a} mod {b})%Z", "Z")
            raise Untranslatable("float modulo")
        if isinstance(op, ast.Pow):
            if isinstance(node.right, ast.Constant) and node.right.value == 2:
                if sa == "Z":
                    return (f"({a} * {a})%Z", "Z")
                return (f"({a} * {a})%Q", "Q")
            raise Untranslatable("power other than **2")
        raise Untranslatable(f"operator {type(op).__name__}")

    def _cmp(self, op, a, sa, b, sb):
        if sa == "B" and sb == "B" and isinstance(op, (ast.Eq, ast.Is)):
            return f"(Bool.eqb {a} {b})"
        if sa == "Z" and sb == "Z":
            t = {ast.Lt: "({a} <? {b})%Z", ast.LtE: "({a} <=? {b})%Z", ast.Gt: "({b} <? {a})%Z",
                 ast.GtE: "({b} <=? {a})%Z", ast.Eq: "({a} =? {b})%Z", ast.NotEq: "(negb ({a} =? {b})%Z)"}
        else:
            a, b = to_q(a, sa), to_q(b, sb)
            t = {ast.Lt: "(Qltb {a} {b})", ast.LtE: "(Qle_bool {a} {b})", ast.Gt: "(Qltb {b} {a})",
                 ast.GtE: "(Qle_bool {b} {a})", ast.Eq: "(Qeq_bool {a} {b})", ast.NotEq: "(negb (Qeq_bool {a} {b}))"}
        if type(op) not in t:
            raise Untranslatable(f"comparison {type(op).__name__}")
        return t[type(op)].format(a=a, b=b)

    def tr_Compare(self, node):
        items = [self.tr(node.left)] + [self.tr(c) for c in node.comparators]
        parts = []
        for i, op in enumerate(node.ops):
            (a, sa), (b, sb) = items[i], items[i + 1]
            parts.append(self._cmp(op, a, sa, b, sb))
        out = parts[0]
        for p in parts[1:]:
            out = f"(andb {out} {p})"
        return (out, "B")

    def tr_BoolOp(self, node):
        vals = [self.tr(v) for v in node.values]
        if any(s != "B" for _, s in vals):
            raise Untranslatable("and/or on non-bool")
        f = "andb" if isinstance(node.op, ast.And) else "orb"
        out = vals[0][0]
        for c, _ in vals[1:]:
            out = f"({f} {out} {c})"
        return (out, "B")

    def tr_IfExp(self, node):
        c, sc = self.tr(node.test)
        a, sa = self.tr(node.body)
        b, sb = self.tr(node.orelse)
        if sc != "B":
            raise Untranslatable("non-bool condition")
        if sa != sb:
            if {sa, sb} == {"Z", "Q"}:
                a, b, sa = to_q(a, sa), to_q(b, sb), "Q"
            else:
                raise Untranslatable("if-expression branches of different sorts")
        return (f"(if {c} then {a} else {b})", sa)

    # --- calls
    def tr_Call(self, node):
        fn = ast.unparse(node.func)
        # x.astype(np.int32) / x.astype(np.float32): truncation / identity on the exact value
        if isinstance(node.func, ast.Attribute) and node.func.attr == "astype" and len(node.args) == 1 \
                and not node.keywords:
            ty = ast.unparse(node.args[0])
            c, s = self.tr(node.func.value)
            if ty in ("np.int32", "np.int64", "int", "np.intp", "np.uint16", "np.uint32", "np.uint8"):
                return (c, "Z") if s == "Z" else (f"(Qtrunc {to_q(c, s)})", "Z")
            if ty in ("np.float32", "np.float64", "float"):
                return (to_q(c, s), "Q")
            raise Untranslatable(f"astype({ty})")
        if node.keywords:
            raise Untranslatable(f"keyword arguments in {ast.unparse(node)}")
        args = [self.tr(a) for a in node.args]
        if fn in ("np.maximum", "np.minimum") and len(args) == 2:
            fn = fn[3:6]

        def one():
            if len(args) != 1:
                raise Untranslatable(f"{fn} arity")
            return args[0]

        if fn == "int":
            c, s = one()
            return (c, "Z") if s == "Z" else (f"(Qtrunc {to_q(c, s)})", "Z")
        if fn in ("float", "np.float32", "np.float64"):
            c, s = one()
            return (to_q(c, s), "Q")
        if fn in ("np.ceil", "math.ceil", "xp.ceil"):
            c, s = one()
            z = f"(Qceiling {to_q(c, s)})"
            return (z, "Z") if fn == "math.ceil" else (f"(inject_Z {z})", "Q")
        if fn in ("np.floor", "math.floor", "xp.floor"):
            c, s = one()
            z = f"(Qfloor {to_q(c, s)})"
            return (z, "Z") if fn == "math.floor" else (f"(inject_Z {z})", "Q")
        if fn in ("np.fix", "xp.fix", "backend.fix"):
            c, s = one()
            return (f"(inject_Z (Qtrunc {to_q(c, s)}))", "Q")
        if fn == "round":
            c, s = one()
            return (c, "Z") if s == "Z" else (f"(Qround_he {to_q(c, s)})", "Z")
        if fn == "abs":
            c, s = one()
            return (f"(Z.abs {c})", "Z") if s == "Z" else (f"(Qabs {c})", "Q")
        if fn in ("max", "min") and len(args) >= 2:
            out, so = args[0]
            for c, s in args[1:]:
                if so == "Z" and s == "Z":
                    out = f"(Z.{fn} {out} {c})"
                else:
                    out, so = f"(Q{fn} {to_q(out, so)} {to_q(c, s)})", "Q"
            return (out, so)
        if fn == "divmod" and len(args) == 2 and args[0][1] == "Z" and args[1][1] == "Z":
            a, b = args[0][0], args[1][0]
            return (f"(({a} / {b})%Z, ({a} mod {b})%Z)", ("Z", "Z"))
        if fn == "slice" and len(args) == 2:
            return (f"({args[0][0]}, {args[1][0]})", (args[0][1], args[1][1]))
        if fn == "bool":
            c, s = one()
            if s == "B":
                return (c, s)
        raise Untranslatable(f"call {ast.unparse(node)}")


def sort_to_coq(s) -> str:
    if s == "Z":
        return "Z"
    if s == "Q":
        return "Q"
    if s == "B":
        return "bool"
    if isinstance(s, tuple):
        return "(" + " * ".join(sort_to_coq(x) for x in s) + ")"
    raise Untranslatable(f"sort {s}")


class FuncTr:
    """Whole-function translation in continuation style; raise -> None."""

    def __init__(self, fn: ast.FunctionDef, params: dict, src: str, extra_env=None):
        self.fn = fn
        self.src = src
        self.params = params
        self.has_raise = any(isinstance(n, ast.Raise) for n in ast.walk(fn))
        self.ret_sort = None
        self.extra_env = extra_env or {}

    def wrap_ret(self, code):
        return f"(Some {code})" if self.has_raise else code

    def block(self, stmts, env) -> str:
        if not stmts:
            raise Untranslatable("function falls off the end without return")
        st, rest = stmts[0], stmts[1:]
        et = ExprTr(env, self.src)
        if isinstance(st, ast.Expr) and isinstance(st.value, ast.Constant) and isinstance(st.value.value, str):
            return self.block(rest, env)
        if isinstance(st, ast.Pass):
            return self.block(rest, env)
        if isinstance(st, ast.Return):
            if st.value is None:
                raise Untranslatable("bare return")
            c, s = et.tr(st.value)
            if self.ret_sort is None:
                self.ret_sort = s
            elif self.ret_sort != s:
                raise Untranslatable(f"return sorts differ: {self.ret_sort} vs {s}")
            return self.wrap_ret(c)
        if isinstance(st, ast.Raise):
            return "None"
        if isinstance(st, ast.Assign):
            c, s = et.tr(st.value)
            env2 = dict(env)
            out_prefix = ""
            for tgt in st.targets:
                if isinstance(tgt, ast.Name):
                    if _is_tuple_sort(s):
                        raise Untranslatable("tuple bound to a single name")
                    env2[tgt.id] = (tgt.id, s)
                    out_prefix += f"let {tgt.id} := {c} in\n  "
                elif isinstance(tgt, ast.Tuple) and _is_tuple_sort(s) and len(tgt.elts) == len(s) \
                        and all(isinstance(e, ast.Name) for e in tgt.elts):
                    names = [e.id for e in tgt.elts]
                    for n, si in zip(names, s):
                        env2[n] = (n, si)
                    out_prefix += f"let '({', '.join(names)}) := {c} in\n  "
                else:
                    raise Untranslatable(f"assignment target {ast.unparse(tgt)}")
            return out_prefix + self.block(rest, env2)
        if isinstance(st, ast.AugAssign) and isinstance(st.target, ast.Name):
            fake = ast.BinOp(left=ast.Name(id=st.target.id, ctx=ast.Load()), op=st.op, right=st.value)
            c, s = et.tr(fake)
            env2 = dict(env)
            env2[st.target.id] = (st.target.id, s)
            return f"let {st.target.id} := {c} in\n  " + self.block(rest, env2)
        if isinstance(st, ast.If):
            c, s = et.tr(st.test)
            if s != "B":
                raise Untranslatable("non-bool if condition")
            a = self.block(list(st.body) + rest, env)
            b = self.block(list(st.orelse) + rest, env)
            return f"(if {c} then\n  {a}\n  else\n  {b})"
        raise Untranslatable(f"statement {type(st).__name__}: {ast.unparse(st)[:60]}")

    def run(self, name: str) -> str:
        env = {p: (p, s) for p, s in self.params.items()}
        env.update(self.extra_env)
        body = self.block(list(self.fn.body), env)
        args = " ".join(f"({p} : {sort_to_coq(s)})" for p, s in self.params.items())
        rs = sort_to_coq(self.ret_sort)
        if self.has_raise:
            rs = f"option {rs}"
        return f"Definition {name} {args} : {rs} :=\n  {body}."


# ---------------------------------------------------------------------------
# locating anchors

def find_def(tree: ast.AST, qualname: str):
    node = tree
    for part in qualname.split("."):
        found = None
        for ch in ast.iter_child_nodes(node):
            # the last definition wins (typing @overload stubs precede the implementation)
            if isinstance(ch, (ast.FunctionDef, ast.ClassDef, ast.AsyncFunctionDef)) and ch.name == part:
                found = ch
        if found is None:
            # look one level deeper (e.g. inside if/try blocks)
            for ch in ast.walk(node):
                if isinstance(ch, (ast.FunctionDef, ast.ClassDef)) and ch.name == part and ch is not node:
                    found = ch
                    break
        if found is None:
            raise Untranslatable(f"definition {qualname} not found")
        node = found
    return node


def find_assign(fn, var: str, occurrence: int = 0):
    hits = []
    for n in ast.walk(fn):
        if isinstance(n, ast.Assign):
            for t in n.targets:
                if ast.unparse(t) == var:
                    hits.append(n.value)
        elif isinstance(n, ast.AnnAssign) and n.value is not None and ast.unparse(n.target) == var:
            hits.append(n.value)
    hits.sort(key=lambda v: (v.lineno, v.col_offset))
    if len(hits) <= occurrence:
        raise Untranslatable(f"assignment #{occurrence} to {var} not found")
    return hits[occurrence]


def find_returns(fn):
    hits = [n.value for n in ast.walk(fn) if isinstance(n, ast.Return) and n.value is not None]
    hits.sort(key=lambda v: (v.lineno, v.col_offset))
    return hits


class Anchors:
    """Collects generated definitions for one property."""

    def __init__(self, repo: str):
        self.repo = repo
        self.items: list[str] = []
        self.meta: list[dict] = []
        self.errors: list[str] = []
        self._cache = {}

    def load(self, relpath: str):
        if relpath not in self._cache:
            p = os.path.join(self.repo, relpath)
            src = open(p).read()
            self._cache[relpath] = (src, ast.parse(src))
        return self._cache[relpath]

    def _record(self, name, relpath, qualname, what, node_src, code):
        self.items.append(f"(* {relpath} :: {qualname} :: {what} *)\n{code}\n")
        self.meta.append({"name": name, "file": relpath, "function": qualname, "what": what,
                          "source": node_src[:300],
                          "sha": hashlib.sha256(node_src.encode()).hexdigest()[:12]})

    def _fail(self, name, relpath, qualname, what, err):
        self.errors.append(f"{name}: {relpath}::{qualname}::{what}: {err}")

    def expr(self, name, relpath, qualname, locator, params: dict, env: dict | None = None,
             want=None, post=None):
        """locator: ('assign', var, occ) | ('return', occ) | ('find', fn(node)->bool, occ) |
        ('comp_elt', var, occ) element of list/generator comprehension assigned to var."""
        what = str(locator[:2]) if locator[0] != "find" else f"find:{locator[3] if len(locator) > 3 else ''}"
        try:
            src, tree = self.load(relpath)
            fn = find_def(tree, qualname)
            kind = locator[0]
            if kind == "assign":
                node = find_assign(fn, locator[1], locator[2] if len(locator) > 2 else 0)
            elif kind == "return":
                node = find_returns(fn)[locator[1]]
            elif kind == "comp_elt":
                node = find_assign(fn, locator[1], locator[2] if len(locator) > 2 else 0)
                while isinstance(node, ast.Call) and node.args:
                    node = node.args[0]
                if not isinstance(node, (ast.ListComp, ast.GeneratorExp)):
                    raise Untranslatable(f"{locator[1]} is not assigned a comprehension")
                node = node.elt
            elif kind == "find":
                hits = [n for n in ast.walk(fn) if locator[1](n)]
                hits.sort(key=lambda v: (getattr(v, "lineno", 0), getattr(v, "col_offset", 0)))
                node = hits[locator[2] if len(locator) > 2 else 0]
            else:
                raise Untranslatable(f"locator {kind}")
            if post is not None:
                node = post(node)
            e = {p: (p.replace(".", "_").replace("[", "_").replace("]", "").replace("-", "m"), s)
                 for p, s in params.items()}
            if env:
                e.update(env)
            code, sort = ExprTr(e, src).tr(node)
            if want is not None and sort != want:
                if want == "Q" and sort == "Z":
                    code, sort = to_q(code, sort), "Q"
                else:
                    raise Untranslatable(f"expected sort {want}, got {sort}")
            args = " ".join(f"({e[p][0]} : {sort_to_coq(s)})" for p, s in params.items())
            d = f"Definition {name} {args} : {sort_to_coq(sort)} :=\n  {code}."
            self._record(name, relpath, qualname, what, ast.unparse(node), d)
        except Exception as ex:  # noqa  -- fail closed
            self._fail(name, relpath, qualname, what, ex)

    def func(self, name, relpath, qualname, params: dict, extra_env=None):
        try:
            src, tree = self.load(relpath)
            fn = find_def(tree, qualname)
            got = [a.arg for a in fn.args.args if a.arg != "self"]
            if got[: len(params)] != list(params):
                raise Untranslatable(f"parameters changed: {got} vs {list(params)}")
            d = FuncTr(fn, params, src, extra_env).run(name)
            self._record(name, relpath, qualname, "whole function", ast.unparse(fn), d)
        except Exception as ex:  # noqa  -- fail closed
            self._fail(name, relpath, qualname, "whole function", ex)

    def fact(self, name, relpath, qualname, what, fn_bool):
        """Structural anchor: a boolean computed from the AST (e.g. 'class defines __eq__')."""
        try:
            src, tree = self.load(relpath)
            node = find_def(tree, qualname) if qualname else tree
            v = bool(fn_bool(node))
            d = f"Definition {name} : bool := {'true' if v else 'false'}."
            self._record(name, relpath, qualname, what, f"{what} = {v}", d)
        except Exception as ex:  # noqa  -- fail closed
            self._fail(name, relpath, qualname, what, ex)

    def raw(self, name, relpath, qualname, what, fn_code):
        """Structural anchor producing arbitrary Gallina text from the AST node (fail closed)."""
        try:
            src, tree = self.load(relpath)
            node = find_def(tree, qualname) if qualname else tree
            d = fn_code(node, src)
            self._record(name, relpath, qualname, what, ast.unparse(node)[:2000], d)
        except Exception as ex:  # noqa  -- any failure to recognise the source is a broken anchor (fail closed), never a crash of the check
            self._fail(name, relpath, qualname, what, ex)

    def pure(self, name, targets, what):
        """Structural anchor: none of the listed functions (relpath, qualname) changes its arguments, `self`, or writes through out=."""
        try:
            found = []
            for relpath, qual in targets:
                src, tree = self.load(relpath)
                sites = mutation_sites(find_def(tree, qual))
                found += [f"{relpath}::{qual}: {x}" for x in sites]
            d = f"Definition {name} : bool := {'true' if not found else 'false'}."
            self._record(name, targets[0][0], ", ".join(q for _, q in targets)[:300], what, ("no in-place mutation found" if not found else "; ".join(found))[:1500], d)
        except Exception as ex:  # noqa
            self._fail(name, targets[0][0], "", what, ex)

    def state(self, name, relpath, classes: dict, what):
        """Structural anchor: each listed class stores exactly the listed attributes (no memo / per-call state anywhere else)."""
        try:
            src, tree = self.load(relpath)
            diffs = []
            for cname, allowed in classes.items():
                got = assigned_state(tree, cname)
                if got != set(allowed):
                    diffs.append(f"{cname}: unexpected {sorted(got - set(allowed))}, missing {sorted(set(allowed) - got)}")
            d = f"Definition {name} : bool := {'true' if not diffs else 'false'}."
            self._record(name, relpath, ", ".join(classes), what, ("as listed" if not diffs else "; ".join(diffs))[:1500], d)
        except Exception as ex:  # noqa
            self._fail(name, relpath, ", ".join(classes), what, ex)

    def fresh(self, name, targets, what):
        """Structural anchor: none of the listed methods (relpath, qualname) returns `self` (or a plain alias of it) except under a test
        of its own `copy` argument: the result of a table operation is a new object, never the input under another name."""
        try:
            found = []
            for relpath, qual in targets:
                src, tree = self.load(relpath)
                found += [f"{relpath}::{qual}: {x}" for x in returns_self_sites(find_def(tree, qual))]
            d = f"Definition {name} : bool := {'true' if not found else 'false'}."
            self._record(name, targets[0][0], ", ".join(q for _, q in targets)[:300], what, ("no method returns its receiver" if not found else "; ".join(found))[:1500], d)
        except Exception as ex:  # noqa
            self._fail(name, targets[0][0], "", what, ex)

    def render(self, pid: str) -> str:
        head = ("(* GENERATED by /verif/harness/translate.py from the current /repo working tree.\n"
                "   Do not edit: rewritten on every check run. *)\n"
                "From Coq Require Import ZArith QArith Qround Qabs Bool List String.\n"
                "From Acryo Require Import Common.PyNum.\n"
                "Import ListNotations.\nLocal Open Scope Z_scope.\n\n")
        return head + "\n".join(self.items)


def mutation_sites(fn: ast.AST) -> list:
    """In-place changes to a function's own arguments (or to `self`) and writes through `out=`: the places where a function that
    should be a pure function of its inputs could carry state from one call to the next or alter what the caller (or a cache) holds.
    Returns a list of short descriptions (empty = none found).  Purely syntactic and conservative."""
    if not isinstance(fn, (ast.FunctionDef, ast.AsyncFunctionDef)):
        raise Untranslatable("not a function")
    params = {a.arg for a in fn.args.args + fn.args.kwonlyargs + fn.args.posonlyargs}
    if fn.args.vararg: params.add(fn.args.vararg.arg)
    if fn.args.kwarg: params.add(fn.args.kwarg.arg)
    rebound = set()          # parameters re-bound to a fresh value before being modified are the function's own
    out = []

    def base(n):
        while isinstance(n, (ast.Subscript, ast.Attribute)):
            n = n.value
        return n.id if isinstance(n, ast.Name) else None
    # simple aliases of a parameter:  x = p,  x = np.asarray(p, ...),  x = np.asanyarray(p)
    for node in ast.walk(fn):
        if isinstance(node, ast.Assign) and len(node.targets) == 1 and isinstance(node.targets[0], ast.Name):
            v = node.value
            if isinstance(v, ast.Name) and v.id in params:
                params.add(node.targets[0].id)
            elif isinstance(v, ast.Call) and isinstance(v.func, ast.Attribute) and v.func.attr in ("asarray", "asanyarray") and v.args \
                    and isinstance(v.args[0], ast.Name) and v.args[0].id in params:
                params.add(node.targets[0].id)
    for node in ast.walk(fn):
        if isinstance(node, ast.AugAssign):
            b = base(node.target)
            if b in params or b == "self":
                out.append(f"{ast.unparse(node)[:60]}")
        elif isinstance(node, ast.Assign):
            for t in node.targets:
                if isinstance(t, (ast.Subscript, ast.Attribute)) and (base(t) in params):
                    out.append(f"{ast.unparse(node)[:60]}")
        elif isinstance(node, ast.Call):
            for kw in node.keywords:
                if kw.arg == "out" and base(kw.value) is not None:
                    out.append(f"out={ast.unparse(kw.value)} in {ast.unparse(node)[:50]}")
            if isinstance(node.func, ast.Attribute) and node.func.attr in ("sort", "fill", "resize", "itemset", "setfield", "put", "clear", "update", "pop", "append", "extend") \
                    and base(node.func.value) in params:
                out.append(f"{ast.unparse(node)[:60]}")
    return out


def ctor_bindings(call: ast.Call, params: list) -> dict:
    """parameter name -> unparsed argument expression of a constructor call, given the callee's positional parameter order"""
    out = {}
    for name, arg in zip(params, call.args):
        if isinstance(arg, ast.Starred):
            raise Untranslatable("starred argument")
        out[name] = ast.unparse(arg).replace(" ", "")
    for kw in call.keywords:
        if kw.arg is None:
            raise Untranslatable("**kwargs in a constructor call")
        out[kw.arg] = ast.unparse(kw.value).replace(" ", "")
    return out


def forwards(fn: ast.AST, callee_names: tuple, params: list, expected: dict) -> bool:
    """every call to one of `callee_names` inside fn binds each option in `expected` to one of the accepted expressions"""
    calls = [n for n in ast.walk(fn) if isinstance(n, ast.Call) and ast.unparse(n.func).replace(" ", "") in callee_names]
    if not calls:
        raise Untranslatable(f"no call to {callee_names}")
    for c in calls:
        b = ctor_bindings(c, params)
        for opt, accepted in expected.items():
            if b.get(opt) not in accepted:
                return False
    return True


def returns_self_sites(fn: ast.AST) -> list:
    """`return self` (or `return x` after `x = self`) statements of a method that are not guarded by a test mentioning its `copy`
    argument.  Purely syntactic and conservative (an alias is any name ever assigned the bare name `self`)."""
    if not isinstance(fn, (ast.FunctionDef, ast.AsyncFunctionDef)):
        raise Untranslatable("not a function")
    aliases = {"self"}
    for node in ast.walk(fn):
        if isinstance(node, ast.Assign) and isinstance(node.value, ast.Name) and node.value.id == "self":
            for t in node.targets:
                if isinstance(t, ast.Name):
                    aliases.add(t.id)
    out = []

    def visit(node, guarded):
        for ch in ast.iter_child_nodes(node):
            if isinstance(ch, (ast.FunctionDef, ast.AsyncFunctionDef, ast.Lambda, ast.ClassDef)):
                continue
            g = guarded
            if isinstance(ch, ast.If) and any(isinstance(x, ast.Name) and x.id == "copy" for x in ast.walk(ch.test)):
                g = True
            if isinstance(ch, ast.Return) and isinstance(ch.value, ast.Name) and ch.value.id in aliases and not g:
                # `out = self` in the else-branch of `if copy:` followed by a common `return out` is the documented in-place form
                if ch.value.id != "self" and _alias_only_under_copy(fn, ch.value.id):
                    pass
                else:
                    out.append(f"line {ch.lineno}: return {ch.value.id}")
            visit(ch, g)
    visit(fn, False)
    return out


def _alias_only_under_copy(fn, name):
    """every `name = self` assignment sits under an `if` testing `copy`"""
    ok = True

    def visit(node, guarded):
        nonlocal ok
        for ch in ast.iter_child_nodes(node):
            g = guarded
            if isinstance(ch, ast.If) and any(isinstance(x, ast.Name) and x.id == "copy" for x in ast.walk(ch.test)):
                g = True
            if isinstance(ch, ast.Assign) and isinstance(ch.value, ast.Name) and ch.value.id == "self" \
                    and any(isinstance(t, ast.Name) and t.id == name for t in ch.targets) and not g:
                ok = False
            visit(ch, g)
    visit(fn, False)
    return ok


def assigned_state(tree: ast.AST, classname: str) -> set:
    """names of everything a class stores: `self.x` assignment targets anywhere in its methods, plus class-level variables
    (prefixed "class:"): the complete list of places where an object can keep state between calls"""
    cls = [n for n in ast.walk(tree) if isinstance(n, ast.ClassDef) and n.name == classname]
    if len(cls) != 1:
        raise Untranslatable(f"class {classname} not found (or ambiguous)")
    out = set()
    for node in ast.walk(cls[0]):
        tg = node.targets if isinstance(node, ast.Assign) else [node.target] if isinstance(node, (ast.AugAssign, ast.AnnAssign)) else []
        for t in tg:
            for x in ast.walk(t):
                if isinstance(x, ast.Attribute) and isinstance(x.value, ast.Name) and x.value.id == "self":
                    out.add(x.attr)
    for st in cls[0].body:
        tg = st.targets if isinstance(st, ast.Assign) else [st.target] if isinstance(st, ast.AnnAssign) and st.value is not None else []
        for t in tg:
            if isinstance(t, ast.Name):
                out.add("class:" + t.id)
    return out
