"""Regenerates /verif/seeded/README.md from seeded/*/meta.json."""
import glob, json, os
HERE = os.path.dirname(os.path.dirname(os.path.abspath(__file__)))
rows = []
for f in sorted(glob.glob(os.path.join(HERE, "seeded", "*", "meta.json"))):
    m = json.load(open(f))
    rows.append(m)
rows.sort(key=lambda m: (m["property"], int(m["id"].split("-")[1])))
out = ["# Seeded breaking changes", "",
       "Each directory holds `patch.diff` (applies to /repo HEAD with `git apply`), `demo.py` (exit 0 on the unchanged tree, non-zero with the patch),",
       "and `meta.json`.  The changes were written by fresh sub-agents that saw only the property text and a scratch worktree of /repo.",
       "", "| id | property | change | needs | confirmed (tests pass / demo fails) | check outcome | caught by |", "|---|---|---|---|---|---|---|"]
for m in rows:
    esc = lambda t: str(t).replace("|", "/").replace("\n", " ")
    out.append(f"| {m['id']} | {m['property']} | {esc(m['change'])} | {esc(m['needs'])} | {esc(m['confirmed'])} | {esc(m['check_outcome'])} | {esc(m['caught_by'])} |")
open(os.path.join(HERE, "seeded", "README.md"), "w").write("\n".join(out) + "\n")
print(len(rows), "entries")
