"""C05 — alignment stays inside the search range and never fails on a valid range."""
from __future__ import annotations
import ast
import json
import numpy as np
from fractions import Fraction

import common
from common import zl, ql, bl, lst, zlist, qlist, frac
from translate import Anchors
from props.C11 import norm

PID = "C05"
ZN = "acryo/backend/_zncc.py"
UP = "acryo/backend/_upsample.py"
PC = "acryo/backend/_pcc.py"
FS = "acryo/backend/_fsc.py"


def anchors(a: Anchors):
    a.expr("pad_w_int", ZN, "_get_padding_width", ("assign", "w_int"), {"w": "Q"}, want="Z")
    for fn in ("subpixel_zncc", "subpixel_ncc", "zncc_landscape_with_crop", "ncc_landscape_with_crop"):
        a.expr(f"pwe_{fn}", ZN, fn, ("comp_elt", "pad_width_eff"), {"m": "Q", "s": "Z"}, want="Z")
    a.expr("up_midpoint", UP, "upsample", ("assign", "midpoints"), {"n": "Z"},
           env={"np.asarray(res.shape, dtype=np.int32)": ("n", "Z")}, want="Z")
    a.expr("up_loc_shift", UP, "upsample", ("assign", "loc_shift"), {"local_maxima": "Z", "local_offset": "Q"},
           env={"UPSAMPLE": ("20%Z", "Z")}, want="Q")
    a.expr("up_shifts", UP, "upsample", ("assign", "shifts"), {"maxima": "Z", "midpoints": "Z", "loc_shift": "Q"}, want="Q")
    a.expr("mesh_shifts", UP, "_create_mesh", ("assign", "shifts"), {"maxima": "Z", "midpoints": "Z"},
           env={"np.asarray(maxima, dtype=np.float32)": ("maxima", "Z")}, want="Q")
    a.expr("mesh_left", UP, "_create_mesh", ("assign", "left"), {"shifts": "Q", "_max_shifts": "Q"}, want="Q")
    a.expr("mesh_right", UP, "_create_mesh", ("assign", "right"), {"shifts": "Q", "_max_shifts": "Q"}, want="Q")
    a.expr("mesh_bounds", UP, "_create_mesh", ("comp_elt", "local_shifts"), {"shiftl": "Q", "shiftr": "Q"},
           env={"UPSAMPLE": ("20%Z", "Z")}, want=("Z", "Z"))
    a.expr("mesh_coord", UP, "_create_mesh",
           ("find", lambda n: isinstance(n, ast.ListComp) and "backend.arange" in ast.unparse(n.elt), 0, "mesh element"),
           {"t": "Z", "m": "Z", "w": "Z"}, env={"UPSAMPLE": ("20%Z", "Z"), "backend.arange(s0, s1 + 1)": ("t", "Z")},
           want="Q", post=lambda n: n.elt)
    a.expr("mesh_offset", UP, "_create_mesh",
           ("find", lambda n: isinstance(n, ast.Assign) and ast.unparse(n.targets[0]) == "offset", 0, "offset"),
           {"s0": "Z"}, env={"UPSAMPLE": ("20%Z", "Z")}, want="Q",
           post=lambda n: ast.BinOp(left=ast.Name(id="s0", ctx=ast.Load()), op=n.value.op, right=n.value.right)
           if isinstance(n.value, ast.BinOp) and "backend.array([s0 for s0, s1 in local_shifts]" in ast.unparse(n.value.left)
           else (_ for _ in ()).throw(Exception("offset expression changed shape")))
    a.expr("fsc_out_len", FS, "fsc_landscape", ("comp_elt", "out_shape"), {"m": "Q"}, want="Z")
    a.expr("fsc_phase_half", FS, "_get_phase_1d", ("assign", "s"), {"size": "Z"}, want="Z")
    a.fact("fsc_phase_lags_range", FS, "_get_phase_1d", "rng = range(-s, s + 1); one phase ramp exp(2j pi x0 mesh) per lag x0",
           lambda fn: (lambda t: "rng=range(-s,s+1)" in t and "return[backend.exp(2j*np.pi*x0*mesh)forx0inrng]" in t)(norm(ast.unparse(fn))))
    a.fact("fsc_phases_per_axis", FS, "_get_phases", "axis a: _get_phase_1d(mesh[a], out_shape[a]); landscape loops z, y, x in that order and writes out[iz, iy, ix]",
           lambda fn: (lambda t: all(x in t for x in ["phase_z=_get_phase_1d(mesh[0],out_shape[0],backend)", "phase_y=_get_phase_1d(mesh[1],out_shape[1],backend)",
                                                        "phase_x=_get_phase_1d(mesh[2],out_shape[2],backend)", "return(phase_z,phase_y,phase_x)"]))(norm(ast.unparse(fn))))
    a.fact("fsc_landscape_loops_zyx", FS, "fsc_landscape", "for iz, phiz in enumerate(phase_z) ... out[iz, iy, ix] = mean FSC",
           lambda fn: (lambda t: all(x in t for x in ["phase_z,phase_y,phase_x=_get_phases(shape,out_shape,backend)", "foriz,phizinenumerate(phase_z):ft0_shifted_z=ft0*phiz",
                                                        "foriy,phiyinenumerate(phase_y):ft0_shifted_yz=ft0_shifted_z*phiy", "forix,phixinenumerate(phase_x):ft0_shifted=ft0_shifted_yz*phix",
                                                        "out[iz,iy,ix]=float(fsc.mean())"]))(norm(ast.unparse(fn))))
    # PCC
    for fn in ("crop_by_max_shifts", "pcc_landscape"):
        a.expr(f"{fn}_center", PC, fn, ("comp_elt", "centers"), {"s": "Z"}, want="Z")
        a.expr(f"{fn}_start", PC, fn,
               ("find", lambda n: isinstance(n, ast.Call) and ast.unparse(n.func) == "slice" and len(n.args) >= 2, 0, "slice start"),
               {"c": "Z", "shiftl": "Q", "s": "Z"}, want="Z", post=lambda n: n.args[0])
        a.expr(f"{fn}_stop", PC, fn,
               ("find", lambda n: isinstance(n, ast.Call) and ast.unparse(n.func) == "slice" and len(n.args) >= 2, 0, "slice stop"),
               {"c": "Z", "shiftr": "Q", "s": "Z"}, want="Z", post=lambda n: n.args[1])
    a.expr("pcc_int_shifts", PC, "subpixel_pcc", ("assign", "_int_shifts"), {"_max_shifts": "Q"}, want="Z")
    a.expr("pcc_midpoint", PC, "subpixel_pcc", ("comp_elt", "midpoints"), {"axis_size": "Z"}, want="Q")
    a.expr("pcc_region", PC, "subpixel_pcc", ("assign", "upsampled_region_size"), {"upsample_factor": "Z"}, want="Z")
    a.expr("pcc_dftshift", PC, "subpixel_pcc", ("assign", "dftshift"), {"upsampled_region_size": "Z"}, want="Q")
    a.expr("pcc_lshift", PC, "subpixel_pcc", ("assign", "_lshift"), {"shifts": "Q", "_max_shifts": "Q", "upsample_factor": "Z"}, want="Z")
    a.expr("pcc_rshift", PC, "subpixel_pcc", ("assign", "_rshift"), {"shifts": "Q", "_max_shifts": "Q", "upsample_factor": "Z"}, want="Z")
    a.expr("pcc_start", PC, "subpixel_pcc", ("assign", "_start"), {"dftshift": "Q", "_lshift": "Z"}, want="Z")
    a.expr("pcc_stop", PC, "subpixel_pcc", ("assign", "_stop"), {"dftshift": "Q", "_rshift": "Z", "upsampled_region_size": "Z"}, want="Z")
    a.expr("pcc_maxima", PC, "subpixel_pcc", ("assign", "maxima", 1), {"_argmax": "Z", "_start": "Z", "dftshift": "Q"}, want="Q")
    a.expr("pcc_final", PC, "subpixel_pcc", ("assign", "shifts", 2), {"shifts": "Q", "maxima": "Q", "upsample_factor": "Z"}, want="Q")


def run(ck: common.Check):
    ck.design_ref = "DESIGN.md §6 C05"
    ck.trusted_base = TB
    ck.partial = ["finiteness of the score and behaviour of the spline interpolation inside the mesh are numeric (oracle only)",
                  "float32 rounding of limits is covered by the 1e-3 mesh-step tolerance, not modelled bit-exactly"]
    a = Anchors(common.REPO)
    anchors(a)
    ck.write_anchors(PID, a)
    ck.build(["C05"], ["C05/Property.v"])
    rng = np.random.default_rng(ck.seed + 5005)
    corr_mesh(ck, rng)
    corr_shapes(ck, rng)
    oracle_align(ck, rng)
    oracle_loader(ck, rng)


def limits(rng, n, tier):
    base = [0.0, 0.3, 0.5, 0.74, 0.75, 0.76, 0.78, 1.0, 1.5, 2.99, 0.51, 3.0, 5.3, 0.025, 0.049, 0.051, 17.0]
    out = list(base)
    while len(out) < n:
        r = rng.random()
        if r < 0.5:
            out.append(float(rng.integers(0, 801)) / 200.0)
        elif r < 0.8:
            out.append(float(np.float32(rng.uniform(0, 4))))
        else:
            out.append(float(np.float32(rng.uniform(0, 12))))
    return out


def corr_mesh(ck, rng):
    """_create_mesh / _get_padding_width against the model for every admissible arg-max index."""
    from acryo.backend._upsample import _create_mesh
    from acryo.backend._zncc import _get_padding_width
    from acryo.backend import Backend
    xp = Backend()
    cases = []
    lims = limits(rng, 60 if ck.tier == "quick" else 700, ck.tier)
    classes = {"zncc": 0, "fsc": 0}
    for m in lims:
        m32 = float(np.float32(m))
        mq = frac(np.float32(m))
        for kind in ("zncc", "fsc"):
            if kind == "zncc":
                w = _get_padding_width((m32,))[0][0]
                L = 2 * w - 1
                pwe = (L - int(m32) * 2 - 1) // 2
                n = L - 2 * pwe
            else:
                n = int(np.ceil(m32)) * 2 + 1
                pwe, w = 0, 0
            js = range(n) if n <= 9 else sorted(set([0, 1, n // 2 - 1, n // 2, n // 2 + 1, n - 2, n - 1]))
            for j in js:
                maxima = np.array([j, j, j])
                mid = (np.array([n, n, n], dtype=np.int32) // 2).astype(np.float32)
                try:
                    mesh, off = _create_mesh(maxima, (m32,) * 3, mid, (pwe,) * 3, xp)
                    ax = np.asarray(mesh[0][:, 0, 0], dtype=np.float64)
                    got = (f"(Some ({zl(len(ax))}, {ql(frac(ax[0]))}, {ql(frac(ax[-1]))}, {ql(frac(np.float32(off[0])))}))")
                    g = [len(ax), float(ax[0]), float(ax[-1]), float(off[0])]
                except Exception as e:  # noqa
                    got, g = "None", repr(e)
                classes[kind] += 1
                cases.append((f"(check_mesh {bl(kind == 'fsc')} {ql(mq)} {zl(w)} {zl(j)} {got})",
                              {"kind": kind, "max_shift": m32, "argmax_index": j, "impl": g}))
    ck.corr_run("create_mesh", ["AcryoGen.Anchors_C05", "Acryo.C05.Model"], cases, shard=600, observable=False, classes=classes)


def int_shifts_of(ms):
    """the integer crop half-widths subpixel_pcc derives from max_shifts: evaluates the source's own `_int_shifts = ...` expression"""
    import ast, inspect, textwrap
    from acryo.backend import _pcc
    tree = ast.parse(textwrap.dedent(inspect.getsource(_pcc.subpixel_pcc)))
    for n in ast.walk(tree):
        if isinstance(n, ast.Assign) and ast.unparse(n.targets[0]) == "_int_shifts":
            return eval(compile(ast.Expression(n.value), "<_int_shifts>", "eval"), {"np": np, "_max_shifts": np.asarray(ms, dtype=np.float32)})
    raise RuntimeError("subpixel_pcc no longer assigns _int_shifts")


def corr_shapes(ck, rng):
    """landscape shapes (centre crop lengths) of the four models + crop_by_max_shifts against the model."""
    from acryo.backend._zncc import zncc_landscape_with_crop, ncc_landscape_with_crop
    from acryo.backend._fsc import fsc_landscape
    from acryo.backend._pcc import pcc_landscape, crop_by_max_shifts
    from acryo.backend import Backend
    xp = Backend()
    cases = []
    lims = limits(rng, 14 if ck.tier == "quick" else 80, ck.tier)
    for i, m in enumerate(lims):
        m32 = float(np.float32(m))
        if m32 > 6:
            continue
        N = int(rng.integers(4, 8))
        a = rng.normal(size=(N, N, N)).astype(np.float32)
        b = rng.normal(size=(N, N, N)).astype(np.float32)
        ms = (m32, m32, m32)
        got = []
        for fn in (zncc_landscape_with_crop, ncc_landscape_with_crop):
            try:
                got.append(fn(a, b, ms, xp).shape[0])
            except Exception:
                got.append(-1)
        fa, fb = xp.fftn(a), xp.fftn(b)
        try:
            got.append(fsc_landscape(fa, fb, ms, xp).shape[0])
        except Exception:
            got.append(-1)
        try:
            got.append(pcc_landscape(fa, fb, ms, xp).shape[0])
        except Exception:
            got.append(-1)
        try:
            im = int_shifts_of(ms)
            got.append(crop_by_max_shifts(np.abs(fa), im, im, xp).shape[0])
        except Exception:
            got.append(-1)
        cases.append((f"(check_shapes {ql(frac(np.float32(m)))} {zl(N)} {zlist(got)})",
                      {"max_shift": m32, "box": N, "impl_lengths[zncc,ncc,fsc,pcc_landscape,pcc_crop]": got}))
    ck.corr_run("landscape_shapes", ["AcryoGen.Anchors_C05", "Acryo.C05.Model"], cases, shard=600, observable=False)


MODELS = None


def models():
    global MODELS
    if MODELS is None:
        from acryo.alignment import ZNCCAlignment, NCCAlignment, PCCAlignment
        from acryo.alignment._concrete import FSCAlignment
        MODELS = {"zncc": ZNCCAlignment, "ncc": NCCAlignment, "pcc": PCCAlignment, "fsc": FSCAlignment}
    return MODELS


def gen_images(rng, N, kind):
    if kind == "noise":
        return rng.normal(size=N).astype(np.float32), rng.normal(size=N).astype(np.float32)
    if kind == "constant":
        return np.full(N, 3.0, dtype=np.float32), rng.normal(size=N).astype(np.float32)
    if kind == "shifted":
        from scipy import ndimage as ndi
        t = ndi.gaussian_filter(rng.normal(size=N), 1.0).astype(np.float32)
        d = rng.uniform(-2, 2, size=3)
        return ndi.shift(t, d, order=1, mode="wrap").astype(np.float32), t
    t = rng.normal(size=N).astype(np.float32)
    return t.copy(), t


def align_case(c):
    """runs one model.align; returns (ok, detail, result)"""
    rng = np.random.default_rng(c["img_seed"])
    img, tmpl = gen_images(rng, tuple(c["shape"]), c["kind"])
    kw = {}
    if c.get("rot"):
        kw["rotations"] = ((10, 10), (0, 0), (0, 0))
    if c.get("cutoff"):
        kw["cutoff"] = c["cutoff"]
    if c.get("tilt"):
        kw["tilt"] = tuple(c["tilt"])
    M = models()[c["model"]]
    try:
        model = M(tmpl, **kw)
        res = model.align(img, tuple(c["max_shifts"]))
    except Exception as e:  # noqa
        return False, f"raised {type(e).__name__}: {e}", None
    sh = np.asarray(res.shift, dtype=float)
    sc = float(res.score)
    if not (np.all(np.isfinite(sh)) and np.isfinite(sc)):
        return False, f"non-finite shift/score: {sh.tolist()} {sc}", None
    ms = np.array([float(np.float32(x)) for x in c["max_shifts"]])
    exc = np.abs(sh) - ms
    if np.any(exc > 1e-4):
        return False, f"shift {sh.tolist()} exceeds max_shifts {ms.tolist()} by {float(exc.max()):.4f} px", None
    return True, "", res


def oracle_align(ck, rng):
    n = 130 if ck.tier == "quick" else 2500
    lims = limits(rng, 400, ck.tier)
    stats = {}
    for i in range(n):
        model = ["zncc", "ncc", "pcc", "fsc"][i % 4]
        kind = ["noise", "constant", "shifted", "identical"][int(rng.integers(0, 4))]
        if model == "fsc" and ck.tier == "quick" and i % 8 != 3:
            model = "pcc"
        ms = [float(lims[int(rng.integers(0, len(lims)))]) for _ in range(3)]
        if rng.random() < 0.4:
            ms = [ms[0]] * 3
        if model == "fsc":
            ms = [min(x, 2.2) for x in ms]
        N = [int(x) for x in rng.integers(4, 10, size=3)]
        if rng.random() < 0.4:
            N = [N[0]] * 3
        c = dict(model=model, kind=kind, max_shifts=ms, shape=N, img_seed=int(rng.integers(0, 2**31)),
                 rot=bool(rng.random() < 0.2), cutoff=(0.4 if rng.random() < 0.2 else None),
                 tilt=([-60, 60] if rng.random() < 0.2 else None))
        ok, detail, _ = align_case(c)
        stats[model] = stats.get(model, 0) + 1
        ck.oracle_count("align_within_range", 1, 1)
        if not ok:
            ck.violation(what=f"{model} alignment on a valid max_shifts: {detail}", inp=c,
                         key={"model": model, "symptom": detail.split(":")[0].split(" ")[0]}, oracle="align_within_range",
                         measured=detail)
    ck.oracle["align_within_range"]["per_model"] = stats


def oracle_loader(ck, rng):
    """loader level: displacement in the input molecule frame <= max_shifts; scalar/tuple/array max_shifts agree;
    malformed max_shifts rejected."""
    from acryo import SubtomogramLoader, Molecules
    from scipy.spatial.transform import Rotation
    from acryo.loader._base import _normalize_max_shifts
    n = 6 if ck.tier == "quick" else 60
    tomo = rng.normal(size=(24, 24, 24)).astype(np.float32)
    tmpl = rng.normal(size=(6, 6, 6)).astype(np.float32)
    for i in range(n):
        scale = float(rng.choice([1.0, 0.4, 2.0]))
        rot = Rotation.random(4, random_state=int(rng.integers(0, 2**31)))
        pos = rng.uniform(9, 14, size=(4, 3)) * scale
        mol = Molecules(pos, rot)
        model = ["zncc", "ncc", "pcc"][i % 3]
        lim_px = float(rng.choice([0.0, 0.3, 0.78, 1.5, 2.6]))
        lim = lim_px * scale
        ld = SubtomogramLoader(tomo, mol, order=1, scale=scale)
        c = dict(model=model, scale=scale, max_shifts_nm=lim, seed=ck.seed, i=i)
        try:
            out = ld.align(tmpl, max_shifts=lim, alignment_model=models()[model])
            d = (out.molecules.pos - mol.pos)
            local = np.stack([mol.rotator[k].inv().apply(d[k]) for k in range(4)])
            exc = np.abs(local).max() - lim
            ok = exc <= 2e-4 * max(1.0, scale)
            detail = f"molecule-frame displacement exceeds max_shifts by {exc:.5f} nm" if not ok else ""
            # multi-template entry and group entry with scalar limit
            # anisotropic range together with a rotation search: the bound holds per component in the *input* molecule's own axes
            lim3 = tuple(float(x) * scale for x in rng.choice([0.0, 0.5, 1.0, 2.0], size=3))
            if i % 2 == 0:
                outr = ld.align(tmpl, max_shifts=lim3, rotations=((30, 30), (30, 30), (30, 30)), alignment_model=models()[model])
                dr = outr.molecules.pos - mol.pos
                locr = np.stack([mol.rotator[k].inv().apply(dr[k]) for k in range(4)])
                excr = (np.abs(locr) - np.array(lim3)[None]).max()
                if excr > 2e-4 * max(1.0, scale):
                    ok, detail = False, f"align with rotations, max_shifts={lim3}: molecule-frame displacement exceeds its component limit by {excr:.5f} nm"
            # every entry point is bounded alike: multi-template (direct, and through align with a list / 4-D stack), batch, group
            from acryo import BatchLoader
            t2 = [tmpl, tmpl[::-1].copy()]
            b = BatchLoader(order=1, scale=scale, output_shape=tmpl.shape)
            b.add_tomogram(tomo, mol, image_id=0)
            molg = Molecules(pos, rot, features={"g": [0, 1, 0, 1]})
            ldg = SubtomogramLoader(tomo, molg, order=1, scale=scale)
            entries = [("align_multi_templates", lambda: ld.align_multi_templates(t2, max_shifts=lim, alignment_model=models()[model]).molecules),
                       ("align(list of templates)", lambda: ld.align(t2, max_shifts=lim, alignment_model=models()[model]).molecules),
                       ("align(4-D stack)", lambda: ld.align(np.stack(t2), max_shifts=lim, alignment_model=models()[model]).molecules),
                       ("batch.align(list of templates)", lambda: b.align(t2, max_shifts=lim, alignment_model=models()[model]).molecules),
                       ("group.align", lambda: Molecules.concat([l_.molecules for _, l_ in sorted(ldg.groupby("g").align(tmpl, max_shifts=lim, alignment_model=models()[model]), key=lambda kv: kv[0])]))]
            for ename, fn in entries[(i % 2)::2] if ck.tier == "quick" else entries:
                mo = fn()
                ref = mol.pos if ename != "group.align" else np.concatenate([mol.pos[[0, 2]], mol.pos[[1, 3]]])
                rr = mol.rotator if ename != "group.align" else Rotation.concatenate([mol.rotator[[0, 2]], mol.rotator[[1, 3]]])
                if not np.all(np.isfinite(mo.pos)):
                    ok, detail = False, f"{ename} returned non-finite positions"
                    break
                dd = mo.pos - ref
                loc = np.stack([rr[k].inv().apply(dd[k]) for k in range(4)])
                exc2 = np.abs(loc).max() - lim
                if exc2 > 2e-4 * max(1.0, scale):
                    ok, detail = False, f"{ename}: molecule-frame displacement exceeds max_shifts by {exc2:.5f} nm"
                    break
        except Exception as e:  # noqa
            ok, detail = False, f"raised {type(e).__name__}: {e}"
        ck.oracle_count("loader_displacement", 1, 1)
        if not ok:
            ck.violation(what="loader.align: " + detail, inp=c, key={"site": "loader", "model": model,
                                                                     "symptom": detail.split(" ")[0]},
                         oracle="loader_displacement", measured=detail)
    # normalisation
    good = [(1.5, (1.5, 1.5, 1.5)), ((1, 2, 3), (1.0, 2.0, 3.0)), (np.array([0.5, 0.25, 2.0]), (0.5, 0.25, 2.0)),
            ([2, 2, 2], (2.0, 2.0, 2.0)), (0, (0.0, 0.0, 0.0))]
    for x, want in good:
        ck.oracle_count("normalize_max_shifts", 1, 1)
        try:
            got = _normalize_max_shifts(x)
            if tuple(got) != want:
                ck.violation(what=f"_normalize_max_shifts({x!r}) = {got!r}, expected {want!r}", inp={"x": repr(x)},
                             key={"site": "normalize"}, oracle="normalize_max_shifts")
        except Exception as e:  # noqa
            ck.violation(what=f"_normalize_max_shifts({x!r}) raised {e!r}", inp={"x": repr(x)}, key={"site": "normalize"},
                         oracle="normalize_max_shifts")
    for x in [(1, 2), (1, 2, 3, 4), []]:
        ck.oracle_count("normalize_max_shifts", 1, 1)
        try:
            got = _normalize_max_shifts(x)
            ck.violation(what=f"_normalize_max_shifts({x!r}) accepted a malformed range and returned {got!r}",
                         inp={"x": repr(x)}, key={"site": "normalize-malformed"}, oracle="normalize_max_shifts")
        except ValueError:
            pass


def replay(data):
    c = data["input"]
    if data.get("oracle") == "align_within_range":
        ok, detail, _ = align_case(c)
        print("replay:", "holds" if ok else "FAILS: " + detail)
        return 0 if ok else 1
    print(json.dumps(c, indent=1)[:2000])
    return 0


TB = [
    "Coq 8.16.1 kernel + coqc; vm_compute for Examples and correspondence",
    "axioms: none expected (Z/Q arithmetic only); see coverage.assumptions_printed",
    "translator harness/translate.py for every scalar index expression of _zncc/_upsample/_fsc/_pcc listed in coverage.anchors",
    "assumed kernel laws: numpy argmax/unravel_index return an in-range index; fftshift/ifftshift are rolls by n//2; "
    "slice semantics; map_coordinates samples only at the mesh coordinates it is given",
    "exact-rational model of float32/float64 arithmetic (limits enter as the exact value of their float32 representation)",
]
