"""C19 — image pipelines compose like functions and are parameterised in physical units."""
from __future__ import annotations
import ast
import json
import numpy as np
from fractions import Fraction

import common
from common import zl, ql, bl, lst, zlist, qlist, frac, natl
from translate import Anchors, Untranslatable
from props.C11 import norm

PID = "C19"
PC = "acryo/pipe/_classes.py"
PM = "acryo/pipe/_masking.py"
PI = "acryo/pipe/_imread.py"
PU = "acryo/pipe/_curry.py"


BIN_AST = {ast.Add: 0, ast.Sub: 1, ast.Mult: 2, ast.Div: 3}
CMP_AST = {ast.Lt: 0, ast.LtE: 1, ast.Gt: 2, ast.GtE: 3, ast.Eq: 4, ast.NotEq: 5}
CMP_NP = {"less": 0, "less_equal": 1, "greater": 2, "greater_equal": 3, "equal": 4, "not_equal": 5}
CMP_MIRROR = {0: 2, 1: 3, 2: 0, 3: 1, 4: 4, 5: 5}
METHODS = {"__add__": (0, 0), "__sub__": (0, 1), "__mul__": (0, 2), "__truediv__": (0, 3),
           "__lt__": (1, 0), "__le__": (1, 1), "__gt__": (1, 2), "__ge__": (1, 3), "__eq__": (1, 4), "__ne__": (1, 5)}


def op_dispatch(tree, src):
    """Tabulate, for class (0 provider, 1 converter), branch (0 same class, 1 converter-with-provider, 2 constant) and
    declared operator, the operator the lambda in that branch really applies to (self(...), other(...)).  Fail closed."""
    from translate import find_def
    helpers = {}
    for node in tree.body:
        if isinstance(node, ast.FunctionDef) and node.name.startswith("_") and len(node.args.args) == 2:
            r = [n for n in node.body if isinstance(n, ast.Return)]
            if len(r) == 1 and isinstance(r[0].value, ast.Call):
                c = r[0].value
                inner = c.func.value if isinstance(c.func, ast.Attribute) and c.func.attr == "astype" else c
                if (isinstance(inner, ast.Call) and isinstance(inner.func, ast.Attribute) and inner.func.attr in CMP_NP
                        and [ast.unparse(x) for x in inner.args] == [node.args.args[0].arg, node.args.args[1].arg]):
                    helpers[node.name] = CMP_NP[inner.func.attr]

    def operand(n, cls, branch, which):
        t = norm(ast.unparse(n))
        selfcall = "self(scale)" if cls == 0 else "self(x,scale)"
        other = {0: ("other(scale)" if cls == 0 else "other(x,scale)"), 1: "other(scale)", 2: "other"}[branch]
        if t == selfcall: return "self"
        if t == other: return "other"
        raise Untranslatable(f"operand {t!r} is neither {selfcall} nor {other}")

    def applied(body, kind, cls, branch):
        if isinstance(body, ast.BinOp) and type(body.op) in BIN_AST:
            k, code, l, r = 0, BIN_AST[type(body.op)], body.left, body.right
        elif isinstance(body, ast.Compare) and len(body.ops) == 1 and type(body.ops[0]) in CMP_AST:
            k, code, l, r = 1, CMP_AST[type(body.ops[0])], body.left, body.comparators[0]
        elif isinstance(body, ast.Call) and isinstance(body.func, ast.Name) and body.func.id in helpers and len(body.args) == 2:
            k, code, l, r = 1, helpers[body.func.id], body.args[0], body.args[1]
        else:
            raise Untranslatable(f"unrecognised operator body {ast.unparse(body)!r}")
        if k != kind:
            raise Untranslatable(f"{ast.unparse(body)!r}: arithmetic/comparison kind differs from the method's")
        a, b = operand(l, cls, branch, 0), operand(r, cls, branch, 1)
        if (a, b) == ("self", "other"): return code
        if (a, b) == ("other", "self") and k == 1: return CMP_MIRROR[code]
        if (a, b) == ("other", "self") and code in (0, 2): return code
        raise Untranslatable(f"operands of {ast.unparse(body)!r} are not (self, other)")

    def the_lambda(ret):
        lams = [n for n in ast.walk(ret) if isinstance(n, ast.Lambda)]
        if len(lams) != 1: raise Untranslatable("expected exactly one lambda in the return")
        want = ["scale"], ["x", "scale"]
        if [a.arg for a in lams[0].args.args] not in want: raise Untranslatable("lambda parameters")
        return lams[0].body

    rows = []
    for cls, cname in ((0, "ImageProvider"), (1, "ImageConverter")):
        for meth, (kind, code) in METHODS.items():
            fn = find_def(tree, f"{cname}.{meth}")
            stmts = [n for n in fn.body if not (isinstance(n, ast.If) and "isscalar" in ast.unparse(n.test))]
            found = {}
            for st in stmts:
                cur = st
                while isinstance(cur, ast.If):
                    t = norm(ast.unparse(cur.test))
                    br = {"isinstance(other,ImageProvider)": (0 if cls == 0 else 1), "isinstance(other,ImageConverter)": (0 if cls == 1 else None)}.get(t)
                    if br is None or len(cur.body) != 1 or not isinstance(cur.body[0], ast.Return):
                        raise Untranslatable(f"{cname}.{meth}: unexpected branch {t}")
                    found[br] = applied(the_lambda(cur.body[0]), kind, cls, br)
                    cur = cur.orelse[0] if len(cur.orelse) == 1 else (None if not cur.orelse else cur.orelse)
                    if isinstance(cur, list): raise Untranslatable("multi-statement else")
                if isinstance(cur, ast.Return):
                    found[2] = applied(the_lambda(cur), kind, cls, 2)
            need = {0, 2} if cls == 0 else {0, 1, 2}
            if set(found) != need: raise Untranslatable(f"{cname}.{meth}: branches {sorted(found)}")
            for br, got in sorted(found.items()):
                rows.append((kind, cls, br, code, got))
    body = "\n".join(f"  | {k}, {c}, {b}, {o} => {g}" for k, c, b, o, g in rows)
    return ("(* kind 0 arithmetic (0 + 1 - 2 * 3 /), kind 1 comparison (0 < 1 <= 2 > 3 >= 4 == 5 !=) *)\n"
            "Definition op_dispatch (kind cls branch op : Z) : Z :=\n  match kind, cls, branch, op with\n" + body + "\n  | _, _, _, _ => -1\n  end.")


def anchors(a: Anchors):
    a.pure("converters_have_no_memory",
           [("acryo/pipe/_transform.py", q) for q in ("shift", "gaussian_filter", "lowpass_filter", "highpass_filter", "center_by_mass")]
           + [("acryo/pipe/_masking.py", q) for q in ("threshold_otsu", "dilation", "closing", "gaussian_smooth", "soft_otsu")]
           + [("acryo/pipe/_imread.py", q) for q in ("from_array", "from_arrays", "from_gaussian", "from_atoms")],
           "converter / provider bodies modify neither the image nor their (curried) parameters")
    a.fact("radd_is_self_plus_other", PC, "_Pipeline.__radd__", "return self + other", lambda fn: "returnself+other" in norm(ast.unparse(fn)))
    a.fact("rmul_is_self_times_other", PC, "_Pipeline.__rmul__", "return self * other", lambda fn: "returnself*other" in norm(ast.unparse(fn)))
    a.fact("rsub_is_neg_self_plus_other", PC, "_Pipeline.__rsub__", "return -self + other", lambda fn: "return-self+other" in norm(ast.unparse(fn)))

    def rdiv(tree, src):
        from translate import find_def
        ok = True
        for cls, pat in (("ImageProvider", "returnself.__class__(lambdascale:other/self(scale))"),
                         ("ImageConverter", "returnself.__class__(lambdax,scale:other/self(x,scale))")):
            fn = find_def(tree, f"{cls}.__rtruediv__")
            ok = ok and pat in norm(ast.unparse(fn))
        return f"Definition rdiv_is_other_over_self : bool := {'true' if ok else 'false'}."
    a.raw("rdiv_is_other_over_self", PC, "", "__rtruediv__ of ImageProvider / ImageConverter: other / self(...)", rdiv)
    a.fact("compose_applies_inner_first", PC, "ImageConverter.compose", "self(other(scale), scale) / self(other(x, scale), scale); returns other.__class__",
           lambda fn: all(x in norm(ast.unparse(fn)) for x in ["fn=lambdascale:self(other(scale),scale)", "fn=lambdax,scale:self(other(x,scale),scale)",
                                                               "returnother.__class__(fn)"]))
    a.fact("binops_are_voxelwise", PC, "ImageProvider.__sub__", "lambda scale: self(scale) - other(scale) / self(scale) - other",
           lambda fn: "lambdascale:self(scale)-other(scale)" in norm(ast.unparse(fn)) and "lambdascale:self(scale)-other" in norm(ast.unparse(fn)))
    a.raw("op_dispatch", PC, "", "operator actually applied by each branch of every operator method of ImageProvider / ImageConverter", op_dispatch)
    a.fact("curry_provider", PU, "provider_function", "ImageProvider(lambda scale: _fn(scale, *args, **kwargs))",
           lambda fn: "returnImageProvider(lambdascale:_fn(scale,*args,**kwargs))" in norm(ast.unparse(fn)))
    a.fact("curry_converter", PU, "converter_function", "ImageConverter(lambda img, scale: _fn(img, scale, *args, **kwargs))",
           lambda fn: "returnImageConverter(lambdaimg,scale:_fn(img,scale,*args,**kwargs))" in norm(ast.unparse(fn)))
    # physical units
    a.expr("mask_radius_px", PM, "_get_radius_px", ("assign", "radius_px"), {"radius": "Q", "scale": "Q"}, want="Q")
    a.expr("mask_radius_guard", PM, "_get_radius_px", ("find", lambda n: isinstance(n, ast.If) and "radius_px" in ast.unparse(n.test), 0, "if radius_px < 1"),
           {"radius_px": "Q"}, want="B", post=lambda n: n.test)
    a.expr("mask_radius_ret", PM, "_get_radius_px", ("return", 1), {"radius_px": "Q"}, want="Z")
    a.expr("gauss_sigma_px", PI, "from_gaussian", ("assign", "sigma_px"), {"sigma": "Q", "scale": "Q"}, env={"_as_3_array(sigma)": ("sigma", "Q")}, want="Q")
    a.expr("gauss_shape_subpix", PI, "from_gaussian", ("assign", "shape_subpix"), {"shape": "Q", "scale": "Q"}, env={"_as_3_array(shape)": ("shape", "Q")}, want="Q")
    a.expr("gauss_shape_px", PI, "from_gaussian", ("assign", "shape_px"), {"shape_subpix": "Q"},
           env={"np.round(shape_subpix)": ("(inject_Z (Qround_he shape_subpix))", "Q")}, want="Z",
           post=lambda n: n.args[0] if isinstance(n, ast.Call) and ast.unparse(n.func) == "tuple" else n)
    a.expr("gauss_center_subpix", PI, "from_gaussian", ("assign", "center_subpix"), {"shape_px": "Z", "shift": "Q", "scale": "Q"},
           env={"np.array(shape_px)": ("shape_px", "Z"), "np.array(shift)": ("shift", "Q")}, want="Q")
    a.fact("gauss_exponent_is_sum_of_squares", PI, "from_gaussian", "exp(-0.5 * sum(((xx - c)/sg)**2 ...))",
           lambda fn: "returnnp.exp(-0.5*sum((((xx-c)/sg)**2forxx,c,sginzip(crds,center_subpix,sigma_px))))" in norm(ast.unparse(fn)))


# --------------------------------------------------------------------------
BOPS = ["Add", "Sub", "Mul", "Div"]
COPS = ["Lt", "Le", "Gt", "Ge", "Eq", "Ne"]
PYB = {"Add": lambda a, b: a + b, "Sub": lambda a, b: a - b, "Mul": lambda a, b: a * b, "Div": lambda a, b: a / b}
PYC = {"Lt": lambda a, b: a < b, "Le": lambda a, b: a <= b, "Gt": lambda a, b: a > b, "Ge": lambda a, b: a >= b,
       "Eq": lambda a, b: a == b, "Ne": lambda a, b: a != b}


def leaves(arrs):
    from acryo import pipe
    from acryo.pipe import ImageProvider, ImageConverter, provider_function, converter_function

    @provider_function
    def fixed(scale, arr):
        return arr

    @provider_function
    def scaled(scale, shape):
        return np.full(shape, 8.0 * scale, dtype=np.float64)

    @converter_function
    def times2(img, scale):
        return img * 2.0

    @converter_function
    def plus4s(img, scale):
        return img + 4.0 * scale

    @converter_function
    def square(img, scale):
        return img * img

    @converter_function
    def tenminus(img, scale):
        return 10.0 - img
    P = [fixed(arrs[0]), fixed(arrs[1]), fixed(arrs[2]), scaled(arrs[0].shape)]
    C = [times2(), plus4s(), square(), tenminus()]
    return P, C


def gen_p(rng, P, C, depth, top=False, R=None):
    """returns (pipeline object, coq term, description, reference closure scale -> array).
    Comparisons only at the top (boolean arrays are not arithmetic operands)."""
    PR, CR = R
    k = int(rng.integers(0, 9 if top else 7)) if depth > 0 else 0
    if k <= 1 or depth == 0:
        i = int(rng.integers(0, 4))
        return P[i], f"(PLeaf Q {natl(i)})", f"P{i}", PR[i]
    if k == 2:
        c, ct, cd, cr = gen_c(rng, P, C, depth - 1, R=R)
        p, pt, pd, pr = gen_p(rng, P, C, depth - 1, R=R)
        return c @ p, f"(PApp Q {ct} {pt})", f"({cd} @ {pd})", (lambda s, cr=cr, pr=pr: cr(pr(s), s))
    if k == 3:
        o = BOPS[int(rng.integers(0, 3))]
        a, at, ad, ar = gen_p(rng, P, C, depth - 1, R=R)
        b, bt, bd, br = gen_p(rng, P, C, depth - 1, R=R)
        return PYB[o](a, b), f"(PBin Q {o} {at} {bt})", f"({ad} {o} {bd})", (lambda s, o=o, ar=ar, br=br: PYB[o](ar(s), br(s)))
    if k == 4:
        o = BOPS[int(rng.integers(0, 4))]
        kk = Fraction(int(rng.choice([1, 2, 4, -2, 8])), int(rng.choice([1, 2, 4]))) if o == "Div" else Fraction(int(rng.integers(-3, 4)), int(rng.choice([1, 2])))
        a, at, ad, ar = gen_p(rng, P, C, depth - 1, R=R)
        return PYB[o](a, float(kk)), f"(PBinC Q {o} {at} {ql(kk)})", f"({ad} {o} {float(kk)})", (lambda s, o=o, ar=ar, kk=kk: PYB[o](ar(s), float(kk)))
    if k == 5:
        o = BOPS[int(rng.integers(0, 4))]
        kk = Fraction(int(rng.integers(-3, 6)), int(rng.choice([1, 2])))
        if o == "Div":
            i = int(rng.integers(0, 3))
            a, at, ad, ar = P[i], f"(PLeaf Q {natl(i)})", f"P{i}", PR[i]
        else:
            a, at, ad, ar = gen_p(rng, P, C, depth - 1, R=R)
        return PYB[o](float(kk), a), f"(PRBin Q {o} {ql(kk)} {at})", f"({float(kk)} {o} {ad})", (lambda s, o=o, ar=ar, kk=kk: PYB[o](float(kk), ar(s)))
    if k == 6:
        a, at, ad, ar = gen_p(rng, P, C, depth - 1, R=R)
        return -a, f"(PNeg Q {at})", f"(-{ad})", (lambda s, ar=ar: -ar(s))
    if k == 7:
        o = COPS[int(rng.integers(0, 6))]
        a, at, ad, ar = gen_p(rng, P, C, depth - 1, R=R)
        b, bt, bd, br = gen_p(rng, P, C, depth - 1, R=R)
        return PYC[o](a, b), f"(PCmp Q {o} {at} {bt})", f"({ad} {o} {bd})", (lambda s, o=o, ar=ar, br=br: PYC[o](ar(s), br(s)))
    o = COPS[int(rng.integers(0, 6))]
    kk = Fraction(int(rng.integers(0, 9)), 1)
    a, at, ad, ar = gen_p(rng, P, C, depth - 1, R=R)
    return PYC[o](a, float(kk)), f"(PCmpC Q {o} {at} {ql(kk)})", f"({ad} {o} {float(kk)})", (lambda s, o=o, ar=ar, kk=kk: PYC[o](ar(s), float(kk)))


def gen_c(rng, P, C, depth, top=False, R=None):
    PR, CR = R
    k = int(rng.integers(0, 11 if top else 8)) if depth > 0 else 0
    if k <= 1 or depth == 0:
        i = int(rng.integers(0, 4))
        return C[i], f"(CLeaf Q {natl(i)})", f"C{i}", CR[i]
    if k == 9:
        o = COPS[int(rng.integers(0, 6))]
        c, ct, cd, cr = gen_c(rng, P, C, depth - 1, R=R)
        d, dt, dd, dr = gen_c(rng, P, C, depth - 1, R=R)
        return PYC[o](c, d), f"(CCmp Q {o} {ct} {dt})", f"({cd} {o} {dd})", (lambda x, s, o=o, cr=cr, dr=dr: PYC[o](cr(x, s), dr(x, s)))
    if k == 10:
        o = COPS[int(rng.integers(0, 6))]
        c, ct, cd, cr = gen_c(rng, P, C, depth - 1, R=R)
        p, pt, pd, pr = gen_p(rng, P, C, depth - 1, R=R)
        return PYC[o](c, p), f"(CCmpP Q {o} {ct} {pt})", f"({cd} {o} {pd})", (lambda x, s, o=o, cr=cr, pr=pr: PYC[o](cr(x, s), pr(s)))
    if k == 2:
        c, ct, cd, cr = gen_c(rng, P, C, depth - 1, R=R)
        d, dt, dd, dr = gen_c(rng, P, C, depth - 1, R=R)
        return c @ d, f"(CComp Q {ct} {dt})", f"({cd} @ {dd})", (lambda x, s, cr=cr, dr=dr: cr(dr(x, s), s))
    if k == 3:
        o = BOPS[int(rng.integers(0, 3))]
        c, ct, cd, cr = gen_c(rng, P, C, depth - 1, R=R)
        d, dt, dd, dr = gen_c(rng, P, C, depth - 1, R=R)
        return PYB[o](c, d), f"(CBin Q {o} {ct} {dt})", f"({cd} {o} {dd})", (lambda x, s, o=o, cr=cr, dr=dr: PYB[o](cr(x, s), dr(x, s)))
    if k == 4:
        o = BOPS[int(rng.integers(0, 3))]
        c, ct, cd, cr = gen_c(rng, P, C, depth - 1, R=R)
        p, pt, pd, pr = gen_p(rng, P, C, depth - 1, R=R)
        return PYB[o](c, p), f"(CBinP Q {o} {ct} {pt})", f"({cd} {o} {pd})", (lambda x, s, o=o, cr=cr, pr=pr: PYB[o](cr(x, s), pr(s)))
    if k == 5:
        o = BOPS[int(rng.integers(0, 4))]
        kk = Fraction(int(rng.choice([1, 2, 4, -2])), 1) if o == "Div" else Fraction(int(rng.integers(-3, 4)), int(rng.choice([1, 2])))
        c, ct, cd, cr = gen_c(rng, P, C, depth - 1, R=R)
        return PYB[o](c, float(kk)), f"(CBinC Q {o} {ct} {ql(kk)})", f"({cd} {o} {float(kk)})", (lambda x, s, o=o, cr=cr, kk=kk: PYB[o](cr(x, s), float(kk)))
    if k == 6:
        o = BOPS[int(rng.integers(0, 3))]
        kk = Fraction(int(rng.integers(-3, 6)), int(rng.choice([1, 2])))
        c, ct, cd, cr = gen_c(rng, P, C, depth - 1, R=R)
        return PYB[o](float(kk), c), f"(CRBin Q {o} {ql(kk)} {ct})", f"({float(kk)} {o} {cd})", (lambda x, s, o=o, cr=cr, kk=kk: PYB[o](float(kk), cr(x, s)))
    if k == 7:
        c, ct, cd, cr = gen_c(rng, P, C, depth - 1, R=R)
        return -c, f"(CNeg Q {ct})", f"(-{cd})", (lambda x, s, cr=cr: -cr(x, s))
    o = COPS[int(rng.integers(0, 6))]
    kk = Fraction(int(rng.integers(0, 9)), 1)
    c, ct, cd, cr = gen_c(rng, P, C, depth - 1, R=R)
    return PYC[o](c, float(kk)), f"(CCmpC Q {o} {ct} {ql(kk)})", f"({cd} {o} {float(kk)})", (lambda x, s, o=o, cr=cr, kk=kk: PYC[o](cr(x, s), float(kk)))


class Ex:
    """exact dyadic number that records whether every intermediate value of a reference evaluation is a binary64 number,
    so that the exact (Q) model and the float implementation are only compared where float arithmetic is exact"""
    inexact = False
    __slots__ = ("v",)

    def __init__(self, v):
        self.v = v.v if isinstance(v, Ex) else Fraction(v)
        n, d = abs(self.v.numerator), self.v.denominator
        if n:
            n >>= ((n & -n).bit_length() - 1)
            if n.bit_length() > 53 or d.bit_length() > 1000 or (d & (d - 1)) or abs(self.v) > 2 ** 1000:
                Ex.inexact = True

    def _b(op):
        def f(self, o):
            return Ex(op(self.v, Ex(o).v))
        def r(self, o):
            return Ex(op(Ex(o).v, self.v))
        return f, r
    __add__, __radd__ = _b(lambda a, b: a + b)
    __sub__, __rsub__ = _b(lambda a, b: a - b)
    __mul__, __rmul__ = _b(lambda a, b: a * b)
    __truediv__, __rtruediv__ = _b(lambda a, b: a / b)
    def __neg__(self): return Ex(-self.v)
    def __lt__(self, o): return self.v < Ex(o).v
    def __le__(self, o): return self.v <= Ex(o).v
    def __gt__(self, o): return self.v > Ex(o).v
    def __ge__(self, o): return self.v >= Ex(o).v
    def __eq__(self, o): return self.v == Ex(o).v
    def __ne__(self, o): return self.v != Ex(o).v
    __hash__ = None


def exarr(a):
    out = np.empty(a.shape, dtype=object)
    for idx in np.ndindex(a.shape):
        out[idx] = Ex(Fraction(float(a[idx])))
    return out


def float_exact(ref, arrs, scale, x=None):
    """True when every intermediate of the reference evaluation is exactly representable in binary64"""
    saved = list(arrs)
    Ex.inexact = False
    try:
        for i in range(len(arrs)):
            arrs[i] = exarr(saved[i])
        if x is None:
            ref(Ex(Fraction(scale)))
        else:
            ref(exarr(x), Ex(Fraction(scale)))
    except (ZeroDivisionError, OverflowError):
        Ex.inexact = True
    finally:
        arrs[:] = saved
    return not Ex.inexact


def ref_leaves(arrs):
    """reference meaning of the leaves, written from their definitions (arrs is looked up at call time: see float_exact)"""
    PR = [lambda s: arrs[0], lambda s: arrs[1], lambda s: arrs[2], lambda s: np.full(arrs[0].shape, 8.0 * s)]
    CR = [lambda x, s: x * 2.0, lambda x, s: x + 4.0 * s, lambda x, s: x * x, lambda x, s: 10.0 - x]
    return PR, CR


def _emit(ck, cases, arrs, al, scale, obj, term, desc, ref, x=None):
    """evaluate one expression on the implementation, compare with its reference meaning, and queue the model case"""
    kind = "provider" if x is None else "converter"
    out = np.asarray(obj(scale) if x is None else obj(x, scale), dtype=np.float64)
    want = np.asarray(ref(scale) if x is None else ref(x, scale), dtype=np.float64)
    ck.oracle_count('expression_meaning', 1, 1)
    if np.all(np.isfinite(want)) and not np.array_equal(out, want):
        inp = {'expr': desc, 'scale': scale, 'arrays': [a.ravel().tolist() for a in arrs]}
        if x is not None: inp['x'] = x.ravel().tolist()
        ck.violation(what=f'pipeline expression {desc} evaluates to {out.ravel().tolist()} but means {want.ravel().tolist()}', inp=inp,
                     key={'site': 'expr-meaning', 'kind': kind}, oracle='expression_meaning')
    if not np.all(np.isfinite(out)) or not float_exact(ref, arrs, scale, x):
        return False
    if x is None:
        cases.append((f"(check_pexpr {al} {term} {ql(frac(scale))} {qlist([frac(float(v)) for v in out.ravel()])})",
                      {"kind": kind, "expr": desc, "scale": scale, "out": out.ravel().tolist()}))
    else:
        cases.append((f"(check_cexpr {al} {term} {qlist([frac(float(v)) for v in x.ravel()])} {ql(frac(scale))} {qlist([frac(float(v)) for v in out.ravel()])})",
                      {"kind": kind, "expr": desc, "scale": scale, "out": out.ravel().tolist()}))
    return True


def directed_exprs(P, C, R):
    """every operator method x branch once, on leaves whose values tie in some voxels (x = [1,2,0,4], P0 = [2,4,1,8], C0 = 2x)"""
    PR, CR = R
    out = []
    for o in BOPS:
        out.append((PYB[o](P[0], P[1]), f"(PBin Q {o} (PLeaf Q 0%nat) (PLeaf Q 1%nat))", f"(P0 {o} P1)", (lambda s, o=o: PYB[o](PR[0](s), PR[1](s))), False))
        out.append((PYB[o](P[0], 2.0), f"(PBinC Q {o} (PLeaf Q 0%nat) {ql(Fraction(2))})", f"(P0 {o} 2.0)", (lambda s, o=o: PYB[o](PR[0](s), 2.0)), False))
        out.append((PYB[o](4.0, P[0]), f"(PRBin Q {o} {ql(Fraction(4))} (PLeaf Q 0%nat))", f"(4.0 {o} P0)", (lambda s, o=o: PYB[o](4.0, PR[0](s))), False))
        out.append((PYB[o](C[0], C[1]), f"(CBin Q {o} (CLeaf Q 0%nat) (CLeaf Q 1%nat))", f"(C0 {o} C1)", (lambda x, s, o=o: PYB[o](CR[0](x, s), CR[1](x, s))), True))
        out.append((PYB[o](C[0], P[0]), f"(CBinP Q {o} (CLeaf Q 0%nat) (PLeaf Q 0%nat))", f"(C0 {o} P0)", (lambda x, s, o=o: PYB[o](CR[0](x, s), PR[0](s))), True))
        out.append((PYB[o](C[1], 2.0), f"(CBinC Q {o} (CLeaf Q 1%nat) {ql(Fraction(2))})", f"(C1 {o} 2.0)", (lambda x, s, o=o: PYB[o](CR[1](x, s), 2.0)), True))
        out.append((PYB[o](4.0, C[1]), f"(CRBin Q {o} {ql(Fraction(4))} (CLeaf Q 1%nat))", f"(4.0 {o} C1)", (lambda x, s, o=o: PYB[o](4.0, CR[1](x, s))), True))
    for o in COPS:
        out.append((PYC[o](P[0], P[1]), f"(PCmp Q {o} (PLeaf Q 0%nat) (PLeaf Q 1%nat))", f"(P0 {o} P1)", (lambda s, o=o: PYC[o](PR[0](s), PR[1](s))), False))
        out.append((PYC[o](P[0], 4.0), f"(PCmpC Q {o} (PLeaf Q 0%nat) {ql(Fraction(4))})", f"(P0 {o} 4.0)", (lambda s, o=o: PYC[o](PR[0](s), 4.0)), False))
        out.append((PYC[o](C[0], C[2]), f"(CCmp Q {o} (CLeaf Q 0%nat) (CLeaf Q 2%nat))", f"(C0 {o} C2)", (lambda x, s, o=o: PYC[o](CR[0](x, s), CR[2](x, s))), True))
        out.append((PYC[o](C[0], P[0]), f"(CCmpP Q {o} (CLeaf Q 0%nat) (PLeaf Q 0%nat))", f"(C0 {o} P0)", (lambda x, s, o=o: PYC[o](CR[0](x, s), PR[0](s))), True))
        out.append((PYC[o](C[0], 4.0), f"(CCmpC Q {o} (CLeaf Q 0%nat) {ql(Fraction(4))})", f"(C0 {o} 4.0)", (lambda x, s, o=o: PYC[o](CR[0](x, s), 4.0)), True))
    return out


def corr_expr(ck, rng):
    n = 150 if ck.tier == "quick" else 2500
    maxd = 4 if ck.tier == "quick" else 7
    cases = []
    skipped = 0
    # directed: one expression per operator method and branch, with ties
    arrs = [np.array([2.0, 4.0, 1.0, 8.0]).reshape(1, 2, 2), np.array([2.0, 8.0, 4.0, 8.0]).reshape(1, 2, 2), np.array([1.0, 1.0, 2.0, 4.0]).reshape(1, 2, 2)]
    P, C = leaves(arrs)
    R = ref_leaves(arrs)
    al = lst([qlist([frac(float(v)) for v in a.ravel()]) for a in arrs])
    x0 = np.array([1.0, 2.0, 0.0, 4.0]).reshape(1, 2, 2)
    for obj, term, desc, ref, is_conv in directed_exprs(P, C, R):
        if not _emit(ck, cases, arrs, al, 0.5, obj, term, desc, ref, x0 if is_conv else None):
            skipped += 1
    for i in range(n):
        arrs = [rng.choice([1.0, 2.0, 4.0, 8.0], size=(1, 2, 2)).astype(np.float64) for _ in range(3)]
        P, C = leaves(arrs)
        R = ref_leaves(arrs)
        al = lst([qlist([frac(float(v)) for v in a.ravel()]) for a in arrs])
        scale = float(rng.choice([1.0, 0.5, 2.0, 0.25]))
        depth = int(rng.integers(1, maxd + 1))
        try:
            if i % 3:
                obj, term, desc, ref = gen_p(rng, P, C, depth, top=True, R=R)
                ok = _emit(ck, cases, arrs, al, scale, obj, term, desc, ref)
            else:
                obj, term, desc, ref = gen_c(rng, P, C, depth, top=True, R=R)
                x = rng.integers(0, 5, size=(1, 2, 2)).astype(np.float64)
                ok = _emit(ck, cases, arrs, al, scale, obj, term, desc, ref, x)
            skipped += 0 if ok else 1
        except ZeroDivisionError:
            continue
    ck.oracle_count('expression_meaning', 0, 0, skipped_non_finite_or_inexact=skipped)
    ck.corr_run("pipeline_expressions", ["AcryoGen.Anchors_C19", "Acryo.C19.Model"], cases, shard=150, observable=True,
                describe=lambda c: {"site": "expr", "kind": c["kind"], "reflected_sub": " Sub " in c["expr"] and c["expr"].count("(") > 0})


def corr_units(ck, rng):
    from acryo.pipe._masking import _get_radius_px
    from acryo import pipe
    cases = []
    for i in range(60 if ck.tier == "quick" else 600):
        r = float(rng.choice([-3.0, -0.5, 0.0, 0.5, 0.99, 1.0, 1.01, 2.5, 7.25])) * float(rng.choice([1.0, 0.5, 2.0]))
        s = float(rng.choice([1.0, 0.5, 2.0, 0.25]))
        cases.append((f"(check_radius {ql(Fraction(r))} {ql(Fraction(s))} {zl(_get_radius_px(r, s))})", {"what": "radius_px", "radius": r, "scale": s}))
    for i in range(30 if ck.tier == "quick" else 300):
        shape = float(rng.choice([4.0, 5.0, 6.5, 9.0, 3.0, 7.3, 5.2])); shift = float(rng.choice([0.0, 1.0, -1.5, 0.5])); scale = float(rng.choice([1.0, 0.5, 2.0]))
        g = np.asarray(pipe.from_gaussian((shape,) * 3, sigma=1.0 * scale, shift=(shift, 0.0, 0.0))(scale))
        am = np.unravel_index(np.argmax(g), g.shape)
        # sub-voxel location of the maximum along z from the three samples around the arg-max (log-parabola): exact for a Gaussian
        z = am[0]
        if 0 < z < g.shape[0] - 1:
            l = np.log(np.maximum(g[z - 1:z + 2, am[1], am[2]], 1e-300))
            z = z + 0.5 * (l[0] - l[2]) / (l[0] - 2 * l[1] + l[2])
        # implementation-only oracle: the peak sits at the centre of the returned box plus the shift
        ck.oracle_count("gaussian_centre", 1, 1 if (shape / scale) % 1 else 0)
        want_z = (g.shape[0] - 1) / 2 + shift / scale
        sym = shift == 0.0 and not np.allclose(g, g[::-1, ::-1, ::-1], atol=1e-6)
        interior = 0 < am[0] < g.shape[0] - 1      # the log-parabola refinement needs both neighbours
        if (interior and abs(float(z) - want_z) > 1e-3) or (not interior and 1 <= want_z <= g.shape[0] - 2) or sym:
            ck.violation(what=f"from_gaussian(shape={shape} nm, shift={shift} nm)(scale={scale}): {g.shape[0]}-voxel box, peak at z={float(z):.4f} "
                              f"but centre + shift is {want_z:.4f}" + ("; zero-shift image not point-symmetric" if sym else ""),
                         inp={"shape_nm": shape, "shift_nm": shift, "scale": scale, "sigma_nm": scale}, key={"site": "from_gaussian-centre", "integer_ratio": not (shape / scale) % 1},
                         oracle="gaussian_centre", measured=abs(float(z) - want_z))
        cases.append((f"(check_gauss {ql(Fraction(shape))} {ql(Fraction(shift))} {ql(Fraction(scale))} {zl(g.shape[0])} {ql(frac(float(z)))})",
                      {"what": "from_gaussian", "shape_nm": shape, "shift_nm": shift, "scale": scale, "n": g.shape[0], "peak_z": float(z)}))
    ck.corr_run("physical_units", ["AcryoGen.Anchors_C19", "Acryo.C19.Model"], cases, shard=400, observable=True,
                describe=lambda c: {"site": c["what"]})


def oracle_pipe(ck, rng):
    from acryo import pipe, SubtomogramLoader, Molecules
    from acryo.pipe import provider_function, converter_function
    from scipy import ndimage as ndi
    fails = []
    # associativity of @ and composition = nested application
    x = rng.normal(size=(6, 7, 8)).astype(np.float32)
    a, b, c = pipe.gaussian_filter(sigma=1.0), pipe.lowpass_filter(0.3), pipe.shift((0.5, 0.0, -0.5))
    s = 0.5
    ab_c = ((a @ b) @ c)(x, s); a_bc = (a @ (b @ c))(x, s); nested = a(b(c(x, s), s), s)
    if not (np.allclose(ab_c, a_bc, atol=1e-6) and np.allclose(ab_c, nested, atol=1e-6)): fails.append("compose/associativity")
    p = pipe.from_array(x, original_scale=s)
    if not np.allclose((a @ p)(s), a(p(s), s), atol=1e-6): fails.append("converter @ provider")
    if not isinstance(a @ p, pipe.ImageProvider) or not isinstance(a @ b, pipe.ImageConverter): fails.append("compose class")
    # currying adapters
    @provider_function
    def f0():
        return np.ones((2, 2, 2), np.float32)

    @converter_function
    def g1(img):
        return img + 1
    if not np.array_equal(f0()(3.0), np.ones((2, 2, 2))) or not np.array_equal(g1()(np.zeros((2, 2, 2)), 2.0), np.ones((2, 2, 2))): fails.append("curry adapters")
    # scale covariance
    for lam in (2.0, 0.5, 1.7):
        m = (rng.random((10, 11, 12)) > 0.6)
        for conv, kw in ((pipe.dilation, dict(radius=1.6)), (pipe.dilation, dict(radius=-1.2)), (pipe.closing, dict(radius=1.3)),
                         (pipe.gaussian_smooth, dict(sigma=1.1)), (pipe.gaussian_filter, dict(sigma=0.9))):
            inp = m if conv is not pipe.gaussian_filter else m.astype(np.float32)
            o1 = conv(**kw)(inp, 0.8)
            o2 = conv(**{k_: v * lam for k_, v in kw.items()})(inp, 0.8 * lam)
            if not np.allclose(np.asarray(o1, dtype=float), np.asarray(o2, dtype=float), atol=1e-5): fails.append(f"scale covariance {conv.__name__ if hasattr(conv,'__name__') else conv}")
        g1_ = pipe.from_gaussian((6.0, 7.0, 8.0), sigma=1.2, shift=(0.5, -1.0, 0.0))(0.5)
        g2_ = pipe.from_gaussian((6.0 * lam, 7.0 * lam, 8.0 * lam), sigma=1.2 * lam, shift=(0.5 * lam, -1.0 * lam, 0.0))(0.5 * lam)
        if g1_.shape != g2_.shape or not np.allclose(g1_, g2_, atol=1e-5): fails.append("scale covariance from_gaussian")
    # mask converters: extensive / anti-extensive, range
    for _ in range(5):
        m = np.zeros((16, 16, 16), dtype=bool)
        m[4:12, 4:12, 4:12] = rng.random((8, 8, 8)) > 0.55       # keep clear of the border (border_value=False)
        d = pipe.dilation(radius=1.5)(m, 1.0); e = pipe.dilation(radius=-1.5)(m, 1.0)
        cl = pipe.closing(radius=1.5)(m, 1.0); op = pipe.closing(radius=-1.5)(m, 1.0)
        gs = pipe.gaussian_smooth(sigma=1.0)(m, 1.0)
        if not (np.all(d >= m) and np.all(e <= m) and np.all(cl >= m) and np.all(op <= m)): fails.append("extensive/anti-extensive")
        if not (gs.min() >= 0 and gs.max() <= 1 + 1e-6 and np.all(gs >= m.astype(np.float32) - 1e-6)): fails.append("gaussian_smooth range/extensive")
        so = pipe.soft_otsu(1.0, 1.0)(rng.normal(size=(10, 10, 10)).astype(np.float32), 1.0)
        if not (so.min() >= 0 and so.max() <= 1 + 1e-6): fails.append("soft_otsu range")
    # rescaling providers
    img = ndi.gaussian_filter(rng.normal(size=(12, 12, 12)), 1.5).astype(np.float32)
    same = pipe.from_array(img, original_scale=1.0, tol=0.01)(1.005)
    if same.shape != img.shape or not np.array_equal(same, img): fails.append("from_array tolerance branch")
    half = pipe.from_array(img, original_scale=1.0)(2.0)
    if half.shape != (6, 6, 6): fails.append("from_array resampled shape")
    lst_ = pipe.from_arrays([img, img * 2], original_scale=1.0)(2.0)
    if [a_.shape for a_ in lst_] != [(6, 6, 6)] * 2: fails.append("from_arrays")
    # from_atoms: coordinates and centre are both nanometres (unit covariance; an explicit centre equal to the default changes nothing;
    # moving atoms and centre together changes nothing)
    atoms = rng.normal(size=(40, 3)) * 2.0
    c0 = atoms.mean(axis=0) + np.array([0.3, -0.2, 0.1])
    for sc in (1.0, 0.5, 2.0):
        base = np.asarray(pipe.from_atoms(atoms, center=tuple(c0))(sc))
        if base.sum() != 40: fails.append("from_atoms loses atoms")
        for lam in (2.0, 0.25):
            other = np.asarray(pipe.from_atoms(atoms * lam, center=tuple(c0 * lam))(sc * lam))
            if other.shape != base.shape or not np.array_equal(other, base): fails.append(f"scale covariance from_atoms(center=...) at scale {sc}")
        moved = np.asarray(pipe.from_atoms(atoms + 7.5, center=tuple(c0 + 7.5))(sc))
        # (adding 7.5 is not exact in floating point: allow one atom to change bins)
        if moved.shape != base.shape or np.abs(moved - base).sum() > 2: fails.append(f"from_atoms translation of atoms and centre at scale {sc}")
        dflt = np.asarray(pipe.from_atoms(atoms)(sc))
        expl = np.asarray(pipe.from_atoms(atoms, center=tuple(atoms.mean(axis=0)))(sc))
        if dflt.shape != expl.shape or not np.array_equal(dflt, expl): fails.append(f"from_atoms default centre vs explicit mean at scale {sc}")
    # converters have no memory and do not modify their parameters: the same converter evaluated twice gives the same image
    v = np.array([1.0, -2.0, 0.5])
    v0 = v.copy()
    sh_ = pipe.shift(v, mode="constant")
    imgs_ = rng.normal(size=(9, 9, 9)).astype(np.float32)
    r1 = np.asarray(sh_(imgs_, 0.5)); r2 = np.asarray(sh_(imgs_, 0.5)); r3 = np.asarray(pipe.shift(tuple(v0), mode="constant")(imgs_, 0.5))
    if not (np.array_equal(r1, r2) and np.array_equal(r1, r3) and np.array_equal(v, v0)): fails.append("converter call-history (shift)")
    if not np.allclose(np.asarray((sh_ @ sh_)(imgs_, 0.5)), np.asarray(sh_(np.asarray(sh_(imgs_, 0.5)), 0.5)), atol=1e-6): fails.append("converter call-history (compose)")
    for mk_, kw_ in ((pipe.gaussian_filter, dict(sigma=np.array([1.0, 1.0, 1.0]))),):
        try:
            arr_ = kw_["sigma"]; a0_ = arr_.copy()
            cv_ = mk_(**kw_)
            q1 = np.asarray(cv_(imgs_, 0.5)); q2 = np.asarray(cv_(imgs_, 0.5))
            if not (np.array_equal(q1, q2) and np.array_equal(arr_, a0_)): fails.append("converter call-history (gaussian_filter)")
        except TypeError:
            pass
    # currying: a function whose scale parameter has a default still receives the scale of the evaluation
    from acryo.pipe import provider_function, converter_function

    @converter_function
    def times_scale(img, scale=1.0):
        return img * scale

    @provider_function
    def box_of(scale=1.0, value=3.0):
        return np.full((2, 2, 2), value * scale, dtype=np.float32)

    @converter_function
    def plus(img, scale=1.0, k=0.0):
        return img + k * scale
    small = np.ones((2, 2, 2), dtype=np.float32)
    for sc in (1.0, 0.5, 4.0):
        for nm_, fn_, want_ in (("curried converter with a default scale", lambda: times_scale()(small, sc), small * sc),
                                ("curried provider with a default scale", lambda: box_of()(sc), np.full((2, 2, 2), 3.0 * sc)),
                                ("curried provider with a default scale and an argument", lambda: box_of(value=2.0)(sc), np.full((2, 2, 2), 2.0 * sc)),
                                ("curried converter with default scale and extra argument", lambda: plus(k=2.0)(small, sc), small + 2.0 * sc),
                                ("composition of curried functions with default scales", lambda: (times_scale() @ box_of())(sc), np.full((2, 2, 2), 3.0 * sc * sc))):
            try:
                if not np.allclose(np.asarray(fn_()), want_): fails.append(f"{nm_} evaluated at scale {sc}")
            except Exception as e:  # noqa
                fails.append(f"{nm_} at scale {sc} raised {type(e).__name__}")
    # file providers: same tolerance rule (relative) and same resampling as the array provider, at any magnitude of the scale
    import tempfile, shutil, os, mrcfile
    dtmp = tempfile.mkdtemp(prefix="c19", dir=common.WORKROOT)
    try:
        fimg = rng.normal(size=(20, 22, 24)).astype(np.float32)      # large enough for a 4 % change of scale to change the shape
        for osc in (0.2, 1.0, 25.0):
            pth = os.path.join(dtmp, f"t{osc}.mrc")
            with mrcfile.new(pth, overwrite=True) as fh:
                fh.set_data(fimg); fh.voxel_size = osc * 10
            for rel in (1.0, 1.004, 1.04, 0.9, 2.0):
                sc = osc * rel
                fa = np.asarray(pipe.from_array(fimg, original_scale=osc)(sc))
                for nm_, ff in (("from_file(header scale)", pipe.from_file(pth)), ("from_file(original_scale)", pipe.from_file(pth, original_scale=osc)),
                                ("from_files", pipe.from_files([pth], original_scale=osc))):
                    got_ = ff(sc); got_ = np.asarray(got_[0] if isinstance(got_, list) else got_)
                    if got_.shape != fa.shape or not np.allclose(got_, fa, atol=1e-4):
                        fails.append(f"{nm_} at original scale {osc} requested at {rel} x that: shape {got_.shape} vs from_array {fa.shape}")
        # several files, in the caller's order (not sorted by name, generators and Path objects included): image i comes from path i
        from pathlib import Path
        names = ["template_10.mrc", "template_2.mrc", "b/template_1.mrc", "a_last.mrc"]
        os.makedirs(os.path.join(dtmp, "b"), exist_ok=True)
        vals = {}
        for k_, nm_ in enumerate(names):
            pth = os.path.join(dtmp, nm_)
            arr_ = (fimg[:8, :9, :10] + 10.0 * (k_ + 1)).astype(np.float32)
            with mrcfile.new(pth, overwrite=True) as fh:
                fh.set_data(arr_); fh.voxel_size = 10.0
            vals[nm_] = arr_
        for order_ in ([0, 1, 2, 3], [3, 2, 1, 0], [1, 3, 0, 2]):
            paths_ = [os.path.join(dtmp, names[k_]) for k_ in order_]
            for how in ("list of str", "tuple of Path"):
                for sc in (1.0, 2.0):
                    arg = list(paths_) if how == "list of str" else tuple(Path(p_) for p_ in paths_)
                    got_ = pipe.from_files(arg, original_scale=1.0)(sc)
                    each = [np.asarray(pipe.from_file(p_, original_scale=1.0)(sc)) for p_ in paths_]
                    if len(got_) != len(each) or any(np.asarray(g_).shape != e_.shape or not np.allclose(g_, e_, atol=1e-4) for g_, e_ in zip(got_, each)):
                        fails.append(f"from_files ({how}, order {order_}) at scale {sc}: image i is not from_file(paths[i])")
    finally:
        shutil.rmtree(dtmp, ignore_errors=True)
    # the batch provider behaves like the single one for every (original_scale, tol, scale): unchanged within tol, resampled beyond it
    for osc, tol_, sc in [(1.0, 0.1, 1.05), (1.0, 0.1, 0.93), (1.0, 0.001, 1.004), (0.5, 0.2, 0.58), (1.0, 0.01, 1.005), (1.0, 0.03, 1.2)]:
        one = pipe.from_array(img, original_scale=osc, tol=tol_)(sc)
        many = pipe.from_arrays([img, img * 2], original_scale=osc, tol=tol_)(sc)
        within = abs(sc / osc - 1) < tol_
        if [m_.shape for m_ in many] != [one.shape] * 2 or not np.allclose(many[0], one) or (within and not np.array_equal(many[1], img * 2)) \
                or (within and not np.array_equal(one, img)):
            fails.append(f"from_arrays tolerance (original_scale={osc}, tol={tol_}, scale={sc})")
    # loader glue
    ld = SubtomogramLoader(rng.normal(size=(20, 20, 20)).astype(np.float32), Molecules(np.full((2, 3), 10.0)), scale=0.5, output_shape=(6, 6, 6))
    t = ld.normalize_template(pipe.from_array(img, original_scale=0.5))
    if t.shape != img.shape: fails.append("loader.normalize_template")
    mk = ld.normalize_mask(pipe.soft_otsu(0.5, 0.5))
    if not callable(mk): fails.append("loader.normalize_mask")
    ck.oracle_count("pipeline_laws", 1, 1)
    for f in sorted(set(fails)):
        ck.violation(what=f"pipeline law violated: {f}", inp={"law": f, "seed": ck.seed}, key={"site": "pipe-law", "law": f}, oracle="pipeline_laws")


def oracle_surface(ck, rng):
    """boundary arguments and the file-based providers: radii / sigmas below one voxel, degenerate masks, argument validation,
    from_array with non-float images, from_pdb (Angstrom x,y,z columns -> nm z,y,x, optional rotation) against from_atoms"""
    import tempfile, os
    from acryo import pipe
    from scipy.spatial.transform import Rotation
    from scipy import ndimage as ndi
    fails = []

    def expect(cond, site, what, inp=None):
        if not cond:
            fails.append((site, what, inp))

    def raises(fn, *exc):
        try:
            fn()
        except exc:
            return True
        except Exception:
            return False
        return False

    try:
        img = rng.random((9, 10, 11)) > 0.6
        for scale in (0.5, 1.0, 2.0):
            sub = 0.9 * scale          # a length shorter than one voxel
            for name, conv in (("dilation", pipe.dilation), ("closing", pipe.closing)):
                for r_ in (sub, -sub, 0.0):
                    out = conv(r_).convert(img, scale)
                    expect(np.array_equal(out, img), "sub-voxel", f"{name}({r_} nm) at {scale} nm/px changes the image although the radius is below one voxel", {"scale": scale})
                big = conv(2.2 * scale).convert(img, scale); small = conv(-2.2 * scale).convert(img, scale)
                expect(np.array_equal(big, conv(2.2).convert(img, 1.0)) and np.array_equal(small, conv(-2.2).convert(img, 1.0)), "units",
                       f"{name}: radius and scale multiplied by {scale} give another image", {"scale": scale})
            g0 = pipe.gaussian_smooth(0.0).convert(img, scale)
            expect(g0.dtype == np.float32 and np.array_equal(g0, img.astype(np.float32)), "gaussian-smooth", "gaussian_smooth(0) is not the mask itself as float32", {"scale": scale})
            for const in (np.ones_like(img), np.zeros_like(img)):
                gc = pipe.gaussian_smooth(1.5 * scale).convert(const, scale)
                expect(np.array_equal(gc, const.astype(np.float32)), "gaussian-smooth", "gaussian_smooth of an all-true / all-false mask is not that mask", {"scale": scale})
            gs = pipe.gaussian_smooth(1.5 * scale).convert(img, scale)
            expect(float(gs.min()) >= -1e-6 and float(gs.max()) <= 1 + 1e-6 and np.allclose(gs, pipe.gaussian_smooth(1.5).convert(img, 1.0), atol=1e-6), "gaussian-smooth",
                   "gaussian_smooth leaves [0, 1] or depends on the unit of length", {"scale": scale})
        # with_scale partialises a converter; composition with something that is not a pipeline and division by zero are rejected
        volf = rng.normal(size=(6, 7, 8)).astype(np.float32)
        for scale in (0.5, 2.0):
            cv = pipe.gaussian_filter(sigma=1.2)
            expect(np.allclose(cv.with_scale(scale)(volf), cv.convert(volf, scale)) and np.allclose(cv.with_scale(scale)(volf), cv(volf, scale)), "with-scale",
                   "converter.with_scale(s)(img) differs from converter(img, s)", {"scale": scale})
            pv = pipe.from_array(volf, original_scale=scale)
            for name, got, want in (("provider / 4", (pv / 4.0)(scale), volf / 4.0), ("8 / (provider + 10)", (8.0 / (pv + 10.0))(scale), 8.0 / (volf + 10.0)),
                                    ("converter / 2", (cv / 2.0)(volf, scale), cv(volf, scale) / 2.0), ("3 / (converter + 10)", (3.0 / (cv + 10.0))(volf, scale), 3.0 / (cv(volf, scale) + 10.0)),
                                    ("provider / provider", (pv / (pv + 10.0))(scale), volf / (volf + 10.0)), ("converter / provider", (cv / (pv + 10.0))(volf, scale), cv(volf, scale) / (volf + 10.0))):
                expect(np.allclose(got, want, atol=1e-5), "division", f"{name} is not the voxel-wise quotient", {"scale": scale})
        expect(raises(lambda: pipe.from_array(volf, original_scale=1.0) / 0, ZeroDivisionError) and raises(lambda: pipe.gaussian_filter(sigma=1.0) / 0.0, ZeroDivisionError),
               "validation", "division of a pipeline by zero accepted", {})
        expect(raises(lambda: pipe.gaussian_filter(sigma=1.0) @ np.ones((2, 2, 2)), TypeError) and raises(lambda: pipe.gaussian_filter(sigma=1.0).compose(3.0), TypeError),
               "validation", "composition with a non-pipeline accepted", {})
        # soft_otsu(sigma, radius) is its documented chain: Otsu threshold, dilation by radius (erosion if negative), Gaussian smoothing by sigma
        grey = ndi.gaussian_filter(rng.normal(size=(14, 15, 16)), 1.5).astype(np.float32)
        for sg_, rd_ in ((0.8, 2.4), (2.0, 1.0), (1.2, -1.5), (1.5, 0.0)):
            for scale in (1.0, 0.5):
                got = pipe.soft_otsu(sigma=sg_ * scale, radius=rd_ * scale).convert(grey, scale)
                want = (pipe.gaussian_smooth(sigma=sg_ * scale) @ pipe.dilation(radius=rd_ * scale) @ pipe.threshold_otsu()).convert(grey, scale)
                expect(got.shape == want.shape and np.allclose(got, want, atol=1e-6), "soft-otsu",
                       f"soft_otsu(sigma={sg_}, radius={rd_}) differs from gaussian_smooth(sigma) @ dilation(radius) @ threshold_otsu()", {"scale": scale})
        # providers are functions of the scale: evaluating a product / sum / quotient again gives the same image and leaves the operands alone
        src = (rng.random((6, 7, 8)) * 3 + 1).astype(np.float32)
        keep = src.copy()
        pa = pipe.from_array(src, original_scale=1.0)
        pb = pipe.from_array((rng.random((6, 7, 8)) + 2).astype(np.float32), original_scale=1.0)
        for name, expr_ in (("a * b", pa * pb), ("a * a", pa * pa), ("2.5 * a", 2.5 * pa), ("a * 3", pa * 3.0), ("a + b", pa + pb), ("a - 1", pa - 1.0), ("a / b", pa / pb),
                            ("gaussian_filter @ (a * b)", pipe.gaussian_filter(sigma=1.0) @ (pa * pb))):
            first_ = np.array(expr_(1.0), copy=True)
            second_ = np.array(expr_(1.0), copy=True)
            expect(np.array_equal(first_, second_), "provider-memory", f"evaluating the provider `{name}` a second time gives another image", {})
            expect(np.array_equal(src, keep) and np.array_equal(np.asarray(pa(1.0)), keep), "provider-memory", f"evaluating `{name}` changed the array its operand provides", {})
        expect(raises(lambda: pipe.gaussian_smooth(-1.0).convert(img, 1.0), ValueError), "validation", "negative sigma accepted by gaussian_smooth", {})
        expect(raises(lambda: pipe.gaussian_smooth("x").convert(img, 1.0), ValueError), "validation", "non-numeric sigma accepted by gaussian_smooth", {})
        expect(raises(lambda: pipe.dilation("x").convert(img, 1.0), ValueError), "validation", "non-numeric radius accepted by dilation", {})
        vol = rng.normal(size=(8, 9, 10))
        expect(raises(lambda: pipe.from_array(vol, original_scale=0.0)(1.0), ValueError) and raises(lambda: pipe.from_array(vol, original_scale=-1.0)(1.0), ValueError),
               "validation", "non-positive original_scale accepted by from_array", {})
        expect(raises(lambda: pipe.from_array(vol[0], original_scale=1.0)(1.0), ValueError), "validation", "2-D image accepted by from_array", {})
        for dt in (np.float64, np.int16, np.float32):
            src = (vol * 50).astype(dt)
            same = pipe.from_array(src, original_scale=1.0)(1.0)
            expect(np.array_equal(same, src), "from-array", f"from_array at the original scale changed a {np.dtype(dt).name} image", {})
            res = pipe.from_array(src, original_scale=1.0)(0.5)
            expect(res.dtype == np.float32 and res.shape == (16, 18, 20), "from-array", f"from_array({np.dtype(dt).name}) resampled to half the voxel size: dtype {res.dtype}, shape {res.shape}", {})
            ref = pipe.from_array(src.astype(np.float32), original_scale=1.0)(0.5)
            expect(np.allclose(res, ref, atol=1e-2 * float(np.abs(ref).max())), "from-array", "from_array of an integer / double image differs from the float32 image resampled", {})
        expect(raises(lambda: pipe.from_atoms(np.zeros((4, 2)))(1.0), ValueError) and raises(lambda: pipe.from_atoms(np.zeros(3))(1.0), ValueError), "validation",
               "from_atoms accepted coordinates that are not (N, 3)", {})
        # from_pdb
        atoms_a = rng.uniform(-20, 20, size=(30, 3)).round(3)          # x, y, z in Angstrom
        with tempfile.TemporaryDirectory(dir=common.WORKROOT) as td:
            fn = os.path.join(td, "m.pdb")
            with open(fn, "w") as f_:
                f_.write("HEADER    TEST\n")
                for j, (x, y, z) in enumerate(atoms_a):
                    f_.write("ATOM  %5d  CA  ALA A%4d    %8.3f%8.3f%8.3f  1.00  0.00           C\n" % (j + 1, j + 1, x, y, z))
                f_.write("HETATM 9999  O   HOH A 999      99.000  99.000  99.000  1.00  0.00           O\nEND\n")
            zyx_nm = atoms_a[:, ::-1].astype(np.float32) / 10
            for scale in (0.5, 0.8):
                got = pipe.from_pdb(fn)(scale)
                want = pipe.from_atoms(zyx_nm)(scale)
                expect(got.shape == want.shape and np.array_equal(got, want), "from-pdb", f"from_pdb differs from from_atoms of the ATOM records (z, y, x in nm) at {scale} nm/px",
                       {"scale": scale})
                expect(abs(float(got.sum()) - 30) < 1e-6, "from-pdb", f"from_pdb counts {float(got.sum())} atoms instead of the 30 ATOM records", {"scale": scale})
                rot = Rotation.from_rotvec([0.3, -0.2, 0.9])
                gotr = pipe.from_pdb(fn, rotation=rot)(scale)
                wantr = pipe.from_atoms(rot.apply(zyx_nm))(scale)
                expect(gotr.shape == wantr.shape and np.array_equal(gotr, wantr), "from-pdb", "from_pdb(rotation=) is not the image of the rotated atoms", {"scale": scale})
            bad = os.path.join(td, "m.txt"); open(bad, "w").write("x")
            expect(raises(lambda: pipe.from_pdb(bad)(1.0), ValueError), "validation", "from_pdb accepted a file that is not .pdb", {})
            empty = os.path.join(td, "e.pdb"); open(empty, "w").write("HEADER\nEND\n")
            expect(raises(lambda: pipe.from_pdb(empty)(1.0), ValueError), "validation", "from_pdb accepted a file without atoms", {})
    except Exception as e:  # noqa
        import traceback
        fails.append(("raised", f"{type(e).__name__}: {e} at {traceback.format_exc().strip().splitlines()[-3].strip()}", {}))
    ck.oracle_count("pipe_surface", 1, 1)
    seen = set()
    for site, what, inp in fails:
        if site in seen:
            continue
        seen.add(site)
        ck.violation(what=what, inp=inp, key={"site": "surface-" + site}, oracle="pipe_surface")


def run(ck: common.Check):
    ck.design_ref = "DESIGN.md §6 C19"
    ck.trusted_base = TB
    ck.partial = ["morphology / distance transform / zoom are scipy kernels: extensivity, [0,1] range and resampling are oracle-level",
                  "expressions are evaluated over Q on 4-voxel images with dyadic constants so the implementation's float arithmetic is exact"]
    a = Anchors(common.REPO)
    anchors(a)
    ck.write_anchors(PID, a)
    ck.build(["C19"], ["C19/Property.v"], extra=["C19/Model.v"])
    rng = np.random.default_rng(ck.seed + 1919)
    corr_expr(ck, rng)
    corr_units(ck, rng)
    oracle_pipe(ck, rng)
    oracle_surface(ck, np.random.default_rng(ck.seed + 19019))


def replay(data):
    print(json.dumps(data.get("input"), indent=1)[:4000])
    return 0


TB = [
    "Coq 8.16.1 kernel + coqc; vm_compute for the correspondence",
    "axioms: none expected (abstract commutative ring / Q); see coverage.assumptions_printed",
    "structural anchors for the reflected operators, compose, binary operators, provider_function/converter_function; "
    "translator for _get_radius_px and the from_gaussian centre / shape / sigma expressions",
    "assumed: numpy voxel-wise arithmetic and comparisons; scipy.ndimage kernels",
]
