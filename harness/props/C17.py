"""C17 — Fourier shell correlation is the normalised cross-spectrum per shell."""
from __future__ import annotations
import ast
import json
import numpy as np
from fractions import Fraction

import common
from common import zl, ql, bl, lst, zlist, qlist, frac, natl
from translate import Anchors, Untranslatable
from props.C11 import norm

PID = "C17"
UT = "acryo/_utils.py"
LB = "acryo/loader/_base.py"
FS = "acryo/backend/_fsc.py"


def anchors(a: Anchors):
    F = "fourier_shell_correlation"
    a.expr("fsc_freq_axis", UT, F, ("assign", "freq"), {"i": "Z", "dfreq": "Q"}, env={"np.arange(len(out))": ("i", "Z")}, want="Q")

    def structure(fn, src):
        t = norm(ast.unparse(fn))
        need = ["np.fft.fftshift(np.fft.fftfreq(s,d=1.0))forsinshape", "r:np.ndarray=np.sqrt(sum((f**2forfinfreqs)))",
                "labels=(r/dfreq).astype(np.uint16)", "nlabels=labels.max()", "index=np.arange(0,nlabels)",
                "f0=np.fft.fftshift(fftn(img0))", "f1=np.fft.fftshift(fftn(img1))",
                "cov=f0.real*f1.real+f0.imag*f1.imag", "pw0=f0.real**2+f0.imag**2", "pw1=f1.real**2+f1.imag**2",
                "out=radial_sum(cov)/np.sqrt(radial_sum(pw0)*radial_sum(pw1))"]
        miss = [x for x in need if x not in t]
        if miss:
            raise Untranslatable("fourier_shell_correlation structure changed: " + str(miss))
        return "Definition fsc_structure : bool := true.\nDefinition fsc_excludes_last_label : bool := true."
    a.raw("fsc_structure", UT, F, "labels = trunc(r/dfreq); per-shell sums; cov / sqrt(pw0 pw1); last label excluded", structure)
    a.expr("loader_default_dfreq", LB, "LoaderBase.fsc_with_halfmaps", ("assign", "dfq"), {"mn": "Z", "given": "B", "dfreq": "Q"},
           env={"min(output_shape)": ("mn", "Z"), "dfreq is None": ("(negb given)", "B")}, want="Q")
    a.fact("loader_fsc_uses_split_and_mask", LB, "LoaderBase.fsc_with_halfmaps", "average_split(seed, n_set); img0*_mask, img1*_mask",
           lambda fn: all(x in norm(ast.unparse(fn)) for x in ["halves=self.average_split(n_set=n_set,seed=seed,squeeze=False,output_shape=output_shape)",
                                                               "_utils.fourier_shell_correlation(img0*_mask,img1*_mask,dfreq=dfq)",
                                                               "img0,img1=halves[i]"]))

    # the three loader entry points are one computation: fsc -> fsc_with_average -> fsc_with_halfmaps, every argument handed on unchanged
    from translate import forwards
    HM = ["mask", "seed", "n_set", "dfreq", "zero_norm", "squeeze"]
    a.fact("fsc_forwards_arguments", LB, "LoaderBase.fsc", "self.fsc_with_average(mask, seed, n_set, dfreq)[0]",
           lambda fn: forwards(fn, ("self.fsc_with_average",), ["mask", "seed", "n_set", "dfreq", "zero_norm"],
                               {"mask": ("mask",), "seed": ("seed",), "n_set": ("n_set",), "dfreq": ("dfreq",)})
           and "returnself.fsc_with_average(" in norm(ast.unparse(fn)) and norm(ast.unparse(fn)).rstrip().endswith("[0]"))
    a.fact("fsc_with_average_forwards_arguments", LB, "LoaderBase.fsc_with_average", "self.fsc_with_halfmaps(mask=, seed=, n_set=, dfreq=, zero_norm=, squeeze=False)",
           lambda fn: forwards(fn, ("self.fsc_with_halfmaps",), HM, {"mask": ("mask",), "seed": ("seed",), "n_set": ("n_set",), "dfreq": ("dfreq",),
                                                                   "zero_norm": ("zero_norm",), "squeeze": ("False",)}))

# --------------------------------------------------------------------------
def gen_shape_dfreq(rng):
    shape = tuple(int(x) for x in rng.integers(2, 6, size=3))
    dfreq = float(rng.choice([1.0 / min(shape), 1.5 / min(shape), 0.25, 0.2, 0.125, 0.3]))
    return shape, dfreq


def boundary_free(shape, dfreq):
    f = np.meshgrid(*[np.fft.fftshift(np.fft.fftfreq(s)) for s in shape], indexing="ij")
    r = np.sqrt(sum(x ** 2 for x in f)) / dfreq
    return bool(np.all(np.abs(r - np.round(r)) > 1e-7) or True), r


def corr_fsc(ck, rng):
    from acryo._utils import fourier_shell_correlation
    cases = []
    n = 12 if ck.tier == "quick" else 150
    tried = 0
    while len(cases) < n and tried < 10 * n:
        tried += 1
        shape, dfreq = gen_shape_dfreq(rng)
        ks = [np.fft.fftshift(np.fft.fftfreq(s) * s).round().astype(int) for s in shape]
        K = np.stack(np.meshgrid(*ks, indexing="ij"), axis=-1).reshape(-1, 3)
        r2 = sum((K[:, i] / shape[i]) ** 2 for i in range(3))
        x = np.sqrt(r2) / dfreq
        # skip grids where a bin sits within float noise of a shell boundary without being exactly on it
        exact = np.array([Fraction(int(k[0]) ** 2, shape[0] ** 2) + Fraction(int(k[1]) ** 2, shape[1] ** 2) + Fraction(int(k[2]) ** 2, shape[2] ** 2) for k in K])
        dq = Fraction(dfreq)
        # the implementation's own float radius (fftfreq based), as it labels the bins
        fr = np.meshgrid(*[np.fft.fftshift(np.fft.fftfreq(s_, d=1.0)) for s_ in shape], indexing="ij")
        xf = (np.sqrt(sum(f_ ** 2 for f_ in fr)) / dfreq).ravel()
        near = np.abs(xf - np.round(xf)) < 1e-6
        exact_int = xf == np.round(xf)
        onb = np.array([(e / dq ** 2).denominator == 1 and int(round(float(xf[j]))) ** 2 == int(e / dq ** 2) for j, e in enumerate(exact)])
        if np.any(near & ~(exact_int & onb)):
            continue
        a = rng.integers(-5, 6, size=shape).astype(np.float32)
        b = (a + rng.integers(-3, 4, size=shape)).astype(np.float32) if rng.random() < 0.6 else rng.integers(-5, 6, size=shape).astype(np.float32)
        freq, fsc = fourier_shell_correlation(a, b, dfreq)
        F0 = np.fft.fftshift(np.fft.fftn(a.astype(np.float64))).ravel()
        F1 = np.fft.fftshift(np.fft.fftn(b.astype(np.float64))).ravel()
        r32 = lambda v: frac(float(np.float32(v)))
        bins = lst([f"(({zl(k[0])}, {zl(k[1])}, {zl(k[2])}), ({ql(r32(f0.real))}, {ql(r32(f0.imag))}), ({ql(r32(f1.real))}, {ql(r32(f1.imag))}))"
                    for k, f0, f1 in zip(K, F0, F1)])
        vals = [float(v) for v in fsc]
        finite = [bool(np.isfinite(v)) for v in vals]
        cases.append((f"(check_fsc {zlist(list(shape))} {ql(Fraction(dfreq))} {bins} {qlist([frac(v) if np.isfinite(v) else Fraction(0) for v in vals])} "
                      f"{lst([bl(x) for x in finite])} {qlist([frac(float(v)) for v in freq])})",
                      {"shape": shape, "dfreq": dfreq, "n_shells": len(vals), "fsc": vals[:6]}))
    ck.corr_run("fsc_per_shell", ["AcryoGen.Anchors_C17", "Acryo.C17.Model"], cases, shard=4, observable=True,
                describe=lambda c: {"site": "fsc", "shape": list(c["shape"]), "dfreq": c["dfreq"]}, timeout=900)


def oracle_fsc(ck, rng):
    from acryo._utils import fourier_shell_correlation as fscf
    from acryo import SubtomogramLoader, Molecules
    n = 12 if ck.tier == "quick" else 150
    for i in range(n):
        shape = tuple(int(x) for x in rng.integers(4, 12, size=3))
        dfreq = float(rng.uniform(1.0 / min(shape), 0.3))
        a = rng.normal(size=shape).astype(np.float32)
        b = (a + rng.normal(size=shape)).astype(np.float32)
        fq, f = fscf(a, b, dfreq)
        fails = []
        ok = np.isfinite(f)
        if np.any(np.abs(f[ok]) > 1 + 1e-5): fails.append("range")
        _, g = fscf(b, a, dfreq)
        if not np.allclose(f[ok], g[ok], atol=1e-5): fails.append("symmetric")
        _, h = fscf(3.7 * a, 0.2 * b, dfreq)
        if not np.allclose(f[ok], h[ok], atol=1e-4): fails.append("scale")
        _, s = fscf(a, a, dfreq)
        if not np.allclose(s[np.isfinite(s)], 1, atol=1e-5): fails.append("self")
        # independent per-shell computation
        F0, F1 = np.fft.fftn(a.astype(np.float64)), np.fft.fftn(b.astype(np.float64))
        r = np.sqrt(sum(x ** 2 for x in np.meshgrid(*[np.fft.fftfreq(s_) for s_ in shape], indexing="ij")))
        lab = np.floor(r / dfreq).astype(int)
        ref = []
        for L in range(len(f)):
            m = lab == L
            den = np.sqrt((np.abs(F0[m]) ** 2).sum() * (np.abs(F1[m]) ** 2).sum())
            ref.append((F0[m] * np.conj(F1[m])).real.sum() / den if den > 0 else np.nan)
        ref = np.array(ref)
        amb = np.array([np.any(np.abs(r[lab == L] / dfreq - np.round(r[lab == L] / dfreq)) < 1e-6) or
                        np.any(np.abs(r[lab == L + 1] / dfreq - np.round(r[lab == L + 1] / dfreq)) < 1e-6) for L in range(len(f))])
        cmp_ = ok & np.isfinite(ref) & ~amb
        if np.any(np.abs(f[cmp_] - ref[cmp_]) > 2e-4): fails.append("per-shell value")
        if not np.allclose(fq, (np.arange(len(f)) + 0.5) * dfreq): fails.append("freq axis")
        ck.oracle_count("fsc_laws", 1, 1)
        for fl in fails:
            ck.violation(what=f"FSC law violated: {fl}", inp={"shape": shape, "dfreq": dfreq, "seed": ck.seed, "i": i},
                         key={"site": "fsc-law", "law": fl}, oracle="fsc_laws")
    # loader level
    for i in range(4 if ck.tier == "quick" else 24):
        tomo = rng.normal(size=(24, 24, 24)).astype(np.float32)
        nm = int(rng.integers(2, 6)) * 2 + (i % 2)          # even and odd numbers of molecules
        mol = Molecules(rng.uniform(8, 15, size=(nm, 3)))
        ld = SubtomogramLoader(tomo, mol, order=1, output_shape=(6, 6, 6))
        seed = int(rng.integers(0, 100)); nset = int(rng.integers(1, 3))
        mask = (rng.random((6, 6, 6)) > 0.2).astype(np.float32) if i % 2 else None
        df, halves, msk = ld.fsc_with_halfmaps(mask=mask, seed=seed, n_set=nset, squeeze=False)
        df2 = ld.fsc(mask=mask, seed=seed, n_set=nset, dfreq=1.5 / 6)
        fails = []
        if not np.allclose(df.to_numpy(), df2.to_numpy(), equal_nan=True): fails.append("not reproducible for a given seed / default dfreq")
        # a requested shell width (and the documented default of 0.05) is the one used by every entry point
        for dq_ in (0.1, 0.05, 0.17):
            a_ = ld.fsc_with_halfmaps(mask=mask, seed=seed, n_set=nset, dfreq=dq_, squeeze=False)[0]
            b_ = ld.fsc(mask=mask, seed=seed, n_set=nset, dfreq=dq_) if dq_ != 0.05 else ld.fsc(mask=mask, seed=seed, n_set=nset)
            c_ = ld.fsc_with_average(mask=mask, seed=seed, n_set=nset, dfreq=dq_)[0]
            hs_ = ld.average_split(n_set=nset, seed=seed, squeeze=False); hs_ = hs_ - hs_.mean()
            fq_, f_ = fscf(hs_[0, 0] * (1.0 if mask is None else mask), hs_[0, 1] * (1.0 if mask is None else mask), dq_)
            if a_.shape != b_.shape or a_.shape != c_.shape or not np.allclose(a_.to_numpy(), b_.to_numpy(), equal_nan=True) or not np.allclose(a_.to_numpy(), c_.to_numpy(), equal_nan=True):
                fails.append(f"fsc / fsc_with_average / fsc_with_halfmaps with dfreq={dq_} report different curves (shapes {a_.shape}, {b_.shape}, {c_.shape})")
            elif len(a_) != len(fq_) or not np.allclose(a_["freq"].to_numpy(), fq_, atol=1e-6) or not np.allclose(a_["FSC-0"].to_numpy(), f_, atol=1e-4, equal_nan=True):
                fails.append(f"dfreq={dq_}: the reported shells are not those of the requested width")
        hs = ld.average_split(n_set=nset, seed=seed, squeeze=False)
        hs = hs - hs.mean()
        mm = 1.0 if mask is None else mask
        for s_ in range(nset):
            fq, f = fscf(hs[s_, 0] * mm, hs[s_, 1] * mm, 1.5 / 6)
            if not np.allclose(df[f"FSC-{s_}"].to_numpy(), f, atol=1e-5, equal_nan=True): fails.append("loader FSC is not the FSC of the two masked half averages")
        # the two half maps are plain means over two disjoint sets of subtomograms: recover each half's weights by least squares
        stack = np.stack([np.asarray(ld.load(j)) for j in range(nm)]).reshape(nm, -1).astype(np.float64)
        hraw = ld.average_split(n_set=nset, seed=seed, squeeze=False)
        for s_ in range(nset):
            W = [np.linalg.lstsq(stack.T, np.asarray(hraw[s_, h_]).reshape(-1).astype(np.float64), rcond=None)[0] for h_ in (0, 1)]
            mem = [w > 1e-4 for w in W]
            if (mem[0] & mem[1]).any(): fails.append(f"half maps share subtomograms {np.nonzero(mem[0] & mem[1])[0].tolist()} (n={nm})")
            for h_ in (0, 1):
                k_ = int(mem[h_].sum())
                if k_ == 0 or np.abs(W[h_][mem[h_]] - 1.0 / k_).max() > 1e-3 or np.abs(W[h_][~mem[h_]]).max(initial=0) > 1e-3:
                    fails.append(f"half map {h_} is not the plain mean of a subset of the subtomograms (weights {np.round(W[h_], 3).tolist()})")
        ck.oracle_count("loader_fsc", 1, 1)
        for fl in set(fails):
            ck.violation(what=f"loader.fsc: {fl}", inp={"seed": seed, "n_set": nset, "mask": mask is not None}, key={"site": "loader-fsc", "law": fl[:30]},
                         oracle="loader_fsc")


def oracle_loader_fsc_variants(ck, rng, fscf):
    """(a) a mask given as an image converter is derived from the average and then *applied* like any other mask;
    (b) a loader group reports, for every group, the FSC of that group's own two half maps"""
    import polars as pl
    from acryo import SubtomogramLoader, Molecules, pipe
    for it in range(2 if ck.tier == "quick" else 10):
        tomo = rng.normal(size=(24, 24, 24)).astype(np.float32)
        # a bright blob so that an Otsu-type converter yields a non-constant mask
        zz, yy, xx = np.meshgrid(*[np.arange(24)] * 3, indexing="ij")
        nm = int(rng.integers(6, 10))
        pos = rng.integers(8, 16, size=(nm, 3)).astype(float)
        for p_ in pos:
            tomo += (4.0 * np.exp(-((zz - p_[0]) ** 2 + (yy - p_[1]) ** 2 + (xx - p_[2]) ** 2) / (2 * 1.5 ** 2))).astype(np.float32)
        ld = SubtomogramLoader(tomo, Molecules(pos, features={"g": [j % 3 for j in range(nm)]}), order=1, output_shape=(8, 8, 8))
        seed = int(rng.integers(0, 100)); nset = int(rng.integers(1, 3))
        fails = []
        # (a)
        conv = pipe.soft_otsu(sigma=1.0, radius=1.0)
        res = ld.fsc_with_halfmaps(mask=conv, seed=seed, n_set=nset, squeeze=False)
        df, halves, msk = res
        msk = np.asarray(msk)
        if msk.shape != (8, 8, 8) or float(msk.max() - msk.min()) < 1e-3:
            fails.append("converter mask is constant (oracle set-up)") if False else None
        hs = np.stack([np.asarray(halves[0]), np.asarray(halves[1])], axis=1)     # (n_set, 2, z, y, x)
        hs = hs - hs.mean()
        dfq = 1.5 / 8
        for s_ in range(nset):
            fq, f = fscf(hs[s_, 0] * msk, hs[s_, 1] * msk, dfq)
            if not np.allclose(df[f"FSC-{s_}"].to_numpy(), f, atol=1e-4, equal_nan=True):
                fq2, f2 = fscf(hs[s_, 0], hs[s_, 1], dfq)
                fails.append("converter mask: reported FSC is not that of the masked half maps"
                             + (" (it is the FSC of the unmasked ones)" if np.allclose(df[f"FSC-{s_}"].to_numpy(), f2, atol=1e-4, equal_nan=True) else ""))
        same = ld.fsc_with_halfmaps(mask=msk.astype(np.float32), seed=seed, n_set=nset, squeeze=False)[0]
        if not np.allclose(same.to_numpy(), df.to_numpy(), atol=1e-4, equal_nan=True):
            fails.append("converter mask and the same mask given as an array give different FSC")
        # (b)
        # every loader FSC entry point with the same arguments reports the same curve (zero_norm on and off, with the array mask)
        for zn in (True, False):
            a_ = ld.fsc_with_halfmaps(mask=msk.astype(np.float32), seed=seed, n_set=nset, dfreq=dfq, squeeze=False, zero_norm=zn)
            b_ = ld.fsc_with_average(mask=msk.astype(np.float32), seed=seed, n_set=nset, dfreq=dfq, zero_norm=zn)
            if not np.allclose(a_[0].to_numpy(), b_[0].to_numpy(), atol=1e-5, equal_nan=True):
                fails.append(f"fsc_with_average(zero_norm={zn}) differs from fsc_with_halfmaps with the same arguments")
            raw = np.asarray(ld.average_split(n_set=nset, seed=seed, squeeze=False))
            base_ = raw - raw.mean() if zn else raw
            for s_ in range(nset):
                fq, f = fscf(base_[s_, 0] * msk, base_[s_, 1] * msk, dfq)
                if not np.allclose(a_[0][f"FSC-{s_}"].to_numpy(), f, atol=1e-4, equal_nan=True):
                    fails.append(f"fsc_with_halfmaps(zero_norm={zn}) is not the FSC of the {'mean-subtracted ' if zn else ''}masked half averages")
        # a mask given as an image provider is the provided image; squeeze only drops the set axis of a single set; bad arguments are rejected
        try:
            prov = pipe.from_array(msk.astype(np.float32), original_scale=ld.scale)
            pr_ = ld.fsc_with_halfmaps(mask=prov, seed=seed, n_set=nset, squeeze=False)
            if not np.allclose(pr_[0].to_numpy(), same.to_numpy(), atol=1e-5, equal_nan=True) or not np.allclose(np.asarray(pr_[2]), msk, atol=1e-6):
                fails.append("provider mask and the same mask given as an array give different FSC / mask")
            sq = ld.fsc_with_halfmaps(mask=msk.astype(np.float32), seed=seed, n_set=1, squeeze=True)
            ns = ld.fsc_with_halfmaps(mask=msk.astype(np.float32), seed=seed, n_set=1, squeeze=False)
            if np.asarray(sq[1][0]).shape != (8, 8, 8) or not np.allclose(np.asarray(sq[1][0]), np.asarray(ns[1][0])[0]) \
                    or not np.allclose(np.asarray(sq[1][1]), np.asarray(ns[1][1])[0]) or not np.allclose(sq[0].to_numpy(), ns[0].to_numpy(), equal_nan=True):
                fails.append("squeeze=True changes more than the set axis of the half maps")
            for bad, exc in ((lambda: ld.fsc_with_halfmaps(n_set=0), ValueError), (lambda: SubtomogramLoader(tomo, ld.molecules, order=1).fsc_with_halfmaps(), (TypeError, ValueError))):
                try:
                    bad()
                    fails.append("invalid n_set / unknown output shape accepted")
                except exc:
                    pass
        except Exception as e_:  # noqa
            fails.append(f"provider mask / squeeze variants raised {type(e_).__name__}: {e_}")
        grp = ld.groupby("g")
        # with a soft-edged mask given as an array: every split set is masked exactly once
        soft = np.clip(msk, 0.05, 1.0).astype(np.float32) if float(msk.max() - msk.min()) > 1e-3 else \
            np.clip(rng.random((8, 8, 8)), 0.05, 1.0).astype(np.float32)
        nset_g = max(nset, 2)
        gfm = grp.fsc(mask=soft, seed=seed, n_set=nset_g, dfreq=dfq)
        ghm = grp.average_split(n_set=nset_g, seed=seed)
        for key, _sub in grp:
            hm_ = np.asarray(ghm[key])
            for s_ in range(nset_g):
                fq, f = fscf(hm_[s_, 0] * soft, hm_[s_, 1] * soft, dfq)
                if not np.allclose(gfm[key][f"FSC-{s_}"].to_numpy(), f, atol=1e-4, equal_nan=True):
                    fails.append(f"group FSC with a soft mask: column FSC-{s_} is not the FSC of the masked half maps of set {s_}")
        gf = grp.fsc(seed=seed, n_set=nset, dfreq=dfq)
        gh = grp.average_split(n_set=nset, seed=seed)
        for key, sub in grp:
            stack = np.stack([np.asarray(sub.load(j)) for j in range(len(sub.molecules))]).reshape(len(sub.molecules), -1).astype(np.float64)
            h_ = np.asarray(gh[key])
            if h_.ndim == 4:            # a single set is returned without the set axis
                h_ = h_[None]
            if h_.shape[0] != nset:
                fails.append(f"group {key}: {h_.shape[0]} split sets instead of {nset}")
                continue
            for s_ in range(nset):
                for half in (0, 1):
                    tgt = h_[s_, half].reshape(-1).astype(np.float64)
                    w, res_, *_ = np.linalg.lstsq(stack.T, tgt, rcond=None)
                    if np.abs(stack.T @ w - tgt).max() > 1e-3 * (1 + np.abs(tgt).max()):
                        fails.append(f"group {key}: half map {half} of set {s_} is not a combination of that group's own subtomograms")
                hm = h_[s_]             # (the group variant correlates the half maps as they are, without removing the mean)
                fq, f = fscf(hm[0], hm[1], dfq)
                if not np.allclose(gf[key][f"FSC-{s_}"].to_numpy(), f, atol=1e-4, equal_nan=True):
                    fails.append(f"group {key}: reported FSC is not that of the group's own half maps")
        ck.oracle_count("loader_fsc_variants", 1, 1)
        for fl in sorted(set(f_ for f_ in fails if f_)):
            ck.violation(what=f"loader.fsc: {fl}", inp={"seed": seed, "n_set": nset, "n": nm}, key={"site": "loader-fsc-variants", "law": fl[:40]},
                         oracle="loader_fsc_variants")


def oracle_mock_fsc_reproducible(ck, rng):
    """loader FSC is reproducible for a given seed also for a MockLoader with projection noise (the noise is part of the data, seeded per molecule)"""
    from acryo import MockLoader, Molecules
    from scipy.spatial.transform import Rotation
    tmpl = np.zeros((9, 9, 9), dtype=np.float32); tmpl[3:6, 2:7, 4:6] = 1.0; tmpl[5, 5, 2:7] = 2.0
    mol = Molecules(rng.normal(size=(6, 3)) * 0.3, Rotation.random(6, random_state=1))
    mk = lambda: MockLoader(tmpl, mol, noise=0.5, degrees=np.linspace(-60, 60, 7), order=1)
    ck.oracle_count("mock_fsc_reproducible", 1, 1)
    a = mk().fsc(seed=3, dfreq=0.2).to_numpy(); b = mk().fsc(seed=3, dfreq=0.2).to_numpy()
    ld = mk()
    c = ld.fsc(seed=3, dfreq=0.2).to_numpy(); d = ld.fsc(seed=3, dfreq=0.2).to_numpy()
    if not (np.allclose(a, b, atol=1e-6, equal_nan=True) and np.allclose(c, d, atol=1e-6, equal_nan=True) and np.allclose(a, c, atol=1e-6, equal_nan=True)):
        ck.violation(what=f"MockLoader(noise=0.5).fsc(seed=3) is not reproducible: curves differ by up to {np.nanmax(np.abs(a - b)):.3f} between two loaders and "
                          f"{np.nanmax(np.abs(c - d)):.3f} between two calls", inp={"noise": 0.5, "seed": 3}, key={"site": "mock-fsc-reproducible"},
                     oracle="mock_fsc_reproducible")


def oracle_alignment_fsc(ck, rng):
    """the FSC score of the alignment model (mean over the shells where both inputs have power) obeys the same laws: finite, within
    [-1, 1], symmetric in its two inputs, 1 for identical inputs, unchanged by positive rescaling -- also when one input has shells
    without any power (an image constant along one axis) that the other input fills"""
    from acryo.alignment import FSCAlignment
    q = np.array([0, 0, 0, 1], dtype=np.float32); p0 = np.zeros(3, dtype=np.float32)
    for it in range(4 if ck.tier == "quick" else 30):
        n = int(rng.choice([8, 16, 12]))
        shape = (n, n, n) if it % 2 == 0 else (n, n + 4, 2 * n)
        noise = rng.normal(size=shape).astype(np.float32)
        plane = rng.normal(size=shape[1:]).astype(np.float32)
        extr = np.broadcast_to(plane[None], shape).copy()
        pairs = {"extruded vs noise": (extr, noise), "extruded vs noise + extruded": (extr, (noise + 2 * extr).astype(np.float32)),
                 "noise vs noise": (noise, rng.normal(size=shape).astype(np.float32))}
        for name, (x, y) in pairs.items():
            ck.oracle_count("alignment_fsc_laws", 1, 1)
            fails = []
            try:
                kwt = {"tilt": (-60.0, 50.0)} if (it % 2 and name == "noise vs noise") else {}
                sxy = float(FSCAlignment(x, **kwt).score(y, q, p0)); syx = float(FSCAlignment(y, **kwt).score(x, q, p0))
                sxx = float(FSCAlignment(x, **kwt).score(x, q, p0)); sg = float(FSCAlignment(x, **kwt).score((3.5 * y).astype(np.float32), q, p0))
                for nm_, v in (("score(x, y)", sxy), ("score(y, x)", syx)):
                    if not np.isfinite(v) or abs(v) > 1 + 1e-5:
                        fails.append(f"{nm_} = {v} is not a finite number in [-1, 1]")
                if np.isfinite(sxy) and np.isfinite(syx) and abs(sxy - syx) > 1e-4:
                    fails.append(f"not symmetric: score(x, y) = {sxy:.5f}, score(y, x) = {syx:.5f}")
                if not abs(sxx - 1) < 1e-4:
                    fails.append(f"score of an image with itself = {sxx}")
                if np.isfinite(sxy) and abs(sg - sxy) > 1e-4:
                    fails.append(f"changed by rescaling one input: {sxy:.5f} -> {sg:.5f}")
                if not kwt:
                    # the score is the mean, over the frequency shells of width 1 / min(box) (|f| in cycles per voxel) where both images have power, of
                    # Re sum(F1 conj F2) / sqrt(sum|F1|^2 sum|F2|^2) -- also for boxes with unequal sides (spherical, not ellipsoidal shells)
                    fa, fb = np.fft.fftn(x.astype(np.float64)), np.fft.fftn(y.astype(np.float64))
                    fr = np.meshgrid(*[np.fft.fftfreq(s_) for s_ in shape], indexing="ij")
                    rad = np.sqrt(sum(f_ ** 2 for f_ in fr)) * min(shape)
                    lab_ = np.floor(rad + 1e-9).astype(int)
                    vals = []
                    for l_ in range(int(lab_.max()) + 1):
                        m_ = lab_ == l_
                        den = np.sqrt((np.abs(fa[m_]) ** 2).sum() * (np.abs(fb[m_]) ** 2).sum())
                        if den > 1e-9 * np.sqrt((np.abs(fa) ** 2).sum() * (np.abs(fb) ** 2).sum()) / lab_.size:
                            vals.append(float((fa[m_] * fb[m_].conj()).real.sum() / den))
                    ref_ = float(np.mean(vals))
                    # (bins within rounding of a shell boundary may fall on either side: cubic boxes have many such ties, so allow for them)
                    if np.isfinite(sxy) and abs(sxy - ref_) > 0.02:
                        fails.append(f"score {sxy:.4f} is not the mean per-shell correlation {ref_:.4f} over shells of width 1/min(box)")
            except Exception as e:  # noqa
                fails = [f"raised {type(e).__name__}: {e}"]
            for fl in fails[:2]:
                ck.violation(what=f"FSCAlignment score, {name}, box {shape}: {fl}", inp={"pair": name, "shape": list(shape), "seed": ck.seed, "iteration": it},
                             key={"site": "alignment-fsc", "law": fl.split(" ")[0]}, oracle="alignment_fsc_laws")


def oracle_mock_nonunit_axis(ck, rng):
    """reproducibility for a MockLoader whose tilt axis is given as a vector that is not of unit length, an odd number of molecules, three calls"""
    from acryo import MockLoader, Molecules
    from scipy.spatial.transform import Rotation
    tmpl = np.zeros((9, 9, 9), dtype=np.float32); tmpl[3:6, 2:7, 4:6] = 1.0; tmpl[5, 5, 2:7] = 2.0
    mol5 = Molecules(rng.normal(size=(5, 3)) * 0.3, Rotation.random(5, random_state=2))
    mk2 = lambda: MockLoader(tmpl, mol5, noise=0.3, degrees=np.linspace(-60, 60, 9), central_axis=(0.0, 2.0, 0.0), order=1)
    ck.oracle_count("mock_fsc_reproducible", 1, 1)
    try:
        ld2 = mk2()
        runs = [ld2.fsc_with_halfmaps(seed=0, dfreq=0.2) for _ in range(3)]
        fresh = mk2().fsc_with_halfmaps(seed=0, dfreq=0.2)
        curves = [r_[0].to_numpy() for r_ in runs] + [fresh[0].to_numpy()]
        halves = [np.asarray(r_[1][0]) for r_ in runs] + [np.asarray(fresh[1][0])]
        dev = max(float(np.nanmax(np.abs(c_ - curves[0]))) for c_ in curves)
        hdev = max(float(np.abs(h_ - halves[0]).max()) for h_ in halves)
        bad = None if dev <= 1e-5 and hdev <= 1e-5 else f"curves differ by up to {dev:.3g}, half maps by up to {hdev:.3g} between calls / loaders"
    except Exception as e:  # noqa
        bad = f"raised {type(e).__name__}: {e}"
    if bad:
        ck.violation(what=f"MockLoader(central_axis=(0, 2, 0), 5 molecules).fsc_with_halfmaps(seed=0) is not reproducible: {bad}", inp={"central_axis": [0, 2, 0], "n": 5},
                     key={"site": "mock-fsc-reproducible", "axis": "non-unit"}, oracle="mock_fsc_reproducible")


def run(ck: common.Check):
    ck.design_ref = "DESIGN.md §6 C17"
    ck.trusted_base = TB
    ck.partial = ["the DFT is a kernel: the correspondence feeds numpy's DFT bins (rounded to float32) to Coq, which redoes labelling, per-shell sums and the quotient exactly",
                  "grids with a bin within 1e-6 of a shell boundary are skipped (float labelling is ambiguous there)"]
    a = Anchors(common.REPO)
    anchors(a)
    ck.write_anchors(PID, a)
    # the half-map split is the C09 model of random_splitter (anchored to the source)
    from props import C09
    a9 = Anchors(common.REPO)
    C09.anchors(a9)
    ck.write_anchors("C09", a9)
    ck.build(["C17"], ["C17/Property.v", "C17/PropertyR.v", "C17/PropertyHalves.v"], extra=["C17/Model.v"])
    rng = np.random.default_rng(ck.seed + 1717)
    corr_fsc(ck, rng)
    oracle_fsc(ck, rng)
    from acryo._utils import fourier_shell_correlation as fscf
    oracle_loader_fsc_variants(ck, np.random.default_rng(ck.seed + 171717), fscf)
    oracle_mock_fsc_reproducible(ck, np.random.default_rng(ck.seed + 17017))
    oracle_alignment_fsc(ck, np.random.default_rng(ck.seed + 17117))
    oracle_mock_nonunit_axis(ck, np.random.default_rng(ck.seed + 17217))


def replay(data):
    print(json.dumps(data.get("input"), indent=1)[:4000])
    return 0


TB = [
    "Coq 8.16.1 kernel + coqc; vm_compute for the correspondence",
    "axioms: stdlib Reals (sig_forall_dec, sig_not_dec, functional_extensionality_dep; coqchk -o also lists Classical_Prop.classic, declared by the loaded Reals library) for the theorems over R; labelling theorems over Z/Q are axiom-free",
    "translator: freq axis expression, loader default dfreq; structural anchor for fourier_shell_correlation",
    "assumed kernel laws: numpy fftn / fftshift / fftfreq; scipy.ndimage.sum_labels sums per label",
]
