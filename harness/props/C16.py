"""C16 — low-pass filtering is a real, linear, zero-phase Butterworth filter."""
from __future__ import annotations
import ast
import json
import numpy as np
from fractions import Fraction

import common
from common import zl, ql, bl, lst, zlist, qlist, frac, natl
from translate import Anchors, Untranslatable
from props.C11 import norm

PID = "C16"
COPIES = [("utils", "acryo/_utils.py"), ("backend", "acryo/backend/_bandpass.py")]


def anchors(a: Anchors):
    a.pure("filters_have_no_memory",
           [("acryo/_utils.py", q) for q in ("lowpass_filter", "lowpass_filter_ft", "highpass_filter", "highpass_filter_ft")]
           + [("acryo/backend/_bandpass.py", q) for q in ("lowpass_filter", "lowpass_filter_ft")]
           + [("acryo/pipe/_transform.py", q) for q in ("lowpass_filter", "highpass_filter")],
           "the filter functions do not modify their image argument nor the cached Butterworth weights")
    for tagn, f in COPIES:
        ar = "np.arange" if tagn == "utils" else "backend.arange"
        isar = lambda n, ar=ar: isinstance(n, ast.Call) and ast.unparse(n.func) == ar
        a.expr(f"bw_lo_{tagn}", f, "nd_butterworth_weight", ("find", isar, 0, "arange start"), {"d": "Z"}, want="Z", post=lambda n: n.args[0])
        a.expr(f"bw_hi_{tagn}", f, "nd_butterworth_weight", ("find", isar, 0, "arange stop"), {"d": "Z"}, want="Z", post=lambda n: n.args[1])
        a.expr(f"bw_limit_{tagn}", f, "nd_butterworth_weight", ("assign", "limit"), {"dl": "Z"}, env={"shape[-1]": ("dl", "Z")}, want="Z")

        def wshape(fn, src, tagn=tagn):
            t = norm(ast.unparse(fn))
            need = ["/(d*cutoff)", "ifftshift(axis**2)", "ranges[-1]=ranges[-1][:limit]", "wfilt=1/(1+q2**order)", "indexing='ij',sparse=True"]
            if not all(x in t for x in need):
                raise Untranslatable("butterworth weight structure changed: " + str([x for x in need if x not in t]))
            return f"Definition bw_structure_{tagn} : bool := true."
        a.raw(f"bw_structure_{tagn}", f, "nd_butterworth_weight", "axis/(d*cutoff), squared, ifftshift, sum, 1/(1+q2^order)", wshape)

        def lp(fn, src, tagn=tagn):
            t = norm(ast.unparse(fn))
            guard = "ifcutoff>=0.5*np.sqrt(img.ndim)orcutoff<=0:returnimg" in t
            shaped = ("irfftn(weight*rfftn(img),s=img.shape)" in t) or ("backend.irfftn(weight*backend.rfftn(img),img.shape)" in t)
            unshaped = ("irfftn(weight*rfftn(img))" in t) or ("backend.irfftn(weight*backend.rfftn(img))" in t)
            if not guard or not (shaped or unshaped):
                raise Untranslatable("lowpass_filter structure changed")
            return (f"Definition lp_guard_{tagn} : bool := true.\n"
                    f"Definition lp_passes_shape_{tagn} : bool := {'true' if shaped else 'false'}.")
        a.raw(f"lp_{tagn}", f, "lowpass_filter", "identity guard and irfftn output shape", lp)
        a.fact(f"lp_ft_guard_{tagn}", f, "lowpass_filter_ft", "same guard, returns fftn(img); else weight(real=False) * fftn(img)",
               lambda fn: all(x in norm(ast.unparse(fn)) for x in ["ifcutoff>=0.5*np.sqrt(img.ndim)orcutoff<=0:", "real=False"])
               and ("returnweight*fftn(img)" in norm(ast.unparse(fn)) or "returnweight*backend.fftn(img)" in norm(ast.unparse(fn))))


def corr_weights(ck, rng):
    from acryo._utils import nd_butterworth_weight as wu
    from acryo.backend._bandpass import nd_butterworth_weight as wb
    from acryo.backend import Backend
    xp = Backend()
    cases = []
    n = 30 if ck.tier == "quick" else 300
    for i in range(n):
        shape = tuple(int(x) for x in rng.integers(1, 7, size=3))
        cutoff = float(rng.choice([0.125, 0.25, 0.375, 0.5, 0.75, 0.0625]))
        order = int(rng.integers(1, 4))
        real = bool(i % 2)
        for tagn, fn in (("utils", lambda: wu(shape, cutoff, order, real)), ("backend", lambda: wb(shape, cutoff, order, real, xp))):
            w = np.asarray(fn(), dtype=np.float64)
            w = np.broadcast_to(w, w.shape)
            full = np.broadcast_to(w, tuple(max(a, b) for a, b in zip(w.shape, w.shape)))
            cases.append((f"(check_weight_{tagn} {zlist(list(shape))} {ql(Fraction(cutoff))} {zl(order)} {bl(real)} {zlist(list(full.shape))} "
                          f"{qlist([frac(float(v)) for v in full.ravel()])})",
                          {"copy": tagn, "shape": shape, "cutoff": cutoff, "order": order, "real": real, "weight_shape": list(full.shape)}))
    ck.corr_run("butterworth_weights", ["AcryoGen.Anchors_C16", "Acryo.C16.Model"], cases, shard=60, observable=True,
                describe=lambda c: {"site": "weight", "copy": c["copy"], "real": c["real"]})


def corr_shapes(ck, rng):
    from acryo._utils import lowpass_filter as lu, lowpass_filter_ft as lfu
    from acryo.backend import Backend
    xp = Backend()
    cases = []
    shapes = [(a, b, c) for a in (1, 2, 3, 4, 5) for b in (1, 2, 5) for c in (1, 2, 3, 4, 5, 6, 7)] if ck.tier == "quick" else \
             [(a, b, c) for a in range(1, 8) for b in range(1, 8) for c in range(1, 10)]
    for sh in shapes:
        x = rng.normal(size=sh).astype(np.float32)
        for cutoff in (0.25, -1.0, 0.9):
            for tagn, fn, fft in (("utils", lambda: lu(x, cutoff), lambda: lfu(x, cutoff)), ("backend", lambda: xp.lowpass_filter(x, cutoff), lambda: xp.lowpass_filter_ft(x, cutoff))):
                try:
                    o = np.asarray(fn()); got = list(o.shape); ident = bool(np.array_equal(o, x))
                    oft = list(np.asarray(fft()).shape)
                except Exception as e:  # noqa
                    got, ident, oft = [-1, -1, -1], False, [-1, -1, -1]
                cases.append((f"(check_shape_{tagn} {zlist(list(sh))} {ql(Fraction(cutoff))} {zlist(got)} {zlist(oft)} {bl(ident)})",
                              {"copy": tagn, "shape": sh, "cutoff": cutoff, "out_shape": got, "ft_shape": oft, "identity": ident}))
    ck.corr_run("output_shapes_and_guard", ["AcryoGen.Anchors_C16", "Acryo.C16.Model"], cases, shard=500, observable=True,
                describe=lambda c: {"site": "shape", "copy": c["copy"], "odd_last": c["shape"][2] % 2 == 1})


def oracle_filter(ck, rng):
    from acryo._utils import lowpass_filter as lu, lowpass_filter_ft as lfu
    from acryo.backend import Backend
    from acryo import pipe
    from acryo.alignment import ZNCCAlignment
    xp = Backend()
    n = 14 if ck.tier == "quick" else 200
    for i in range(n):
        sh = tuple(int(x) for x in rng.integers(3, 12, size=3))
        cutoff = float(rng.uniform(0.05, 0.8))
        order = int(rng.integers(1, 4))
        x = rng.normal(size=sh).astype(np.float32)
        y = rng.normal(size=sh).astype(np.float32)
        c = dict(shape=sh, cutoff=cutoff, order=order)
        fails = []
        a = lu(x, cutoff, order)
        if a.shape != sh or not np.isrealobj(a): fails.append("shape/real")
        # gain per Fourier component against the property's formula
        f = np.sqrt(sum(g ** 2 for g in np.meshgrid(*[np.fft.fftfreq(s) for s in sh], indexing="ij")))
        W = 1 / (1 + (f / cutoff) ** (2 * order)) if 0 < cutoff < 0.5 * np.sqrt(3) else np.ones(sh)
        ref = np.fft.ifftn(np.fft.fftn(x.astype(np.float64)) * W).real
        if a.shape == sh and np.abs(a - ref).max() > 2e-4 * max(1, np.abs(ref).max()): fails.append("gain")
        if abs(a.mean() - x.mean()) > 1e-5: fails.append("mean")
        if a.shape == sh:
            lin = lu((2 * x + 3 * y).astype(np.float32), cutoff, order) - (2 * a + 3 * lu(y, cutoff, order))
            if np.abs(lin).max() > 1e-3: fails.append("linear")
            ft = np.asarray(lfu(x, cutoff, order))
            if ft.shape != sh or np.abs(np.fft.ifftn(ft).real - a).max() > 1e-4: fails.append("ft-vs-real")
            b = np.asarray(xp.lowpass_filter(x, cutoff, order))
            if b.shape != sh or np.abs(b - a).max() > 1e-5: fails.append("backend-vs-numpy")
            bf = np.asarray(xp.lowpass_filter_ft(x, cutoff, order))
            if np.abs(bf - ft).max() > 1e-3 * max(1, np.abs(ft).max()): fails.append("backend-ft")
            p = pipe.lowpass_filter(cutoff, order).convert(x, 1.0)
            if np.asarray(p).shape != sh or np.abs(np.asarray(p) - a).max() > 1e-6: fails.append("pipe")
            pre = np.asarray(ZNCCAlignment(y, cutoff=cutoff).pre_transform(xp.asarray(x), xp))
            if order == 2 and np.abs(pre - ft).max() > 1e-3 * max(1, np.abs(ft).max()): fails.append("model.pre_transform")
        if a.shape == sh:
            # the filter has no memory: interleaving other filter calls (high-pass variants share the cached weights) changes nothing
            from acryo._utils import highpass_filter as hu, highpass_filter_ft as hfu
            h1 = hu(x, cutoff, order)
            a2 = lu(x, cutoff, order)
            _ = hfu(x, cutoff, order)
            ft2 = np.asarray(lfu(x, cutoff, order))
            _ = pipe.highpass_filter(cutoff, order).convert(y, 1.0)
            a3 = np.asarray(pipe.lowpass_filter(cutoff, order).convert(x, 1.0))
            if a2.shape != a.shape or np.abs(a2 - a).max() > 1e-6 or np.abs(ft2 - ft).max() > 1e-5 * max(1, np.abs(ft).max()) or np.abs(a3 - a).max() > 1e-6:
                fails.append("call-history")
            if 0 < cutoff < 0.5 * np.sqrt(3) and np.abs((a + h1) - x).max() > 1e-4 * max(1, np.abs(x).max()):
                fails.append("low+high")
        if a.shape == sh and i % 2 == 0:
            # integer-valued images (raw tomograms are often int8/int16): the filter is real-valued whatever the input type
            xi = np.round(x * 40).astype([np.int16, np.uint8, np.int8][i % 3] if i % 3 else np.int16)
            refi = np.fft.ifftn(np.fft.fftn(xi.astype(np.float64)) * W).real
            for nm_, oi in (("numpy", lu(xi, cutoff, order)), ("pipe", pipe.lowpass_filter(cutoff, order).convert(xi, 1.0)), ("backend", xp.lowpass_filter(xi, cutoff, order))):
                oi = np.asarray(oi)
                if oi.shape != sh or np.abs(oi - refi).max() > 2e-3 * max(1, np.abs(refi).max()):
                    fails.append(f"integer-image-{nm_}")
        ck.oracle_count("filter_laws", 1, 1)
        for fl in fails:
            ck.violation(what=f"low-pass filter law violated: {fl}", inp=c, key={"site": "filter", "law": fl, "odd_last": sh[2] % 2 == 1},
                         oracle="filter_laws")
    # every input shape (1-D ... 4-D) and every accepted input type (ndarray, dask array, nested list): the backend Fourier variant is the
    # transform of the backend real-space variant, and both agree with the numpy-level filter
    import dask.array as da
    for sh in ((17,), (9, 12), (6, 7, 8), (3, 6, 5, 8), (2, 3, 4, 5, 6)):
        x4 = rng.normal(size=sh).astype(np.float32)
        for cutoff in (0.25, 0.4):
            ck.oracle_count("any_dimension", 1, 1)
            try:
                r_ = np.asarray(xp.lowpass_filter(x4, cutoff)); f_ = np.asarray(xp.lowpass_filter_ft(x4, cutoff)); u_ = np.asarray(lu(x4, cutoff)); uf_ = np.asarray(lfu(x4, cutoff))
                bad = []
                if r_.shape != x4.shape or f_.shape != x4.shape: bad.append(f"shapes {r_.shape} / {f_.shape} for an input of shape {x4.shape}")
                elif np.abs(np.fft.ifftn(f_).real - r_).max() > 1e-4: bad.append("the backend Fourier variant is not the transform of the backend real-space variant")
                elif np.abs(r_ - u_).max() > 1e-4 or np.abs(f_ - uf_).max() > 1e-3 * max(1.0, float(np.abs(uf_).max())): bad.append("backend-level and numpy-level results differ")
            except Exception as e:  # noqa
                bad = [f"raised {type(e).__name__}: {e}"]
            for b_ in bad:
                ck.violation(what=f"{len(sh)}-D input of shape {sh}, cutoff {cutoff}: {b_}", inp={"shape": list(sh), "cutoff": cutoff}, key={"site": "any-dimension", "ndim": len(sh)},
                             oracle="any_dimension")
    xw = rng.normal(size=(6, 7, 8)) + 3.0e7
    for kind, arg in (("dask array", da.from_array(xw, chunks=(3, 7, 8))), ("nested list", xw.tolist())):
        ck.oracle_count("input_types", 1, 1)
        try:
            a_ = np.asarray(xp.lowpass_filter(arg, 0.3)); b_ = np.asarray(xp.lowpass_filter(xw, 0.3)); f_ = np.asarray(xp.lowpass_filter_ft(arg, 0.3))
            bad = None
            if np.abs(a_ - b_).max() > 0.05: bad = f"differs from the same image given as an ndarray by {np.abs(a_ - b_).max():.3g} (unit-variance image on a level of 3e7)"
            elif np.abs(np.fft.ifftn(f_).real - b_).max() > 0.05: bad = "Fourier variant is not the transform of the filtered image"
        except Exception as e:  # noqa
            bad = f"raised {type(e).__name__}: {e}"
        if bad:
            ck.violation(what=f"backend low-pass of a float64 image given as a {kind}: {bad}", inp={"input": kind}, key={"site": "input-type", "kind": kind}, oracle="input_types")
    # double-precision and wide-integer images with a grey level far above their contrast: numpy-level and backend-level filters agree, keep the mean
    # and stay linear at the precision of the input
    for dt, off in ((np.float64, 1.0e6), (np.int32, 3_000_000), (np.float64, -2.5e5)):
        sh = (9, 10, 12)
        xd = (rng.normal(size=sh) * 3 + off).astype(dt)
        for cutoff in (0.2, 0.35):
            ck.oracle_count("wide_dynamic_range", 1, 1)
            try:
                a_ = np.asarray(lu(xd, cutoff)); b_ = np.asarray(xp.lowpass_filter(xd, cutoff)); bf_ = np.asarray(xp.lowpass_filter_ft(xd, cutoff))
                ref_sd = float(np.std(xd.astype(np.float64)))
                bad = []
                if np.abs(a_ - b_).max() > 0.05 * ref_sd: bad.append(f"numpy-level and backend-level results differ by {np.abs(a_ - b_).max() / ref_sd:.2g} standard deviations")
                if abs(float(b_.mean()) - float(xd.astype(np.float64).mean())) > 0.05 * ref_sd: bad.append("the backend-level filter does not preserve the mean")
                if np.abs(np.fft.ifftn(bf_).real - b_).max() > 0.05 * ref_sd: bad.append("the backend Fourier variant is not the transform of the backend real-space variant")
            except Exception as e:  # noqa
                bad = [f"raised {type(e).__name__}: {e}"]
            for f_ in bad[:2]:
                ck.violation(what=f"{np.dtype(dt).name} image with grey level {off:g}, cutoff {cutoff}: {f_}", inp={"dtype": np.dtype(dt).name, "offset": off, "cutoff": cutoff, "shape": list(sh)},
                             key={"site": "wide-range", "dtype": np.dtype(dt).name}, oracle="wide_dynamic_range")
    for cutoff in (0.0, -0.3, 0.5 * np.sqrt(3), 1.0):
        x = rng.normal(size=(5, 6, 7)).astype(np.float32)
        ck.oracle_count("identity_range", 1, 1)
        if not np.array_equal(lu(x, cutoff), x) or not np.array_equal(np.asarray(xp.lowpass_filter(x, cutoff)), x):
            ck.violation(what=f"cutoff {cutoff} should be the identity", inp={"cutoff": cutoff}, key={"site": "identity"}, oracle="identity_range")


def run(ck: common.Check):
    ck.design_ref = "DESIGN.md §6 C16"
    ck.trusted_base = TB
    ck.partial = ["linearity, mean preservation, realness and gain are consequences of DFT laws (kernel): checked by the numeric oracle",
                  "the identity guard compares cutoff with 0.5*sqrt(ndim): modelled in squared form over Q"]
    a = Anchors(common.REPO)
    anchors(a)
    ck.write_anchors(PID, a)
    ck.build(["C16"], ["C16/Property.v"])
    rng = np.random.default_rng(ck.seed + 1616)
    corr_weights(ck, rng)
    corr_shapes(ck, rng)
    oracle_filter(ck, rng)


def replay(data):
    print(json.dumps(data.get("input"), indent=1)[:4000])
    return 0


TB = [
    "Coq 8.16.1 kernel + coqc; vm_compute for Examples and correspondence",
    "axioms: none expected; see coverage.assumptions_printed",
    "translator: arange bounds and rfft limit of both nd_butterworth_weight copies; structural anchors for weight structure, identity guard, irfftn output shape",
    "assumed kernel laws: DFT linear/invertible, DC = sum, real <=> Hermitian, rfftn = leading half of fftn, irfftn(x, s) has shape s, "
    "ifftshift = roll by -(n//2)",
]
