"""C02 — subtomograms sample the tomogram on the molecule's local grid."""
from __future__ import annotations
import ast
import itertools
import json
import numpy as np
from fractions import Fraction

import common
from common import zl, ql, bl, lst, zlist, qlist, frac
from props.C11 import norm
from translate import Anchors, Untranslatable

PID = "C02"
UT = "acryo/_utils.py"


def _append_arg(name):
    return lambda n: (isinstance(n, ast.Call) and ast.unparse(n.func) == f"{name}.append")


def anchors(a: Anchors):
    def box_rule(fn, src):
        t = norm(ast.unparse(fn))
        if "ifoutput_shapeisNone:ifisinstance(self.output_shape,Unset):raiseValueError('Outputshapeisunknown.')_output_shape=self.output_shapeelse:_output_shape=_misc.normalize_shape(output_shape,ndim=3)return_output_shape" in t:
            return ("(* box of a call: the shape given to the call if any, else the loader's own, else an error (None) *)\n"
                    "Definition call_box (given own : option (Z * Z * Z)) : option (Z * Z * Z) :=\n  match given with Some s => Some s | None => own end.")
        raise Untranslatable("_get_output_shape not recognised")
    a.raw("call_box", "acryo/loader/_base.py", "LoaderBase._get_output_shape", "which box a load uses: per-call shape, else the loader's default, else ValueError", box_rule)
    a.func("make_slice_and_pad", UT, "make_slice_and_pad", {"z0": "Z", "z1": "Z", "size": "Z"})
    for fn, pre in (("prepare_affine", "pa"), ("prepare_affine_cornersafe", "pac")):
        p0 = {"c": "Q", "s": "Z", "order": "Z"} if pre == "pa" else {"c": "Q", "half_len": "Q", "order": "Z"}
        p1 = {"x0": "Z", "s": "Z", "order": "Z"} if pre == "pa" else {"x0": "Z", "max_len": "Q", "order": "Z"}
        a.expr(f"{pre}_x0", UT, fn, ("assign", "x0"), p0, want="Z")
        a.expr(f"{pre}_x1", UT, fn, ("assign", "x1"), p1, want="Z")
        a.expr(f"{pre}_new_center", UT, fn, ("find", _append_arg("new_center"), 0, "new_center.append"),
               {"c": "Q", "x0": "Z"}, want="Q", post=lambda n: n.args[0])
        a.expr(f"{pre}_output_center", UT, fn, ("assign", "output_center"), {"s": "Z"},
               env={"np.array(output_shape)": ("s", "Z")}, want="Q")
    a.expr("pac_half_len", UT, "prepare_affine_cornersafe", ("assign", "half_len"), {"max_len": "Q"}, want="Q")
    # structural facts: which pad mode / which cval / prefilter rule (recorded, compared in Model.v)
    a.fact("pa_pads_with_mean", UT, "prepare_affine", "da.pad(..., mode='mean')",
           lambda fn: any(isinstance(n, ast.Call) and ast.unparse(n.func) == "da.pad" and
                          any(k.arg == "mode" and ast.unparse(k.value) == "'mean'" for k in n.keywords)
                          for n in ast.walk(fn)))


# --------------------------------------------------------------------------
ROT24 = None


def rot24():
    global ROT24
    if ROT24 is None:
        out = []
        for perm in itertools.permutations(range(3)):
            for signs in itertools.product([1, -1], repeat=3):
                m = np.zeros((3, 3), dtype=int)
                for i in range(3):
                    m[i, perm[i]] = signs[i]
                if round(np.linalg.det(m)) == 1:
                    out.append(m)
        ROT24 = out
    return ROT24


def make_loader(tomo, pos, mats, order, scale, shape, corner_safe, dask_chunks=None, via="single"):
    from acryo import SubtomogramLoader, BatchLoader, Molecules
    from scipy.spatial.transform import Rotation
    import dask.array as da
    rot = Rotation.from_matrix(np.stack(mats).astype(float))
    mol = Molecules(np.asarray(pos, dtype=np.float32), rot)
    img = tomo.astype(np.float32)
    if dask_chunks is not None:
        img = da.from_array(img, chunks=dask_chunks)
    if via == "batch":
        # the same molecule through a BatchLoader (with an unrelated first tomogram): every loader option must reach the per-tomogram loaders
        b = BatchLoader(order=order, scale=scale, output_shape=tuple(shape), corner_safe=corner_safe)
        b.add_tomogram(img, mol, image_id=4)
        return b
    if via == "batch-history":
        # the molecule's tomogram is the second of three additions (automatic ids) and the first has been filtered away in between
        import polars as pl
        b = BatchLoader(order=order, scale=scale, output_shape=tuple(shape), corner_safe=corner_safe)
        other = np.zeros_like(np.asarray(tomo, dtype=np.float32)) - 1000.0
        b.add_tomogram(other, Molecules(np.asarray(pos, dtype=np.float32), rot, features={"who": [0] * len(pos)}))
        b.add_tomogram(img, Molecules(np.asarray(pos, dtype=np.float32), rot, features={"who": [1] * len(pos)}))
        b = b.filter(pl.col("who") == 1)
        b.add_tomogram(other + 500.0, Molecules(np.asarray(pos, dtype=np.float32), rot, features={"who": [2] * len(pos)}))
        return b.filter(pl.col("who") == 1)
    if via == "default-box":
        # the loader has its own default box; the box of the call must win
        dflt = tuple(int(x) + 2 for x in shape)
        return SubtomogramLoader(img, mol, order=order, scale=scale, output_shape=dflt, corner_safe=corner_safe)
    if via == "group":
        mol = Molecules(np.asarray(pos, dtype=np.float32), rot, features={"g": [1] * len(pos)})
        ld = SubtomogramLoader(img, mol, order=order, scale=scale, output_shape=tuple(shape), corner_safe=corner_safe)
        return list(ld.groupby("g"))[0][1]
    return SubtomogramLoader(img, mol, order=order, scale=scale, output_shape=tuple(shape), corner_safe=corner_safe)


def vol_lit(t):
    return lst([lst([zlist(r) for r in p]) for p in t.tolist()])


def corr_msp(ck):
    from acryo._utils import make_slice_and_pad, SubvolumeOutOfBoundError
    cases = []
    rng = range(-9, 19) if ck.tier == "quick" else range(-14, 28)
    sizes = range(0, 9) if ck.tier == "quick" else range(0, 13)
    for n in sizes:
        for z0 in rng:
            for z1 in rng:
                try:
                    sl, pads, oob = make_slice_and_pad(z0, z1, n)
                    got = f"(Some (({zl(sl.start)}, {zl(sl.stop)}), ({zl(pads[0])}, {zl(pads[1])}), {bl(oob)}))"
                    g = [sl.start, sl.stop, list(pads), bool(oob)]
                except SubvolumeOutOfBoundError:
                    got, g = "None", None
                cases.append((f"(msp_eqb (make_slice_and_pad {zl(z0)} {zl(z1)} {zl(n)}) {got})",
                              {"z0": z0, "z1": z1, "size": n, "impl": g}))
    ck.corr_run("make_slice_and_pad", ["AcryoGen.Anchors_C02", "Acryo.C02.Model"], cases, shard=3000, observable=False)


def gen_load_cases(ck, rng, n_cases):
    """structured generator: interior / straddling each face / outside / exactly touching."""
    cases = []
    tomos = []
    for dims in ((7, 8, 9), (6, 6, 6), (5, 9, 4)):
        tomos.append(rng.integers(0, 200, size=dims))
    classes = {}
    R = rot24()
    kinds = ["interior", "straddle", "outside", "touch"]
    for ci in range(n_cases):
        ti = int(rng.integers(0, len(tomos)))
        t = tomos[ti]
        dims = np.array(t.shape)
        shape = tuple(int(x) for x in rng.integers(1, 6, size=3))
        if rng.random() < 0.3:
            shape = (shape[0],) * 3
        order = int(rng.choice([0, 1, 1]))
        corner_safe = bool(rng.random() < 0.3)
        scale = float(rng.choice([1.0, 0.5, 2.0, 0.25]))
        kind = kinds[int(rng.integers(0, 4))] if rng.random() < 0.55 else "interior"
        grid = 1 if rng.random() < 0.4 else 4
        if order == 0 and grid == 4:
            off = rng.choice([0.0, 0.25, -0.25], size=3)
        elif grid == 4:
            off = rng.integers(-2, 3, size=3) / 4.0
        else:
            off = np.zeros(3)
        if kind == "interior":
            cpx = np.array([rng.integers(min(2, d - 1), max(d - 2, min(2, d - 1) + 1)) for d in dims], dtype=float)
        elif kind == "straddle":
            cpx = np.array([rng.integers(0, d) for d in dims], dtype=float)
            ax = int(rng.integers(0, 3))
            cpx[ax] = float(rng.choice([-1, 0, dims[ax] - 1, dims[ax]]))
        elif kind == "outside":
            cpx = np.array([rng.integers(0, d) for d in dims], dtype=float)
            ax = int(rng.integers(0, 3))
            far = int(rng.integers(4, 12))
            cpx[ax] = float(rng.choice([-far, dims[ax] + far]))
        else:  # exactly touching: window ends at 0 or starts at size (z1 == 0 / z0 == size)
            cpx = np.array([rng.integers(0, d) for d in dims], dtype=float)
            ax = int(rng.integers(0, 3))
            s = shape[ax]
            if corner_safe:
                ml = float(np.sqrt(np.sum(np.asarray(shape, dtype=np.float32) ** 2)))
                lo_c = -(int(ml) + 2 * order + 1) + ml / 2 + order   # makes x1 about 0
                cpx[ax] = float(rng.choice([np.floor(lo_c * 4) / 4, dims[ax] + np.ceil((ml / 2 + order) * 4) / 4]))
            else:
                # x0 = int(c - s/2 - order); x1 = x0 + s + 2*order + 1
                cpx[ax] = float(rng.choice([-(s + 2 * order + 1) + s / 2 + order, dims[ax] + s / 2 + order]))
            off = np.zeros(3)
        cpx = cpx + off
        pos = (cpx * scale).astype(np.float32)
        ri = int(rng.integers(0, 24)) if rng.random() < 0.8 else 0
        classes[kind] = classes.get(kind, 0) + 1
        cases.append(dict(tomo=ti, pos=[float(x) for x in pos], scale=scale, rot=ri, shape=list(shape), order=order,
                          corner_safe=corner_safe, kind=kind))
    return tomos, cases, classes


def run_impl_load(tomos, c, dask_chunks=None, method="load"):
    from acryo._utils import SubvolumeOutOfBoundError
    R = rot24()
    ld = make_loader(tomos[c["tomo"]], [c["pos"]], [R[c["rot"]]], c["order"], c["scale"], c["shape"], c["corner_safe"],
                     dask_chunks)
    try:
        if method == "load":
            out = ld.load(0)
        elif method == "asnumpy":
            out = ld.asnumpy()[0]
        elif method == "load_iter":
            out = next(iter(ld.load_iter()))
        else:
            out = ld.construct_dask().compute()[0]
        return np.asarray(out)
    except SubvolumeOutOfBoundError:
        return None


def case_term(c, out):
    R = rot24()[c["rot"]]
    # centre in pixels exactly as the implementation computes it: float32(pos) / scale
    cpx = [frac(np.float32(p) / c["scale"]) for p in c["pos"]]
    shape = c["shape"]
    ml = np.sqrt(np.sum(np.asarray(shape, dtype=np.float32) ** 2))
    if out is None:
        res = "None"
    else:
        res = "(Some " + qlist([frac(v) for v in out.ravel().tolist()]) + ")"
    return (f"(check_load T{c['tomo']} ({ql(cpx[0])}, {ql(cpx[1])}, {ql(cpx[2])}) {zlist(R.ravel().tolist())} "
            f"({zl(shape[0])}, {zl(shape[1])}, {zl(shape[2])}) {zl(c['order'])} {bl(c['corner_safe'])} {ql(frac(ml))} {res})")


def oracle_one(tomos, c, out):
    """Implementation-only check of the property text on one case (independent numpy reference).
    returns (ok, detail)"""
    t = tomos[c["tomo"]].astype(float)
    dims = t.shape
    R = rot24()[c["rot"]].astype(float) if isinstance(c["rot"], int) else np.asarray(c["rot"], dtype=float)
    cpx = np.array([np.float32(p) / c["scale"] for p in c["pos"]], dtype=float)
    shape = c["shape"]
    if out is not None and tuple(np.asarray(out).shape) != tuple(shape):
        return False, f"[shape] returned a box of shape {tuple(np.asarray(out).shape)} where {tuple(shape)} was requested"
    oc = (np.array(shape) - 1) / 2
    kk = np.stack(np.meshgrid(*[np.arange(s) for s in shape], indexing="ij"), axis=-1).reshape(-1, 3)
    coords = cpx + (kk - oc) @ R.T
    # does the sampling window overlap the tomogram at all?  (per the implementation's own window rule
    # the error is required when the crop window has no overlap; here: no sample point within 'order+1' of volume)
    if out is None:
        # the error is legitimate when the crop window has no overlap with the tomogram; the window is guaranteed to
        # contain the inscribed ball of the box (the whole box with corner_safe), so none of those points may be inside
        inside = np.all((coords >= 0) & (coords <= np.array(dims) - 1), axis=1)
        rad2_ = ((min(shape) - 1) / 2) ** 2
        guaranteed = (np.sum((kk - oc) ** 2, axis=1) <= rad2_ + 1e-9) | bool(c["corner_safe"])
        if (inside & guaranteed).any():
            return False, "raised out-of-bound although guaranteed sample points (inscribed ball / whole box) lie inside the tomogram"
        return True, "oob"
    flat = out.ravel()
    if not np.all(np.isfinite(flat)):
        return False, f"non-finite voxels: {int((~np.isfinite(flat)).sum())} of {flat.size}"
    from scipy import ndimage as ndi
    order = c["order"]
    edge = 0.0 if order <= 1 else 4.0   # cubic spline: the crop is mean-padded, so stay 4 px inside the tomogram
    ok_pts = np.all((coords >= edge) & (coords <= np.array(dims) - 1 - edge), axis=1)
    rad2 = ((min(shape) - 1) / 2) ** 2
    inball = np.sum((kk - oc) ** 2, axis=1) <= rad2 + 1e-9
    sel = ok_pts & (inball | c["corner_safe"])
    if order == 0:
        # skip ties
        fr = np.abs(coords - np.floor(coords) - 0.5)
        sel &= np.all(fr > 1e-6, axis=1)
    if not sel.any():
        return True, "no checkable voxel"
    ref = ndi.map_coordinates(t, coords[sel].T, order=order, mode="nearest", prefilter=order > 1)
    err = np.abs(ref - flat[sel])
    tol = 1e-3 * max(1.0, np.abs(t).max()) if order <= 1 else 0.02 * t.std() + 1e-3
    if err.max() > tol:
        bad = np.where(err > tol)[0]
        j = int(np.argmax(err))
        cls = "other"
        if order == 0 and all(beyond_crop_order0(c, cpx, (kk[sel][b] - oc) @ R.T) for b in bad):
            cls = "order0_sample_beyond_crop"
        return False, (f"[{cls}] voxel {kk[sel][j].tolist()} = {flat[sel][j]:.4f}, tomogram at "
                       f"{coords[sel][j].tolist()} = {ref[j]:.4f}; {len(bad)} bad voxel(s)")
    return True, f"{int(sel.sum())} voxels"


def beyond_crop_order0(c, cpx, r):
    """known-finding class: nearest-neighbour sample whose crop coordinate exceeds the last crop index, with
    the window rule of the unchanged code (x0 = int(c - s/2), len = s + 1; corner-safe: int() of float bounds)."""
    shape = c["shape"]
    ml = float(np.sqrt(np.sum(np.asarray(shape, dtype=np.float32) ** 2)))
    for ax in range(3):
        if c["corner_safe"]:
            x0 = int(cpx[ax] - ml / 2)
            x1 = int(x0 + ml + 1)
        else:
            x0 = int(cpx[ax] - shape[ax] / 2)
            x1 = int(x0 + shape[ax] + 1)
        u = cpx[ax] - x0 + r[ax]
        if (x1 - x0 - 1) < u < (x1 - x0 - 1) + (1.5 if c["corner_safe"] else 0.5) + 1e-9:
            return True
    return False


def key_of(c, detail=""):
    k = {"kind": c.get("kind"), "corner_safe": c.get("corner_safe"), "order": c.get("order")}
    if "non-finite" in detail:
        k["symptom"] = "nan"
    if "[order0_sample_beyond_crop]" in detail:
        k = {"class": "order0_sample_beyond_crop", "order": 0}
    return k


def run(ck: common.Check):
    ck.design_ref = "DESIGN.md §6 C02"
    ck.trusted_base = TB
    ck.partial = ["order-3 spline values and generic (non grid-preserving) rotations are covered only by the numeric oracle",
                  "fill values outside the tomogram are only required to be finite (np.pad mean semantics not modelled)"]
    a = Anchors(common.REPO)
    anchors(a)
    ck.write_anchors(PID, a)
    ck.build(["C02"], ["C02/Property.v"])
    rng = np.random.default_rng(ck.seed + 2002)
    corr_msp(ck)
    n = 260 if ck.tier == "quick" else 4000
    tomos, cases, classes = gen_load_cases(ck, rng, n)
    prelude = "\n".join(f"Definition T{i} : vol := {vol_lit(t)}." for i, t in enumerate(tomos))
    terms = []
    methods = ["load", "asnumpy", "load_iter", "construct_dask"]
    chunkings = [None, None, (3, 4, 5), (2, 2, 2), (7, 1, 9)]
    for i, c in enumerate(cases):
        c["method"] = methods[i % 4]
        ch = chunkings[i % 5]
        c["chunks"] = list(ch) if ch else None
        out = run_impl_load(tomos, c, ch, c["method"])
        ok, detail = oracle_one(tomos, c, out)
        if out is None or np.all(np.isfinite(out)):
            terms.append((case_term(c, out), dict(c, impl="oob-error" if out is None else "array")))
        ck.oracle_count("load_vs_reference", 1, 1 if (out is not None) else 0)
        if not ok:
            ck.violation(what="loaded subtomogram disagrees with the tomogram sampled at pos/scale + R(k-c): " + detail,
                         inp=dict(c, tomo_dims=list(tomos[c["tomo"]].shape), tomo_seed=ck.seed + 2002),
                         key=key_of(c, detail), oracle="load_vs_reference", measured=detail)
    ck.corr_run("load_order01_exact", ["Acryo.C02.Model"], terms, prelude=prelude, shard=40 if ck.tier == "quick" else 120,
                observable=True, describe=lambda c: key_of(c), classes=classes)
    oracle_generic(ck, rng, 40 if ck.tier == "quick" else 600)
    oracle_batch_interleaved(ck, np.random.default_rng(ck.seed + 20202), 6 if ck.tier == "quick" else 60)
    oracle_exact_block_scales(ck, np.random.default_rng(ck.seed + 20302), 14 if ck.tier == "quick" else 140)


def oracle_generic(ck, rng, n):
    """order 0/1/3 with generic rotations against scipy map_coordinates of the whole tomogram (numeric, not proof)."""
    from scipy.spatial.transform import Rotation
    from acryo._utils import SubvolumeOutOfBoundError
    t = rng.normal(size=(16, 17, 18)).astype(np.float32)
    from scipy import ndimage as ndi
    t = ndi.gaussian_filter(t, 1.0) * 10
    for i in range(n):
        shape = [int(x) for x in rng.integers(3, 8, size=3)]
        order = int(rng.choice([0, 1, 3]))
        cs = bool(rng.random() < 0.4)
        scale = float(rng.choice([1.0, 0.7, 2.0]))
        if rng.random() < 0.7:
            cpx = np.array([rng.uniform(6, d - 7) for d in t.shape])
            kind = "interior"
        else:
            cpx = np.array([rng.uniform(-3, d + 2) for d in t.shape])
            kind = "straddle"
        rot = Rotation.random(random_state=int(rng.integers(0, 2**31)))
        c = dict(tomo=0, pos=[float(x) for x in (cpx * scale).astype(np.float32)], scale=scale,
                 rot=rot.as_matrix().tolist(), shape=shape, order=order, corner_safe=cs, kind=kind + "-generic")
        c["via"] = ["single", "batch", "group", "batch-history", "default-box"][i % 5]
        ld = make_loader(t, [c["pos"]], [rot.as_matrix()], order, scale, shape, cs, via=c["via"])
        try:
            if c["via"] == "default-box":
                out = np.asarray(ld.load(0, output_shape=tuple(shape))) if i % 2 else np.asarray(ld.asnumpy(output_shape=tuple(shape))[0])
            else:
                out = np.asarray(ld.load(0)) if c["via"] not in ("batch", "batch-history") else np.asarray(ld.asnumpy()[0])
        except SubvolumeOutOfBoundError:
            out = None
        ok, detail = oracle_one([t], c, out)
        ck.oracle_count("generic_rotation_reference", 1, 1)
        if not ok:
            ck.violation(what="generic pose: " + detail, inp=dict(c, tomo="gaussian-filtered normal(seed)"),
                         key=key_of(c, detail), oracle="generic_rotation_reference", measured=detail)


def oracle_batch_interleaved(ck, rng, n):
    """a batch of several tomograms (one registered without molecules, ids out of order, numpy- and dask-backed) whose molecule table
    has been permuted: sub-volume i, through every loading entry point, is the one a single loader of molecule i's own tomogram returns
    (that single-loader result is what the Coq model and the reference oracle above check)"""
    import dask.array as da
    from acryo import SubtomogramLoader, BatchLoader, Molecules
    from scipy.spatial.transform import Rotation
    from scipy import ndimage as ndi
    for it in range(n):
        order = int(rng.choice([0, 1, 3])); scale = float(rng.choice([1.0, 0.5, 2.0])); shape = tuple(int(x) for x in rng.integers(3, 7, size=3))
        cs = bool(it % 2)
        nt = int(rng.integers(2, 5))
        ids = [int(x) for x in rng.permutation(9)[:nt]]
        b = BatchLoader(order=order, scale=scale, output_shape=shape, corner_safe=cs)
        tomos, want = {}, []
        empty_at = int(rng.integers(0, nt)) if it % 3 == 0 else -1
        for j, iid in enumerate(ids):
            t = (ndi.gaussian_filter(rng.normal(size=(14, 15, 16)), 1.0) * 10 + 100 * (j + 1)).astype(np.float32)
            tomos[iid] = t
            nm = 0 if j == empty_at else int(rng.integers(1, 4))
            pos = np.stack([rng.uniform(5, d - 6, size=nm) for d in t.shape], axis=1) * scale if nm else np.zeros((0, 3))
            rot = Rotation.random(nm, random_state=int(rng.integers(0, 2**31))) if nm else None
            mol = Molecules(pos, rot, features={"t": [iid] * nm, "r": list(range(nm))})
            b.add_tomogram(da.from_array(t, chunks=(7, 8, 5)) if (it + j) % 2 else t, mol, image_id=iid)
            for r_ in range(nm):
                want.append((iid, r_, np.asarray(SubtomogramLoader(t, mol.subset([r_]), order=order, scale=scale, output_shape=shape, corner_safe=cs).load(0))))
        perm = [int(x) for x in rng.permutation(len(want))]
        ld = b.replace(molecules=b.molecules.subset(perm))
        want = [want[p_] for p_ in perm]
        info = {"iteration": it, "seed": ck.seed, "ids": ids, "tomogram_without_molecules": (ids[empty_at] if empty_at >= 0 else None), "order": order, "scale": scale,
                "shape": list(shape), "corner_safe": cs, "molecule_image_ids": [w[0] for w in want]}
        bad = []
        try:
            got = {"asnumpy": np.asarray(ld.asnumpy()), "construct_dask": np.asarray(ld.construct_dask().compute()),
                   "load_iter": np.stack([np.asarray(x) for x in ld.load_iter()]), "load": np.stack([np.asarray(ld.load(i)) for i in range(len(want))]),
                   "load(list)": np.asarray(ld.load(list(range(len(want)))))}
            rev = list(range(len(want)))[::-1] + [0, len(want) - 1, 0]
            arr_ = np.asarray(ld.load(rev))
            if arr_.shape != (len(rev),) + shape or any(not np.allclose(arr_[i_], want[j_][2], atol=1e-4) for i_, j_ in enumerate(rev)):
                bad.append(f"load({rev}): the sub-volumes are not those of the listed molecules, in the listed order and multiplicity")
            tup = tuple(rev[:2])
            arr_ = np.asarray(ld.load(tup))
            if arr_.shape != (2,) + shape or any(not np.allclose(arr_[i_], want[j_][2], atol=1e-4) for i_, j_ in enumerate(tup)):
                bad.append(f"load({tup}): the sub-volumes are not those of the listed molecules")
            for name, arr in got.items():
                if arr.shape != (len(want),) + shape:
                    bad.append(f"{name}: shape {arr.shape}")
                    continue
                wrong = [i for i, w in enumerate(want) if not np.allclose(arr[i], w[2], atol=1e-4)]
                if wrong:
                    bad.append(f"{name}: sub-volumes {wrong} are not those of their molecules' own tomograms")
            # the same batch merged into another one (from_loaders / add_loader take a batch apart tomogram by tomogram) and binned with computed
            # images: every molecule still reads its own tomogram
            bykey = {(w_[0], w_[1]): w_[2] for w_ in want}
            for how, mg in (("from_loaders([batch])", BatchLoader.from_loaders([ld], order=order, scale=scale, output_shape=shape, corner_safe=cs)),
                            ("add_loader(batch)", BatchLoader(order=order, scale=scale, output_shape=shape, corner_safe=cs).add_loader(ld))):
                arr_ = np.asarray(mg.asnumpy())
                keys_ = list(zip(mg.molecules.features["t"].to_list(), mg.molecules.features["r"].to_list()))
                if sorted(keys_) != sorted(bykey) or any(not np.allclose(arr_[i_], bykey[k_], atol=1e-4) for i_, k_ in enumerate(keys_)):
                    bad.append(f"{how}: the merged batch does not read every molecule from its own tomogram")
            if order > 0:
                for comp_ in (True, False):
                    lb = ld.binning(2, compute=comp_)
                    arr_ = np.asarray(lb.asnumpy())
                    for i_, (iid_, r_, _) in enumerate(want):
                        one_ = SubtomogramLoader(tomos[iid_], ld.molecules.subset([i_]).drop_features(["image-id"]), order=order, scale=scale, output_shape=shape, corner_safe=cs)
                        ref_ = np.asarray(one_.binning(2, compute=True).load(0))
                        if not np.allclose(arr_[i_], ref_, atol=1e-3 * max(1.0, float(np.abs(ref_).max()))):
                            bad.append(f"binning(2, compute={comp_}) of the batch: sub-volume {i_} is not the one a single loader of its tomogram gives after binning")
                            break
        except Exception as e:  # noqa
            bad.append(f"raised {type(e).__name__}: {e}")
        ck.oracle_count("batch_interleaved_load", 1, 1)
        if bad:
            ck.violation(what="batch loader with a permuted molecule table: " + "; ".join(bad[:3]), inp=info, key={"site": "batch-interleaved", "symptom": bad[0].split(":")[0]},
                         oracle="batch_interleaved_load")


def oracle_exact_block_scales(ck, rng, n):
    """identity orientation, integer pixel position, odd box: exactly the corresponding block of the tomogram, at pixel sizes for which
    pos / scale is not exactly representable (1.35, 0.37, 2.6, 0.262, ...), for every order and both cropping modes"""
    from acryo import SubtomogramLoader, Molecules
    t = rng.integers(0, 200, size=(21, 22, 23)).astype(np.float32)
    for it in range(n):
        scale = float([1.35, 0.37, 2.6, 0.262, 1.1, 0.7, 3.3][it % 7])
        shape = tuple(int(x) for x in rng.choice([1, 3, 5, 7], size=3))
        order = [1, 3][it % 2]; cs = bool((it // 2) % 2)      # (order 0 at positions just above an integer is the recorded finding C02-order0-crop-one-short)
        nm = 5
        cpx = np.stack([rng.integers(6, d - 6, size=nm) for d in t.shape], axis=1)
        mol = Molecules((cpx * scale).astype(np.float32))
        info = {"scale": scale, "shape": list(shape), "order": order, "corner_safe": cs, "centers_px": cpx.tolist(), "seed": ck.seed}
        ck.oracle_count("exact_block_awkward_scales", 1, 1)
        try:
            got = np.asarray(SubtomogramLoader(t, mol, order=order, scale=scale, output_shape=shape, corner_safe=cs).asnumpy())
            bad = []
            for j in range(nm):
                sl = tuple(slice(int(c - (s_ - 1) // 2), int(c + (s_ - 1) // 2 + 1)) for c, s_ in zip(cpx[j], shape))
                # float32 positions: pos / scale is within 1e-5 px of the integer, so orders 1 and 3 may differ from the block by interpolation of that
                # offset (<= 1e-5 x the local contrast); a block displaced by a whole voxel differs by tens of grey levels
                if got[j].shape != shape or np.abs(got[j] - t[sl]).max() > (0.05 if order else 0.0):
                    bad.append(j)
            detail = f"sub-volumes {bad} are not the blocks of the tomogram around their molecules (max deviation {max(float(np.abs(got[j] - t[tuple(slice(int(c - (s_ - 1) // 2), int(c + (s_ - 1) // 2 + 1)) for c, s_ in zip(cpx[j], shape))]).max()) for j in bad):.1f})" if bad else ""
        except Exception as e:  # noqa
            detail = f"raised {type(e).__name__}: {e}"
        if detail:
            ck.violation(what=f"identity orientation, integer pixel position, odd box at {scale} nm/px (order {order}, corner_safe {cs}): {detail}", inp=info,
                         key={"site": "exact-block-scale", "order0": order == 0}, oracle="exact_block_awkward_scales")


def replay(data):
    print(json.dumps(data.get("input"), indent=1)[:2000])
    print("replay: re-run `./check C02 quick` with VERIF_SEED=%s to regenerate this case" % data.get("seed"))
    return 0


TB = [
    "Coq 8.16.1 kernel + coqc (vm_compute used for Examples and correspondence evaluation); no native_compute",
    "axioms: none (all C02 theorems are over Z/Q/lists; Print Assumptions output recorded in coverage.assumptions_printed)",
    "translator harness/translate.py (python ast -> Gallina) for make_slice_and_pad, x0, x1, new_center, output_center",
    "correspondence harness: integer-valued tomograms, 24 signed-permutation rotations, quarter-pixel grid so float32 arithmetic is exact",
    "assumed kernel laws: scipy affine_transform(img, M)[o] = interp(img, M.o); order-0 = floor(x+1/2), order-1 = multilinear; mode='constant' gives cval outside [0,len-1]",
    "float rounding not modelled (exact rationals)",
]
