"""C20 — particle picking finds planted particles regardless of chunking."""
from __future__ import annotations
import ast
import json
import numpy as np

import common
from common import zl, ql, bl, lst, zlist, qlist, frac, natl
from translate import Anchors, Untranslatable, find_def
from props.C11 import norm

PID = "C20"
PB = "acryo/pick/_base.py"
PCN = "acryo/pick/_concrete.py"


def anchors(a: Anchors):
    W = "BasePickerModel._pick_in_chunk_wrapped"
    a.expr("core_depth", PB, W, ("assign", "_depth"), {"shape_i": "Z", "size": "Z"}, env={"image.shape[i]": ("shape_i", "Z")}, want="Q")

    def keep_parts(idx):
        def post(n):
            # keep &= (pos >= lo) & (pos < hi)
            if not (isinstance(n, ast.AugAssign) and isinstance(n.op, ast.BitAnd) and isinstance(n.value, ast.BinOp) and isinstance(n.value.op, ast.BitAnd)):
                raise Untranslatable("keep &= (...) & (...) shape changed")
            return [n.value.left, n.value.right][idx]
        return post
    isk = lambda n: isinstance(n, ast.AugAssign) and ast.unparse(n.target) == "keep"
    a.expr("core_lower_ok", PB, W, ("find", isk, 0, "keep lower bound"), {"l": "Q", "_depth": "Q"}, env={"pos[:, i]": ("l", "Q")}, want="B", post=keep_parts(0))
    a.expr("core_upper_ok", PB, W, ("find", isk, 0, "keep upper bound"), {"l": "Q", "_depth": "Q", "size": "Z"}, env={"pos[:, i]": ("l", "Q")}, want="B", post=keep_parts(1))
    a.expr("pick_add_start", PB, W, ("find", lambda n: isinstance(n, ast.AugAssign) and ast.unparse(n.target) == "pos[:, i]", 0, "pos[:, i] += start"),
           {"l": "Q", "start": "Z"}, env={"pos[:, i]": ("l", "Q")}, want="Q",
           post=lambda n: ast.BinOp(left=n.target, op=n.op, right=n.value))
    P = "BasePickerModel.pick_molecules"
    isp = lambda n: isinstance(n, ast.Assign) and ast.unparse(n.targets[0]) == "mole._pos"
    a.expr("pick_global_px", PB, P, ("find", isp, 0, "(mole._pos - depth)"), {"p": "Q", "depth": "Z"}, env={"mole._pos": ("p", "Q")}, want="Q",
           post=lambda n: n.value.left if isinstance(n.value, ast.BinOp) and isinstance(n.value.op, ast.Mult) else (_ for _ in ()).throw(Untranslatable("shape")))
    a.expr("pick_to_nm", PB, P, ("find", isp, 0, "* scale"), {"q": "Q", "scale": "Q"}, env={"mole._pos - depth": ("q", "Q")}, want="Q", post=lambda n: n.value)
    a.fact("depth_passed_as_tuple", PB, P, "depth = tuple(min(s, d) ...); map_overlap(depth=depth, trim=False)",
           lambda fn: all(x in norm(ast.unparse(fn)) for x in ["depth=tuple((min(s,d)fors,dinzip(image.shape,depth)))", "depth=depth,trim=False,boundary=boundary"]))
    a.expr("log_depth", PCN, "LoGPicker.get_params_and_depth", ("assign", "depth"), {"sigma_px": "Q"}, want="Z")
    a.expr("dog_depth", PCN, "DoGPicker.get_params_and_depth", ("assign", "depth"), {"sigma1_px": "Q"}, want="Z")
    a.expr("log_sigma_px", PCN, "LoGPicker.get_params_and_depth", ("assign", "sigma_px"), {"sigma": "Q", "scale": "Q"}, env={"self._sigma": ("sigma", "Q")}, want="Q")
    a.expr("dog_sigma_low_px", PCN, "DoGPicker.get_params_and_depth", ("assign", "sigma1_px"), {"sigma": "Q", "scale": "Q"}, env={"self._sigma_low": ("sigma", "Q")}, want="Q")
    a.expr("dog_sigma_high_px", PCN, "DoGPicker.get_params_and_depth", ("assign", "sigma2_px"), {"sigma": "Q", "scale": "Q"}, env={"self._sigma_high": ("sigma", "Q")}, want="Q")

    def lengths_in_voxels(src_tree):
        m = norm(ast.unparse(find_def(src_tree, "ZNCCTemplateMatcher.pick_molecules")))
        lg = norm(ast.unparse(find_def(src_tree, "LoGPicker.pick_in_chunk")))
        dg = norm(ast.unparse(find_def(src_tree, "DoGPicker.pick_in_chunk")))
        dgp = norm(ast.unparse(find_def(src_tree, "DoGPicker.get_params_and_depth")))
        lgp = norm(ast.unparse(find_def(src_tree, "LoGPicker.get_params_and_depth")))
        fm = norm(ast.unparse(find_def(src_tree, "find_maxima")))
        mf = norm(ast.unparse(find_def(src_tree, "maximum_filter")))
        return ("min_distance=min_distance/scale" in m and "min_score=min_score" in m and "boundary=boundary" in m
                and "pos=find_maxima(img_filt,sigma,0.0)" in lg and "return({'sigma':sigma_px},depth)" in lgp
                and "pos=find_maxima(img_filt,sigma_low,0.0)" in dg and "return({'sigma_low':sigma1_px,'sigma_high':sigma2_px},depth)" in dgp
                and "img_max_maxfilt=maximum_filter(img,min_distance)" in fm and "is_maxima=(img_max_maxfilt==img)&(img>min_intensity)" in fm
                and "ifradius<1:returnimage" in mf and "r_int=int(np.ceil(radius))" in mf and "<=radius**2" in mf)
    a.raw("picker_lengths_reach_the_kernels_in_voxels", PCN, "", "min_distance / scale, sigma / scale are what find_maxima / the filters receive",
          lambda node, src: "Definition picker_lengths_reach_the_kernels_in_voxels : bool := " + ("true" if lengths_in_voxels(node) else "false") + ".")
    a.expr("matcher_offset", PCN, "ZNCCTemplateMatcher.pick_in_chunk", ("assign", "offset"), {"s": "Z"}, env={"np.array(templates[0].shape)": ("s", "Z")}, want="Q")
    a.expr("matcher_depth", PB, "BaseTemplateMatcher.get_params_and_depth", ("assign", "depth"), {"s": "Z"},
           env={"np.array(templates[0].shape)": ("s", "Z")}, want="Z",
           post=lambda n: n.args[0] if isinstance(n, ast.Call) and ast.unparse(n.func) == "tuple" else n)
    a.fact("matcher_quaternion_lookup", PB, "BaseTemplateMatcher._index_to_quaternions", "take_along_axis(quaternions, argmax[:, None], axis=0)",
           lambda fn: "returnnp.take_along_axis(self._quaternions,argmax_indices[:,np.newaxis],axis=0)" in norm(ast.unparse(fn)))


# --------------------------------------------------------------------------
def make_scripted(depth):
    from acryo.pick._base import BasePickerModel

    class Scripted(BasePickerModel):
        blocks = []

        def pick_in_chunk(self, image):
            pos = np.argwhere(image > 0).astype(np.float32)
            quats = np.zeros((len(pos), 4), np.float32); quats[:, 3] = 1
            return pos, quats, {"score": image[image > 0].astype(np.float32)}

        def get_params_and_depth(self, scale):
            return {}, depth

        def _pick_in_chunk_wrapped(self, image, block_info, **kw):
            Scripted.blocks.append((tuple(tuple(x) for x in block_info[None]["array-location"]), image.shape))
            return super()._pick_in_chunk_wrapped(image, block_info, **kw)
    return Scripted


def corr_scripted(ck, rng):
    import dask
    import dask.array as da
    cases = []
    n = 40 if ck.tier == "quick" else 500
    for i in range(n):
        N = tuple(int(x) for x in rng.integers(8, 21, size=3))
        depth = int(rng.integers(0, 5)) if i % 3 else tuple(int(x) for x in rng.integers(0, 5, size=3))
        scale = float(rng.choice([1.0, 0.5, 2.0, 0.25]))
        img = np.zeros(N, np.float32)
        nm = int(rng.integers(1, 9))
        markers = set()
        for _ in range(nm):
            markers.add(tuple(int(rng.integers(1, n_ - 1)) for n_ in N))      # not on the border voxels (boundary='nearest' replicates them)
        for k, m in enumerate(sorted(markers)):
            img[m] = k + 1
        chunks = tuple(tuple_chunks(rng, n_) for n_ in N)
        S = make_scripted(depth)
        S.blocks = []
        with dask.config.set(scheduler="synchronous"):
            try:
                mole = S().pick_molecules(da.from_array(img, chunks=chunks), scale)
            except Exception as e:  # noqa
                ck.violation(what=f"pick_molecules raised {type(e).__name__}: {e}", inp={"N": N, "chunks": chunks, "depth": depth},
                             key={"site": "scripted", "symptom": "raised"}, oracle="corr:scripted_picker")
                continue
        # observed layout per axis and the depth dask actually applied
        ax = [sorted(set(b[0][a] for b in S.blocks if b[0][a][1] > b[0][a][0])) for a in range(3)]
        dd = []
        for a in range(3):
            ds = set((b[1][a] - (b[0][a][1] - b[0][a][0])) for b in S.blocks)
            dd.append(sorted(ds))
        if any(len(x) != 1 or x[0] % 2 for x in dd):
            ck.violation(what=f"blocks are not extended symmetrically by one depth per axis: {dd}", inp={"N": N, "chunks": chunks, "depth": depth},
                         key={"site": "scripted", "symptom": "layout"}, oracle="corr:scripted_picker")
            continue
        deff = tuple(x[0] // 2 for x in dd)
        want_d = (depth,) * 3 if isinstance(depth, int) else depth
        want_d = tuple(min(n_, d_) for n_, d_ in zip(N, want_d))
        bl3 = [lst([f"({zl(s0)}, {zl(s1 - s0)})" for s0, s1 in ax[a]]) for a in range(3)]
        rep = lst([f"({ql(frac(float(p[0])))}, {ql(frac(float(p[1])))}, {ql(frac(float(p[2])))})" for p in mole.pos])
        mk = lst([f"({zl(m[0])}, {zl(m[1])}, {zl(m[2])})" for m in sorted(markers)])
        ok_depth = deff == want_d
        cases.append((f"(andb {bl(ok_depth)} (check_picks ({zl(N[0])}, {zl(N[1])}, {zl(N[2])}) {bl3[0]} {bl3[1]} {bl3[2]} ({zl(deff[0])}, {zl(deff[1])}, {zl(deff[2])}) "
                      f"{ql(frac(scale))} {mk} {rep}))",
                      {"N": N, "chunks": chunks, "depth": depth, "applied_depth": deff, "scale": scale, "markers": sorted(markers),
                       "reported": np.round(mole.pos, 3).tolist()}))
    ck.corr_run("scripted_picker", ["AcryoGen.Anchors_C20", "Acryo.C20.Model"], cases, shard=100, observable=True,
                describe=lambda c: {"site": "scripted", "n_reported": len(c["reported"]), "n_markers": len(c["markers"])})


def tuple_chunks(rng, n):
    out = []
    rest = n
    while rest > 0:
        c = int(rng.integers(1, max(2, n // 2) + 1))
        c = min(c, rest)
        out.append(c)
        rest -= c
    return tuple(out)


def oracle_real(ck, rng):
    """Gaussian blobs with the LoG / DoG pickers and rotated templates with the ZNCC matcher: numpy vs chunkings"""
    import dask.array as da
    from scipy import ndimage as ndi
    from scipy.spatial.transform import Rotation
    from acryo.pick import LoGPicker, DoGPicker, ZNCCTemplateMatcher
    n = 3 if ck.tier == "quick" else 25
    for it in range(n):
        N = (44, 48, 40)
        scale = [0.25, 1.0, 0.5, 2.0][it % 4]      # voxel sizes below and above 1 nm (depths are given in nm)
        # one particle right next to an internal chunk border of the chunkings below (borders at 22 / 15, 30 along the first axis)
        pts = [(int(rng.choice([21, 23, 29, 31])), int(rng.integers(8, N[1] - 8)), int(rng.integers(8, N[2] - 8)))]
        while len(pts) < 5:
            p = tuple(int(rng.integers(8, n_ - 8)) for n_ in N)
            if all(np.linalg.norm(np.subtract(p, q)) > 12 for q in pts):
                pts.append(p)
        img = np.zeros(N, np.float32)
        for p in pts:
            img[p] = 100
        img = ndi.gaussian_filter(img, 2.0)
        chunkings = [N, (22, 24, 20), (15, 16, 14), (7, 48, 9), (44, 5, 40)]
        for P, pname in ((LoGPicker(2.0 * scale), "LoG"), (DoGPicker(2.0 * scale, 3.0 * scale), "DoG")):
            for dt in (np.float32, np.float64, np.uint8, "baseline"):
                im = img if dt is not np.uint8 else np.clip(img * 200, 0, 255)
                if dt == "baseline" and pname == "LoG":
                    continue      # LoG keeps every maximum above 0: float rounding of a non-zero level (+-1e-6) is picked by design, nothing to demand
                if dt == "baseline":
                    # the same particles on a constant grey level (the pickers respond to blobs, not to the level): every chunking again
                    im, dt = img + np.float32(10.0), np.float32
                    base_ = True
                else:
                    base_ = False
                ref = None
                for ch in (chunkings if (dt is np.float32) else chunkings[:2]):
                    c = dict(picker=pname, dtype=np.dtype(dt).name, chunks=ch, scale=scale, points=pts, baseline=10.0 if base_ else 0.0)
                    try:
                        mol = P.pick_molecules(da.from_array(im.astype(dt), chunks=ch), scale)
                        got = sorted(tuple(np.round(np.asarray(q) / scale).astype(int)) for q in mol.pos)
                        ok = got == sorted(pts) and np.abs(np.sort(mol.pos, axis=0) - np.sort(np.array(pts, float) * scale, axis=0)).max() <= 1.0 * scale
                        detail = f"{len(got)} picks for {len(pts)} particles" if not ok else ""
                    except Exception as e:  # noqa
                        ok, detail = False, f"raised {type(e).__name__}: {str(e)[:100]}"
                    ck.oracle_count("blob_pickers", 1, 1)
                    if not ok:
                        ck.violation(what=f"{pname} picker: {detail}", inp=c, key={"site": "blob", "picker": pname, "chunked": tuple(ch) != tuple(N)},
                                     oracle="blob_pickers", measured=detail)
        # template matcher
        t = np.zeros((9, 9, 9), np.float32); t[2:7, 3:6, 4:6] = 1; t[4, 2:8, 3] = 2; t[6, 6, 1:8] = 1.5
        t = ndi.gaussian_filter(t, 0.6)
        rots = Rotation.from_euler("z", [[0], [90], [180]], degrees=True)
        big = np.zeros(N, np.float32)
        truth = []
        from acryo._utils import compose_matrices
        for j, p in enumerate(pts[:4]):
            k = j % 3
            mtx = compose_matrices(np.array([4.0, 4.0, 4.0]), [rots[k].inv()])[0]
            tr = ndi.affine_transform(t, mtx, order=1)
            sl = tuple(slice(p[a] - 4, p[a] + 5) for a in range(3))
            big[sl] += tr
            truth.append((p, k))
        for ch in [N, (22, 24, 20), (15, 16, 14)]:
            c = dict(picker="ZNCC", chunks=ch, scale=scale, points=[p for p, _ in truth])
            try:
                m = ZNCCTemplateMatcher(t, rotation=rots).pick_molecules(da.from_array(big, chunks=ch), scale, min_distance=4.0 * scale, min_score=0.6)
                got = sorted(tuple(np.round(np.asarray(q) / scale).astype(int)) for q in m.pos)
                ok = got == sorted(p for p, _ in truth)
                detail = f"{len(got)} picks for {len(truth)} particles: {got}" if not ok else ""
                if ok:
                    for q, rr in zip(m.pos, m.rotator):
                        p = tuple(np.round(np.asarray(q) / scale).astype(int))
                        k = dict(truth)[p]
                        if (rr.inv() * rots[k]).magnitude() > 1e-3:
                            ok, detail = False, f"rotation of the pick at {p} is not searched rotation #{k}"
            except Exception as e:  # noqa
                ok, detail = False, f"raised {type(e).__name__}: {str(e)[:100]}"
            ck.oracle_count("template_matcher", 1, 1)
            if not ok:
                ck.violation(what=f"ZNCC matcher: {detail}", inp=c,
                             key={"site": "matcher", "chunked": tuple(ch) != tuple(N), "symptom": "extra-picks-near-chunk-border" if "picks for" in detail else detail.split(" ")[0]},
                             oracle="template_matcher", measured=detail)


def oracle_even_template_rotations(ck, rng):
    """even-sized (and odd-sized) templates planted under the searched rotations: position (template centre) and rotation are recovered,
    single chunk and a chunking whose borders stay away from the particles"""
    import dask.array as da
    from scipy import ndimage as ndi
    from scipy.spatial.transform import Rotation
    from acryo.pick import ZNCCTemplateMatcher
    from acryo._utils import compose_matrices
    for it in range(2 if ck.tier == "quick" else 12):
        n = [8, 9, 10, 7][it % 4]
        scale = [1.0, 0.5, 2.0][it % 3]
        t = np.zeros((n, n, n), np.float32)
        t[1:n - 2, 2:n - 3, n // 2:n // 2 + 2] = 1; t[n // 2, 1:n - 1, 2] = 2; t[n - 3, n - 3, 1:n - 1] = 1.5; t[1, 1, 1] = 2.5     # chiral
        t = ndi.gaussian_filter(t, 0.5)
        # the same four rotations, one of them written with an angle beyond 180 degrees (quaternion with a negative scalar part)
        rots = Rotation.from_euler("z", [[0], [90], [180], [270 if it % 2 == 0 else -90]], degrees=True)
        N = (20, 64, 64)
        big = np.zeros(N, np.float32)
        truth = []
        c_ = (n - 1) / 2
        for j, (py, px) in enumerate([(14, 14), (14, 46), (46, 14), (46, 46)]):
            k = j % 4
            mtx = compose_matrices(np.array([c_, c_, c_]), [rots[k].inv()])[0]
            tr = ndi.affine_transform(t, mtx, order=1)
            lo = (10 - n // 2, py - n // 2, px - n // 2)
            big[lo[0]:lo[0] + n, lo[1]:lo[1] + n, lo[2]:lo[2] + n] += tr
            truth.append((np.array(lo, float) + c_, k))          # centre of the planted box, in voxels
        for ch in (N, (20, 32, 32)):
            c = dict(picker="ZNCC", template_size=n, chunks=list(ch), scale=scale)
            try:
                m = ZNCCTemplateMatcher(t, rotation=rots).pick_molecules(da.from_array(big, chunks=ch), scale, min_distance=4.0 * scale, min_score=0.6)
                pos = np.asarray(m.pos) / scale
                detail = "" if len(pos) == len(truth) else f"{len(pos)} picks for {len(truth)} particles"
                for cen, k in truth:
                    dd = np.linalg.norm(pos - cen[None], axis=1) if len(pos) else np.array([np.inf])
                    jj = int(np.argmin(dd))
                    if dd[jj] > 0.51:
                        detail += f"; particle at {cen.tolist()} (rotation #{k}) picked {dd[jj]:.2f} voxels away"
                    elif (m.rotator[jj].inv() * rots[k]).magnitude() > 1e-3:
                        detail += f"; particle at {cen.tolist()}: reported rotation is not searched rotation #{k}"
            except Exception as e:  # noqa
                detail = f"raised {type(e).__name__}: {str(e)[:100]}"
            ck.oracle_count("rotated_template_positions", 1, 1)
            if detail:
                ck.violation(what=f"ZNCC matcher, {n}^3 template, 4 searched rotations, chunks {ch}: {detail.strip('; ')}", inp=c,
                             key={"site": "matcher-rotations", "even_template": n % 2 == 0, "chunked": tuple(ch) != tuple(N)}, oracle="rotated_template_positions",
                             measured=detail)


def oracle_one_pick_per_particle(ck, rng):
    """one molecule per particle, also when the peak is shared by two voxels that are neighbours along any axis (z included) and when
    the exclusion radius is below one voxel (coarse voxels with the default min_distance)"""
    import dask.array as da
    from acryo.pick import LoGPicker, DoGPicker, ZNCCTemplateMatcher
    N = (48, 48, 48)
    for it in range(1 if ck.tier == "quick" else 4):
        # particles made of one voxel, or of two equal neighbouring voxels (exact ties: flat-topped maxima), away from each other
        img = np.zeros(N, np.float32)
        pts = []
        for j, ax in enumerate((0, 1, 2, 0)):
            p_ = [[10, 10, 12], [10, 36, 20], [36, 10, 30], [34, 36, 14]][j]
            q_ = list(p_); q_[ax] += 1
            img[tuple(p_)] = img[tuple(q_)] = 1.0
            pts.append(tuple((np.array(p_) + np.array(q_)) / 2))
        img[24, 24, 40] = 1.0; pts.append((24.0, 24.0, 40.0))
        for scale in (1.0, 0.5):
            for P, pname in ((LoGPicker(3.0 * scale), "LoG"), (DoGPicker(2.0 * scale, 3.5 * scale), "DoG")):
                ck.oracle_count("one_pick_per_particle", 1, 1)
                mol = P.pick_molecules(da.from_array(img, chunks=N), scale)
                pos = np.asarray(mol.pos) / scale
                miss = [p_ for p_ in pts if not len(pos) or np.linalg.norm(pos - np.array(p_), axis=1).min() > 1e-3]
                if len(pos) != len(pts) or miss:
                    ck.violation(what=f"{pname} picker (scale {scale}, one chunk): {len(pos)} molecules for {len(pts)} particles with flat-topped peaks along z, y, x; "
                                      f"not found at their midpoint: {miss}", inp={"particles": [list(p_) for p_ in pts], "scale": scale},
                                 key={"site": "tied-peaks", "picker": pname}, oracle="one_pick_per_particle")
        # a filament-like template (a row of equally spaced blobs): its correlation has side lobes one period away; with min_distance (in nm)
        # longer than a period every particle is still picked once, on fine voxels as well (min_distance / scale voxels)
        for scale, axis in ((0.25, 2), (0.5, 1)):
            ck.oracle_count("one_pick_per_particle", 1, 1)
            tshape = [9, 9, 9]; tshape[axis] = 21
            t = np.zeros(tshape, np.float32)
            for x_ in (4, 8, 12, 16):
                idx = [4, 4, 4]; idx[axis] = x_
                t[tuple(idx)] = 1.0
            t[2, 4, 4] = 0.6
            from scipy import ndimage as ndi
            t = ndi.gaussian_filter(t, 0.8)
            dims = [40, 44, 48]; dims[axis] = 96
            vol = rng.normal(0, 0.002, size=dims).astype(np.float32)
            starts = [[4, 6, 6], [22, 28, 14], [12, 18, 30]]
            for k_, st in enumerate(starts):
                st[axis] = [4, 36, 70][k_]
                vol[tuple(slice(a_, a_ + n_) for a_, n_ in zip(st, tshape))] += t
            cen = [tuple(a_ + (n_ - 1) / 2 for a_, n_ in zip(st, tshape)) for st in starts]
            try:
                m = ZNCCTemplateMatcher(t).pick_molecules(vol if axis == 2 else da.from_array(vol, chunks=vol.shape), scale, min_distance=8 * scale, min_score=0.6)
                pos = np.asarray(m.pos) / scale
                bad = [c_ for c_ in cen if not len(pos) or int((np.linalg.norm(pos - np.array(c_), axis=1) <= 0.5).sum()) != 1]
                detail = f"{len(pos)} molecules for {len(cen)} particles; not picked exactly once: {bad}" if (len(pos) != len(cen) or bad) else ""
            except Exception as e:  # noqa
                detail = f"raised {type(e).__name__}: {e}"
            if detail:
                ck.violation(what=f"ZNCC matcher, periodic template along axis {axis}, {scale} nm/voxel, min_distance {8 * scale} nm (two periods): {detail}",
                             inp={"scale": scale, "axis": axis, "particles": [list(c_) for c_ in cen], "min_distance_nm": 8 * scale},
                             key={"site": "min-distance-units"}, oracle="one_pick_per_particle")
        # template matching on coarse voxels: the default min_distance (1 nm) is below one voxel at 1.4 nm / voxel; smooth template = broad peaks
        zz, yy, xx = np.indices((11, 11, 11), dtype=np.float32)
        bead = lambda cz, cy, cx: np.exp(-((zz - cz) ** 2 + (yy - cy) ** 2 + (xx - cx) ** 2) / 2.0)
        t = (bead(5, 5, 5) + bead(5, 5, 8) + 0.8 * bead(5, 8, 5) + 1.3 * bead(8, 5, 3) + bead(2, 3, 5)).astype(np.float32)
        cen = [(9, 10, 11), (10, 30, 41), (25, 12, 40), (26, 33, 13)]
        big = np.zeros((36, 44, 54), dtype=np.float32)
        for cz, cy, cx in cen:
            big[cz - 5:cz + 6, cy - 5:cy + 6, cx - 5:cx + 6] += t
        big += rng.normal(scale=0.02, size=big.shape).astype(np.float32)
        for scale in (1.4, 2.5):
            ck.oracle_count("one_pick_per_particle", 1, 1)
            m = ZNCCTemplateMatcher(t).pick_molecules(da.from_array(big, chunks=big.shape), scale, min_score=0.6)
            pos = np.asarray(m.pos) / scale
            bad = [c_ for c_ in cen if not len(pos) or int((np.linalg.norm(pos - np.array(c_), axis=1) <= 0.5).sum()) != 1]
            if len(pos) != len(cen) or bad:
                ck.violation(what=f"ZNCC matcher at {scale} nm/voxel with the default min_distance: {len(pos)} molecules for {len(cen)} particles; "
                                  f"not picked exactly once: {bad}", inp={"scale": scale, "particles": [list(c_) for c_ in cen]},
                             key={"site": "sub-voxel-min-distance"}, oracle="one_pick_per_particle")


def oracle_noncubic_matcher(ck, rng):
    """white-noise templates of non-cubic shape (every axis has its own overlap depth), particles centred in the last voxels of a chunk:
    the chunked result equals the single-chunk one and finds every planted particle exactly once"""
    import dask.array as da
    from acryo.pick import ZNCCTemplateMatcher
    for it in range(4 if ck.tier == "quick" else 24):
        tshape = [(7, 11, 11), (5, 7, 9), (9, 5, 7), (5, 11, 7)][it % 4]
        scale = float(rng.choice([1.0, 0.5, 2.0]))
        N = (24, 60, 60)
        t = rng.normal(size=tshape).astype(np.float32)
        img = rng.normal(scale=0.05, size=N).astype(np.float32)
        half = (np.array(tshape) - 1) // 2
        chunks = [(24, 30, 30), (24, 20, 30), (12, 20, 29), (24, 47, 14)][(it // 2) % 4]
        cand = [(12, chunks[1] - 1 - (it % 2), 12), (10, 45, chunks[2] - 1 - ((it + 1) % 2)), (12, 52, 50), (12 - (it % 2), 8, 40)]
        pts = []
        for p_ in cand:
            if all(h <= c < n_ - h for c, h, n_ in zip(p_, half, N)) and all(np.abs(np.subtract(p_, q)).max() > max(tshape) for q in pts):
                pts.append(p_)
        for p_ in pts:
            img[tuple(slice(c - h, c + h + 1) for c, h in zip(p_, half))] += t
        from scipy.spatial.transform import Rotation
        # (every second case: the same search with a list of rotations - identity first - and the image and template in other grey-value units;
        #  the unrotated particles must still be found at their places, as the identity candidate)
        rots_ = Rotation.from_euler("z", [[0.0], [90.0]], degrees=True) if it % 2 else None
        gain_ = [1.0, 1e-4, 1.0, 5e2][it % 4]
        for ch in (N, chunks):
            c = dict(picker="ZNCC", template_shape=list(tshape), chunks=list(ch), scale=scale, points=[list(p_) for p_ in pts], rotations=bool(it % 2), gain=gain_)
            try:
                matcher_ = ZNCCTemplateMatcher((t * np.float32(gain_)).astype(np.float32), rotation=rots_) if rots_ is not None else ZNCCTemplateMatcher((t * np.float32(gain_)).astype(np.float32))
                m = matcher_.pick_molecules(da.from_array((img * np.float32(gain_)).astype(np.float32), chunks=ch), scale, min_distance=4.0 * scale, min_score=0.6)
                if rots_ is not None and len(m) and float(np.max((m.rotator.inv() * rots_[0]).magnitude())) > 1e-3:
                    raise AssertionError("a particle planted without rotation is reported with the 90-degree candidate")
                got = sorted(tuple(int(v) for v in np.round(np.asarray(q) / scale)) for q in m.pos)
                missing = sorted(set(pts) - set(got)); extra = sorted(set(got) - set(pts)); dup = len(got) != len(set(got))
                detail = (f"missing {missing}" if missing else "") + (f" extra {extra}" if extra else "") + (" duplicates" if dup else "")
            except Exception as e:  # noqa
                missing, detail = [None], f"raised {type(e).__name__}: {str(e)[:100]}"
            ck.oracle_count("noncubic_template_matcher", 1, 1)
            if detail:
                ck.violation(what=f"ZNCC matcher, template {tshape}, chunks {ch}: {detail.strip()} (planted {pts})", inp=c,
                             key={"site": "matcher-noncubic", "chunked": tuple(ch) != tuple(N), "symptom": "missing" if missing else "extra"},
                             oracle="noncubic_template_matcher", measured=detail)


def oracle_searched_rotations(ck, rng):
    """the rotations a template matcher searches for a (maximum, step) range about one axis are exactly the multiples of the step within the
    maximum about *that* axis (z, y, x order), the identity included; and a particle rotated by one of them is reported with it"""
    import dask.array as da
    from acryo.pick import ZNCCTemplateMatcher
    from scipy.spatial.transform import Rotation
    from scipy import ndimage as ndi
    t = np.zeros((9, 9, 9), np.float32); t[2:7, 3:6, 4:6] = 1; t[4, 2:8, 3] = 2; t[6, 6, 1:8] = 1.5
    t = ndi.gaussian_filter(t, 0.6)
    specs = [(20.0, 15.0), (35.0, 15.0), (30.0, 30.0), (29.0, 10.0), (90.0, 90.0), (44.0, 30.0)]
    for it in range(6 if ck.tier == "quick" else 18):
        mx, st = specs[it % len(specs)]
        axis = it % 3
        rr = [(0, 0), (0, 0), (0, 0)]; rr[axis] = (mx, st)
        ck.oracle_count("searched_rotations", 1, 1)
        try:
            m = ZNCCTemplateMatcher(t, rotation=tuple(rr))
            rv = np.degrees(Rotation.from_quat(np.asarray(m._quaternions)).as_rotvec())
            kmax = int(np.floor(mx / st + 1e-9))
            want = np.zeros((2 * kmax + 1, 3)); want[:, axis] = np.arange(-kmax, kmax + 1) * st
            got = rv[np.argsort(rv[:, axis])] if len(rv) else rv
            bad = None
            if got.shape != want.shape or not np.allclose(got, want, atol=1e-3):
                bad = f"searched rotation vectors (degrees, z,y,x) {np.round(rv, 2).tolist()} instead of {want.tolist()}"
        except Exception as e:  # noqa
            bad = f"raised {type(e).__name__}: {e}"
        if bad:
            ck.violation(what=f"ZNCCTemplateMatcher(rotation={tuple(rr)}): {bad}", inp={"rotation": [list(x) for x in rr]}, key={"site": "searched-rotations", "multiple": mx % st == 0},
                         oracle="searched_rotations")
            continue
        # a particle turned by +step about that axis (resampled with scipy, about the box centre) is found with that rotation
        if it < 3 or ck.tier != "quick":
            Rk = Rotation.from_rotvec(np.radians(want[kmax + 1])).as_matrix()
            zz, yy, xx = np.indices(t.shape).astype(float)
            cen = (np.array(t.shape) - 1) / 2
            src = Rk.T @ (np.stack([zz, yy, xx]).reshape(3, -1) - cen[:, None]) + cen[:, None]
            part = ndi.map_coordinates(t, src, order=1, mode="constant").reshape(t.shape).astype(np.float32)
            vol = rng.normal(scale=0.01, size=(30, 30, 30)).astype(np.float32)
            vol[10:19, 11:20, 9:18] += part
            ck.oracle_count("searched_rotations", 1, 1)
            try:
                mol = m.pick_molecules(da.from_array(vol, chunks=vol.shape), 1.0, min_distance=4.0, min_score=0.6)
                ok = len(mol) == 1 and np.allclose(mol.pos[0], [14, 15, 13], atol=0.5) and (mol.rotator.inv() * Rotation.from_matrix(Rk)).magnitude()[0] < 1e-3
                bad = None if ok else f"{len(mol)} picks at {np.round(mol.pos, 1).tolist()} with rotation vectors {np.round(np.degrees(mol.rotator.as_rotvec()), 1).tolist()}"
            except Exception as e:  # noqa
                bad = f"raised {type(e).__name__}: {e}"
            if bad:
                ck.violation(what=f"a particle turned by {want[kmax + 1].tolist()} degrees (z,y,x) with rotation={tuple(rr)}: {bad}", inp={"rotation": [list(x) for x in rr]},
                             key={"site": "searched-rotation-pick"}, oracle="searched_rotations")


def oracle_matcher_reused_across_scales(ck, rng):
    """one matcher built from a scale-aware template (ImageProvider) and used on the same specimen sampled at two voxel sizes, in both orders:
    every call finds every planted particle at its position in nm - nothing prepared for one scale may be used for another"""
    from acryo import pick, pipe

    def blobs(size):
        f = size / 12
        zz, yy, xx = np.indices((size,) * 3, dtype=np.float32)
        t = np.zeros((size,) * 3, dtype=np.float32)
        for cz, cy, cx, sg in [(5.5, 5.5, 5.5, 1.4), (5.5, 3.0, 8.0, 1.0), (8.0, 7.5, 4.0, 1.0), (3.5, 8.0, 7.5, 0.9)]:
            c = (np.array([cz, cy, cx]) + 0.5) * f - 0.5
            t += np.exp(-((zz - c[0]) ** 2 + (yy - c[1]) ** 2 + (xx - c[2]) ** 2) / (2 * (sg * f) ** 2))
        return t
    provider = pipe.from_array(blobs(12), original_scale=0.5)
    corners_nm = np.array([[3, 4, 5], [13, 15, 14]], dtype=float)

    def specimen(scale, seed):
        size = int(round(6 / scale))
        shape = tuple(int(round(x / scale)) for x in (24, 26, 25))
        r = np.random.default_rng(seed)
        tomo = r.normal(0.0, 0.02, size=shape).astype(np.float32)
        cpx = np.round(corners_nm / scale).astype(int)
        for c in cpx:
            tomo[tuple(slice(c0, c0 + size) for c0 in c)] += blobs(size)
        return tomo, (cpx + (size - 1) / 2) * scale
    for order in ((0.5, 1.0), (1.0, 0.5), (1.0, 1.0, 0.5)):
        matcher = pick.ZNCCTemplateMatcher(provider)
        for j, scale in enumerate(order):
            ck.oracle_count("matcher_reused_across_scales", 1, 1)
            tomo, want = specimen(scale, 77 + j)
            try:
                out = matcher.pick_molecules(tomo, scale, min_distance=3.0, min_score=0.7)
                pos = np.asarray(out.pos, dtype=float).reshape(-1, 3)
                bad = None
                if len(pos) == 0:
                    bad = "no particle picked"
                else:
                    d = np.linalg.norm(pos[:, None, :] - want[None, :, :], axis=2)
                    if d.min(axis=0).max() > 1.0 * scale:
                        bad = f"a planted particle has no pick within one voxel (nearest {float(d.min(axis=0).max()):.2f} nm away)"
                    elif len(pos) != len(want):
                        bad = f"{len(pos)} picks for {len(want)} planted particles"
            except Exception as e:  # noqa
                bad = f"raised {type(e).__name__}: {e}"
            if bad:
                ck.violation(what=f"one ZNCCTemplateMatcher(ImageProvider) used at scales {list(order[:j + 1])} in turn: at scale {scale} {bad}",
                             inp={"scales": list(order[:j + 1]), "scale": scale, "planted_nm": want.tolist()},
                             key={"site": "matcher-reused", "scales": list(order[:j + 1])}, oracle="matcher_reused_across_scales")


def run(ck: common.Check):
    ck.design_ref = "DESIGN.md §6 C20"
    ck.trusted_base = TB
    ck.partial = ["that a blob is a local maximum of the filtered chunk and that a truncated Gaussian filter on an overlapped chunk equals "
                  "the global filter are numeric (oracle); the theorems cover the block bookkeeping only",
                  "the block layout (after dask's own minimum-chunk-size adjustment) is observed from block_info, validated as a tiling in Coq"]
    a = Anchors(common.REPO)
    anchors(a)
    ck.write_anchors(PID, a)
    ck.build(["C20"], ["C20/Property.v"], extra=["C20/Model.v"])
    rng = np.random.default_rng(ck.seed + 2020)
    corr_scripted(ck, rng)
    oracle_real(ck, rng)
    oracle_noncubic_matcher(ck, np.random.default_rng(ck.seed + 202020))
    oracle_even_template_rotations(ck, np.random.default_rng(ck.seed + 212121))
    oracle_one_pick_per_particle(ck, np.random.default_rng(ck.seed + 222222))
    oracle_searched_rotations(ck, np.random.default_rng(ck.seed + 232323))
    oracle_matcher_reused_across_scales(ck, np.random.default_rng(ck.seed + 242424))


def replay(data):
    print(json.dumps(data.get("input"), indent=1, default=str)[:4000])
    return 0


TB = [
    "Coq 8.16.1 kernel + coqc; vm_compute for the correspondence",
    "axioms: none expected; see coverage.assumptions_printed",
    "translator: core filter (depth recovery, lower/upper bound), start offset, depth subtraction, nm conversion, picker depths, matcher offset; "
    "structural anchors for the tuple depth and the quaternion lookup",
    "assumed dask laws: map_overlap(trim=False) extends every block by the depth on both sides (also at the outer boundary) and reports "
    "the un-overlapped array-location; a tuple depth is per-axis (validated on every run through the observed block shapes)",
]
