"""C01 — alignment moves each molecule onto the true particle pose."""
from __future__ import annotations
import ast
import json
import numpy as np

import common
from common import zl, ql, bl, lst, zlist, qlist, frac
from translate import Anchors
from props import C11
from props.C11 import vlit, mlit, norm

PID = "C01"
LB = "acryo/loader/_base.py"
LM = "acryo/loader/_misc.py"


def anchors(a: Anchors):
    a.expr("post_shift_nm", LB, "LoaderBase._post_align", ("find", lambda n: isinstance(n, ast.Assign) and ast.unparse(n.targets[0]) == "local_shifts[i]", 0, "local_shifts[i] ="),
           {"loc_shift": "Q", "scale": "Q"}, env={"self.scale": ("scale", "Q")}, want="Q", post=lambda n: n.value)
    a.expr("post_shift_nm_multi", LB, "LoaderBase._post_align_multi_templates", ("find", lambda n: isinstance(n, ast.Assign) and ast.unparse(n.targets[0]) == "local_shifts[i]", 0, "local_shifts[i] ="),
           {"loc_shift": "Q", "scale": "Q"}, env={"self.scale": ("scale", "Q")}, want="Q", post=lambda n: n.value)
    a.expr("align_pos_px", LB, "LoaderBase.align", ("find", lambda n: isinstance(n, ast.keyword) and n.arg == "pos", 0, "pos="),
           {"p": "Q", "scale": "Q"}, env={"self.molecules.pos": ("p", "Q"), "self.scale": ("scale", "Q")}, want="Q", post=lambda n: n.value)
    a.expr("align_max_shift_px", LB, "LoaderBase.align", ("assign", "_max_shifts_px"), {"m": "Q", "scale": "Q"},
           env={"self.scale": ("scale", "Q"), "tuple(np.asarray(max_shifts) / self.scale)": None} and
               {"self.scale": ("scale", "Q"), "np.asarray(max_shifts)": ("m", "Q")}, want="Q",
           post=lambda n: n.args[0] if isinstance(n, ast.Call) and ast.unparse(n.func) == "tuple" else n)
    # units of the search range on every path into a model's align(): nanometres are divided by the scale exactly once
    def units_flow(tree, src):
        from translate import find_def
        t_al = norm(ast.unparse(find_def(tree, "LoaderBase.align")))
        t_mt = norm(ast.unparse(find_def(tree, "LoaderBase.align_multi_templates")))
        t_nt = norm(ast.unparse(find_def(tree, "LoaderBase.align_no_template")))
        ok = lambda c: "true" if c else "false"
        # (1) align -> its own tasks: px = max_shifts / scale, computed after the multi-template hand-over
        single = (t_al.count("_max_shifts_px=tuple(np.asarray(max_shifts)/self.scale)") == 1 and "max_shifts=_max_shifts_px,output_shape=model.input_shape" in t_al
                  and t_al.count("/self.scale") == 2)          # max_shifts once, pos once
        # (2) align -> align_multi_templates: nanometres and all model options are handed over untouched
        handover = ("returnself.align_multi_templates(list(model.template),mask=mask,max_shifts=max_shifts,alignment_model=alignment_model,backend=backend,**align_kwargs)" in t_al
                    and t_al.index("returnself.align_multi_templates(") < t_al.index("_max_shifts_px="))
        # (3) align_multi_templates: one division
        multi = (t_mt.count("_max_shifts_px=tuple(np.asarray(max_shifts)/self.scale)") == 1 and "max_shifts=_max_shifts_px" in t_mt and t_mt.count("/self.scale") == 2)
        # (4) align_no_template hands nanometres to align
        notmpl = "max_shifts=max_shifts" in t_nt and "/self.scale" not in t_nt and "self.align(" in t_nt.replace("returnself.align(", "self.align(")
        return ("(* number of divisions of max_shifts by the scale on the way to model.align, per entry: 0 align (one template), 1 align (several templates),\n"
                "   2 align_multi_templates, 3 align_no_template; -1 = not recognised *)\n"
                f"Definition max_shift_divisions (entry : Z) : Z :=\n  match entry with\n  | 0 => if {ok(single)} then 1 else -1\n"
                f"  | 1 => if {ok(handover)} && {ok(multi)} then 1 else -1\n  | 2 => if {ok(multi)} then 1 else -1\n"
                f"  | 3 => if {ok(notmpl)} && {ok(single)} then 1 else -1\n  | _ => -1\n  end.")
    a.raw("max_shift_divisions", LB, "", "how often max_shifts is divided by the scale before it reaches a model, per entry point", units_flow)

    def group_units_flow(tree, src):
        """the same for the group entry points: inside the loop over the groups the range in pixels is bound to a new name from the (never
        re-bound) range in nanometres, so every group is searched over the same physical range"""
        from translate import find_def

        def once_per_group(qual):
            fn = find_def(tree, qual)
            t = norm(ast.unparse(fn))
            # `max_shifts` is bound exactly once (its normalisation) and that binding is not inside a loop
            binds = [n for n in ast.walk(fn) if isinstance(n, (ast.Assign, ast.AugAssign, ast.AnnAssign))
                     and any(isinstance(x, ast.Name) and x.id == "max_shifts" for tg in (n.targets if isinstance(n, ast.Assign) else [n.target]) for x in ast.walk(tg))]
            in_loop = [b for lp in ast.walk(fn) if isinstance(lp, (ast.For, ast.While)) for b in ast.walk(lp) if b in binds]
            return (len(binds) == 1 and not in_loop and "max_shifts=_normalize_max_shifts(max_shifts)" in t
                    and t.count("_max_shifts_px=tuple(np.asarray(max_shifts)/loader.scale)") == 1 and "max_shifts=_max_shifts_px" in t
                    and t.count("/loader.scale") == 2)          # the range once, the positions once
        t_nt = norm(ast.unparse(find_def(tree, "LoaderGroup.align_no_template")))
        ok = lambda c: "true" if c else "false"
        al, mt = once_per_group("LoaderGroup.align"), once_per_group("LoaderGroup.align_multi_templates")
        nt = "max_shifts=max_shifts" in t_nt and "/loader.scale" not in t_nt and "/self" not in t_nt and "returnself.align(" in t_nt
        return ("(* number of divisions of max_shifts by the scale on the way to model.align for each group, per group entry point:\n"
                "   0 LoaderGroup.align, 1 LoaderGroup.align_multi_templates, 2 LoaderGroup.align_no_template; -1 = not recognised *)\n"
                f"Definition group_max_shift_divisions (entry : Z) : Z :=\n  match entry with\n  | 0 => if {ok(al)} then 1 else -1\n"
                f"  | 1 => if {ok(mt)} then 1 else -1\n  | 2 => if {ok(nt)} && {ok(al)} then 1 else -1\n  | _ => -1\n  end.")
    a.raw("group_max_shift_divisions", "acryo/loader/_group.py", "", "how often max_shifts is divided by the scale for each group, per group entry point", group_units_flow)
    for fn in ("_post_align", "_post_align_multi_templates"):
        a.fact(f"{fn.strip('_')}_uses_linear_transform", LB, f"LoaderBase.{fn}", "rotator = from_quat(local_rot); linear_transform(local_shifts, rotator)",
               lambda f: all(t in norm(ast.unparse(f)) for t in
                             ["rotator=Rotation.from_quat(local_rot)", "mole_aligned=self.molecules.linear_transform(local_shifts,rotator)",
                              "returnself.replace(molecules=mole_aligned,output_shape=shape)"])
               and ("_misc.get_feature_list(scores,local_shifts,rotator.as_rotvec())" in norm(ast.unparse(f))))
    a.fact("feature_list_layout", LM, "get_feature_list", "score, round(shift,2) x3, round(rotvec,5) x3",
           lambda f: all(t in norm(ast.unparse(f)) for t in
                         ["pl.Series('score',corr_max)", "pl.Series('align-dz',np.round(local_shifts[:,0],2))",
                          "pl.Series('align-dy',np.round(local_shifts[:,1],2))", "pl.Series('align-dx',np.round(local_shifts[:,2],2))",
                          "pl.Series('align-dzrot',np.round(rotvec[:,0],5))", "pl.Series('align-dyrot',np.round(rotvec[:,1],5))",
                          "pl.Series('align-dxrot',np.round(rotvec[:,2],5))"]))


# --------------------------------------------------------------------------
def corr_post_align(ck, rng):
    from acryo import SubtomogramLoader, BatchLoader, Molecules
    from acryo.alignment import AlignmentResult
    from scipy.spatial.transform import Rotation
    R = C11.R24()
    cases = []
    n = 40 if ck.tier == "quick" else 500
    tomo = np.zeros((4, 4, 4), dtype=np.float32)
    classes = {}
    for ci in range(n):
        nm = int(rng.integers(1, 5))
        scale = float(rng.choice([1.0, 0.5, 2.0, 1.25]))
        p0 = rng.integers(-20, 21, size=(nm, 3)).astype(float)
        r0 = rng.integers(0, 24, size=nm)
        mol = Molecules(p0, Rotation.from_matrix(np.stack([R[i] for i in r0]).astype(float)))
        kind = ["single", "batch", "multi"][ci % 3]
        if kind == "batch":
            ld = BatchLoader(order=1, scale=scale, output_shape=(3, 3, 3))
            ld.add_tomogram(tomo, mol, image_id=0)
        else:
            ld = SubtomogramLoader(tomo, mol, order=1, scale=scale, output_shape=(3, 3, 3))
        res = []
        spec = []
        for i in range(nm):
            s = rng.integers(-12, 13, size=3) / 4.0
            qi = int(rng.integers(0, 24))
            q = Rotation.from_matrix(R[qi].astype(float)).as_quat()
            sc = float(rng.integers(0, 100)) / 4
            res.append(AlignmentResult(int(rng.integers(0, 3)), s.astype(np.float32), q.astype(np.float32), sc))
            spec.append((s, qi, sc))
        out = ld._post_align_multi_templates(res, (3, 3, 3)) if kind == "multi" else ld._post_align(res, (3, 3, 3))
        f = out.molecules.features
        for i in range(nm):
            s, qi, sc = spec[i]
            M = out.molecules.rotator[i].as_matrix()
            fs = np.array([f["align-dz"][i], f["align-dy"][i], f["align-dx"][i]], dtype=float)
            frv = np.array([f["align-dzrot"][i], f["align-dyrot"][i], f["align-dxrot"][i]], dtype=float)
            fM = Rotation.from_rotvec(frv).as_matrix()
            classes[kind] = classes.get(kind, 0) + 1
            cases.append((f"(check_post {vlit(p0[i])} {mlit(R[r0[i]])} {ql(frac(scale))} {vlit(s)} {mlit(R[qi])} {ql(frac(sc))} "
                          f"{vlit(out.molecules.pos[i])} {mlit(M)} {vlit(fs)} {mlit(fM)} {ql(frac(float(f['score'][i])))})",
                          {"kind": kind, "pos": p0[i].tolist(), "rot": int(r0[i]), "scale": scale, "shift_px": s.tolist(), "q": qi,
                           "new_pos": out.molecules.pos[i].tolist()}))
    ck.corr_run("post_align", ["Acryo.Common.Ring3", "AcryoGen.Anchors_C11", "AcryoGen.Anchors_C01", "Acryo.C11.Model", "Acryo.C01.Model"],
                cases, shard=300, observable=True, describe=lambda c: {"site": "_post_align", "kind": c["kind"]}, classes=classes)


TEMPLATE = None


def template():
    global TEMPLATE
    if TEMPLATE is None:
        from scipy import ndimage as ndi
        t = np.zeros((15, 15, 15), np.float32)
        t[4:11, 5:9, 6:9] = 1
        t[3:6, 8:12, 4:7] = 2
        t[9:12, 3:6, 9:13] = 1.5
        TEMPLATE = ndi.gaussian_filter(t, 1.0)
    return TEMPLATE


def e2e_case(c):
    """ground truth (p*, R*) -> tomogram; input molecule = truth o F^-1 with F=(s,q) in the searched set; align; compare."""
    from acryo import SubtomogramLoader, BatchLoader, Molecules, TomogramSimulator
    from acryo.alignment import ZNCCAlignment, NCCAlignment, PCCAlignment, FSCAlignment
    from scipy.spatial.transform import Rotation
    M = {"zncc": ZNCCAlignment, "ncc": NCCAlignment, "pcc": PCCAlignment, "fsc": FSCAlignment}[c["model"]]
    tmpl = template()
    scale = c["scale"]
    Rtrue = Rotation.from_rotvec([c["rv_true"]])
    ptrue = np.array(c["p_true"])
    sim = TomogramSimulator(order=3, scale=scale)
    sim.add_molecules(Molecules(ptrue[None] * scale, Rtrue), tmpl)
    tomo = sim.simulate((46, 46, 46))
    rots = tuple(tuple(x) for x in c["rotations"])
    # the searched set of (max, step) is {k*step : |k*step| <= max}: the true rotation is taken from the set of the
    # canonical range (floor(max/step)*step, step), the search is run with the range as given
    canon = tuple(tuple(x) for x in c.get("rotations_canonical", c["rotations"]))
    model = M(tmpl, rotations=canon)
    q = Rotation.from_quat(model.quaternions[c["k"]:c["k"] + 1])
    s = np.array(c["shift_px"])
    A = Rtrue * q.inv()
    p = ptrue - A.apply(s)[0]
    mol = Molecules(p[None] * scale, A)
    msh = c["max_shift_px"]
    kw = dict(max_shifts=(tuple(float(x) * scale for x in msh) if isinstance(msh, (list, tuple)) else msh * scale), alignment_model=M, rotations=rots)
    if c.get("mask") is True:
        # a soft mask wrapped around the (asymmetric) template density: every searched rotation has its own rotated mask
        from scipy import ndimage as ndi
        body = ndi.binary_dilation(tmpl > 0.25 * tmpl.max(), iterations=2)
        kw["mask"] = np.clip(ndi.gaussian_filter(body.astype(np.float32), 1.0), 0.0, 1.0).astype(np.float32)
    if c.get("tkind"):
        # the other accepted ways of handing over the template and the mask: image providers / converters (resolved at the loader's scale),
        # a 4-D stack or a list for several templates; the loader has no box of its own (it comes from the template)
        from acryo import pipe
        from scipy import ndimage as ndi
        ld_ = SubtomogramLoader(tomo, mol, order=3, scale=scale)
        tprov = pipe.from_array(tmpl, original_scale=scale)
        decoy = np.ascontiguousarray(tmpl[::-1, ::-1, :])
        if c["tkind"] == "provider":
            out = ld_.align(tprov, **kw)
        elif c["tkind"] == "provider+converter-mask":
            out = ld_.align(tprov, mask=pipe.soft_otsu(sigma=1.0 * scale, radius=2.0 * scale), **kw)
        elif c["tkind"] == "provider+provider-mask":
            body = ndi.binary_dilation(tmpl > 0.2 * tmpl.max(), iterations=3).astype(np.float32)
            out = ld_.align(tprov, mask=pipe.from_array(ndi.gaussian_filter(body, 1.0), original_scale=scale), **kw)
        elif c["tkind"] == "stack4d":
            out = ld_.align(np.stack([decoy, tmpl]), **kw)
        else:
            out = ld_.align((decoy, tprov), **kw)
        mo = out.molecules
        if c["tkind"] in ("stack4d", "tuple") and int(mo.features["labels"][0]) != 1:
            return False, f"multi-template label {int(mo.features['labels'][0])} != 1"
    elif c["loader"] == "single":
        out = SubtomogramLoader(tomo, mol, order=3, scale=scale, output_shape=tmpl.shape).align(tmpl, **kw)
        mo = out.molecules
    elif c["loader"] == "batch":
        b = BatchLoader(order=3, scale=scale, output_shape=tmpl.shape)
        b.add_tomogram(tomo, mol, image_id=3)
        mo = b.align(tmpl, **kw).molecules
    elif c["loader"] == "group":
        mol2 = Molecules(p[None] * scale, A, features={"g": ["a"]})
        ld = SubtomogramLoader(tomo, mol2, order=3, scale=scale, output_shape=tmpl.shape)
        g = ld.groupby("g").align(tmpl, **kw)
        mo = list(g)[0][1].molecules
    else:  # multi-template: the true template plus a decoy, through align_multi_templates or through align(list)
        decoy = np.ascontiguousarray(tmpl[::-1, ::-1, :])
        ld_ = SubtomogramLoader(tomo, mol, order=3, scale=scale, output_shape=tmpl.shape)
        if c["loader"] == "multi":
            out = ld_.align_multi_templates([decoy, tmpl], **kw)
        elif c["loader"] == "multi-align":
            out = ld_.align([decoy, tmpl], **kw)
        else:
            b = BatchLoader(order=3, scale=scale, output_shape=tmpl.shape)
            b.add_tomogram(tomo, mol, image_id=1)
            out = b.align(np.stack([decoy, tmpl]), **kw)
        mo = out.molecules
        if int(mo.features["labels"][0]) != 1:
            return False, f"multi-template label {int(mo.features['labels'][0])} != 1"
    perr = np.abs(mo.pos[0] / scale - ptrue).max()
    rerr = np.degrees((mo.rotator.inv() * Rtrue).magnitude()[0])
    f = mo.features
    fs = np.array([f["align-dz"][0], f["align-dy"][0], f["align-dx"][0]], dtype=float)
    ferr = np.abs(fs - s * scale).max()
    frot = Rotation.from_rotvec([[f["align-dzrot"][0], f["align-dyrot"][0], f["align-dxrot"][0]]])
    frerr = np.degrees((frot.inv() * q).magnitude()[0])
    ptol = 0.6 if (c["model"] == "fsc" or c.get("mask")) else 0.3        # FSC scans integer lags; a soft mask truncates displaced density (C04)
    ok = perr <= ptol and rerr <= 0.5 and ferr <= ptol * scale + 0.006 and frerr <= 0.5
    return ok, f"pos err {perr:.3f} px, rot err {rerr:.3f} deg, shift-feature err {ferr:.3f} nm, rot-feature err {frerr:.3f} deg"


E2E_DIRECTED = [
    # a particle close to the low z / x faces of the tomogram (its read-out box plus interpolation margin starts below index 0)
    dict(model="zncc", loader="single", scale=1.0, rv_true=[0.0, 0.0, 0.0], p_true=[9.0, 22.0, 9.5], rotations=[[0, 0], [0, 0], [0, 0]], k=0,
         shift_px=[1.0, -1.5, 0.5], max_shift_px=2.0),
    dict(model="pcc", loader="batch", scale=0.5, rv_true=[0.0, 0.0, 0.3], p_true=[9.5, 9.0, 23.0], rotations=[[0, 0], [0, 0], [0, 0]], k=0,
         shift_px=[-1.0, 1.0, 1.5], max_shift_px=2.0),
    # FSC with a different range on every axis, whole-pixel displacement
    dict(model="fsc", loader="single", scale=1.0, rv_true=[0.0, 0.0, 0.0], p_true=[22.0, 23.0, 22.0], rotations=[[0, 0], [0, 0], [0, 0]], k=0,
         shift_px=[1.0, 1.0, -3.0], max_shift_px=[1.0, 1.0, 3.0]),
    dict(model="fsc", loader="group", scale=2.0, rv_true=[0.2, 0.0, 0.0], p_true=[22.0, 22.0, 23.0], rotations=[[0, 0], [0, 0], [0, 0]], k=0,
         shift_px=[-1.0, 2.0, 1.0], max_shift_px=[1.0, 3.0, 1.0]),
    # template / mask given as providers, converters, a 4-D stack or a tuple
    dict(model="zncc", loader="single", scale=0.5, rv_true=[0.2, 0.1, 0.0], p_true=[22.0, 22.0, 22.5], rotations=[[0, 0], [0, 0], [0, 0]], k=0,
         shift_px=[1.0, -1.0, 0.5], max_shift_px=2.0, tkind="provider"),
    dict(model="zncc", loader="single", scale=2.0, rv_true=[0.0, 0.3, 0.1], p_true=[22.5, 22.0, 22.0], rotations=[[0, 0], [0, 0], [0, 0]], k=0,
         shift_px=[-1.0, 0.5, 1.0], max_shift_px=2.0, tkind="provider+converter-mask", mask="converter"),
    dict(model="ncc", loader="single", scale=1.6, rv_true=[0.1, 0.0, -0.2], p_true=[22.0, 22.5, 22.0], rotations=[[0, 0], [0, 0], [0, 0]], k=0,
         shift_px=[0.5, 1.0, -1.0], max_shift_px=2.0, tkind="provider+provider-mask", mask="provider"),
    dict(model="pcc", loader="single", scale=0.5, rv_true=[0.0, 0.0, 0.3], p_true=[22.0, 22.0, 22.0], rotations=[[0, 0], [0, 0], [0, 0]], k=0,
         shift_px=[1.0, 1.0, -0.5], max_shift_px=2.0, tkind="stack4d"),
    dict(model="zncc", loader="single", scale=2.0, rv_true=[-0.2, 0.1, 0.0], p_true=[22.0, 22.0, 22.0], rotations=[[0, 0], [0, 0], [0, 0]], k=0,
         shift_px=[-0.5, -1.0, 1.0], max_shift_px=2.0, tkind="tuple"),
    # rotation search together with a shape-following soft mask; the true rotation is not the first searched candidate
    dict(model="zncc", loader="single", scale=1.0, rv_true=[0.1, 0.2, -0.1], p_true=[22.0, 22.5, 22.0], rotations=[[0, 0], [0, 0], [90, 90]], k=2,
         shift_px=[1.0, -1.0, 0.5], max_shift_px=2.0, mask=True),
    dict(model="pcc", loader="batch", scale=0.5, rv_true=[0.0, -0.3, 0.2], p_true=[22.0, 22.0, 22.5], rotations=[[90, 90], [0, 0], [0, 0]], k=1,
         shift_px=[-1.0, 0.5, 1.0], max_shift_px=2.0, mask=True),
    dict(model="ncc", loader="group", scale=2.0, rv_true=[0.3, 0.0, 0.1], p_true=[22.5, 22.0, 22.0], rotations=[[0, 0], [45, 45], [0, 0]], k=2,
         shift_px=[0.5, 1.0, -1.0], max_shift_px=2.0, mask=True),
    dict(model="zncc", loader="multi", scale=1.6, rv_true=[0.0, 0.0, 0.4], p_true=[22.0, 22.0, 22.0], rotations=[[0, 0], [0, 0], [90, 90]], k=1,
         shift_px=[1.0, 0.0, -1.0], max_shift_px=2.0, mask=True),
]


def oracle_e2e(ck, rng):
    n = 15 if ck.tier == "quick" else 150
    for c in E2E_DIRECTED:
        c = dict(c)
        try:
            ok, detail = e2e_case(c)
        except Exception as e:  # noqa
            ok, detail = False, f"raised {type(e).__name__}: {e}"
        ck.oracle_count("end_to_end_pose_recovery", 1, 1)
        if not ok:
            ck.violation(what=f"aligned molecule is not at the true pose: {detail}", inp=c,
                         key={"site": "e2e-directed", "model": c["model"], "loader": c["loader"]}, oracle="end_to_end_pose_recovery", measured=detail)
    for i in range(n):
        rots = [((20, 20), (0, 0), (0, 0)), ((0, 0), (90, 90), (0, 0)), ((0, 0), (0, 0), (30, 30)), ((10, 10), (10, 10), (0, 0)),
                ((90, 90), (0, 0), (0, 0))][i % 5]
        K = 9 if i % 5 == 3 else 3
        canon = rots
        if (i // 5) % 2:
            # same searched set written with a maximum that is not a multiple of the step
            rots = [((27, 20), (0, 0), (0, 0)), ((0, 0), (100, 90), (0, 0)), ((0, 0), (0, 0), (44, 30)), ((14, 10), (19, 10), (0, 0)),
                    ((120, 90), (0, 0), (0, 0))][i % 5]
        # fractional search range (in pixels) and displacements up to its edge, in the input molecule frame
        mpx = float(rng.choice([2.0, 2.75, 1.4]))
        sh = np.round(rng.uniform(-mpx, mpx, size=3) * 20) / 20
        if i % 2:
            ax = int(rng.integers(0, 3))
            sh[ax] = float(rng.choice([-1, 1])) * np.floor(mpx * 20) / 20     # on the edge of the permitted range
        c = dict(model=["zncc", "ncc", "pcc"][i % 3], loader=["single", "batch", "group", "multi", "multi-align", "multi-batch-align"][(i // 3) % 6],
                 scale=float(rng.choice([1.0, 0.5, 1.6, 2.0])), rv_true=(rng.normal(size=3) * 0.6).tolist(),
                 p_true=(22 + rng.uniform(-1, 1, size=3)).tolist(), rotations=[list(x) for x in rots], rotations_canonical=[list(x) for x in canon],
                 k=int(rng.integers(0, K)),
                 shift_px=sh.tolist(), max_shift_px=mpx)
        if c["loader"].startswith("multi-"):
            # the glue between align and align_multi_templates converts nm to pixels: use a non-unit scale and an edge displacement
            c["scale"] = [2.0, 1.6, 0.5][i % 3]
            sh[int(rng.integers(0, 3))] = float(rng.choice([-1, 1])) * np.floor(mpx * 20) / 20
            c["shift_px"] = sh.tolist()
        try:
            ok, detail = e2e_case(c)
        except Exception as e:  # noqa
            ok, detail = False, f"raised {type(e).__name__}: {e}"
        ck.oracle_count("end_to_end_pose_recovery", 1, 1)
        if not ok:
            ck.violation(what=f"aligned molecule is not at the true pose: {detail}", inp=c,
                         key={"site": "e2e", "model": c["model"], "loader": c["loader"], "rot_nonidentity": c["k"] != (K // 2)},
                         oracle="end_to_end_pose_recovery", measured=detail)


def oracle_template_free(ck, rng):
    """template-free alignment (loader and loader group): six copies of one particle at random orientations, five input molecules on
    the true pose and one displaced within the search range; the template is the loader's own average, dominated by the five, so every
    output molecule must lie on its particle (0.6 px), the displaced one included, and the shift features must describe the move"""
    from acryo import SubtomogramLoader, Molecules, TomogramSimulator
    from acryo.alignment import ZNCCAlignment, PCCAlignment
    from scipy.spatial.transform import Rotation
    tmpl = template()
    for it in range(2 if ck.tier == "quick" else 8):
        scale = [0.5, 2.0, 1.0, 1.6][it % 4]
        n = 6
        Rtrue = Rotation.from_rotvec(rng.normal(size=(n, 3)) * 0.6)
        ptrue = np.stack([np.array([20.0, 20.0, 20.0 + 26 * j]) + rng.uniform(-0.5, 0.5, size=3) for j in range(n)])
        sim = TomogramSimulator(order=3, scale=scale)
        sim.add_molecules(Molecules(ptrue * scale, Rtrue), tmpl)
        tomo = sim.simulate((40, 40, 26 * n + 14))
        s = np.zeros((n, 3))
        odd = int(rng.integers(0, n))
        s[odd] = rng.choice([-2.0, -1.5, 1.5, 2.0], size=3)
        p = ptrue - np.stack([Rtrue[j].apply(s[j]) for j in range(n)])
        M = [ZNCCAlignment, PCCAlignment][it % 2]
        c = {"iteration": it, "scale": scale, "model": M.__name__, "displaced_molecule": odd, "shift_px": s[odd].tolist(), "seed": ck.seed}
        for entry in ("loader", "group"):
            try:
                mol = Molecules(p * scale, Rtrue, features={"g": [0] * n})
                ld = SubtomogramLoader(tomo, mol, order=3, scale=scale, output_shape=tmpl.shape)
                if entry == "loader":
                    mo = ld.align_no_template(max_shifts=3.0 * scale, alignment_model=M).molecules
                else:
                    g = ld.groupby("g").align_no_template(max_shifts=3.0 * scale, alignment_model=M)
                    mo = list(g)[0][1].molecules
                perr = np.abs(mo.pos / scale - ptrue).max(axis=1)
                f = mo.features
                fs = np.stack([f["align-dz"].to_numpy(), f["align-dy"].to_numpy(), f["align-dx"].to_numpy()], axis=1)
                moved = np.stack([Rtrue[j].apply(mo.pos[j] - p[j] * scale, inverse=True) for j in range(n)])
                ok = bool(perr.max() <= 0.6 and np.abs(fs - moved).max() <= 0.01 * max(scale, 1.0) and len(mo) == n)
                detail = f"position errors {np.round(perr, 2).tolist()} px; shift features differ from the actual move by {np.abs(fs - moved).max():.3f} nm"
            except Exception as e:  # noqa
                ok, detail = False, f"raised {type(e).__name__}: {e}"
            ck.oracle_count("template_free_pose_recovery", 1, 1)
            if not ok:
                ck.violation(what=f"align_no_template ({entry}): {detail}", inp=dict(c, entry=entry), key={"site": "e2e-template-free", "entry": entry},
                             oracle="template_free_pose_recovery", measured=detail)


def oracle_interleaved_batch(ck, rng):
    """a batch of two tomograms whose molecule table interleaves them (a0, b0, a1, b1) and whose molecules need different corrections:
    every molecule is moved onto its own particle and carries its own shift features"""
    from acryo import BatchLoader, Molecules, TomogramSimulator
    from acryo.alignment import ZNCCAlignment, PCCAlignment
    from scipy.spatial.transform import Rotation
    tmpl = template()
    for it in range(1 if ck.tier == "quick" else 5):
        scale = [0.8, 2.0, 0.5][it % 3]
        M = [ZNCCAlignment, PCCAlignment][it % 2]
        b = BatchLoader(order=3, scale=scale, output_shape=tmpl.shape)
        truth = {}
        rank = 0
        for k in range(2):
            Rtrue = Rotation.from_rotvec(rng.normal(size=(2, 3)) * 0.5)
            ptrue = np.stack([np.array([20.0, 20.0, 20.0 + 26 * j]) + rng.uniform(-0.5, 0.5, size=3) for j in range(2)])
            sim = TomogramSimulator(order=3, scale=scale)
            sim.add_molecules(Molecules(ptrue * scale, Rtrue), tmpl)
            tomo = sim.simulate((40, 40, 66))
            s = np.round(rng.uniform(-2.5, 2.5, size=(2, 3)) * 4) / 4
            p = ptrue - np.stack([Rtrue[j].apply(s[j]) for j in range(2)])
            ranks = [2 * j + k for j in range(2)]              # a0 -> 0, b0 -> 1, a1 -> 2, b1 -> 3
            b.add_tomogram(tomo, Molecules(p * scale, Rtrue, features={"rank": ranks}), image_id=k)
            for j in range(2):
                truth[ranks[j]] = (ptrue[j], s[j])
        for label, ld in (("registration order", b), ("interleaved (sorted by rank)", b.replace(molecules=b.molecules.sort("rank")))):
            ck.oracle_count("interleaved_batch_alignment", 1, 1)
            try:
                mo = ld.align(tmpl, max_shifts=3.0 * scale, alignment_model=M).molecules
                rk = mo.features["rank"].to_list()
                perr = np.array([np.abs(mo.pos[i] / scale - truth[r][0]).max() for i, r in enumerate(rk)])
                fs = np.stack([mo.features["align-dz"].to_numpy(), mo.features["align-dy"].to_numpy(), mo.features["align-dx"].to_numpy()], axis=1)
                ferr = np.array([np.abs(fs[i] - truth[r][1] * scale).max() for i, r in enumerate(rk)])
                detail = "" if perr.max() <= 0.5 and ferr.max() <= 0.5 * scale + 0.006 else \
                    f"position errors {np.round(perr, 2).tolist()} px, shift-feature errors {np.round(ferr, 2).tolist()} nm (table order: ranks {rk})"
            except Exception as e:  # noqa
                detail = f"raised {type(e).__name__}: {e}"
            if detail:
                ck.violation(what=f"batch of two tomograms, {label}, {M.__name__}: {detail}", inp={"order": label, "scale": scale, "model": M.__name__, "seed": ck.seed, "iteration": it},
                             key={"site": "e2e-interleaved-batch", "interleaved": label.startswith("interleaved")}, oracle="interleaved_batch_alignment", measured=detail)


def oracle_grouped_ranges(ck, rng):
    """grouped alignment with several groups at a pixel size away from 1: every group is searched over the same range (in nm), so
    particles displaced by up to that range are recovered in the last group as well as in the first; with one and with two templates"""
    from acryo import SubtomogramLoader, Molecules, TomogramSimulator
    from acryo.alignment import ZNCCAlignment, PCCAlignment
    from scipy.spatial.transform import Rotation
    tmpl = template()
    decoy = np.ascontiguousarray(tmpl[::-1, ::-1, :])
    for it in range(2 if ck.tier == "quick" else 6):
        scale = [2.0, 0.5, 1.6][it % 3]
        n = 6
        Rtrue = Rotation.from_rotvec(rng.normal(size=(n, 3)) * 0.5)
        ptrue = np.stack([np.array([20.0, 20.0, 20.0 + 26 * j]) + rng.uniform(-0.5, 0.5, size=3) for j in range(n)])
        sim = TomogramSimulator(order=3, scale=scale)
        sim.add_molecules(Molecules(ptrue * scale, Rtrue), tmpl)
        tomo = sim.simulate((40, 40, 26 * n + 14))
        mpx = 3.0
        s = np.round(rng.uniform(-mpx, mpx, size=(n, 3)) * 4) / 4
        for j in range(n):
            s[j, int(rng.integers(0, 3))] = float(rng.choice([-1, 1])) * (mpx - 0.25)       # close to the edge of the range, in every group
        p = ptrue - np.stack([Rtrue[j].apply(s[j]) for j in range(n)])
        mol = Molecules(p * scale, Rtrue, features={"g": [j // 2 for j in range(n)], "k": list(range(n))})
        ld = SubtomogramLoader(tomo, mol, order=3, scale=scale, output_shape=tmpl.shape)
        M = [ZNCCAlignment, PCCAlignment][it % 2]
        for entry in ("align", "align_multi_templates"):
            c = {"iteration": it, "scale": scale, "model": M.__name__, "entry": entry, "max_shift_px": mpx, "shift_px": s.tolist(), "seed": ck.seed}
            try:
                grp = ld.groupby("g")
                out = grp.align(tmpl, max_shifts=mpx * scale, alignment_model=M) if entry == "align" else \
                    grp.align_multi_templates([decoy, tmpl], max_shifts=mpx * scale, alignment_model=M)
                bad = []
                for key, sub in out:
                    mo = sub.molecules
                    ks = mo.features["k"].to_list()
                    perr = np.abs(mo.pos / scale - ptrue[ks]).max(axis=1)
                    fs = np.stack([mo.features["align-dz"].to_numpy(), mo.features["align-dy"].to_numpy(), mo.features["align-dx"].to_numpy()], axis=1)
                    ferr = np.abs(fs - s[ks] * scale).max()
                    if perr.max() > 0.5 or ferr > 0.5 * scale + 0.006:      # sub-pixel: half a voxel (displacements sit a quarter voxel inside the range edge)
                        bad.append(f"group {key}: position errors {np.round(perr, 2).tolist()} px, shift features off by {ferr:.3f} nm")
                    if entry != "align" and mo.features["labels"].to_list() != [1] * len(ks):
                        bad.append(f"group {key}: labels {mo.features['labels'].to_list()}")
                detail = "; ".join(bad)
            except Exception as e:  # noqa
                detail = f"raised {type(e).__name__}: {e}"
            ck.oracle_count("grouped_search_range", 1, 1)
            if detail:
                ck.violation(what=f"groupby(...).{entry} over three groups at {scale} nm/px, range {mpx} px: {detail}", inp=c,
                             key={"site": "e2e-grouped-range", "entry": entry}, oracle="grouped_search_range", measured=detail)


def run(ck: common.Check):
    ck.design_ref = "DESIGN.md §6 C01"
    ck.trusted_base = TB
    ck.partial = ["that the correlation peak is at the true displacement/rotation is numeric (C04/C07): end-to-end oracle only",
                  "template-free alignment (align_no_template) shares _post_align; its averaging step is C09"]
    a11 = Anchors(common.REPO)
    C11.anchors(a11)
    ck.write_anchors("C11", a11)
    a = Anchors(common.REPO)
    anchors(a)
    ck.write_anchors(PID, a)
    ck.build(["C01"], ["C01/Property.v"])
    rng = np.random.default_rng(ck.seed + 101)
    corr_post_align(ck, rng)
    oracle_e2e(ck, rng)
    oracle_template_free(ck, np.random.default_rng(ck.seed + 10101))
    oracle_grouped_ranges(ck, np.random.default_rng(ck.seed + 10201))
    oracle_interleaved_batch(ck, np.random.default_rng(ck.seed + 10301))


def replay(data):
    if data.get("oracle") == "end_to_end_pose_recovery":
        ok, detail = e2e_case(data["input"])
        print("replay:", "holds" if ok else "FAILS", detail)
        return 0 if ok else 1
    print(json.dumps(data.get("input"), indent=1)[:3000])
    return 0


TB = C11.TB + ["C01 additionally: loader-level anchors (_post_align scale factor, px conversion), end-to-end numeric oracle with a simulated tomogram"]
