"""C04 — translational alignment returns the true displacement."""
from __future__ import annotations
import json
import numpy as np

import common
from common import zl, ql, bl, lst, zlist, qlist, frac, natl
from translate import Anchors
from props import C05

PID = "C04"


def anchors(a: Anchors):
    # C04 shares every index expression with C05 (same generated file Anchors_C05)
    pass


def blob(rng, shape, margin=2):
    from scipy import ndimage as ndi
    t = np.zeros(shape, np.float32)
    c = (np.array(shape) - 1) / 2
    for _ in range(5):
        p = np.clip(np.round(c + rng.normal(size=3) * np.array(shape) / 10).astype(int), margin + 1, np.array(shape) - margin - 2)
        t[tuple(p)] += rng.uniform(0.5, 2)
    return t


def corr_peaks(ck, rng):
    """integer-valued images displaced by an integer d: the arg-max of each landscape must denote d under the model's index map"""
    from acryo.backend import Backend
    from acryo.backend._zncc import zncc_landscape_with_crop, ncc_landscape_with_crop
    from acryo.backend._fsc import fsc_landscape
    from acryo.backend._pcc import pcc_landscape
    from scipy import ndimage as ndi
    xp = Backend()
    cases = []
    n = 30 if ck.tier == "quick" else 400
    for i in range(n):
        N = int(rng.integers(9, 14))
        shape = (N, N, N)
        t = ndi.gaussian_filter(blob(rng, shape, 3), 0.8)
        t = np.round(t * 50).astype(np.float32)
        m = float(rng.choice([1.0, 2.0, 2.5, 3.0, 1.3]))
        d = rng.integers(-int(m), int(m) + 1, size=3)
        img = np.roll(t, tuple(int(x) for x in d), axis=(0, 1, 2))
        ms = (m, m, m)
        fa, fb = xp.fftn(img), xp.fftn(t)
        lands = [("zncc", 0, zncc_landscape_with_crop(img, t, ms, xp)), ("ncc", 0, ncc_landscape_with_crop(img, t, ms, xp)),
                 ("pcc", 2, pcc_landscape(fa, fb, ms, xp))]
        if i % 3 == 0 and m <= 2.0:
            lands.append(("fsc", 1, fsc_landscape(fa, fb, ms, xp)))
        for name, kind, l in lands:
            am = np.unravel_index(int(np.argmax(np.asarray(l))), l.shape)
            for ax in range(3):
                cases.append((f"(check_peak {zl(kind)} {zl(N)} {ql(frac(np.float32(m)))} {zl(am[ax])} {zl(d[ax])})",
                              {"landscape": name, "box": N, "max_shift": m, "axis": ax, "displacement": int(d[ax]), "argmax": int(am[ax])}))
    ck.corr_run("landscape_peak_index", ["AcryoGen.Anchors_C05", "Acryo.C05.Model", "Acryo.C04.Model"], cases, shard=600, observable=True,
                describe=lambda c: {"site": "peak-index", "landscape": c["landscape"]})


def smooth_template(rng, shape):
    from scipy import ndimage as ndi
    t = np.zeros(shape, np.float32)
    c = (np.array(shape) - 1) / 2
    for _ in range(6):
        p = c + rng.normal(size=3) * np.array(shape) / 12
        zz, yy, xx = np.meshgrid(*[np.arange(s) for s in shape], indexing="ij")
        t += rng.uniform(0.5, 2) * np.exp(-((zz - p[0]) ** 2 + (yy - p[1]) ** 2 + (xx - p[2]) ** 2) / (2 * 1.3 ** 2))
    return t.astype(np.float32)


def displaced(t, d):
    """band-limited displacement: Fourier shift theorem (exact for a periodic band-limited image)"""
    F = np.fft.fftn(t.astype(np.float64))
    ph = 1.0
    for ax, s in enumerate(t.shape):
        f = np.fft.fftfreq(s)
        shp = [1, 1, 1]; shp[ax] = s
        ph = ph * np.exp(-2j * np.pi * f * d[ax]).reshape(shp)
    return np.fft.ifftn(F * ph).real.astype(np.float32)


def accuracy_case(c):
    from acryo.alignment import ZNCCAlignment, NCCAlignment, PCCAlignment, FSCAlignment
    from scipy.spatial.transform import Rotation
    rng = np.random.default_rng(c["seed"])
    t = smooth_template(rng, tuple(c["shape"]))
    d = np.array(c["d"])
    if c["model"] == "fsc":
        # FSC averages the correlation over all shells: a template with (numerically) empty high-frequency shells is
        # degenerate for it (those shells correlate rounding noise), so FSC cases use a broadband template
        t = (t + 0.2 * float(t.max()) * rng.normal(size=t.shape)).astype(np.float32)
    if c.get("background"):
        # sub-volume and template sit on the same non-zero background (a copy of the template, displaced)
        t = (t + np.float32(c["background"]) * float(t.max())).astype(np.float32)
    if c.get("gain"):
        # the same map in other units (densities of order 1e-3 or 1e3): normalised correlations do not care
        t = (t * np.float32(c["gain"])).astype(np.float32)
    img = displaced(t, d)
    M = {"zncc": ZNCCAlignment, "ncc": NCCAlignment, "pcc": PCCAlignment, "fsc": FSCAlignment}[c["model"]]
    kw = {}
    if c.get("cutoff"): kw["cutoff"] = c["cutoff"]
    if c.get("tilt"): kw["tilt"] = tuple(c["tilt"])
    if c.get("tilt") and c.get("tilt_axis"):
        from acryo.tilt import single_axis, dual_axis
        kw["tilt"] = single_axis(tuple(c["tilt"]), c["tilt_axis"]) if c["tilt_axis"] in ("x", "y") else dual_axis(tuple(c["tilt"]), tuple(c["tilt"]))
    if c.get("multi"):
        # several templates and a rotation search at once: an unrotated displaced copy of template `multi[0]` must come back with
        # that label, the identity rotation and the displacement
        nt, which = c["multi"]
        decoys = [np.ascontiguousarray(np.roll(t[::-1, :, ::-1], j + 1, axis=1)) for j in range(nt - 1)]
        tl = decoys[:which] + [t] + decoys[which:]
        model = M(tl, rotations=((20, 20), (0, 0), (20, 20)), **kw)
    elif c.get("rotmask") and c["rotmask"].get("particle"):
        # a particle made of separate blobs and a soft mask around one off-centre cluster of them: masking the sub-volume with the mask of
        # another searched rotation would hide exactly the density the template is compared on
        zz, yy, xx = np.indices(t.shape)
        ctr = (np.array(t.shape) - 1) / 2
        focus = np.array(c["rotmask"]["offset"], dtype=float)
        vol = np.zeros(t.shape)
        for b_ in range(9):
            p_ = (focus + rng.normal(size=3) * 1.4) if b_ < 4 else -focus + rng.normal(size=3) * 3.0
            vol += float(rng.uniform(0.7, 1.6)) * np.exp(-((zz - ctr[0] - p_[0]) ** 2 + (yy - ctr[1] - p_[1]) ** 2 + (xx - ctr[2] - p_[2]) ** 2) / (2 * 1.3 ** 2))
        t = vol.astype(np.float32)
        img = displaced(t, d)
        dist = np.sqrt((zz - ctr[0] - focus[0]) ** 2 + (yy - ctr[1] - focus[1]) ** 2 + (xx - ctr[2] - focus[2]) ** 2)
        mask = (1.0 / (1.0 + np.exp((dist - c["rotmask"]["radius"]) / 0.7))).astype(np.float32)
        model = M(t, mask, rotations=tuple(tuple(x) for x in c["rotmask"]["rotations"]), **kw)
    elif c.get("rotmask"):
        # a rotation search together with a soft mask that is not symmetric under the searched rotations (a ball around an off-centre
        # region): an unrotated displaced copy must still come back with the identity rotation and the displacement (half-pixel clause)
        zz, yy, xx = np.indices(t.shape)
        ctr = (np.array(t.shape) - 1) / 2 + np.array(c["rotmask"]["offset"])
        rad = c["rotmask"]["radius"]
        dist = np.sqrt((zz - ctr[0]) ** 2 + (yy - ctr[1]) ** 2 + (xx - ctr[2]) ** 2)
        mask = np.clip((rad + 1.5 - dist) / 3.0, 0.0, 1.0).astype(np.float32)
        model = M(t, mask, rotations=tuple(tuple(x) for x in c["rotmask"]["rotations"]), **kw)
    else:
        model = M(t, **kw)
    q = Rotation.from_rotvec(c["rotvec"]).as_quat() if c.get("rotvec") else None
    res = model.align(img, tuple(c["max_shifts"]), quaternion=q)
    err = float(np.abs(np.asarray(res.shift, float) - d).max())
    tol = 0.5 if (c["model"] == "fsc" or c.get("rotmask")) else 0.1
    ok = err <= tol + 1e-6 and (np.allclose(res.quat, [0, 0, 0, 1], atol=1e-6) or np.allclose(res.quat, [0, 0, 0, -1], atol=1e-6))
    if c.get("multi") and int(res.label) % c["multi"][0] != c["multi"][1]:
        ok = False
    # normalised scores: close to 1 (the FSC landscape is only evaluated at integer lags, so demand it for integer displacements)
    if c["model"] == "zncc" and float(res.score) < 0.9:
        ok = False
    if c["model"] == "fsc" and c.get("dkind") == "integer" and float(res.score) < 0.9:
        ok = False
    return ok, f"shift {np.round(res.shift, 3).tolist()} vs d {d.tolist()} (err {err:.3f} px, tol {tol}), score {float(res.score):.3f}", err


DIRECTED = [
    # low- and high-amplitude maps (gain invariance of the normalised models)
    dict(model="zncc", shape=[16, 16, 16], max_shifts=[2.0, 2.0, 2.0], d=[1.0, -2.0, 0.5], seed=21, cutoff=None, tilt=None, rotvec=None, dkind="gain", gain=1e-3),
    dict(model="ncc", shape=[16, 15, 17], max_shifts=[2.0, 2.0, 2.0], d=[-1.5, 1.0, 2.0], seed=22, cutoff=None, tilt=None, rotvec=None, dkind="gain", gain=1e-4),
    dict(model="zncc", shape=[15, 16, 16], max_shifts=[2.0, 2.0, 2.0], d=[2.0, 0.0, -1.25], seed=23, cutoff=None, tilt=None, rotvec=None, dkind="gain", gain=1e3),
    # several templates together with a rotation search: identity rotation for an unrotated copy
    dict(model="zncc", shape=[16, 16, 16], max_shifts=[2.0, 2.0, 2.0], d=[1.0, -1.0, 0.0], seed=24, cutoff=None, tilt=None, rotvec=None, dkind="multi", multi=[2, 1]),
    dict(model="pcc", shape=[16, 16, 16], max_shifts=[2.0, 2.0, 2.0], d=[0.0, 2.0, -1.0], seed=25, cutoff=None, tilt=None, rotvec=None, dkind="multi", multi=[3, 0]),
    # FSC with a fractional range and a displacement beyond its integer part
    dict(model="fsc", shape=[15, 16, 14], max_shifts=[1.8, 1.8, 1.8], d=[1.8, -1.8, 0.5], seed=13, cutoff=None, tilt=None, rotvec=None, dkind="corner"),
    # FSC with a different search length on every axis (each axis needs its own phase table)
    dict(model="fsc", shape=[14, 15, 16], max_shifts=[2.0, 1.0, 2.0], d=[1.0, -1.0, 2.0], seed=11, cutoff=None, tilt=None, rotvec=None, dkind="integer"),
    dict(model="fsc", shape=[16, 14, 15], max_shifts=[1.0, 2.0, 1.5], d=[-1.0, 2.0, 1.0], seed=12, cutoff=None, tilt=None, rotvec=None, dkind="integer"),
    # rotation search with a soft mask around an off-centre region
    dict(model="zncc", shape=[20, 20, 20], max_shifts=[2.0, 2.0, 2.0], d=[1.0, -1.0, 0.0], seed=31, cutoff=None, tilt=None, rotvec=None, dkind="rotmask",
         rotmask={"offset": [0.0, 3.0, -2.0], "radius": 6.0, "rotations": [[0, 0], [0, 0], [90, 90]]}),
    dict(model="ncc", shape=[20, 21, 19], max_shifts=[2.0, 2.0, 2.0], d=[0.0, 1.0, -1.0], seed=32, cutoff=None, tilt=None, rotvec=None, dkind="rotmask",
         rotmask={"offset": [2.0, -2.0, 2.0], "radius": 6.0, "rotations": [[60, 30], [0, 0], [0, 0]]}),
    dict(model="pcc", shape=[20, 20, 20], max_shifts=[2.0, 2.0, 2.0], d=[-1.0, 0.0, 1.0], seed=33, cutoff=None, tilt=None, rotvec=None, dkind="rotmask",
         rotmask={"offset": [-2.0, 0.0, 3.0], "radius": 6.0, "rotations": [[0, 0], [90, 90], [0, 0]]}),
    dict(model="zncc", shape=[22, 24, 23], max_shifts=[3.0, 3.0, 3.0], d=[1.0, -2.0, 1.0], seed=34, cutoff=None, tilt=None, rotvec=None, dkind="rotmask",
         rotmask={"particle": True, "offset": [0.0, 5.0, 3.8], "radius": 5.0, "rotations": [[0, 0], [0, 0], [90, 90]]}),
    dict(model="ncc", shape=[24, 22, 23], max_shifts=[3.0, 3.0, 3.0], d=[-1.5, 0.5, 2.0], seed=35, cutoff=None, tilt=None, rotvec=None, dkind="rotmask",
         rotmask={"particle": True, "offset": [4.0, -3.0, 3.0], "radius": 5.0, "rotations": [[30, 30], [30, 30], [0, 0]]}),
    dict(model="zncc", shape=[23, 23, 23], max_shifts=[3.0, 3.0, 3.0], d=[0.0, 0.0, 0.0], seed=36, cutoff=None, tilt=None, rotvec=None, dkind="rotmask",
         rotmask={"particle": True, "offset": [-3.5, 4.0, 0.0], "radius": 5.0, "rotations": [[90, 90], [0, 0], [0, 0]]}),
    # FSC with negative whole-pixel displacements in a range of 3 (every lag of the phase table matters, not only 0 and +-s)
    dict(model="fsc", shape=[16, 16, 16], max_shifts=[3.0, 3.0, 3.0], d=[-1.0, -3.0, 2.0], seed=41, cutoff=None, tilt=None, rotvec=None, dkind="integer"),
    dict(model="fsc", shape=[17, 16, 15], max_shifts=[3.0, 2.0, 3.0], d=[-2.0, -1.0, -1.0], seed=42, cutoff=None, tilt=None, rotvec=None, dkind="integer"),
    # tilt models about x, about y and dual, with a molecule orientation
    dict(model="zncc", shape=[18, 18, 18], max_shifts=[2.0, 2.0, 2.0], d=[1.0, -1.5, 0.5], seed=43, cutoff=None, tilt=[-60.0, 60.0], tilt_axis="x", rotvec=None, dkind="tilt"),
    dict(model="pcc", shape=[18, 17, 19], max_shifts=[2.0, 2.0, 2.0], d=[-1.0, 1.0, 1.5], seed=44, cutoff=None, tilt=[-50.0, 65.0], tilt_axis="x", rotvec=[0.2, -0.1, 0.3], dkind="tilt"),
    dict(model="ncc", shape=[18, 18, 18], max_shifts=[2.0, 2.0, 2.0], d=[0.5, 2.0, -1.0], seed=45, cutoff=None, tilt=[-60.0, 60.0], tilt_axis="y", rotvec=None, dkind="tilt"),
    dict(model="zncc", shape=[18, 18, 18], max_shifts=[2.0, 2.0, 2.0], d=[-1.5, 0.5, 1.0], seed=46, cutoff=None, tilt=[-60.0, 50.0], tilt_axis="dual", rotvec=[0.0, 0.3, 0.0], dkind="tilt"),
    # PCC at the edge of a fractional range whose fractional part is large (the coarse peak lies beyond trunc(m))
    dict(model="pcc", shape=[18, 18, 18], max_shifts=[2.9, 2.9, 2.9], d=[2.9, -2.9, 1.0], seed=51, cutoff=None, tilt=None, rotvec=None, dkind="corner"),
    dict(model="pcc", shape=[16, 17, 15], max_shifts=[1.9, 1.9, 1.9], d=[-1.9, 0.5, 1.9], seed=52, cutoff=None, tilt=None, rotvec=None, dkind="corner"),
    # ZNCC on a grey level comparable to (and larger than) the contrast, non-zero displacement
    dict(model="zncc", shape=[16, 16, 16], max_shifts=[2.0, 2.0, 2.0], d=[0.4, -1.3, 0.7], seed=53, cutoff=None, tilt=None, rotvec=None, dkind="background", background=1.0),
    dict(model="zncc", shape=[15, 16, 17], max_shifts=[2.0, 2.0, 2.0], d=[-1.0, 1.5, -0.5], seed=54, cutoff=None, tilt=None, rotvec=None, dkind="background", background=5.0),
    # reproducer of the recorded finding C04-fsc-half-integer-lag
    dict(model="fsc", shape=[14, 14, 14], max_shifts=[1.0, 1.0, 1.0], d=[0.35, 0.45, -0.1], seed=2098463371, cutoff=None, tilt=None, rotvec=None, dkind="small"),
]


def oracle_accuracy(ck, rng):
    n = 40 if ck.tier == "quick" else 1200
    for i in range(-len(DIRECTED), n):
        if i < 0:
            _accuracy_one(ck, dict(DIRECTED[i + len(DIRECTED)]))
            continue
        model = ["zncc", "ncc", "pcc", "fsc"][i % 4] if i % 8 < 7 else "zncc"
        if model == "fsc" and ck.tier == "quick" and i % 16 != 3:
            model = "ncc"
        shape = [int(x) for x in rng.integers(12, 20, size=3)]
        if i % 3 == 0:
            shape = [shape[0]] * 3
        m = float(rng.choice([1.0, 1.5, 2.0, 2.6, 3.0, 1.9, 2.75, 3.8]))
        if model == "fsc":
            m = float(rng.choice([1.0, 1.5, 1.8, 2.0]))
        # "a copy of the template displaced by d": the displaced density must stay inside the box (the Fourier
        # displacement wraps around), so large ranges need boxes of at least 2 * (m + 4.5) voxels
        lo = int(np.ceil(2 * (m + 4.5)))
        if lo > 12:
            shape = [max(x, lo) for x in shape]
        kind = i % 5
        if kind == 0:
            d = rng.integers(-int(m), int(m) + 1, size=3).astype(float)
        elif kind == 1:
            d = np.round(rng.uniform(-m, m, size=3) * 20) / 20
        elif kind == 2:
            d = np.round(rng.uniform(-m, m, size=3) * 20) / 20
            d[int(rng.integers(0, 3))] = float(rng.choice([-1, 1])) * np.floor(m * 20) / 20     # on a face of the permitted box
        elif kind == 3:
            d = np.array([np.floor(m * 20) / 20 * float(rng.choice([-1, 1])) for _ in range(3)])  # corner
        else:
            d = np.round(rng.uniform(-0.5, 0.5, size=3) * 20) / 20
        ms = [m] * 3
        if i % 3 == 1:
            # anisotropic range: every axis has its own limit (and its own landscape length)
            ms = [float(x) for x in rng.choice([1.0, 1.5, 2.0] if model == "fsc" else [1.0, 1.5, 2.0, 2.6, 3.0], size=3)]
            d = np.clip(d, [-x for x in ms], ms)
            if kind == 0:
                d = np.trunc(d)          # still an integer displacement
            if kind in (2, 3):
                ax_ = int(rng.integers(0, 3)); d[ax_] = float(rng.choice([-1, 1])) * np.floor(ms[ax_] * 20) / 20
            lo = int(np.ceil(2 * (max(ms) + 4.5)))
            shape = [max(x, lo) for x in shape]
        bg = float(rng.choice([0.0, 1.0, 2.0])) if model in ("ncc", "zncc") and i % 2 else 0.0
        gain = float(rng.choice([1e-3, 1e3, 1e-4])) if (model in ("ncc", "zncc") and i % 5 == 2 and not bg) else None
        c = dict(model=model, shape=shape, max_shifts=ms, background=bg, gain=gain, d=[float(x) for x in d], seed=int(rng.integers(0, 2**31)),
                 cutoff=(0.45 if i % 7 == 0 else None), tilt=None, rotvec=((rng.normal(size=3) * 0.4).tolist() if i % 6 == 0 else None),
                 dkind=["integer", "fractional", "face", "corner", "small"][kind])
        _accuracy_one(ck, c)


def _accuracy_one(ck, c):
        model = c["model"]
        try:
            ok, detail, err = accuracy_case(c)
        except Exception as e:  # noqa
            ok, detail, err = False, f"raised {type(e).__name__}: {e}", None
        ck.oracle_count("displacement_recovery", 1, 1)
        if not ok:
            key = {"site": "accuracy", "model": model, "dkind": c["dkind"]}
            if model == "fsc" and err is not None and err <= 0.6 + 1e-6 and "score" in detail:
                # which components fail, and are they all within 0.1 px of a half-integer (where two integer lags tie)?
                import re
                got = json.loads(re.search(r"shift (\[[^\]]*\])", detail).group(1))
                badc = [i for i in range(3) if abs(got[i] - c["d"][i]) > 0.5 + 1e-6]
                if badc and all(abs(abs(c["d"][i]) % 1 - 0.5) <= 0.1 + 1e-9 for i in badc):
                    key = {"site": "accuracy", "model": "fsc", "class": "half-integer-lag-ambiguity"}
            ck.violation(what=f"{model}: {detail}", inp=c, key=key, oracle="displacement_recovery", measured=err)


def run(ck: common.Check):
    ck.design_ref = "DESIGN.md §6 C04"
    ck.trusted_base = TB
    ck.partial = ["sub-pixel accuracy (0.1 px / 0.5 px) of spline and DFT up-sampling is numeric: implementation oracle only",
                  "the theorems cover index/sign conventions, optimality of the exact (circular) correlation at the true displacement and the refinement mesh"]
    a5 = Anchors(common.REPO)
    C05.anchors(a5)
    ck.write_anchors("C05", a5)
    # C04 has no anchors of its own: an (empty) generated file keeps the bookkeeping uniform
    ck.write_anchors(PID, Anchors(common.REPO))
    ck.build(["C04"], ["C04/Property.v", "C04/PropertyR.v"], extra=["C04/Model.v"])
    rng = np.random.default_rng(ck.seed + 404)
    corr_peaks(ck, rng)
    oracle_accuracy(ck, rng)


def replay(data):
    if data.get("oracle") == "displacement_recovery":
        ok, detail, _ = accuracy_case(data["input"])
        print("replay:", "holds" if ok else "FAILS", detail)
        return 0 if ok else 1
    print(json.dumps(data.get("input"), indent=1)[:3000])
    return 0


TB = [
    "Coq 8.16.1 kernel + coqc; vm_compute for the correspondence",
    "axioms: stdlib Reals axioms (ClassicalDedekindReals.sig_forall_dec, sig_not_dec, FunctionalExtensionality.functional_extensionality_dep; coqchk -o also lists Classical_Prop.classic) for PropertyR.v (Cauchy-Schwarz based optimality); index theorems over Z/Q axiom-free",
    "translator: the C05 anchor set (padding, crop, midpoints, mesh, FSC phase range, PCC crop/unwrap)",
    "assumed kernel laws: FFT-based correlation equals the direct sum; Fourier shift theorem sign; numpy argmax",
]
