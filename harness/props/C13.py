"""C13 — saved molecules reload unchanged."""
from __future__ import annotations
import ast
import json
import os
import shutil
import tempfile
import numpy as np
from fractions import Fraction

import common
from common import zl, ql, bl, lst, zlist, qlist, frac, natl
from translate import Anchors, Untranslatable
from props.C11 import norm

PID = "C13"
MC = "acryo/molecules/core.py"


def slit(s):
    return '"' + s.replace('"', '""') + '"%string'


def anchors(a: Anchors):
    a.state("molecules_store_only_pos_rot_features", "acryo/molecules/core.py",
            {"Molecules": ["_pos", "_rotator", "_features", "features", "class:groupby"]},
            "a Molecules object stores positions, rotator and feature table and nothing derived from them (no memo that could go stale)")
    def csv_cols(tree, src):
        for n in ast.walk(tree):
            if isinstance(n, ast.Assign) and ast.unparse(n.targets[0]) == "_CSV_COLUMNS":
                vals = ast.literal_eval(n.value)
                return "Definition csv_columns : list string := " + lst([slit(v) for v in vals]) + "."
        raise Untranslatable("_CSV_COLUMNS not found")
    a.raw("csv_columns", MC, "", "_CSV_COLUMNS", csv_cols)

    def df_order(fn, src):
        for n in ast.walk(fn):
            if isinstance(n, ast.Call) and ast.unparse(n.func) == "pl.DataFrame" and n.args and isinstance(n.args[0], ast.Dict):
                keys = [ast.literal_eval(k) for k in n.args[0].keys]
                t = norm(ast.unparse(fn))
                ok = "df=df.with_columns(list(self._features))" in t and "rotvec=self.rotvec().astype(np.float32)" in t
                if not ok:
                    raise Untranslatable("to_dataframe structure changed")
                return "Definition dataframe_columns : list string := " + lst([slit(v) for v in keys]) + "."
        raise Untranslatable("pl.DataFrame({...}) not found in to_dataframe")
    a.raw("dataframe_columns", MC, "Molecules.to_dataframe", "column order of the data frame", df_order)

    def suffixes(name):
        def f(fn, src):
            for n in ast.walk(fn):
                if isinstance(n, ast.Compare) and isinstance(n.ops[0], ast.In) and ast.unparse(n.left).endswith(".suffix"):
                    vals = ast.literal_eval(n.comparators[0])
                    t = norm(ast.unparse(fn))
                    pq = ("to_parquet(" in t.split("return")[1]) if name == "writer" else ("from_parquet(" in t.split("return")[1])
                    if not pq:
                        raise Untranslatable("first branch is not the parquet branch")
                    return f"Definition {name}_parquet_suffixes : list string := " + lst([slit(v) for v in vals]) + "."
            raise Untranslatable("suffix test not found")
        return f
    a.raw("writer_parquet_suffixes", MC, "Molecules.to_file", "suffixes routed to to_parquet", suffixes("writer"))
    a.raw("reader_parquet_suffixes", MC, "Molecules.from_file", "suffixes routed to from_parquet", suffixes("reader"))
    a.fact("from_dataframe_splits_by_name", MC, "Molecules.from_dataframe", "features = columns not in pos_cols + rot_cols",
           lambda fn: all(x in norm(ast.unparse(fn)) for x in ["cols=pos.columns+rotvec.columns", "feature_columns=[cforcindf.columnsifcnotincols]",
                                                               "rot=Rotation.from_rotvec(rotvec.to_numpy())", "iflen(pos)==0:rot=None"]))


def corr_layout(ck, rng):
    from acryo import Molecules
    import polars as pl
    names_pool = ["a", "score", "b2", "label", "z", "xvec", "Z", "yvec ", "n", "pf-id", "image-id"]
    cases = []
    for i in range(60 if ck.tier == "quick" else 600):
        k = int(rng.integers(0, 5))
        names = [str(x) for x in rng.choice(names_pool, size=k, replace=False)]
        n = int(rng.integers(1, 4))
        m = Molecules(rng.normal(size=(n, 3)), features={nm_: list(range(n)) for nm_ in names} if names else None)
        try:
            df = m.to_dataframe()
            cols = df.columns
            back = Molecules.from_dataframe(df)
            fcols = back.features.columns
            obs = f"(Some ({lst([common_slit(c) for c in cols])}, {lst([common_slit(c) for c in fcols])}))"
        except ValueError:
            obs = "None"
        cases.append((f"(check_layout {lst([common_slit(c) for c in names])} {obs})", {"features": names, "observed": obs[:80]}))
    ck.corr_run("dataframe_layout", ["Coq.Strings.String", "AcryoGen.Anchors_C13", "Acryo.C13.Model"], cases, shard=300, observable=True,
                describe=lambda c: {"site": "layout"})


def common_slit(s):
    return slit(s)


def corr_dispatch(ck, rng):
    from acryo import Molecules
    log = []

    class Rec(Molecules):
        def to_csv(self, p, *a, **k): log.append("csv")
        def to_parquet(self, p, *a, **k): log.append("parquet")
        @classmethod
        def from_csv(cls, p, *a, **k): log.append("csv"); return None
        @classmethod
        def from_parquet(cls, p, *a, **k): log.append("parquet"); return None
    m = Rec(np.zeros((1, 3)))
    cases = []
    for suf in [".csv", ".pq", ".parquet", ".txt", "", ".PQ", ".Parquet", ".parq", ".pq.csv", ".csv.pq", ".tsv", ".parquet "]:
        name = "mol" + suf
        suffix = os.path.splitext(name)[1] if not name.endswith(" ") else ".parquet "
        from pathlib import Path
        suffix = Path(name).suffix
        log.clear()
        m.to_file(name); Rec.from_file(name)
        cases.append((f"(check_dispatch {slit(suffix)} {bl(log[0] == 'parquet')} {bl(log[1] == 'parquet')})", {"suffix": suffix, "writer": log[0], "reader": log[1]}))
    ck.corr_run("suffix_dispatch", ["Coq.Strings.String", "AcryoGen.Anchors_C13", "Acryo.C13.Model"], cases, shard=300, observable=True,
                describe=lambda c: {"site": "dispatch", "suffix": c["suffix"]})


def corr_csv_precision(ck, rng):
    """CSV text of float columns: the written decimal is the nearest p-digit decimal (|err| <= 10^-p / 2)"""
    from acryo import Molecules
    cases = []
    d = tempfile.mkdtemp(prefix="c13csv", dir=common.WORKROOT)
    try:
        for i in range(20 if ck.tier == "quick" else 200):
            p = int(rng.integers(1, 8))
            n = 4
            pos = (rng.normal(size=(n, 3)) * 10 ** rng.integers(0, 4)).astype(np.float32)
            m = Molecules(pos)
            f = os.path.join(d, "m.csv")
            m.to_csv(f, float_precision=p)
            rows = open(f).read().strip().split("\n")[1:]
            for r, line in enumerate(rows):
                txt = line.split(",")[0]
                cases.append((f"(check_csv {natl(p)} {ql(frac(float(pos[r, 0])))} {ql(Fraction(txt))})",
                              {"precision": p, "value": float(pos[r, 0]), "text": txt}))
    finally:
        shutil.rmtree(d, ignore_errors=True)
    ck.corr_run("csv_precision", ["Coq.Strings.String", "AcryoGen.Anchors_C13", "Acryo.C13.Model"], cases, shard=400, observable=True,
                describe=lambda c: {"site": "csv", "precision": c["precision"]})


def oracle_files(ck, rng):
    from acryo import Molecules
    from scipy.spatial.transform import Rotation
    import polars as pl
    d = tempfile.mkdtemp(prefix="c13", dir=common.WORKROOT)
    try:
        for i in range(14 if ck.tier == "quick" else 150):
            n = int(rng.integers(1, 7))
            axes = rng.normal(size=(n, 3)); axes /= np.linalg.norm(axes, axis=1, keepdims=True)
            kind = i % 4
            ang = {0: rng.uniform(0, np.pi, size=n), 1: np.pi - 10 ** rng.uniform(-7, -3, size=n), 2: 10 ** rng.uniform(-7, -3, size=n), 3: rng.uniform(0.1, 3.0, size=n)}[kind]
            rot = Rotation.from_rotvec(axes * ang[:, None])
            pos = rng.normal(size=(n, 3)) * 10 ** rng.integers(0, 5)
            feats = {"i": [int(x) for x in rng.integers(-5, 50, size=n)], "f": [float(x) for x in rng.normal(size=n)],
                     "s": [f"name{j}" for j in range(n)], "b": [bool(x) for x in rng.integers(0, 2, size=n)],
                     "nul": [None if j % 2 else j for j in range(n)],
                     "fnan": [float("nan") if j % 3 == 1 else (None if j % 3 == 2 else 0.25 * j) for j in range(n)],     # NaN and null are different things
                     "snan": [["nan", "NaN", "x", ""][j % 4] if j % 5 else "NULL" for j in range(n)]}                   # strings that only look like missing values
            m = Molecules(pos, rot, features=feats)
            for fmt in ("df", "parquet", "pq-to_file", "csv", "csv-to_file"):
                prec = int(rng.integers(3, 12))          # the requested number of decimals, whatever it is
                try:
                    if fmt == "df":
                        back = Molecules.from_dataframe(m.to_dataframe())
                    elif fmt == "parquet":
                        f = os.path.join(d, "a.parquet"); m.to_parquet(f); back = Molecules.from_parquet(f)
                    elif fmt == "pq-to_file":
                        f = os.path.join(d, "a.pq"); m.to_file(f); back = Molecules.from_file(f)
                    elif fmt == "csv":
                        f = os.path.join(d, "a.csv"); m.to_csv(f, float_precision=prec); back = Molecules.from_csv(f)
                    else:
                        f = os.path.join(d, "b.csv"); m.to_file(f); back = Molecules.from_file(f); prec = 4
                    cols = m.to_dataframe().columns
                    fails = []
                    if cols[:6] != ["z", "y", "x", "zvec", "yvec", "xvec"] or cols[6:] != list(feats): fails.append("column order")
                    if len(back) != n: fails.append("row count")
                    exact = fmt in ("df", "parquet", "pq-to_file")
                    tolp = 0 if exact else 0.5 * 10 ** (-prec) * 1.0001 + 1e-7 * np.abs(pos).max()
                    if np.abs(back.pos - m.pos).max() > tolp: fails.append(f"positions differ by {np.abs(back.pos - m.pos).max():.3g}")
                    rerr = (back.rotator.inv() * m.rotator).magnitude().max()
                    tolr = 2e-6 if exact else 3 * 10 ** (-prec) + 2e-6
                    if rerr > tolr: fails.append(f"orientation differs by {rerr:.3g} rad")
                    bf = back.features
                    if bf.columns != list(feats): fails.append("feature columns")
                    else:
                        if bf["i"].to_list() != feats["i"] or bf["s"].to_list() != feats["s"] or bf["b"].to_list() != feats["b"] or bf["nul"].to_list() != feats["nul"]:
                            fails.append("feature values")
                        fn_b, fn_w = bf["fnan"].to_list(), feats["fnan"]
                        same_nan = len(fn_b) == len(fn_w) and all((a is None and b is None) or (a is not None and b is not None and ((a != a and b != b) or abs(a - b) < 1e-3))
                                                                  for a, b in zip(fn_b, fn_w))
                        if not same_nan: fails.append(f"NaN/null feature: {fn_b} for {fn_w}")
                        if exact and bf["snan"].to_list() != feats["snan"]: fails.append(f"string feature: {bf['snan'].to_list()} for {feats['snan']}")
                        if np.abs(np.array(bf["f"].to_list()) - np.array(feats["f"])).max() > (0 if exact else 0.5 * 10 ** (-prec) * 1.0001): fails.append("float feature")
                except Exception as e:  # noqa
                    fails = [f"raised {type(e).__name__}: {e}"]
                ck.oracle_count("file_roundtrip", 1, 1)
                for fl in fails:
                    ck.violation(what=f"{fmt} round trip: {fl}", inp={"format": fmt, "n": n, "angle_class": ["generic", "near-pi", "near-0", "mid"][kind], "precision": prec},
                                 key={"site": "roundtrip", "format": fmt, "symptom": fl.split(" ")[0]}, oracle="file_roundtrip", measured=fl)
        # ---- saving reflects the current state: write, change the same object in place, write again ----
        for it2 in range(3 if ck.tier == "quick" else 20):
            n = int(rng.integers(1, 6))
            m = Molecules(rng.normal(size=(n, 3)) * (10 if it2 % 3 else 300), Rotation.random(n, random_state=int(rng.integers(0, 2**31))), features={"i": list(range(n))})
            _ = m.to_dataframe(); _ = m.rotvec(); _ = m.matrix(); _ = (m.x, m.y, m.z); _ = m.quaternion(); _ = m.euler_angle()
            f0 = os.path.join(d, "s0.parquet"); m.to_file(f0)
            m.rotate_by(Rotation.random(random_state=int(rng.integers(0, 2**31))), copy=False)
            m.translate(rng.normal(size=3), copy=False)
            if it2 % 3 == 0:
                m.translate_internal(rng.normal(size=(n, 3)) * 3.3, copy=False)
                m.translate_random(2.7, seed=it2, copy=False)
            if it2 % 2:
                m.rotate_by_rotvec_internal(rng.normal(size=3) * 0.5, copy=False)
            for fmt in ("df", "parquet", "csv"):
                ck.oracle_count("save_after_inplace_change", 1, 1)
                try:
                    if fmt == "df":
                        back = Molecules.from_dataframe(m.to_dataframe())
                    elif fmt == "parquet":
                        f = os.path.join(d, "s1.parquet"); m.to_file(f); back = Molecules.from_file(f)
                    else:
                        f = os.path.join(d, "s1.csv"); m.to_csv(f, float_precision=6); back = Molecules.from_file(f)
                    tolp, tolr = (1e-6, 2e-6) if fmt != "csv" else (1e-5, 1e-4)
                    perr = float(np.abs(back.pos - m.pos).max()); rerr = float((back.rotator.inv() * m.rotator).magnitude().max())
                    fl = None if perr <= tolp and rerr <= tolr else f"positions off by {perr:.3g}, orientations by {rerr:.3g} rad"
                    if fl is None:
                        aerr = max(float(np.abs(np.asarray(getattr(back, ax_)) - np.asarray(getattr(m, ax_))).max()) for ax_ in "xyz")
                        merr = float(np.abs(back.matrix() - m.matrix()).max())
                        if aerr > 1e-3 or merr > 1e-3:
                            fl = f"the axes / matrices the saved object reports differ from the reloaded ones by {max(aerr, merr):.3g}"
                    if fl is None and fmt != "csv" and not np.array_equal(np.asarray(back.pos), np.asarray(m.pos)):
                        fl = f"positions are not reloaded exactly (off by {perr:.3g}; stored as {m.to_dataframe()['z'].dtype}, held as {np.asarray(m.pos).dtype})"
                except Exception as e:  # noqa
                    fl = f"raised {type(e).__name__}: {e}"
                if fl:
                    ck.violation(what=f"{fmt} written after in-place rotate/translate of an object that had been written before: {fl}", inp={"format": fmt, "n": n},
                                 key={"site": "roundtrip-after-inplace", "format": fmt}, oracle="save_after_inplace_change", measured=fl)
        # ---- molecules built from quaternions of any length: the saved object and the reloaded one describe the same orientations ----
        for it3 in range(2 if ck.tier == "quick" else 10):
            n = int(rng.integers(1, 5))
            rq = Rotation.random(n, random_state=int(rng.integers(0, 2**31)))
            mq = Molecules.from_quat(rng.normal(size=(n, 3)) * 10, rq.as_quat() * float(rng.choice([2.0, 0.4, 1.0 + 2 ** -10])), features={"i": list(range(n))})
            for fmt in ("df", "parquet", "csv"):
                ck.oracle_count("nonunit_quaternion_roundtrip", 1, 1)
                try:
                    if fmt == "df":
                        back = Molecules.from_dataframe(mq.to_dataframe())
                    elif fmt == "parquet":
                        f = os.path.join(d, "q.parquet"); mq.to_file(f); back = Molecules.from_file(f)
                    else:
                        f = os.path.join(d, "q.csv"); mq.to_csv(f, float_precision=6); back = Molecules.from_file(f)
                    merr = float(np.abs(back.matrix() - mq.matrix()).max()); terr = float(np.abs(mq.matrix() - rq.as_matrix()).max())
                    fl = None if merr <= 1e-4 and terr <= 1e-5 else f"orientation matrices: saved object vs reloaded {merr:.3g}, saved object vs the rotation the quaternion denotes {terr:.3g}"
                except Exception as e:  # noqa
                    fl = f"raised {type(e).__name__}: {e}"
                if fl:
                    ck.violation(what=f"{fmt} round trip of molecules built with from_quat from quaternions that are not of unit length: {fl}", inp={"format": fmt, "n": n},
                                 key={"site": "roundtrip-nonunit-quat", "format": fmt}, oracle="nonunit_quaternion_roundtrip", measured=fl)
        # ---- zero molecules with feature columns: columns and schema survive every format ----
        empty_feats = pl.DataFrame({"i": pl.Series("i", [], dtype=pl.Int64), "f": pl.Series("f", [], dtype=pl.Float64), "s": pl.Series("s", [], dtype=pl.Utf8)})
        full = Molecules(np.arange(6, dtype=float).reshape(2, 3), features={"i": [1, 2], "f": [0.5, 1.5], "s": ["a", "b"]})
        for how, m0 in (("constructed", Molecules(np.zeros((0, 3)), features=empty_feats)), ("head(0)", full.head(0)), ("filter-none", full.filter(pl.col("i") > 99)),
                        ("empty slice", full.subset(slice(0, 0))), ("all-false mask", full.subset(np.zeros(2, dtype=bool)))):
            for fmt in ("df", "parquet", "csv"):
                ck.oracle_count("empty_with_features", 1, 1)
                try:
                    cols = m0.to_dataframe().columns
                    if fmt == "df":
                        back = Molecules.from_dataframe(m0.to_dataframe())
                    elif fmt == "parquet":
                        f = os.path.join(d, "e.parquet"); m0.to_file(f); back = Molecules.from_file(f)
                    else:
                        f = os.path.join(d, "e.csv"); m0.to_file(f); back = Molecules.from_file(f)
                    fl = None
                    if cols != ["z", "y", "x", "zvec", "yvec", "xvec", "i", "f", "s"]: fl = f"data frame columns {cols}"
                    elif len(back) != 0: fl = f"{len(back)} molecules read back"
                    elif back.features.columns != ["i", "f", "s"]: fl = f"feature columns read back: {back.features.columns}"
                    else:
                        # the saved and the reloaded (empty) set answer every orientation accessor alike
                        for acc_ in ("matrix", "rotvec", "quaternion", "euler_angle"):
                            a_, b_ = np.asarray(getattr(m0, acc_)()), np.asarray(getattr(back, acc_)())
                            if a_.shape != b_.shape:
                                fl = f"{acc_}() has shape {a_.shape} before saving and {b_.shape} after reloading"
                                break
                except Exception as e:  # noqa
                    fl = f"raised {type(e).__name__}: {e}"
                if fl:
                    ck.violation(what=f"zero molecules with features ({how}), {fmt}: {fl}", inp={"how": how, "format": fmt},
                                 key={"site": "roundtrip-empty", "format": fmt, "how": how}, oracle="empty_with_features", measured=fl)
        # ---- to_file / from_file choose the format from the (last) suffix, whatever else the name contains ----
        for name in ("plain.parquet", "plain.pq", "plain.csv", "run_1.5nm.parquet", "mole.v2.pq", "a.b.csv", "x.parquet.csv", "y.csv.pq", "noext", "set.1.txt"):
            ck.oracle_count("suffix_decides_format", 1, 1)
            from pathlib import Path
            want_pq = Path(name).suffix in (".pq", ".parquet")
            f = os.path.join(d, name)
            fl = None
            try:
                full.to_file(f)
                with open(f, "rb") as fh:
                    is_pq = fh.read(4) == b"PAR1"
                if is_pq != want_pq:
                    fl = f"to_file wrote {'parquet' if is_pq else 'csv'}"
                else:
                    # a file of the right format written by the explicit writer must be readable through from_file
                    (full.to_parquet if want_pq else full.to_csv)(f)
                    back = Molecules.from_file(f)
                    if len(back) != 2 or back.features.columns != ["i", "f", "s"] or np.abs(back.pos - full.pos).max() > 1e-3:
                        fl = "from_file read something else"
            except Exception as e:  # noqa
                fl = f"raised {type(e).__name__}: {e}"
            if fl:
                ck.violation(what=f"file name {name!r} (suffix {Path(name).suffix!r}): {fl}", inp={"name": name},
                             key={"site": "suffix", "dotted_stem": name.count(".") > 1, "parquet": want_pq}, oracle="suffix_decides_format", measured=fl)
    finally:
        shutil.rmtree(d, ignore_errors=True)


def oracle_save_after_history(ck, rng):
    """what is written is the molecules as they are now: views taken earlier (data frames, heads, filters, earlier saves) and in-place edits
    in between (rotate / translate with copy=False, a new feature table, append) must not show in the saved table"""
    import tempfile
    import polars as pl
    from scipy.spatial.transform import Rotation
    from acryo import Molecules
    n_it = 6 if ck.tier == "quick" else 40
    with tempfile.TemporaryDirectory() as td:
        for it in range(n_it):
            n = int(rng.integers(2, 7))
            mol = Molecules(rng.uniform(0, 50, size=(n, 3)), Rotation.random(n, random_state=int(rng.integers(0, 2**31))),
                            features={"k": [int(x) for x in rng.integers(0, 5, size=n)]})
            history = []
            for step in range(int(rng.integers(2, 5))):
                view = int(rng.integers(0, 5))
                history.append(["to_dataframe", "head", "filter", "to_parquet", "sort"][view])
                if view == 0: mol.to_dataframe()
                elif view == 1: mol.head(1)
                elif view == 2: mol.filter(pl.col("k") >= 0)
                elif view == 3: mol.to_parquet(os.path.join(td, f"early{it}.parquet"))
                else: mol.sort("k")
                edit = int(rng.integers(0, 4))
                history.append(["rotate_by(copy=False)", "translate(copy=False)", "features=", "rotate_by_rotvec_internal(copy=False)"][edit])
                if edit == 0: mol.rotate_by(Rotation.random(random_state=int(rng.integers(0, 2**31))), copy=False)
                elif edit == 1: mol.translate(rng.uniform(-3, 3, size=3), copy=False)
                elif edit == 2: mol.features = mol.features.with_columns((pl.col("k") + 1).alias("k"))
                else: mol.rotate_by_rotvec_internal(rng.uniform(-1, 1, size=3), copy=False)
            now_pos, now_mat, now_k = mol.pos.copy(), mol.matrix().copy(), mol.features["k"].to_list()
            for ext in ("parquet", "csv", "frame"):
                ck.oracle_count("save_after_history", 1, 1)
                try:
                    if ext == "frame":
                        back = Molecules.from_dataframe(mol.to_dataframe())
                    else:
                        path = os.path.join(td, f"late{it}.{ext}")
                        mol.to_file(path)
                        back = Molecules.from_file(path)
                    bad = None
                    if not np.allclose(back.pos, now_pos, atol=1e-3): bad = f"positions differ by {float(np.abs(back.pos - now_pos).max()):.3g}"
                    elif not np.allclose(back.matrix(), now_mat, atol=1e-3): bad = f"orientations differ: rotation matrices off by {float(np.abs(back.matrix() - now_mat).max()):.3g}"
                    elif back.features["k"].to_list() != now_k: bad = "feature column differs"
                except Exception as e:  # noqa
                    bad = f"raised {type(e).__name__}: {e}"
                if bad:
                    ck.violation(what=f"after the history {history} the table saved as {ext} and reloaded is not the current molecules: {bad}",
                                 inp={"history": history, "format": ext, "n": n, "seed": ck.seed, "iteration": it},
                                 key={"site": "save-after-history", "format": ext, "symptom": bad.split(" ")[0]}, oracle="save_after_history")


def run(ck: common.Check):
    ck.design_ref = "DESIGN.md §6 C13"
    ck.trusted_base = TB
    ck.partial = ["polars CSV/Parquet writers and readers are kernels: value round trips are exercised on real files (oracle)",
                  "orientation error through the float32 rotation-vector columns is measured as a rotation angle (<= 2e-6 rad), not proved"]
    a = Anchors(common.REPO)
    anchors(a)
    ck.write_anchors(PID, a)
    ck.build(["C13"], ["C13/Property.v"], extra=["C13/Model.v"])
    rng = np.random.default_rng(ck.seed + 1313)
    corr_layout(ck, rng)
    corr_dispatch(ck, rng)
    corr_csv_precision(ck, rng)
    oracle_files(ck, rng)
    oracle_save_after_history(ck, np.random.default_rng(ck.seed + 1313))


def replay(data):
    print(json.dumps(data.get("input"), indent=1)[:4000])
    return 0


TB = [
    "Coq 8.16.1 kernel + coqc; vm_compute for the correspondence",
    "axioms: none expected; see coverage.assumptions_printed",
    "structural anchors: _CSV_COLUMNS, to_dataframe column order, to_file/from_file suffix lists, from_dataframe feature split",
    "assumed: polars write_csv(float_precision=p) writes the nearest p-digit decimal; parquet / DataFrame round trips are exact; "
    "scipy as_rotvec/from_rotvec are mutually inverse (angle metric)",
]
