"""C14 — simulated tomograms contain the template at the requested poses."""
from __future__ import annotations
import ast
import json
import numpy as np

import common
from common import zl, ql, bl, lst, zlist, qlist, frac, natl
from translate import Anchors, find_def
from props.C11 import norm
from props.C02 import rot24, vol_lit

PID = "C14"
SM = "acryo/simulator.py"
UT = "acryo/_utils.py"


def anchors(a: Anchors):
    a.func("make_slice_and_pad", UT, "make_slice_and_pad", {"z0": "Z", "z1": "Z", "size": "Z"})
    P = "_prep_iterators"
    a.expr("sim_pos_px", SM, P, ("assign", "pos"), {"p": "Q", "scale": "Q"}, env={"mol.pos": ("p", "Q")}, want="Q")
    a.expr("sim_intpos", SM, P, ("assign", "intpos"), {"pos": "Q"}, want="Z")
    a.expr("sim_residue", SM, P, ("assign", "residue"), {"pos": "Q", "intpos": "Z"}, want="Q")
    a.expr("sim_center", SM, P, ("assign", "center"), {"s": "Z"}, env={"np.array(shape)": ("s", "Z")}, want="Q")
    a.expr("sim_int_center", SM, P, ("assign", "int_center"), {"center": "Q"}, want="Z")
    a.expr("sim_start", SM, P, ("assign", "starts"), {"intpos": "Z", "int_center": "Z"}, want="Z")
    a.expr("sim_stop", SM, P, ("assign", "stops"), {"starts": "Z", "s": "Z"}, env={"shape": ("s", "Z")}, want="Z")
    a.expr("sim_output_center", SM, P, ("find", lambda n: isinstance(n, ast.keyword) and n.arg == "output_center", 0, "output_center="),
           {"int_center": "Z", "residue": "Q"}, want="Q", post=lambda n: n.value)
    a.fact("sim_uses_inverse_rotation", SM, P, "_compose_affine_matrices(center, mol.rotator.inv(), ...)",
           lambda fn: "_compose_affine_matrices(center,mol.rotator.inv(),output_center=" in norm(ast.unparse(fn)))
    a.fact("sim_affine_shape", SM, "_compose_affine_matrices", "T(center) R T(-output_center)",
           lambda fn: all(t in norm(ast.unparse(fn)) for t in ["translation_1[:,:3,3]=-output_center", "rot_mtx[:,:3,:3]=rotator.as_matrix()",
                                                               "np.einsum('ij,njk,nkl->nil',translation_0,rot_mtx,translation_1)", "[0.0,0.0,1.0,dx]"]))
    a.fact("sim_prep_slices_shape", SM, "_prep_slices", "dst = clipped slice, src = [pad0, tsize - pad1), ValueError -> skipped",
           lambda fn: all(t in norm(ast.unparse(fn)) for t in ["_sl,_pads,_out_of_bound=_utils.make_slice_and_pad(s,e,size)", "exceptValueError:",
                                                               "return((slice(None),),None)", "sl_dst_list.append(_sl)", "s0,s1=_pads",
                                                               "sl_src_list.append(slice(s0,tsize-s1))", "sl_src_list.append(slice(None))"]))
    from translate import forwards
    SIM_PARAMS = ["order", "scale", "corner_safe"]
    a.fact("sim_subset_forwards_options", SM, "TomogramSimulator.subset", "type(self)(order=self.order, scale=self._scale, corner_safe=self.corner_safe)",
           lambda fn: forwards(fn, ("type(self)", "self.__class__"), SIM_PARAMS, {"order": ("self.order", "self._order"), "scale": ("self._scale", "self.scale"),
                                                                                    "corner_safe": ("self.corner_safe", "self._corner_safe")}))
    a.fact("sim_replace_forwards_options", SM, "TomogramSimulator.replace", "self.__class__(order=order, scale=scale, corner_safe=corner_safe); None -> own value; components copied",
           lambda fn: forwards(fn, ("type(self)", "self.__class__"), SIM_PARAMS, {"order": ("order",), "scale": ("scale",), "corner_safe": ("corner_safe",)})
           and all(f"if{k}isNone:{k}=self.{k}" in norm(ast.unparse(fn)) for k in SIM_PARAMS) and "out._components=self._components.copy()" in norm(ast.unparse(fn)))
    a.fact("sim_accumulates", SM, "TomogramSimulator._simulate", "tomogram[sl] += fragment; cval=0 affine_transform without prefilter",
           lambda fn: "tomogram[sl]+=img_fragment" in norm(ast.unparse(fn)) and "ifimg_fragmentisnotNone" in norm(ast.unparse(fn)))
    a.fact("projection_coordinates_as_modelled", SM, "TomogramSimulator.simulate_projection",
           "(pos - rc)/scale . e + (n - 1)/2 per axis; axes normalised; glob_rotator = axes_to_rotator(cross(ex, ey), ey); fragments accumulated",
           lambda fn: all(t in norm(ast.unparse(fn)) for t in [
               "ex=np.asarray(xaxis,dtype=np.float32)/np.linalg.norm(xaxis)", "ey=np.asarray(yaxis,dtype=np.float32)/np.linalg.norm(yaxis)",
               "rc=np.asarray(center,dtype=np.float32)", "pos_scaled=(mol.pos-rc)/self.scale", "xcoords=pos_scaled.dot(ex)+(shape[1]-1)/2",
               "ycoords=pos_scaled.dot(ey)+(shape[0]-1)/2", "coords=np.stack((ycoords,xcoords),axis=1)", "glob_rotator=axes_to_rotator(cross(ex,ey),ey)",
               "pool.add_task(yx,shape,img,mol.rotator[i],glob_rotator)", "projection[sl]+=img_fragment"]))
    a.fact("tilt_series_as_modelled", SM, "TomogramSimulator.simulate_tilt_series",
           "ex = (sin, 0, cos), ey = (0, 1, 0), rc = (shape/2 - 0.5) * scale, same coordinates and rotator as simulate_projection",
           lambda fn: all(t in norm(ast.unparse(fn)) for t in [
               "rads=np.deg2rad(list(degrees))", "ey=np.array([0,1,0],dtype=np.float32)", "rc=(np.array(shape,dtype=np.float32)/2-0.5)*self.scale",
               "ex=np.array([np.sin(rad),0,np.cos(rad)],dtype=np.float32)", "pos_scaled=(mol.pos-rc)/self.scale", "xcoords=pos_scaled.dot(ex)+(shape[2]-1)/2",
               "ycoords=pos_scaled.dot(ey)+(shape[1]-1)/2", "glob_rotator=axes_to_rotator(cross(ex,ey),ey)",
               "pool.add_task(yx,shape[1:],img,mol.rotator[ci],glob_rotator,i)", "tilt_series[sl]+=img_fragment"])
           and "rotator.inv()*glob_rotator" in norm(ast.unparse(find_def(a.load(SM)[1], "_simulate_projection_one"))))
    a.state("simulator_stores_components_and_options_only", SM, {"TomogramSimulator": ["_components", "_corner_safe", "_order", "_scale"]},
            "a TomogramSimulator stores its components and options only (nothing filtered or simulated is remembered between calls)")
    a.fact("sim_2d_projects_z", SM, "_simulate_2d_one", "np.sum(transformed[sl_src], axis=0); dst = sl_dst[1:]",
           lambda fn: all(t in norm(ast.unparse(fn)) for t in ["projected=np.sum(transformed[sl_src],axis=0)", "return(sl_dst[1:],projected)"]))


# --------------------------------------------------------------------------
def gen_case(rng, tier):
    N = (6, 7, 5)
    ncomp = int(rng.integers(1, 3))
    comps = []
    for _ in range(ncomp):
        shape = tuple(int(x) for x in rng.integers(1, 5, size=3))
        if rng.random() < 0.4:
            shape = (shape[0],) * 3
        tmpl = rng.integers(1, 9, size=shape)
        nm = int(rng.integers(1, 3))
        mols = []
        for _ in range(nm):
            kind = ["interior", "straddle", "outside", "exact"][int(rng.integers(0, 4))]
            if kind == "exact":
                pos = np.array([rng.integers(1, n - 1) + ((s - 1) / 2 - (s - 1) // 2) for n, s in zip(N, shape)], dtype=float)
                ri = 0
            else:
                lo, hi = {"interior": (2, 2), "straddle": (-1, -1), "outside": (-6, -6)}[kind]
                pos = np.array([rng.integers(lo * 2, (n - hi) * 2) / 2.0 if kind != "outside" else
                                float(rng.choice([-5.5, n + 4.0, rng.integers(0, n)])) for n in N])
                ri = int(rng.integers(0, 24))
            mols.append((pos.tolist(), ri, kind))
        comps.append((tmpl, mols))
    order = int(rng.choice([0, 1, 1]))
    scale = float(rng.choice([1.0, 0.5, 2.0, 8.0, 0.125]))      # voxel sizes far from 1 nm too (lengths in nm vs pixels)
    return N, comps, order, scale


def build_sim(N, comps, order, scale, reverse=False):
    from acryo import TomogramSimulator, Molecules
    from scipy.spatial.transform import Rotation
    R = rot24()
    sim = TomogramSimulator(order=order, scale=scale)
    seq = list(enumerate(comps))
    if reverse:
        seq = seq[::-1]
    for ci, (tmpl, mols) in seq:
        ms = mols[::-1] if reverse else mols
        pos = np.array([m[0] for m in ms]) * scale
        rot = Rotation.from_matrix(np.stack([R[m[1]] for m in ms]).astype(float))
        sim.add_molecules(Molecules(pos, rot), tmpl.astype(np.float32), name=f"c{ci}")
    return sim


def run_sim(N, comps, order, scale, twod=False, reverse=False):
    sim = build_sim(N, comps, order, scale, reverse)
    if twod:
        return sim.simulate_2d(N[1:])
    return sim.simulate(N)


def case_term(N, comps, order, scale, out):
    R = rot24()
    cs = []
    for tmpl, mols in comps:
        ms = lst([f"(({ql(frac(np.float32(p[0] * scale) / scale))}, {ql(frac(np.float32(p[1] * scale) / scale))}, {ql(frac(np.float32(p[2] * scale) / scale))}), {zlist(R[ri].ravel().tolist())})"
                  for p, ri, _ in mols])
        cs.append(f"({vol_lit(tmpl)}, {ms})")
    return (f"(check_sim ({zl(N[0])}, {zl(N[1])}, {zl(N[2])}) {lst(cs)} {zl(order)} {qlist([frac(float(v)) for v in out.ravel()])})")


def corr_sim(ck, rng):
    n = 60 if ck.tier == "quick" else 900
    cases, cases2d = [], []
    classes = {}
    for i in range(n):
        N, comps, order, scale = gen_case(rng, ck.tier)
        if i % 4 == 1:
            scale = 8.0          # coarse voxels: lengths given in nm are much larger than the same lengths in pixels
        for _, mols in comps:
            for m in mols:
                classes[m[2]] = classes.get(m[2], 0) + 1
        py = {"N": N, "order": order, "scale": scale, "components": [{"template_shape": list(t.shape), "molecules": m} for t, m in comps]}
        try:
            out = run_sim(N, comps, order, scale)
            rev = run_sim(N, comps, order, scale, reverse=True)
        except Exception as e:  # noqa
            ck.violation(what=f"simulate raised {type(e).__name__}: {e}", inp=py, key={"site": "simulate", "symptom": "raised"}, oracle="corr:simulate")
            continue
        if not np.allclose(out, rev, atol=1e-4):
            ck.violation(what="simulate depends on component / molecule order", inp=py, key={"site": "simulate", "symptom": "order"}, oracle="corr:simulate")
        cases.append((case_term(N, comps, order, scale, out), py))
        # derived simulators describe the same scene: copy / replace(same) reproduce it, subsets add up to it
        ck.oracle_count("derived_simulators", 1, 1)
        try:
            sim = build_sim(N, comps, order, scale)
            names = list(sim.components.keys())
            same = np.allclose(sim.copy().simulate(N), out, atol=1e-4) and np.allclose(sim.replace(order=order).simulate(N), out, atol=1e-4)
            for o_ in (0, 1, 3):
                rep = sim.replace(order=o_)
                same = same and rep.order == o_ and rep.scale == sim.scale and np.allclose(rep.simulate(N), build_sim(N, comps, o_, scale).simulate(N), atol=1e-4)
            rs = sim.replace(scale=scale * 2)
            same = same and rs.scale == scale * 2 and rs.order == order
            parts = sum(sim.subset(nm_).simulate(N) for nm_ in names)
            allsub = sim.subset(names).simulate(N)
            okd = same and np.allclose(parts, out, atol=1e-3) and np.allclose(allsub, out, atol=1e-4) and len(sim.collect_molecules()) == sum(len(m_) for _, m_ in comps)
        except Exception as e:  # noqa
            okd = False
        if not okd:
            ck.violation(what="copy()/replace()/subset() of a simulator do not reproduce the scene (subsets of all components must add up to the full tomogram)",
                         inp=py, key={"site": "derived-simulator", "unit_scale": scale == 1.0}, oracle="derived_simulators")
        if i % 3 == 0 or scale == 8.0:
            p2 = run_sim(N, comps, order, scale, twod=True)
            # the 2-D simulation must equal the z-projection of a 3-D simulation tall enough to hold every fragment
            tall = (int(max(max(m[0][0] for m in ms) for _, ms in comps)) + 12, N[1], N[2])
            full = run_sim(tall, comps, order, scale)
            # (both clip a fragment that sticks out below z = 0, so molecules straddling the z = 0 face are compared too)
            ok = np.allclose(p2, full.sum(axis=0), atol=1e-3)
            ck.oracle_count("projection_equals_sum_over_z", 1, 1)
            if not ok:
                ck.violation(what="simulate_2d differs from the z-projection of simulate", inp=py, key={"site": "simulate_2d"}, oracle="projection_equals_sum_over_z")
    ck.corr_run("simulate", ["AcryoGen.Anchors_C14", "Acryo.C14.Model"], cases, shard=15 if ck.tier == "quick" else 40, observable=True,
                describe=lambda c: {"site": "simulate", "order": c["order"]}, classes=classes)


def oracle_loadback(ck, rng):
    """loading at a simulated molecule returns the template: exact for grid-coincident poses (all parities), approximate otherwise"""
    from acryo import TomogramSimulator, Molecules, SubtomogramLoader
    from scipy.spatial.transform import Rotation
    from scipy import ndimage as ndi
    n = 12 if ck.tier == "quick" else 150
    for i in range(n):
        exact = i % 2 == 0
        if exact:
            shape = tuple(int(x) for x in rng.integers(2, 8, size=3))
            tmpl = rng.normal(size=shape).astype(np.float32)
            pos = np.array([rng.integers(9, 14) + ((s - 1) / 2 - (s - 1) // 2) for s in shape], dtype=float)
            if i % 6 == 4 or i % 6 == 0 and (i // 6) % 2:
                # a particle right at the low faces of the tomogram: its box starts at voxel 0 or 1 (the read-out window plus its margin starts below 0)
                pos = np.array([(s - 1) / 2 + int(rng.integers(0, 2)) for s in shape], dtype=float)
            rot = Rotation.identity(1)
            order = int(rng.choice([0, 1, 3]))
            tol = 1e-4
        else:
            s = int(rng.integers(9, 13))
            shape = (s, s, s)
            t = np.zeros(shape, np.float32)
            c = (s - 1) / 2
            for _ in range(4):
                p = np.clip(np.round(c + rng.normal(size=3) * 1.2).astype(int), 3, s - 4)
                t[tuple(p)] += rng.uniform(0.5, 2)
            tmpl = ndi.gaussian_filter(t, 1.0).astype(np.float32)
            pos = rng.uniform(11, 14, size=3)
            rot = Rotation.random(1, random_state=int(rng.integers(0, 2**31)))
            order = 3
            tol = 0.05 * float(tmpl.max())
        scale = float(rng.choice([1.0, 0.5, 2.0])) if exact else float(rng.choice([1.0, 0.8, 2.0]))
        sim = TomogramSimulator(order=order, scale=scale)
        # the template may be given as an array or as an image provider (resolved at the simulator's scale): same tomogram
        via = ["array", "from_array", "provider_function"][i % 3]
        if via == "array":
            tin = tmpl
        elif via == "from_array":
            from acryo import pipe
            tin = pipe.from_array(tmpl, original_scale=scale)
        else:
            from acryo.pipe import provider_function

            @provider_function
            def _given(scale_, arr):
                return arr
            tin = _given(tmpl)
        sim.add_molecules(Molecules(pos[None] * scale, rot), tin)
        tomo = sim.simulate((26, 26, 26))
        cs_ = bool((i // 2) % 2)           # default and corner-safe cropping
        ld = SubtomogramLoader(tomo, Molecules(pos[None] * scale, rot), order=order, scale=scale, output_shape=shape, corner_safe=cs_)
        back = ld.load(0) if i % 4 < 2 else np.asarray(ld.average())
        err = float(np.abs(back - tmpl).max())
        if not exact:
            # interpolated twice: compare shape (correlation) and location (centre of mass) instead of voxel values
            cc = float(np.corrcoef(back.ravel(), tmpl.ravel())[0, 1])
            g = np.stack(np.meshgrid(*[np.arange(n) for n in shape], indexing="ij"), axis=-1).reshape(-1, 3)
            com = lambda a: (g * np.clip(a, 0, None).ravel()[:, None]).sum(0) / np.clip(a, 0, None).sum()
            dcom = float(np.abs(com(back) - com(tmpl)).max())
            err = max(0.0, 0.97 - cc) + max(0.0, dcom - 0.15)
            tol = 0.0
        ck.oracle_count("load_back_template", 1, 1)
        if err > tol:
            ck.violation(what=f"loading at a simulated molecule does not return the template (excess {err:.4f}, exact={exact})",
                         inp={"shape": list(shape), "pos_px": pos.tolist(), "scale": scale, "order": order, "exact": exact, "template_given_as": via, "corner_safe": cs_},
                         key={"site": "loadback", "exact": exact, "even": any(s % 2 == 0 for s in shape), "template": via}, oracle="load_back_template", measured=err)


def oracle_surface(ck, rng):
    """the other simulation entry points, each tied to `simulate` by a relation that follows from the property:
    coloured simulation = sum over molecules of colour x alpha x (template - min)/(max - min) at the molecule's pose (linear in the
    grey simulation of each molecule alone when the template's minimum is 0); projection with the standard axes = sum over z of the
    3-D simulation; projection onto any plane = standard projection of the rigidly rotated scene (projection commutes with a world
    rotation about the centre); the tilt series is that projection per angle; bookkeeping of add_molecules"""
    import polars as pl
    from acryo import TomogramSimulator, Molecules
    from scipy.spatial.transform import Rotation
    from scipy import ndimage as ndi
    fails = []

    def expect(cond, site, what, inp=None):
        if not cond:
            fails.append((site, what, inp))

    def raises(fn, *exc):
        try:
            fn()
        except exc:
            return True
        except Exception:
            return False
        return False

    nit = 3 if ck.tier == "quick" else 20
    R24 = rot24()
    for it in range(nit):
        scale = float(rng.choice([1.0, 0.5, 2.0]))
        N = (20, 22, 24)
        tmpl = np.zeros((5, 5, 5), np.float32)
        tmpl[1:4, 2, 1:3] = rng.integers(1, 6, size=(3, 2)); tmpl[2, 1:4, 3] = rng.integers(1, 6, size=3)
        nm = int(rng.integers(2, 5))
        pos = np.stack([rng.integers(6, n - 6, size=nm) for n in N], axis=1).astype(float)
        ris = [int(x) for x in rng.integers(0, 24, size=nm)]
        rot = Rotation.from_matrix(np.stack([R24[r] for r in ris]).astype(float))
        cols = rng.integers(0, 5, size=(nm, 4)).astype(np.float32) / 4.0
        info = {"iteration": it, "scale": scale, "positions_px": pos.tolist(), "rotations": ris, "colours": cols.tolist()}
        try:
            mol = Molecules(pos * scale, rot, features={"r": cols[:, 0], "g": cols[:, 1], "b": cols[:, 2], "a": cols[:, 3]})
            order = int(rng.choice([0, 1]))
            sim = TomogramSimulator(order=order, scale=scale).add_molecules(mol, tmpl, name="m")
            alone = [TomogramSimulator(order=order, scale=scale).add_molecules(mol.subset([i]), tmpl).simulate(N) for i in range(nm)]
            grey = sim.simulate(N)
            expect(np.allclose(grey, sum(alone), atol=1e-4), "additivity", "the simulation is not the sum of its molecules simulated alone", info)
            tmax = float(tmpl.max())
            for label, cmap, alpha in (
                    ("callable rgb", lambda df: (df["r"][0], df["g"][0], df["b"][0]), None),
                    ("callable rgba", lambda df: (df["r"][0], df["g"][0], df["b"][0], df["a"][0]), cols[:, 3]),
                    ("array rgb", cols[:, :3].copy(), None),
                    ("array rgba", cols.copy(), cols[:, 3])):
                out = sim.simulate(N, colormap=cmap)
                expect(out.shape == (3,) + N, "colour", f"coloured simulation ({label}) has shape {out.shape}", info)
                for c in range(3):
                    want = sum(alone[i] / tmax * cols[i, c] * (1.0 if alpha is None else alpha[i]) for i in range(nm))
                    expect(np.allclose(out[c], want, atol=1e-4), "colour",
                           f"coloured simulation ({label}), channel {c}: not colour x alpha x normalised template at each molecule (max err {np.abs(out[c] - want).max():.3g})", info)
            two = TomogramSimulator(order=order, scale=scale).add_molecules(mol, tmpl, name="a").add_molecules(mol, tmpl, name="b")
            expect(raises(lambda: two.simulate(N, colormap=cols[:, :3]), ValueError), "colour", "array colormap accepted with two components", info)
            expect(raises(lambda: sim.simulate(N, colormap=cols[:, :2]), ValueError), "colour", "array colormap with 2 columns accepted", info)
            expect(raises(lambda: sim.simulate(N[1:]), ValueError), "simulate-shape", "2-tuple shape accepted by simulate", info)
            # add_molecules bookkeeping
            expect(raises(lambda: sim.add_molecules(mol, tmpl, name="m"), ValueError), "add-molecules", "duplicate component name accepted", info)
            expect(raises(lambda: sim.copy().add_molecules(mol, [[1.0]], name="x"), TypeError), "add-molecules", "a list accepted as template image", info)
            ow = sim.copy().add_molecules(mol.subset([0]), (2 * tmpl).astype(np.float64), name="m", overwrite=True)
            expect(np.allclose(ow.simulate(N), 2 * alone[0], atol=1e-4) and np.allclose(sim.simulate(N), grey, atol=1e-5), "add-molecules",
                   "overwrite=True did not replace the component (or changed the simulator it was copied from)", info)
            # the same on one instance that has already been used: simulate, replace the component (another template, another box), simulate again
            used = TomogramSimulator(order=order, scale=scale).add_molecules(mol, tmpl, name="m")
            first = used.simulate(N)
            t2 = np.zeros((3, 5, 3), np.float32); t2[1, 1:4, 1] = [1.0, 2.0, 3.0]
            used.add_molecules(mol.subset([1]), t2, name="m", overwrite=True)
            second = used.simulate(N)
            fresh = TomogramSimulator(order=order, scale=scale).add_molecules(mol.subset([1]), t2, name="m").simulate(N)
            expect(np.allclose(first, grey, atol=1e-5) and np.allclose(second, fresh, atol=1e-5), "add-molecules",
                   "a simulator that has been used keeps simulating the replaced component after add_molecules(overwrite=True)", info)
            used.add_molecules(mol.subset([0]), tmpl, name="extra")
            both = used.simulate(N)
            expect(np.allclose(both, fresh + alone[0], atol=1e-4), "add-molecules", "a component added after a simulation is not part of the next one", info)
            p2 = used.simulate_2d(N[1:])
            expect(np.allclose(p2, both.sum(axis=0), atol=1e-3), "add-molecules", "simulate_2d after these changes is not the z-projection of simulate", info)
            # a volume (or 2-D image) thinner than the template: the fragment sticks out on both sides of that axis and is clipped on both
            big = np.zeros((9, 9, 9), np.float32); big[1:8, 3:6, 3:6] = rng.integers(1, 6, size=(7, 3, 3)); big[4, 1:8, 4] += 2; big[4, 4, 1:8] += 3
            for ax_ in range(3):
                thin = [30, 30, 30]; thin[ax_] = 5
                pth = [15.0, 15.0, 15.0]; pth[ax_] = 2.0
                full_shape = [30, 30, 30]; full_shape[ax_] = 25
                pfull = list(pth); pfull[ax_] = 12.0
                st = TomogramSimulator(order=order, scale=scale).add_molecules(Molecules(np.array([pth]) * scale), big)
                sf = TomogramSimulator(order=order, scale=scale).add_molecules(Molecules(np.array([pfull]) * scale), big)
                got = st.simulate(tuple(thin))
                ref = sf.simulate(tuple(full_shape))
                sl = [slice(None)] * 3; sl[ax_] = slice(10, 15)
                expect(got.shape == tuple(thin) and np.allclose(got, ref[tuple(sl)], atol=1e-4), "thin-volume",
                       f"a volume of 5 voxels along axis {ax_} with a 9-voxel template: not the clipped template", dict(info, axis=ax_))
                if ax_ > 0:
                    shape2 = tuple(thin[1:])
                    expect(np.allclose(st.simulate_2d(shape2), st.simulate((30,) + shape2).sum(axis=0), atol=1e-3), "thin-volume",
                           f"simulate_2d on an image of 5 pixels along axis {ax_} is not the z-projection", dict(info, axis=ax_))
            # a template given as an image provider is evaluated at the scale of the simulator that simulates (also after replace(scale=...))
            from acryo import pipe
            prov = pipe.from_array(blob_src := np.pad(tmpl, 2).astype(np.float32), original_scale=1.0)
            s_a = TomogramSimulator(order=1, scale=1.0).add_molecules(Molecules(np.array([[8.0, 8.0, 8.0]])), prov, name="p")
            for sc2 in (0.5, 2.0):
                rep = s_a.replace(scale=sc2)
                direct = TomogramSimulator(order=1, scale=sc2).add_molecules(Molecules(np.array([[8.0, 8.0, 8.0]])), prov, name="p")
                arr_d = TomogramSimulator(order=1, scale=sc2).add_molecules(Molecules(np.array([[8.0, 8.0, 8.0]])), np.asarray(prov(sc2)), name="p")
                n2 = tuple(int(round(20 / sc2)) for _ in range(3))
                a_, b_, c_ = rep.simulate(n2), direct.simulate(n2), arr_d.simulate(n2)
                expect(np.allclose(a_, b_, atol=1e-4) and np.allclose(b_, c_, atol=1e-4), "provider-template",
                       f"provider template: replace(scale={sc2}) / a simulator built at that scale / the provided array give different tomograms", dict(info, new_scale=sc2))
            # projections (the projection code always interpolates at order 3, so it is compared with an order-3 simulator)
            # the projection code cuts every rotated template to its own (y, x) box, so the density is kept inside the inscribed ball
            blob = np.zeros((11, 11, 11), np.float32)
            blob[3:8, 3:8, 3:8] = tmpl
            blob = ndi.gaussian_filter(blob, 0.7).astype(np.float32)
            s3 = TomogramSimulator(order=3, scale=scale).add_molecules(mol, blob, name="m")
            vol = s3.simulate(N)
            rc = (np.array(N, dtype=np.float64) - 1) / 2 * scale
            std = s3.simulate_projection(N[1:], tuple(rc), xaxis=(0, 0, 1), yaxis=(0, 1, 0))
            tol = 2e-3 * float(np.abs(vol.sum(axis=0)).max())
            expect(std.shape == N[1:] and np.allclose(std, vol.sum(axis=0), atol=tol), "projection",
                   f"projection along z with the standard axes differs from the z-sum of the simulated tomogram (max err {np.abs(std - vol.sum(axis=0)).max():.3g})", info)
            expect(np.allclose(s3.simulate_projection(N[1:], tuple(rc), xaxis=(0, 0, 3.0), yaxis=(0, 0.5, 0)), std, atol=1e-5), "projection",
                   "projection depends on the length of the axis vectors", info)
            expect(raises(lambda: s3.simulate_projection(N[1:], tuple(rc), xaxis=(0, 0, 1), yaxis=(0, 1, 1)), ValueError), "projection",
                   "non-orthogonal projection axes accepted", info)
            from acryo.molecules._rotation import axes_to_rotator
            sq = (N[1], N[1])
            b0 = None
            for gi in [int(x) for x in rng.permutation(np.arange(1, 24))[:3 if ck.tier == "quick" else 8]]:
                G = R24[gi].astype(float)                   # zyx matrix whose rows are the plane normal n, its y axis and its x axis
                n_, ey, ex = G[0], G[1], G[2]
                # classification of the input only: planes for which the library's axes_to_rotator does not return the rotation taking
                # (z, y) to (n, ey) are the C11 known finding (anti-parallel axes); they are reported under that known finding
                helper = axes_to_rotator(n_, ey)
                helper_ok = bool(np.allclose(helper.apply([1.0, 0, 0]), n_, atol=1e-6) and np.allclose(helper.apply([0, 1.0, 0]), ey, atol=1e-6))
                molG = Molecules(rc + (pos * scale - rc) @ G.T, Rotation.from_matrix(G) * rot)
                if not (np.allclose(molG.z, mol.z @ G.T, atol=1e-6) and np.allclose(molG.y, mol.y @ G.T, atol=1e-6)):
                    raise AssertionError("harness: rotated scene is not the rotated molecules")
                sG = TomogramSimulator(order=3, scale=scale).add_molecules(molG, blob, name="m")
                a = s3.simulate_projection(sq, tuple(rc), xaxis=tuple(ex), yaxis=tuple(ey))
                b = sG.simulate_projection(sq, tuple(rc), xaxis=(0, 0, 1), yaxis=(0, 1, 0))
                if not np.allclose(a, b, atol=tol):
                    ck.violation(what=f"projection onto the plane (x={ex.tolist()}, y={ey.tolist()}) differs from the standard projection of the scene rotated "
                                      f"into that frame (max err {np.abs(a - b).max():.3g})", inp=dict(info, plane={"x": ex.tolist(), "y": ey.tolist()}),
                                 key={"site": "surface-projection-direction", "axes_to_rotator_wrong": not helper_ok}, oracle="simulator_surface")
            degs = [0.0, float(rng.choice([-40.0, 25.0, 60.0])), 90.0]
            ts = s3.simulate_tilt_series(degs, N)
            expect(ts.shape == (3,) + N[1:], "tilt-series", f"tilt series has shape {ts.shape}", info)
            rc2 = (np.array(N, dtype=np.float32) / 2 - 0.5) * scale
            for k_, dg in enumerate(degs):
                rad = np.deg2rad(dg)
                pr = s3.simulate_projection(N[1:], tuple(rc2), xaxis=(np.sin(rad), 0, np.cos(rad)), yaxis=(0, 1, 0))
                expect(np.allclose(ts[k_], pr, atol=tol), "tilt-series", f"tilt {dg} deg is not the projection onto the plane tilted about y by that angle", info)
            expect(np.allclose(ts[0], vol.sum(axis=0), atol=tol), "tilt-series", "tilt 0 is not the z-projection of the simulated tomogram", info)
        except Exception as e:  # noqa
            import traceback
            fails.append(("raised", f"{type(e).__name__}: {e} at {traceback.format_exc().strip().splitlines()[-3].strip()}", info))
    ck.oracle_count("simulator_surface", nit, nit)
    seen = set()
    for site, what, inp in fails:
        if site in seen:
            continue
        seen.add(site)
        ck.violation(what=what, inp=inp, key={"site": "surface-" + site}, oracle="simulator_surface")


def oracle_low_face(ck, rng):
    """molecules whose box sticks out of the low faces of the volume (negative, non-integer pixel coordinates of the box start): the volume is
    the corresponding crop of the same scene simulated in a larger volume with every molecule moved k voxels inwards (integer translation
    covariance; k voxels of margin make every coordinate positive there)"""
    from scipy.spatial.transform import Rotation
    from acryo import TomogramSimulator, Molecules
    n_it = 8 if ck.tier == "quick" else 60
    for it in range(n_it):
        side = int(rng.integers(4, 8))
        order = int(rng.choice([0, 1]))
        scale = float(rng.choice([1.0, 0.5, 2.0]))
        # (the template is zero on its outermost voxels and unrotated: a sub-voxel resampling inside its own box then loses nothing at the
        # box faces, whichever way the position is split into an integer and a fractional part)
        tmpl = np.zeros((side,) * 3, dtype=np.float32)
        tmpl[1:-1, 1:-1, 1:-1] = rng.integers(1, 9, size=(side - 2,) * 3)
        N, k = (9, 10, 8), 6
        # centres near (and beyond) the low faces, on quarter voxels: box starts at negative non-integer coordinates
        pos_px = rng.integers(-8, 9, size=(3, 3)) / 4.0
        pos_px[0] = np.array([(side - 1) / 2 - 1.0 - (side % 2) * 0.5, 2.25, -0.75])[rng.permutation(3)]
        rot = Rotation.identity(3)
        try:
            a = TomogramSimulator(order=order, scale=scale)
            a.add_molecules(Molecules(pos_px * scale, rot), tmpl)
            got = np.asarray(a.simulate(N))
            b = TomogramSimulator(order=order, scale=scale)
            b.add_molecules(Molecules((pos_px + k) * scale, rot), tmpl)
            want = np.asarray(b.simulate(tuple(n + k for n in N)))[k:, k:, k:]
            bad = None
            if got.shape != want.shape:
                bad = f"shape {got.shape}"
            elif not np.allclose(got, want, atol=1e-3 * float(np.abs(want).max() + 1)):
                bad = (f"differs from the crop of the scene simulated {k} voxels further inside in {int((np.abs(got - want) > 1e-3 * (np.abs(want).max() + 1)).sum())} voxels "
                       f"(max {float(np.abs(got - want).max()):.3g})")
        except Exception as e:  # noqa
            bad = f"raised {type(e).__name__}: {e}"
        ck.oracle_count("low_face_translation", 1, 1)
        if bad:
            ck.violation(what=f"simulate({N}) with molecules at pixel positions {pos_px.tolist()} (template side {side}, order {order}, scale {scale}): {bad}",
                         inp={"N": list(N), "side": side, "order": order, "scale": scale, "pos_px": pos_px.tolist(), "seed": ck.seed, "iteration": it},
                         key={"site": "low-face", "order": order}, oracle="low_face_translation")


def run(ck: common.Check):
    ck.design_ref = "DESIGN.md §6 C14"
    ck.trusted_base = TB
    ck.partial = ["order-3 and generic rotations: numeric oracle (load-back within 5% of the template maximum)",
                  "simulate_projection / tilt series (arbitrary projection directions) are not modelled"]
    a = Anchors(common.REPO)
    anchors(a)
    ck.write_anchors(PID, a)
    ck.build(["C14"], ["C14/Property.v", "C14/PropertyProjection.v"], extra=["C14/Projection.v"])
    rng = np.random.default_rng(ck.seed + 1414)
    corr_sim(ck, rng)
    oracle_loadback(ck, rng)
    oracle_surface(ck, np.random.default_rng(ck.seed + 14141))
    oracle_low_face(ck, np.random.default_rng(ck.seed + 14142))


def replay(data):
    print(json.dumps(data.get("input"), indent=1)[:4000])
    return 0


TB = [
    "Coq 8.16.1 kernel + coqc; vm_compute for Examples and correspondence",
    "axioms: none expected; see coverage.assumptions_printed",
    "translator: every scalar expression of simulator._prep_iterators and the whole of _utils.make_slice_and_pad; structural anchors for "
    "_compose_affine_matrices, _prep_slices, _simulate, _simulate_2d_one",
    "assumed kernel laws: scipy affine_transform(img, M)[o] = interp(img, M.o) with mode='constant', cval=0 (order 0: floor(x+1/2); order 1: multilinear)",
    "correspondence inputs: integer templates (sides 1..4), 24 exact rotations, half-integer positions, 1-2 components, scales 0.5/1/2",
]
