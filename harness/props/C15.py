"""C15 — binned loaders look at the same physical region."""
from __future__ import annotations
import ast
import json
import numpy as np

import common
from common import zl, ql, bl, lst, zlist, qlist, frac, natl
from translate import Anchors, Untranslatable
from props.C11 import norm
from props.C02 import vol_lit

PID = "C15"
UT = "acryo/_utils.py"
LL = "acryo/loader/_loader.py"
LBT = "acryo/loader/_batch.py"


def anchors(a: Anchors):
    a.expr("bin_divmod", UT, "bin_image", ("find", lambda n: isinstance(n, ast.Call) and ast.unparse(n.func) == "divmod", 0, "divmod(s, binsize)"),
           {"s": "Z", "binsize": "Z"}, want=("Z", "Z"))
    a.expr("bin_slice_stop", UT, "bin_image", ("find", lambda n: isinstance(n, ast.Call) and ast.unparse(n.func) == "slice", 0, "slice(None, s - res)"),
           {"s": "Z", "res": "Z"}, want="Z", post=lambda n: n.args[1])
    a.fact("bin_reshape_sum", UT, "bin_image", "reshape to (npix, binsize)*ndim and sum the odd axes",
           lambda fn: all(t in norm(ast.unparse(fn)) for t in ["_shapes.extend([npix,binsize])", "img_reshaped=img[slices].reshape(shapes)",
                                                               "axis=tuple((i*2+1foriinrange(img.ndim)))", "returnimg_reshaped.sum(axis=axis)"]))
    for nm_, f, q in (("single", LL, "SubtomogramLoader.binning"), ("batch", LBT, "BatchLoader.binning")):
        a.expr(f"bin_tr_{nm_}", f, q, ("assign", "tr"), {"binsize": "Z", "scale": "Q"}, env={"self.scale": ("scale", "Q")}, want="Q")
        a.expr(f"bin_scale_{nm_}", f, q, ("find", lambda n: isinstance(n, ast.keyword) and n.arg == "scale", 0, "scale="),
               {"binsize": "Z", "scale": "Q"}, env={"self.scale": ("scale", "Q")}, want="Q", post=lambda n: n.value)
        a.fact(f"bin_translates_all_axes_{nm_}", f, q, "molecules.translate([tr, tr, tr]); binsize == 1 -> copy",
               lambda fn: "molecules=self.molecules.translate([tr,tr,tr])" in norm(ast.unparse(fn)) and "ifbinsize==1:returnself.copy()" in norm(ast.unparse(fn)))


def corr_bin_image(ck, rng):
    from acryo._utils import bin_image
    import dask.array as da
    cases = []
    maxs = 6 if ck.tier == "quick" else 9
    shapes = [(int(a), int(b), int(c)) for a, b, c in rng.integers(1, maxs + 1, size=(40 if ck.tier == "quick" else 400, 3))]
    shapes += [(1, 1, 1), (2, 3, 4), (6, 6, 6), (5, 1, 7)]
    for i, sh in enumerate(shapes):
        img = rng.integers(-9, 10, size=sh)
        for b in ([1, 2, 3] if ck.tier == "quick" else [1, 2, 3, 4, 5, 6]):
            if i % 2 and min(sh) >= b:
                x = da.from_array(img.astype(np.float32), chunks=tuple(int(c) for c in rng.integers(1, 4, size=3)))
                out = np.asarray(bin_image(x, b).compute())
            else:
                out = np.asarray(bin_image(img.astype(np.float32), b))
            cases.append((f"(check_bin {vol_lit(img)} {zl(b)} {zlist(list(out.shape))} {zlist([int(round(float(v))) for v in out.ravel()])})",
                          {"shape": sh, "binsize": b, "dask": bool(i % 2 and min(sh) >= b), "out_shape": list(out.shape)}))
    ck.corr_run("bin_image", ["AcryoGen.Anchors_C15", "Acryo.C15.Model"], cases, shard=120, observable=True,
                describe=lambda c: {"site": "bin_image", "binsize": c["binsize"]})


def corr_binning(ck, rng):
    """binning(b): scale, molecule positions and image of single and batch loaders against the model"""
    from acryo import SubtomogramLoader, BatchLoader, Molecules
    cases = []
    for i in range(12 if ck.tier == "quick" else 120):
        b = int(rng.integers(1, 5))
        scale = float(rng.choice([1.0, 0.5, 2.0, 0.25]))
        pos = rng.integers(0, 40, size=(3, 3)) / 4.0
        img = rng.integers(0, 9, size=(6, 7, 8)).astype(np.float32)
        kind = "batch" if i % 2 else "single"
        if kind == "single":
            ld = SubtomogramLoader(img, Molecules(pos), order=1, scale=scale, output_shape=(2, 2, 2))
        else:
            ld = BatchLoader(order=1, scale=scale, output_shape=(2, 2, 2))
            ld.add_tomogram(img, Molecules(pos), image_id=5)
        lb = ld.binning(b, compute=bool(i % 3))
        newpos = lb.molecules.pos
        ok_ids = True
        if kind == "batch":
            ok_ids = lb.molecules.features["image-id"].to_list() == [5, 5, 5] and list(lb.images.keys()) == [5]
        for r in range(3):
            for ax in range(3):
                cases.append((f"(andb {bl(ok_ids)} (check_binning {bl(kind == 'batch')} {zl(b)} {ql(frac(scale))} {ql(frac(np.float32(pos[r, ax])))} "
                              f"{ql(frac(float(lb.scale)))} {ql(frac(float(newpos[r, ax])))}))",
                              {"kind": kind, "binsize": b, "scale": scale, "pos": float(pos[r, ax]), "new_scale": float(lb.scale), "new_pos": float(newpos[r, ax])}))
    ck.corr_run("binning_scale_and_positions", ["AcryoGen.Anchors_C15", "Acryo.C15.Model"], cases, shard=400, observable=True,
                describe=lambda c: {"site": "binning", "kind": c["kind"], "binsize": c["binsize"]})


def oracle_load_equality(ck, rng):
    """binned.load(i) == block-sum of the b-times larger subtomogram of the original loader (exact for on-grid, identity)"""
    from acryo import SubtomogramLoader, BatchLoader, Molecules
    from acryo._utils import bin_image
    import dask.array as da
    n = 16 if ck.tier == "quick" else 200
    for i in range(n):
        b = int(rng.integers(1, 5))
        if i % 8 == 2:
            b = 2 + (i // 8) % 2          # (directed low-face case below: a bin size > 1)
        if i % 8 in (1, 5):
            b = 2 + (i // 8) % 3          # (metre-scale case below: a bin size > 1)
        S = tuple(int(x) for x in rng.integers(1, 5, size=3))
        dims = tuple(int(x) for x in rng.integers(10 * b, 10 * b + b + 3, size=3))
        # tomogram voxel type: float, or a narrow integer type whose block sums exceed its range
        dt = [np.float32, np.int16, np.uint8, np.float64, np.int8][i % 5]
        hi = {np.float32: 50, np.int16: 30000, np.uint8: 250, np.float64: 50, np.int8: 120}[dt]
        img = rng.integers(hi // 2, hi, size=dims).astype(dt)
        corner_safe = bool(i % 3 == 1) or bool(i % 3 == 0 and (i // 3) % 2 == 0)      # single and batch loaders, with and without
        scale = float(rng.choice([1.0, 0.5, 2.0]))
        if i % 8 in (1, 5):
            scale = 2.0 ** -32 if i % 8 == 5 else 2.0 ** -12         # lengths given in metres (0.23 nm voxels): every length in the loader is tiny, none is negligible
        # binned-grid position c' (integer for odd S, half-integer for even S) -> original position c = b c' + (b-1)/2
        cb = np.array([rng.integers(4, 6) + ((s - 1) / 2 - (s - 1) // 2) for s in S], dtype=float)
        if i % 4 == 2:
            # a box touching the low faces of the tomogram (still fully inside): its interpolation margin starts below index 0
            cb = np.array([(s - 1) // 2 + ((s - 1) / 2 - (s - 1) // 2) + int(rng.integers(0, 2)) for s in S], dtype=float)
        c = b * cb + (b - 1) / 2
        mol = Molecules(c[None] * scale)
        use_dask = bool(i % 2)
        image = da.from_array(img, chunks=(7, 5, 6)) if use_dask else img
        kind = "batch" if i % 3 == 0 else "single"
        order = int(rng.choice([0, 1]))
        if i % 8 == 2:
            # directed: box flush against the low faces, linear interpolation, default (not corner-safe) cropping
            order, corner_safe = 1, False
            c = b * np.array([(s - 1) / 2 for s in S], dtype=float) + (b - 1) / 2
            mol = Molecules(c[None] * scale)
        if kind == "single":
            ld = SubtomogramLoader(image, mol, order=order, scale=scale, output_shape=S, corner_safe=corner_safe)
        else:
            # several tomograms with different contents, numpy- and dask-backed in every order
            ld = BatchLoader(order=order, scale=scale, output_shape=S, corner_safe=corner_safe)
            backing = [["np", "da"], ["da", "np", "da"], ["np", "np", "da"], ["da", "da"], ["np"], ["da", "np"]][(i // 3) % 6]
            for j, bk in enumerate(backing):
                imj = img if j == 0 else rng.integers(hi // 2, hi, size=dims).astype(dt)
                ld.add_tomogram(da.from_array(imj, chunks=(7, 5, 6)) if bk == "da" else imj, mol, image_id=10 - j)
        compute = bool(i % 4) if kind == "single" else bool((i // 3) % 4 != 3)
        lb = ld.binning(b, compute=compute)
        nm = 1 if kind == "single" else len(backing)
        ok = abs(lb.scale - scale * b) < 1e-9
        # every other loader option survives binning (also binning(1), which is a copy)
        opt_ok = (lb.corner_safe == ld.corner_safe and lb.order == ld.order and lb.output_shape == ld.output_shape
                  and ld.binning(1).corner_safe == ld.corner_safe and ld.binning(1).order == ld.order)
        if not opt_ok:
            ck.violation(what=f"binning changed loader options: corner_safe {ld.corner_safe} -> {lb.corner_safe}, order {ld.order} -> {lb.order}, "
                              f"output_shape {ld.output_shape} -> {lb.output_shape}", inp={"kind": kind, "binsize": b, "corner_safe": corner_safe},
                         key={"site": "binning-options", "kind": kind}, oracle="binned_load_equals_blocksum")
        for j in range(nm):
            got = lb.load(j)
            big = ld.load(j, output_shape=tuple(b * s for s in S))
            want = bin_image(big, b)
            ok = ok and got.shape == tuple(S) and np.array_equal(got, want)
        if kind == "batch" and ok:
            # the per-tomogram loaders of the binned batch describe the same binned data: scale, options and sub-volumes
            try:
                iids = lb.molecules.features["image-id"].to_list()
                for j, iid in enumerate(iids):
                    sub = lb.loaders[int(iid)]
                    row = [k_ for k_, x_ in enumerate(iids) if x_ == iid].index(j)
                    if abs(sub.scale - lb.scale) > 1e-12 * lb.scale or sub.order != lb.order or sub.corner_safe != lb.corner_safe or tuple(sub.output_shape) != tuple(lb.output_shape):
                        ok = False
                        opt_detail = f"binned.loaders[{iid}] has scale {sub.scale} (batch: {lb.scale}), order {sub.order}, corner_safe {sub.corner_safe}"
                        ck.violation(what=opt_detail, inp={"kind": kind, "binsize": b, "scale": scale}, key={"site": "binned-loaders-accessor", "binsize": b},
                                     oracle="binned_load_equals_blocksum")
                        break
                    if not np.array_equal(np.asarray(sub.load(row)), np.asarray(lb.load(j))):
                        ok = False
                        ck.violation(what=f"binned.loaders[{iid}].load({row}) differs from the sub-volume the binned batch loads for the same molecule",
                                     inp={"kind": kind, "binsize": b, "scale": scale}, key={"site": "binned-loaders-accessor", "binsize": b}, oracle="binned_load_equals_blocksum")
                        break
                ok = True if not ok else ok
            except Exception as e:  # noqa
                ck.violation(what=f"binned.loaders[id] raised {type(e).__name__}: {e}", inp={"kind": kind, "binsize": b}, key={"site": "binned-loaders-accessor", "binsize": b},
                             oracle="binned_load_equals_blocksum")
        ck.oracle_count("binned_load_equals_blocksum", 1, 1)
        if not ok:
            ck.violation(what="binned.load(i) differs from the block-sum of the b-times larger subtomogram of the original loader",
                         inp={"binsize": b, "box": list(S), "dims": list(dims), "scale": scale, "kind": kind, "dask": use_dask, "order": order,
                              "dtype": np.dtype(dt).name, "corner_safe": corner_safe, "backing": (backing if kind == "batch" else None), "compute": compute,
                              "center_px": c.tolist()}, key={"site": "load-equality", "kind": kind, "binsize": b}, oracle="binned_load_equals_blocksum")


def oracle_binning_composes(ck, rng):
    """theorems C15_binning_composes / C15_block_sums_compose on the real loaders: binning(b1).binning(b2) is binning(b1 * b2)"""
    from acryo import SubtomogramLoader, BatchLoader, Molecules
    import dask.array as da
    n = 6 if ck.tier == "quick" else 60
    for i in range(n):
        b1, b2 = [(2, 2), (2, 3), (3, 2), (1, 3), (2, 1), (4, 2)][i % 6]
        dims = tuple(int(x) for x in rng.integers(6 * b1 * b2, 6 * b1 * b2 + b1 * b2 + 2, size=3))
        img = rng.integers(0, 9, size=dims).astype(np.float32)
        scale = float(rng.choice([1.0, 0.5, 2.0]))
        pos = rng.integers(8, 4 * min(dims) - 8, size=(3, 3)) / 4.0 * scale
        kind = "batch" if (i // 2) % 2 else "single"
        image = da.from_array(img, chunks=(7, 5, 6)) if i % 2 else img
        if kind == "single":
            ld = SubtomogramLoader(image, Molecules(pos), order=1, scale=scale, output_shape=(3, 2, 3))
        else:
            ld = BatchLoader(order=1, scale=scale, output_shape=(3, 2, 3))
            ld.add_tomogram(image, Molecules(pos[:2]), image_id=3)
            ld.add_tomogram(np.asarray(img)[::-1].copy(), Molecules(pos[2:]), image_id=1)
        inp = {"kind": kind, "b1": b1, "b2": b2, "dims": list(dims), "scale": scale, "dask": bool(i % 2), "pos": pos.tolist()}
        try:
            two = ld.binning(b1, compute=bool(i % 3)).binning(b2, compute=bool((i + 1) % 3))
            one = ld.binning(b1 * b2, compute=True)
            bad = None
            if abs(two.scale - one.scale) > 1e-9 * one.scale:
                bad = f"scale {two.scale} after binning({b1}).binning({b2}) but {one.scale} after binning({b1 * b2})"
            elif not np.allclose(two.molecules.pos, one.molecules.pos, rtol=0, atol=1e-6 * scale):
                bad = (f"molecule positions differ by {float(np.abs(two.molecules.pos - one.molecules.pos).max()):.4g} nm between "
                       f"binning({b1}).binning({b2}) and binning({b1 * b2})")
            else:
                ims2 = [two.image] if kind == "single" else [two.images[k] for k in (3, 1)]
                ims1 = [one.image] if kind == "single" else [one.images[k] for k in (3, 1)]
                for x2, x1 in zip(ims2, ims1):
                    x2, x1 = np.asarray(x2), np.asarray(x1)
                    # theorem C15_shapes_compose: floor(floor(s / b1) / b2) = floor(s / (b1 b2)), so the shapes agree as well
                    if x2.shape != x1.shape or not np.array_equal(x2, x1):
                        bad = f"voxel values of binning({b1}).binning({b2}) differ from binning({b1 * b2}) (shapes {x2.shape} / {x1.shape})"
                        break
        except Exception as e:  # noqa
            bad = f"binning({b1}).binning({b2}) raised {type(e).__name__}: {e}"
        ck.oracle_count("binning_composes", 1, 1)
        if bad:
            ck.violation(what=bad, inp=inp, key={"site": "binning-composes", "kind": kind, "b": [b1, b2]}, oracle="binning_composes")


def run(ck: common.Check):
    ck.design_ref = "DESIGN.md §6 C15"
    ck.trusted_base = TB
    ck.partial = ["off-grid / rotated molecules: interpolation does not commute with block sums; outside the property's stated domain"]
    a = Anchors(common.REPO)
    anchors(a)
    ck.write_anchors(PID, a)
    ck.build(["C15"], ["C15/Property.v"])
    rng = np.random.default_rng(ck.seed + 1515)
    corr_bin_image(ck, rng)
    corr_binning(ck, rng)
    oracle_load_equality(ck, rng)
    oracle_binning_composes(ck, np.random.default_rng(ck.seed + 1516))


def replay(data):
    print(json.dumps(data.get("input"), indent=1)[:4000])
    return 0


TB = [
    "Coq 8.16.1 kernel + coqc; vm_compute for Examples and correspondence",
    "axioms: none expected; see coverage.assumptions_printed",
    "translator: divmod / slice stop of bin_image, tr and new scale of SubtomogramLoader.binning and BatchLoader.binning; structural anchors",
    "assumed kernel laws: numpy/dask reshape + sum over the block axes = block sums (validated by the bin_image correspondence itself)",
]
