"""C11 — molecule poses obey rigid-motion algebra in z,y,x order."""
from __future__ import annotations
import ast
import json
import numpy as np

import common
from common import zl, ql, bl, lst, zlist, qlist, frac
from translate import Anchors, Untranslatable

PID = "C11"
MC = "acryo/molecules/core.py"
MR = "acryo/molecules/_rotation.py"


def _axis_literal(fn):
    for n in ast.walk(fn):
        if isinstance(n, ast.Call) and ast.unparse(n.func) == "self._rotator.apply" and len(n.args) == 1 and not n.keywords:
            arr = n.args[0]
            if isinstance(arr, ast.Call) and ast.unparse(arr.func) == "np.array":
                vals = ast.literal_eval(arr.args[0])
                if len(vals) == 3 and all(float(v) in (0.0, 1.0) for v in vals):
                    return [int(v) for v in vals]
    raise Untranslatable("axis property is no longer self._rotator.apply(np.array([a,b,c]))")


def norm(s):
    return "".join(s.split())


def anchors(a: Anchors):
    a.state("molecules_store_only_pos_rot_features", "acryo/molecules/core.py",
            {"Molecules": ["_pos", "_rotator", "_features", "features", "class:groupby"]},
            "a Molecules object stores positions, rotator and feature table and nothing derived from them (no memo that could go stale)")
    for ax in "xyz":
        a.raw(f"axis_{ax}_literal", MC, f"Molecules.{ax}", "unit vector fed to the rotator",
              lambda fn, src, ax=ax: f"Definition axis_{ax}_literal : Z * Z * Z := ({', '.join(str(v) + '%Z' for v in _axis_literal(fn))}).")
    a.fact("cross_is_negated", MC, "cross", "return -np.cross(x, y, axis=axis)",
           lambda fn: any(isinstance(n, ast.Return) and norm(ast.unparse(n.value)) == "-np.cross(x,y,axis=axis)" for n in ast.walk(fn)))
    a.fact("rotate_by_left_mult", MC, "Molecules.rotate_by", "rot = rotator * self._rotator",
           lambda fn: any(isinstance(n, ast.Assign) and norm(ast.unparse(n)) == "rot=rotator*self._rotator" for n in ast.walk(fn))
           and "self.__class__(self._pos,rot," in norm(ast.unparse(fn))
           and sum(1 for n in ast.walk(fn) if isinstance(n, (ast.Assign, ast.AugAssign)) and "self._rotator" in ast.unparse(n.targets[0] if isinstance(n, ast.Assign) else n.target)) == 1
           and any(isinstance(n, ast.Assign) and norm(ast.unparse(n)) == "self._rotator=rot" for n in ast.walk(fn)))
    a.fact("translate_internal_forward", MC, "Molecules.translate_internal", "world_shifts = self._rotator.apply(shifts)",
           lambda fn: "world_shifts=self._rotator.apply(shifts)" in norm(ast.unparse(fn))
           and "returnself.translate(world_shifts,copy=copy)" in norm(ast.unparse(fn)))
    a.fact("translate_adds", MC, "Molecules.translate", "coords = self._pos + shifts",
           lambda fn: "coords=self._pos+np.asarray(shifts,dtype=np.float32)" in norm(ast.unparse(fn)))
    a.fact("rotvec_internal_zyx", MC, "Molecules.rotate_by_rotvec_internal", "world_rotvec = z*v0 + y*v1 + x*v2, left-mult",
           lambda fn: "world_rotvec=vec_z*vector[:,0][:,np.newaxis]+vec_y*vector[:,1][:,np.newaxis]+vec_x*vector[:,2][:,np.newaxis]"
           in norm(ast.unparse(fn)) and "vec_z=cross(vec_x,vec_y,axis=1)" in norm(ast.unparse(fn))
           and "returnself.rotate_by_rotvec(world_rotvec,copy=copy)" in norm(ast.unparse(fn)))
    a.fact("linear_transform_shape", MC, "Molecules.linear_transform", "translate_internal(shift) then rotate internal",
           lambda fn: "returnself.translate_internal(shift).rotate_by_rotvec_internal(rotvec)" in norm(ast.unparse(fn))
           and "rotvec=rotator.as_rotvec()" in norm(ast.unparse(fn)))
    a.fact("affine_matrix_shape", MC, "Molecules.affine_matrix", "T(dst) R T(-src)",
           lambda fn: all(t in norm(ast.unparse(fn)) for t in
                          ["translation_0[:,:3,3]=dst", "translation_1[:,:3,3]=-src",
                           "np.einsum('nij,njk,nkl->nil',translation_0,rot_mat,translation_1)",
                           "mat=self._rotator.inv().as_matrix()", "mat=self.matrix()"]))
    a.expr("lc_center", MC, "Molecules.local_coordinates", ("comp_elt", "center"), {"s": "Z"}, want="Q")
    a.expr("lc_shift", MC, "Molecules.local_coordinates", ("assign", "shifts"), {"p": "Q", "scale": "Q"},
           env={"self.pos[index]": ("p", "Q")}, want="Q")
    a.fact("lc_structure", MC, "Molecules.local_coordinates", "coords = z_ax + y_ax + x_ax + pos/scale, z = cross(x,y)",
           lambda fn: all(t in norm(ast.unparse(fn)) for t in
                          ["vec_z=cross(vec_x,vec_y)", "x_ax:NDArray[np.float32]=vec_x[:,np.newaxis]*ind_x",
                           "y_ax:NDArray[np.float32]=vec_y[:,np.newaxis]*ind_y", "z_ax:NDArray[np.float32]=vec_z[:,np.newaxis]*ind_z",
                           "(np.arange(s,dtype=np.float32)-cfors,cinzip(shape,center))"]))

    def euler_table(fn, src):
        for n in ast.walk(fn):
            if isinstance(n, ast.Call) and ast.unparse(n.func) == "str.maketrans":
                d = ast.literal_eval(n.args[0])
                if not all(len(k) == 1 and len(v) == 1 for k, v in d.items()):
                    raise Untranslatable("table")
                rev = "seq[::-1].translate(table)" in norm(ast.unparse(fn))
                items = "; ".join(f"({ord(k)}%Z, {ord(v)}%Z)" for k, v in d.items())
                return (f"Definition euler_table : list (Z * Z) := [{items}].\n"
                        f"Definition euler_reverses : bool := {'true' if rev else 'false'}.")
        raise Untranslatable("str.maketrans not found")
    a.raw("euler_table", MR, "translate_euler", "character table + reversal", euler_table)
    a.fact("antiparallel_pick_strict", MR, "_get_align_rotator", "np.where(norm0 > norm1, rotvec_0, rotvec_1)",
           lambda fn: "np.where(np.linalg.norm(rotvec_0,axis=1,keepdims=True)>np.linalg.norm(rotvec_1,axis=1,keepdims=True),rotvec_0,rotvec_1)"
           in norm(ast.unparse(fn)))


# --------------------------------------------------------------------------
def R24():
    from props.C02 import rot24
    return rot24()


def mlit(m):
    return "(mat_of_list " + qlist([frac(x) for x in np.asarray(m, dtype=float).ravel().tolist()]) + ")"


def vlit(v):
    v = [frac(x) for x in np.asarray(v, dtype=float).tolist()]
    return f"(V Q {ql(v[0])} {ql(v[1])} {ql(v[2])})"


def corr_sequences(ck, rng):
    """random call sequences on real Molecules (exact rotations, quarter-grid vectors): final pose vs the model fold."""
    from acryo import Molecules
    from scipy.spatial.transform import Rotation
    R = R24()
    cases = []
    n = 150 if ck.tier == "quick" else 2500
    maxlen = 8 if ck.tier == "quick" else 30
    opn = {}
    for ci in range(n):
        p0 = rng.integers(-8, 9, size=3).astype(float)
        r0 = int(rng.integers(0, 24))
        mol = Molecules(p0[None], Rotation.from_matrix(R[r0][None].astype(float)))
        orig_pos, orig_mat = mol.pos.copy(), mol.rotator.as_matrix().copy()
        ops = []
        terms = []
        L = int(rng.integers(1, maxlen + 1))
        identity_ok = True          # copy=False returns the same instance, copy=True a new one
        cur = mol
        ref_p, ref_M = p0.astype(float).copy(), R[r0].astype(float).copy()      # independent running pose (numpy), same conventions as the property text
        for _ in range(L):
            k = int(rng.integers(0, 6))
            # in-place variant (copy=False) once the running value is no longer the original object
            cp = True if cur is mol else bool(rng.random() < 0.6)
            prev = cur
            if k == 0:
                v = rng.integers(-8, 9, size=3) / 4.0
                cur = cur.translate(v, copy=cp)
                ops.append(["translate", v.tolist(), cp]); terms.append(f"OTr Q {vlit(v)}")
            elif k == 1:
                v = rng.integers(-8, 9, size=3) / 4.0
                cur = cur.translate_internal(v, copy=cp)
                ops.append(["translate_internal", v.tolist(), cp]); terms.append(f"OTrI Q {vlit(v)}")
            elif k == 2:
                i = int(rng.integers(0, 24))
                how = int(rng.integers(0, 3))
                rot = Rotation.from_matrix(R[i].astype(float))
                if how == 0:
                    cur = cur.rotate_by(Rotation.from_matrix(R[i][None].astype(float)), copy=cp)
                elif how == 1:
                    cur = cur.rotate_by_matrix(R[i].astype(float), copy=cp)
                else:
                    cur = cur.rotate_by_quaternion(rot.as_quat(), copy=cp)
                ops.append(["rotate_by", i, how, cp]); terms.append(f"ORotW Q {mlit(R[i])}")
            elif k == 3:
                i = int(rng.integers(0, 24))
                rv = Rotation.from_matrix(R[i].astype(float)).as_rotvec()
                cur = cur.rotate_by_rotvec_internal(rv, copy=cp)
                ops.append(["rotate_by_rotvec_internal", i, cp]); terms.append(f"ORotI Q {mlit(R[i])}")
            elif k == 4:
                i = int(rng.integers(0, 24))
                rv = Rotation.from_matrix(R[i].astype(float)).as_rotvec()
                cur = cur.rotate_by_rotvec(rv[None], copy=cp)
                ops.append(["rotate_by_rotvec", i, cp]); terms.append(f"ORotW Q {mlit(R[i])}")
            else:
                i = int(rng.integers(0, 24))
                v = rng.integers(-8, 9, size=3) / 4.0
                cur = cur.linear_transform(v[None], Rotation.from_matrix(R[i][None].astype(float)))
                ops.append(["linear_transform", v.tolist(), i]); terms.append(f"OLin Q {vlit(v)} {mlit(R[i])}")
            last = ops[-1]
            if last[0] == "translate": ref_p = ref_p + np.array(last[1])
            elif last[0] == "translate_internal": ref_p = ref_p + ref_M @ np.array(last[1])
            elif last[0] in ("rotate_by", "rotate_by_rotvec"): ref_M = R[last[1]].astype(float) @ ref_M
            elif last[0] == "rotate_by_rotvec_internal": ref_M = ref_M @ R[last[1]].astype(float)
            elif last[0] == "linear_transform":
                ref_p = ref_p + ref_M @ np.array(last[1]); ref_M = ref_M @ R[last[2]].astype(float)
            if k != 5 and (cur is prev) != (not cp):
                identity_ok = False
            # derived views (rotation matrix, affine matrices) are read between operations and must follow every later (in-place) change
            if rng.random() < 0.5:
                Mr = cur.rotator.as_matrix()[0]
                src_ = np.array([[1.0, 2.0, 3.0]])
                fw, bw = cur.affine_matrix(src_)[0], cur.affine_matrix(src_, inverse=True)[0]
                if not (np.allclose(cur.matrix()[0], Mr, atol=1e-6) and np.allclose(fw[:3, :3], Mr, atol=1e-6) and np.allclose(bw[:3, :3], Mr.T, atol=1e-6)):
                    identity_ok = False
            opn[ops[-1][0] + ("" if (k == 5 or cp) else "[in-place]")] = opn.get(ops[-1][0] + ("" if (k == 5 or cp) else "[in-place]"), 0) + 1
        # copy=True must leave the original untouched
        untouched = np.array_equal(mol.pos, orig_pos) and np.allclose(mol.rotator.as_matrix(), orig_mat)
        M = cur.rotator.as_matrix()[0]
        axes_ok = (np.allclose(cur.z[0], M @ [1, 0, 0]) and np.allclose(cur.y[0], M @ [0, 1, 0]) and np.allclose(cur.x[0], M @ [0, 0, 1]))
        ck.oracle_count("sequence_reference_pose", 1, 1)
        if np.abs(cur.pos[0] - ref_p).max() > 1e-4 or np.abs(M - ref_M).max() > 1e-5:
            ck.violation(what=f"after {[o_[0] for o_ in ops]} the molecule is at {np.round(cur.pos[0], 4).tolist()} (expected {np.round(ref_p, 4).tolist()}), "
                              f"orientation error {np.abs(M - ref_M).max():.3g}", inp={"p0": p0.tolist(), "r0": r0, "ops": ops},
                         key={"site": "sequence-reference", "last_op": ops[-1][0]}, oracle="sequence_reference_pose")
        term = (f"(check_seq {vlit(p0)} {mlit(R[r0])} {lst(terms)} {vlit(cur.pos[0])} {mlit(M)} "
                f"{vlit(cur.z[0])} {vlit(cur.y[0])} {vlit(cur.x[0])} {bl(untouched and axes_ok and identity_ok)})")
        cases.append((term, {"p0": p0.tolist(), "r0": r0, "ops": ops, "final_pos": cur.pos[0].tolist(), "untouched": bool(untouched)}))
    ck.corr_run("call_sequences", ["Acryo.Common.Ring3", "AcryoGen.Anchors_C11", "Acryo.C11.Model"], cases, shard=250,
                observable=True, describe=lambda c: {"site": "sequence", "first_op": c["ops"][0][0]}, classes=opn)


def corr_affine_coords(ck, rng):
    from acryo import Molecules
    from scipy.spatial.transform import Rotation
    R = R24()
    cases = []
    n = 40 if ck.tier == "quick" else 400
    for ci in range(n):
        p0 = rng.integers(-20, 21, size=3) / 4.0
        r0 = int(rng.integers(0, 24))
        mol = Molecules(p0[None], Rotation.from_matrix(R[r0][None].astype(float)))
        src = rng.integers(-8, 9, size=3) / 2.0
        inv = bool(rng.integers(0, 2))
        dst = None if rng.random() < 0.5 else rng.integers(-8, 9, size=(1, 3)) / 2.0
        am = mol.affine_matrix(src[None], dst, inverse=inv)[0]
        u = rng.integers(-6, 7, size=3).astype(float)
        got = am @ np.append(src + u, 1.0)
        d = p0 if dst is None else dst[0]
        cases.append((f"(check_affine {vlit(d)} {mlit(R[r0])} {bl(inv)} {vlit(u)} {vlit(got[:3])})",
                      {"what": "affine_matrix", "pos": p0.tolist(), "rot": r0, "src": src.tolist(), "inverse": inv, "u": u.tolist()}))
        shape = tuple(int(x) for x in rng.integers(1, 5, size=3))
        scale = float(rng.choice([1.0, 0.5, 2.0]))
        lc = mol.local_coordinates(shape, scale)
        # implementation-only oracle: the grid is centred on the molecule (its centroid is pos/scale, and it is point-symmetric)
        ck.oracle_count("local_grid_centred", 1, 1 if any(s_ % 2 == 0 for s_ in shape) else 0)
        cen = lc.reshape(3, -1).mean(axis=1)
        if np.abs(cen - p0 / scale).max() > 1e-4 or np.abs(lc + lc[:, ::-1, ::-1, ::-1] - 2 * (p0 / scale)[:, None, None, None]).max() > 1e-4:
            ck.violation(what=f"local_coordinates{shape}: grid centroid {cen.tolist()} but the molecule sits at {(p0 / scale).tolist()} px",
                         inp={"pos": p0.tolist(), "rot": r0, "shape": shape, "scale": scale},
                         key={"site": "local_coordinates", "even_axis": any(s_ % 2 == 0 for s_ in shape)}, oracle="local_grid_centred")
        k = [int(rng.integers(0, s)) for s in shape]
        got = lc[:, k[0], k[1], k[2]]
        cases.append((f"(check_local {vlit(p0)} {ql(frac(scale))} {mlit(R[r0])} {zlist(shape)} {zlist(k)} {vlit(got)})",
                      {"what": "local_coordinates", "pos": p0.tolist(), "rot": r0, "shape": shape, "scale": scale, "k": k}))
    ck.corr_run("affine_and_local_coordinates", ["Acryo.Common.Ring3", "AcryoGen.Anchors_C11", "Acryo.C11.Model"], cases,
                shard=300, observable=True, describe=lambda c: {"site": c["what"]})


def oracle_repr(ck, rng):
    """representation round trips and from_axes on random SO(3) incl. near 0 / pi and degenerate axis pairs"""
    from acryo import Molecules
    from acryo.molecules import axes_to_rotator
    from scipy.spatial.transform import Rotation
    n = 60 if ck.tier == "quick" else 1500

    def rand_rot(i):
        r = rng.random()
        if r < 0.15:
            ax = rng.normal(size=3); ax /= np.linalg.norm(ax)
            return Rotation.from_rotvec(ax * (np.pi - 10 ** rng.uniform(-9, -3)))
        if r < 0.3:
            ax = rng.normal(size=3); ax /= np.linalg.norm(ax)
            return Rotation.from_rotvec(ax * 10 ** rng.uniform(-9, -3))
        if r < 0.45:
            return Rotation.from_matrix(R24()[int(rng.integers(0, 24))].astype(float))
        return Rotation.random(random_state=int(rng.integers(0, 2**31)))
    seqs = ["ZXZ", "zxz", "xyz", "zyx", "XYZ", "ZYX", "ZYZ", "yxz"]
    for i in range(n):
        rot = rand_rot(i)
        M = rot.as_matrix()
        pos = rng.normal(size=(1, 3)) * 10
        mol = Molecules(pos, Rotation.from_matrix(M[None]))
        fails = []
        m2 = Molecules.from_quat(pos, mol.quaternion())
        if not np.allclose(m2.rotator.as_matrix()[0], M, atol=1e-6): fails.append("quaternion")
        # a quaternion of any positive length denotes the same rotation: axes stay orthonormal
        gq = float(rng.choice([2.5, 0.3, 7.0]))
        m2q = Molecules.from_quat(pos, mol.quaternion() * gq)
        if not np.allclose(m2q.rotator.as_matrix()[0], M, atol=1e-6) or not np.allclose(m2q.matrix()[0], M, atol=1e-6) \
                or not np.allclose([np.linalg.norm(m2q.z[0]), np.linalg.norm(m2q.y[0]), np.linalg.norm(m2q.x[0])], 1.0, atol=1e-6) \
                or not np.allclose(m2q.copy().matrix()[0], M, atol=1e-6) or not np.allclose(m2q.subset([0]).z[0], M @ [1, 0, 0], atol=1e-6):
            fails.append("quaternion-nonunit")
        m2 = Molecules.from_rotvec(pos, mol.rotvec())
        if not np.allclose(m2.rotator.as_matrix()[0], M, atol=1e-6): fails.append("rotvec")
        m2 = Molecules.from_matrix(pos, mol.matrix())
        if not np.allclose(m2.rotator.as_matrix()[0], M, atol=1e-6): fails.append("matrix")
        seq = seqs[i % len(seqs)]
        e = mol.euler_angle(seq, degrees=bool(i % 2))
        m2 = Molecules.from_euler(pos, e, seq=seq, degrees=bool(i % 2), order="xyz")
        if not np.allclose(m2.rotator.as_matrix()[0], M, atol=1e-6): fails.append(f"euler-{seq}-xyz")
        # 'zyx' ordering is plain scipy: from_euler(order='zyx') must equal Rotation.from_euler on the same angles
        m3 = Molecules.from_euler(pos, e, seq=seq, degrees=bool(i % 2), order="zyx")
        if not np.allclose(m3.rotator.as_matrix()[0], Rotation.from_euler(seq, e, degrees=bool(i % 2)).as_matrix()[0], atol=1e-9):
            fails.append(f"euler-{seq}-zyx")
        # rotate_by_euler_angle composes, on the left, the rotation that from_euler builds from the same arguments (both orders, degrees or radians)
        for order_ in ("xyz", "zyx"):
            for deg_ in (False, True):
                ang = rng.uniform(-60, 60, size=3) if deg_ else rng.uniform(-1, 1, size=3)
                want = Molecules.from_euler(pos, ang[None], seq=seq, degrees=deg_, order=order_).rotator * mol.rotator
                if order_ == "zyx":
                    want2 = Rotation.from_euler(seq, ang, degrees=deg_) * mol.rotator
                    if not np.allclose(want.as_matrix()[0], want2.as_matrix()[0], atol=1e-9): fails.append(f"euler-{seq}-zyx-from_euler")
                for cp_ in (True, False):
                    mm_ = mol.copy()
                    got = mm_.rotate_by_euler_angle(ang, seq=seq, degrees=deg_, order=order_, copy=cp_)
                    if not np.allclose(got.rotator.as_matrix()[0], want.as_matrix()[0], atol=1e-6):
                        fails.append(f"rotate_by_euler_angle-{order_}-{'deg' if deg_ else 'rad'}")
        ck.oracle_count("representation_roundtrip", 1, 1)
        for f in fails:
            ck.violation(what=f"{f} round trip changed the orientation", inp={"matrix": M.tolist(), "seq": seq},
                         key={"site": "roundtrip", "repr": f.split("-")[0]}, oracle="representation_roundtrip")
        # from_axes, all three pairs
        z, y, x = M @ [1, 0, 0], M @ [0, 1, 0], M @ [0, 0, 1]
        for pair in ("zy", "yx", "zx"):
            kw = {"z": z[None] if "z" in pair else None, "y": y[None] if "y" in pair else None, "x": x[None] if "x" in pair else None}
            try:
                m3 = Molecules.from_axes(pos, **kw)
                ok = np.allclose(m3.rotator.as_matrix()[0], M, atol=1e-5)
                detail = "" if ok else f"from_axes({pair}) returned a different orientation"
            except Exception as e:  # noqa
                ok, detail = False, f"from_axes({pair}) raised {type(e).__name__}: {e}"
            ck.oracle_count("from_axes", 1, 1)
            if not ok:
                ck.violation(what=detail, inp={"matrix": M.tolist(), "pair": pair},
                             key=from_axes_key(M, pair, batch=False), oracle="from_axes", measured=detail)
            # the same axes at another length (only their directions matter), for the orientations the unit-length call got right
            if ok:
                f1, f2 = float(rng.choice([2.0, 0.5, 7.0, 0.3])), float(rng.choice([2.0, 0.25, 3.0]))
                kw2 = {k_: (None if v_ is None else v_ * (f1 if j_ % 2 else f2)) for j_, (k_, v_) in enumerate(kw.items())}
                try:
                    m4 = Molecules.from_axes(pos, **kw2)
                    ok2 = np.allclose(m4.rotator.as_matrix()[0], M, atol=1e-5)
                    detail = "" if ok2 else f"from_axes({pair}) with axes of lengths {f2}/{f1} returned another orientation than with unit axes"
                except Exception as e:  # noqa
                    ok2, detail = False, f"from_axes({pair}) with non-unit axes raised {type(e).__name__}: {e}"
                ck.oracle_count("from_axes", 1, 1)
                if not ok2:
                    ck.violation(what=detail, inp={"matrix": M.tolist(), "pair": pair, "lengths": [f2, f1]}, key={"site": "from_axes", "class": "non-unit-axes"},
                                 oracle="from_axes", measured=detail)
    # batches mixing generic and degenerate pairs
    for i in range(6 if ck.tier == "quick" else 60):
        mats = [Rotation.random(random_state=int(rng.integers(0, 2**31))).as_matrix() for _ in range(3)]
        deg = R24()[int(rng.integers(0, 24))].astype(float)
        mats.insert(int(rng.integers(0, 4)), deg)
        Ms = np.stack(mats)
        z, y = Ms @ [1, 0, 0], Ms @ [0, 1, 0]
        out = axes_to_rotator(z, y).as_matrix()
        ck.oracle_count("from_axes", 1, 1)
        bad = [j for j in range(4) if not np.allclose(out[j], Ms[j], atol=1e-5)]
        if bad:
            ck.violation(what=f"axes_to_rotator on a mixed batch: rows {bad} wrong", inp={"matrices": Ms.tolist()},
                         key=from_axes_key(Ms[bad[0]], "zy", batch=True), oracle="from_axes")


def oracle_euler_batches(ck, rng):
    """per-molecule Euler angles: row i of a batch gives the orientation that the same angles give for a single molecule"""
    from acryo import Molecules
    for it in range(4 if ck.tier == "quick" else 40):
        nb = int(rng.integers(2, 6))
        seq = ["ZXZ", "zyx", "xyz", "ZYX", "yxz"][it % 5]
        deg = bool(it % 2)
        ang = rng.uniform(-80, 80, size=(nb, 3)) if deg else rng.uniform(-1.4, 1.4, size=(nb, 3))
        pos = np.zeros((nb, 3))
        for order_ in ("xyz", "zyx"):
            ck.oracle_count("euler_batches", 1, 1)
            batch = Molecules.from_euler(pos, ang, seq=seq, degrees=deg, order=order_).rotator.as_matrix()
            single = np.stack([Molecules.from_euler(pos[:1], ang[j:j + 1], seq=seq, degrees=deg, order=order_).rotator.as_matrix()[0] for j in range(nb)])
            rot = Molecules(pos).rotate_by_euler_angle(ang, seq=seq, degrees=deg, order=order_).rotator.as_matrix()
            bad = [j for j in range(nb) if not (np.allclose(batch[j], single[j], atol=1e-9) and np.allclose(rot[j], single[j], atol=1e-6))]
            if bad:
                ck.violation(what=f"from_euler / rotate_by_euler_angle(seq={seq}, order={order_}, degrees={deg}) on {nb} molecules: rows {bad} differ from the "
                                  f"orientation the same angles give for a single molecule", inp={"angles": ang.tolist(), "seq": seq, "order": order_, "degrees": deg},
                             key={"site": "euler-batch", "order": order_}, oracle="euler_batches")


def oracle_from_axes_batches(ck, rng):
    """batches of generic molecules given by axes that are neither unit length nor exactly perpendicular: the first-named axis keeps its
    direction, the second is orthogonalised against it, and every row is independent of its batch-mates"""
    from acryo import Molecules
    from acryo.molecules import axes_to_rotator
    from scipy.spatial.transform import Rotation
    for it in range(6 if ck.tier == "quick" else 80):
        nb = int(rng.integers(2, 6))
        Ms = Rotation.random(nb, random_state=int(rng.integers(0, 2**31))).as_matrix()
        z, y, x = Ms @ [1, 0, 0], Ms @ [0, 1, 0], Ms @ [0, 0, 1]
        tilt = rng.uniform(-0.4, 0.4, size=(nb, 1)) * (it % 2)            # second axis leaning towards the first
        sc1, sc2 = rng.uniform(0.3, 5.0, size=(nb, 1)), rng.uniform(0.3, 5.0, size=(nb, 1))
        # (first axis, second axis, keyword names): axes_to_rotator(z, y) keeps y and orthogonalises z; from_axes pairs likewise
        calls = [("axes_to_rotator(z,y)", lambda: axes_to_rotator((z + tilt * y) * sc1, y * sc2).as_matrix()),
                 ("from_axes(z,y)", lambda: Molecules.from_axes(np.zeros((nb, 3)), z=(z + tilt * y) * sc1, y=y * sc2).rotator.as_matrix()),
                 ("from_axes(y,x)", lambda: Molecules.from_axes(np.zeros((nb, 3)), y=y * sc1, x=(x + tilt * y) * sc2).rotator.as_matrix())]
        for name, fn in calls:
            ck.oracle_count("from_axes_batches", 1, 1)
            try:
                out = fn()
                bad = [j for j in range(nb) if not np.allclose(out[j], Ms[j], atol=1e-5)]
                single = []
                detail = f"rows {bad} differ from the orientation whose axes were given" if bad else ""
            except Exception as e:  # noqa
                bad, detail = [-1], f"raised {type(e).__name__}: {e}"
            if bad:
                ck.violation(what=f"{name} on a batch of {nb} generic molecules (scaled{', non-perpendicular' if it % 2 else ''} axes): {detail}",
                             inp={"matrices": Ms.tolist(), "tilt": tilt.ravel().tolist()}, key={"site": "from_axes-batch", "non_perpendicular": bool(it % 2)},
                             oracle="from_axes_batches")


def from_axes_key(M, pair, batch):
    """input class for known findings: which step of axes_to_rotator is anti-parallel for this orientation."""
    M = np.asarray(M)
    y = M @ [0, 1, 0]
    z = M @ [1, 0, 0]
    cls = "generic"
    from acryo.molecules._rotation import _get_align_rotator
    try:
        ry = _get_align_rotator(np.array([[0, 1, 0]]), y[None])
        zt = ry.apply(z[None], inverse=True)[0]
        if np.all(np.abs(np.array([1, 0, 0]) + zt) < 1e-6):
            cls = "z-antiparallel-after-y"
        elif np.all(np.abs(np.array([0, 1, 0]) + y) < 1e-6):
            cls = "y-antiparallel"
    except Exception:
        pass
    return {"site": "from_axes", "class": cls, "mixed_batch": bool(batch)}


def oracle_surface(ck, rng):
    """randomised constructors / operations and degenerate inputs: from_random, translate_random, rotate_random (positions, axes,
    features, copy semantics, reproducibility per seed), empty molecule sets, argument validation"""
    import polars as pl
    from acryo import Molecules
    from scipy.spatial.transform import Rotation
    fails = []

    def expect(cond, site, what, inp=None):
        if not cond:
            fails.append((site, what, inp))

    def raises(fn, *exc):
        try:
            fn()
        except exc:
            return True
        except Exception:
            return False
        return False

    def proper(m):
        z, y, x = m.z, m.y, m.x
        return bool(np.allclose(np.sum(z * z, axis=1), 1, atol=1e-6) and np.allclose(np.sum(y * y, axis=1), 1, atol=1e-6) and np.allclose(np.sum(z * y, axis=1), 0, atol=1e-6)
                    and np.allclose(-np.cross(x, y), z, atol=1e-6))      # right-handed in z, y, x order

    try:
        for it in range(3 if ck.tier == "quick" else 20):
            n = int(rng.integers(1, 8))
            pos = rng.normal(size=(n, 3)) * 10
            feat = pl.DataFrame({"k": list(range(n))})
            seed = int(rng.integers(0, 1000))
            info = {"n": n, "seed": seed}
            m = Molecules.from_random(pos, seed=seed, features=feat)
            m2 = Molecules.from_random(pos, seed=seed)
            expect(np.allclose(m.pos, pos, atol=1e-5) and proper(m) and m.features["k"].to_list() == list(range(n)), "from-random", "from_random: positions / features changed or axes not orthonormal right-handed", info)
            expect(np.allclose(m.quaternion(), m2.quaternion()), "from-random", "from_random is not reproducible for a given seed", info)
            d = float(rng.uniform(0.5, 5))
            before = (m.pos.copy(), m.quaternion().copy())
            t = m.translate_random(d, seed=seed)
            t2 = m.translate_random(d, seed=seed)
            dist = np.linalg.norm(t.pos - m.pos, axis=1)
            expect(bool(np.all(dist <= d * (1 + 1e-5))) and np.allclose(t.quaternion(), m.quaternion()) and t.features["k"].to_list() == list(range(n)), "translate-random",
                   f"translate_random({d:.2f}): a molecule moved by {dist.max():.3f} or orientations / features changed", info)
            expect(np.allclose(t.pos, t2.pos) and (n == 1 or float(np.ptp(dist)) > 0 or d == 0), "translate-random", "translate_random is not reproducible per seed (or moves every molecule alike)", info)
            expect(np.array_equal(m.pos, before[0]) and np.array_equal(m.quaternion(), before[1]), "copy", "translate_random(copy=True) altered the original", info)
            r = m.rotate_random(seed=seed)
            G = Rotation.random(n, random_state=seed)
            expect(np.allclose(r.pos, m.pos) and np.allclose(r.z, G.apply(m.z), atol=1e-6) and np.allclose(r.y, G.apply(m.y), atol=1e-6) and proper(r)
                   and r.features["k"].to_list() == list(range(n)), "rotate-random", "rotate_random does not compose a world rotation on the left / moves positions / drops features", info)
            expect(np.array_equal(m.pos, before[0]) and np.array_equal(m.quaternion(), before[1]), "copy", "rotate_random(copy=True) altered the original", info)
            c = m.copy()
            same = c.translate_random(d, seed=seed, copy=False)
            expect(same is c and np.allclose(c.pos, t.pos), "copy", "translate_random(copy=False) does not update and return the instance", info)
            c = m.copy()
            same = c.rotate_random(copy=False, seed=seed)
            expect(same is c and np.allclose(c.z, r.z) and np.allclose(c.pos, m.pos), "copy", "rotate_random(copy=False) does not update and return the instance", info)
        # canonical quaternions (scalar part >= 0) of exact half turns and of every cube rotation still denote the same rotation
        halves = [np.diag([1.0, -1.0, -1.0]), np.diag([-1.0, 1.0, -1.0]), np.diag([-1.0, -1.0, 1.0])] + [R24()[i].astype(float) for i in range(24)]
        mh = Molecules.from_matrix(np.zeros((len(halves), 3)), np.stack(halves))
        mq_ = Molecules.from_quat(np.zeros((3, 3)), np.array([[1.0, 0, 0, 0], [0, 1.0, 0, 0], [0, 0, 1.0, 0]]))
        for mm_, nm_ in ((mh, "from_matrix"), (mq_, "from_quat")):
            for canon in (True, False):
                qc = np.asarray(mm_.quaternion(canonical=canon))
                back_ = Rotation.from_quat(qc).as_matrix() if np.all(np.abs(np.linalg.norm(qc, axis=1) - 1) < 1e-6) else None
                expect(back_ is not None and np.allclose(back_, mm_.matrix(), atol=1e-6) and (not canon or bool(np.all(qc[:, 3] >= -1e-12))), "canonical-quaternion",
                       f"quaternion(canonical={canon}) of half turns / cube rotations ({nm_}) is not a unit quaternion of the same rotation: {np.round(qc[:4], 3).tolist()}", {})
        e = Molecules.empty()
        e2 = Molecules.from_random(np.zeros((0, 3)), seed=1)
        for em in (e, e2):
            expect(len(em) == 0 and em.affine_matrix(np.zeros(3)).shape == (0, 4, 4) and em.matrix().shape == (0, 3, 3) and em.euler_angle().shape == (0, 3)
                   and em.quaternion().shape == (0, 4) and em.rotvec().shape == (0, 3), "empty", "accessors of an empty molecule set have the wrong shapes", {})
        expect(raises(lambda: Molecules(np.zeros((2, 3)), rot=np.eye(3)), TypeError), "validation", "a matrix accepted as `rot`", {})
        expect(raises(lambda: Molecules.from_axes(np.zeros((1, 3)), z=[[1, 0, 0]]), TypeError) and raises(lambda: Molecules.from_axes(np.zeros((1, 3))), TypeError), "validation",
               "from_axes accepted fewer than two axes", {})
        expect(raises(lambda: Molecules.from_euler(np.zeros((1, 3)), np.zeros((1, 3)), order="yxz"), ValueError), "validation", "from_euler accepted an unknown order", {})
    except Exception as e_:  # noqa
        import traceback
        fails.append(("raised", f"{type(e_).__name__}: {e_} at {traceback.format_exc().strip().splitlines()[-3].strip()}", {}))
    ck.oracle_count("molecules_surface", 1, 1)
    seen = set()
    for site, what, inp in fails:
        if site in seen:
            continue
        seen.add(site)
        ck.violation(what=what, inp=inp, key={"site": "surface-" + site}, oracle="molecules_surface")


def run(ck: common.Check):
    ck.design_ref = "DESIGN.md §6 C11"
    ck.trusted_base = TB
    ck.partial = ["scipy Rotation conversions (from_/as_ euler, quat, rotvec, matrix) are kernels: round trips are oracle-only",
                  "axes_to_rotator's generic branch (arctan2 / rotvec) is numeric; only the anti-parallel axis choice is modelled"]
    a = Anchors(common.REPO)
    anchors(a)
    ck.write_anchors(PID, a)
    ck.build(["C11"], ["C11/Property.v"])
    rng = np.random.default_rng(ck.seed + 1111)
    corr_sequences(ck, rng)
    corr_affine_coords(ck, rng)
    oracle_repr(ck, rng)
    oracle_from_axes_batches(ck, np.random.default_rng(ck.seed + 111111))
    oracle_euler_batches(ck, np.random.default_rng(ck.seed + 112112))
    oracle_surface(ck, np.random.default_rng(ck.seed + 11011))


def replay(data):
    print(json.dumps(data.get("input"), indent=1)[:3000])
    return 0


TB = [
    "Coq 8.16.1 kernel + coqc; vm_compute for Examples and correspondence",
    "axioms: none (abstract commutative ring, closed by ring); see coverage.assumptions_printed",
    "structural anchors (harness/translate.py facts) for Molecules.x/y/z, cross, rotate_by, translate(_internal), "
    "rotate_by_rotvec_internal, linear_transform, affine_matrix, local_coordinates, translate_euler",
    "assumed scipy laws: (r1*r2).apply = r1.apply o r2.apply; Rotation.from_rotvec(M v) = M Rot(v) M^-1; from_/as_ pairs are mutually inverse",
    "correspondence inputs: 24 signed-permutation rotations, quarter-grid vectors (float arithmetic exact), tolerance 1e-5",
]
