"""C03 — row i of every result belongs to molecule i."""
from __future__ import annotations
import ast
import json
import numpy as np

import common
from common import zl, ql, bl, lst, zlist, qlist, frac, natl
from translate import Anchors
from props.C11 import norm

PID = "C03"
LBT = "acryo/loader/_batch.py"
LB = "acryo/loader/_base.py"
LG = "acryo/loader/_group.py"


def anchors(a: Anchors):
    def scattered(fn):
        t = norm(ast.unparse(fn))
        return ("indices=np.where(image_ids==image_id)[0]" in t and "fori,arrinzip(indices,arrays):tasks[i]=arr" in t.replace("\n", "")
                and "image_ids=self.molecules.features[IMAGE_ID_LABEL].to_numpy()" in t and "forloaderinself.loaders" in t)
    a.fact("batch_tasks_scattered", LBT, "BatchLoader.construct_loading_tasks", "tasks scattered back to molecule order", scattered)
    a.fact("accessor_groups_by_image_id", LBT, "LoaderAccessor.__iter__", "for key, group in molecules.groupby(IMAGE_ID_LABEL): image=_images[key]",
           lambda fn: all(t in norm(ast.unparse(fn)) for t in ["forkey,groupinldr.molecules.groupby(IMAGE_ID_LABEL)", "image=ldr._images[key]",
                                                               "SubtomogramLoader(image,group,"]))
    a.fact("auto_id_skips_used", LBT, "BatchLoader.add_tomogram", "image_id = len(images); while image_id in images: image_id += 1",
           lambda fn: "ifimage_idisNone:image_id=len(self._images)whileimage_idinself._images:image_id+=1" in norm(ast.unparse(fn)))
    a.fact("add_registers_under_id", LBT, "BatchLoader.add_tomogram", "molecules tagged with image_id; concat after the existing ones; images[image_id] = image",
           lambda fn: all(t in norm(ast.unparse(fn)) for t in ["pl.Series(IMAGE_ID_LABEL,np.full(len(molecules),image_id))", "_molecules_new=self._molecules.concat_with(molecules)",
                                                               "self._images[image_id]=image", "self._molecules=_molecules_new"]))
    a.fact("replace_drops_unused_images", LBT, "BatchLoader.replace", "images copied; ids without molecules are popped",
           lambda fn: all(t in norm(ast.unparse(fn)) for t in ["out._images=self._images.copy()", "_id_exists=set(molecules.features[IMAGE_ID_LABEL].unique())",
                                                               "forkinlist(out._images.keys()):ifknotin_id_exists:out._images.pop(k)"]))
    # derived / per-tomogram loaders receive every loader option (order, scale, output_shape, corner_safe)
    from translate import forwards
    SL_PARAMS = ["image", "molecules", "order", "scale", "output_shape", "corner_safe"]
    opts = lambda pre: {k: (pre + k,) for k in ("order", "scale", "output_shape", "corner_safe")}
    a.fact("accessor_forwards_options", LBT, "LoaderAccessor.__iter__", "SubtomogramLoader(image, group, ldr.order, ldr.scale, ldr.output_shape, ldr.corner_safe)",
           lambda fn: forwards(fn, ("SubtomogramLoader",), SL_PARAMS, opts("ldr.")))
    a.fact("accessor_getitem_forwards_options", LBT, "LoaderAccessor.__getitem__", "same for loaders[i]",
           lambda fn: forwards(fn, ("SubtomogramLoader",), SL_PARAMS, opts("ldr.")))
    defaults = lambda t: all(f"if{k}isNone:{k}=self.{k}" in t for k in ("output_shape", "order", "scale", "corner_safe"))
    a.fact("single_replace_forwards_options", "acryo/loader/_loader.py", "SubtomogramLoader.replace", "self.__class__(self.image, molecules=..., every option; None -> own value)",
           lambda fn: forwards(fn, ("self.__class__",), SL_PARAMS, dict(opts(""), image=("self.image",), molecules=("molecules",))) and defaults(norm(ast.unparse(fn))))
    a.fact("batch_replace_forwards_options", LBT, "BatchLoader.replace", "self.__class__(order=..., scale=..., output_shape=..., corner_safe=...); None -> own value",
           lambda fn: forwards(fn, ("self.__class__",), ["order", "scale", "output_shape", "corner_safe"], opts("")) and defaults(norm(ast.unparse(fn))))
    MOCK_PARAMS = ["template", "molecules", "noise", "degrees", "central_axis", "order", "scale", "corner_safe"]
    a.fact("mock_replace_forwards_options", "acryo/loader/_mock.py", "MockLoader.replace",
           "self.__class__(self._template, molecules=..., noise, degrees, central_axis, order, scale, corner_safe); None -> own value",
           lambda fn: forwards(fn, ("self.__class__",), MOCK_PARAMS, {"template": ("self._template",), "molecules": ("molecules",), "noise": ("self._noise",),
                                                                       "degrees": ("self._degrees",), "central_axis": ("self._central_axis",), "order": ("order",),
                                                                       "scale": ("scale",), "corner_safe": ("corner_safe",)})
           and all(f"if{k}isNone:{k}=self.{k}" in norm(ast.unparse(fn)) for k in ("molecules", "order", "scale", "corner_safe")))
    a.fact("mapping_tasks_zip_rows", LB, "LoaderBase.iter_mapping_tasks", "zip(dask_array, dict_iterrows(var_kwarg))",
           lambda fn: "forar,kwinzip(dask_array,_misc.dict_iterrows(var_kwarg))" in norm(ast.unparse(fn))
           and "dask_array=self.construct_loading_tasks(output_shape=output_shape)" in norm(ast.unparse(fn)))
    a.fact("post_align_row_order", LB, "LoaderBase._post_align", "for i, result in enumerate(results): row i",
           lambda fn: "fori,resultinenumerate(results)" in norm(ast.unparse(fn)))
    for nm_, expr in (("head", "self.replace(molecules=self.molecules.head(n))"), ("tail", "self.replace(molecules=self.molecules.tail(n))"),
                      ("filter", "self.replace(molecules=self.molecules.filter(predicate))"),
                      ("sample", "self.replace(molecules=self.molecules.sample(n,seed))")):
        a.fact(f"derived_{nm_}", LB, f"LoaderBase.{nm_}", expr, lambda fn, e=expr: ("return" + e) in norm(ast.unparse(fn)))
    a.fact("group_iter_maintains_order", "acryo/molecules/core.py", "Molecules.group_by", "group_by(..., maintain_order=True)",
           lambda fn: norm(ast.unparse(fn)).count("maintain_order=True") >= 2)
    a.fact("loader_group_drops_index", LG, "LoaderGroupByIterator.__iter__", "with_features(index).groupby(by) ... drop_features(index)",
           lambda fn: all(t in norm(ast.unparse(fn)) for t in ["loader.molecules.with_features(index).groupby(self._by)",
                                                               "molecules=mole.drop_features(index_col_name)"]))

    a.fact("apply_table_is_list_of_columns", LB, "LoaderBase.apply", "one task list per function, one numpy column per task list, DataFrame(list of columns, schema)",
           lambda fn: all(t in norm(ast.unparse(fn)) for t in ["forfninfuncs:tasks=self.construct_mapping_tasks(fn,output_shape=self.output_shape)all_tasks.append(tasks)",
                                                               "all_results=compute(all_tasks)", "df_input=[np.array(r)forrinall_results]",
                                                               "returnpl.DataFrame(df_input,schema=schema)"]))
    a.fact("group_apply_table_is_named_columns", "acryo/loader/_group.py", "LoaderGroup.apply", "per group: one task list per function; table = {name: column}",
           lambda fn: all(t in norm(ast.unparse(fn)) for t in ["forfnin_funcs:", "taskset.append(list(tasks))", "all_tasks.append(taskset)", "keys.append(key)",
                                                               "forkey,resultinzip(keys,all_results):", "out[key]=pl.DataFrame({name:np.asarray(col)forname,colinzip(schema,result)})"]))


# --------------------------------------------------------------------------
D = 7


def build(rng, kind):
    """returns loader, table rows [(tag, id, v)], decode function"""
    from acryo import SubtomogramLoader, BatchLoader, Molecules
    nimg = 1 if kind == "single" else int(rng.integers(2, 4))
    ids = list(rng.permutation(6)[:nimg]) if kind == "batch" else [0]
    tomos = {}
    rows = []
    tagc = 1
    batch = BatchLoader(order=0, scale=1.0, output_shape=(1, 1, 1)) if kind == "batch" else None
    lookup = {}
    single = None
    for k in ids:
        zz, yy, xx = np.meshgrid(np.arange(D), np.arange(D), np.arange(D), indexing="ij")
        t = (1000 * (int(k) + 1) + 49 * zz + 7 * yy + xx).astype(np.float32)
        tomos[int(k)] = t
        n = int(rng.integers(2, 6))
        cells = rng.permutation((D - 2) ** 3)[:n]
        pos, tags, vs = [], [], []
        for c in cells:
            p = np.array([c // ((D - 2) ** 2), (c // (D - 2)) % (D - 2), c % (D - 2)]) + 1
            pos.append(p.astype(float)); tags.append(tagc); vs.append(int(rng.integers(0, 4)))
            lookup[int(t[tuple(p)])] = tagc
            tagc += 1
        mol = Molecules(np.array(pos), features={"tag": tags, "v": vs})
        if kind == "batch":
            batch.add_tomogram(t, mol, image_id=int(k))
            rows += [(tg, int(k), v) for tg, v in zip(tags, vs)]
        else:
            single = SubtomogramLoader(t, mol, order=0, scale=1.0, output_shape=(1, 1, 1))
            rows += [(tg, 0, v) for tg, v in zip(tags, vs)]
    return (batch if kind == "batch" else single), rows, lookup


def table(ld, kind):
    f = ld.molecules.features
    if "tag" not in f.columns:
        return []
    ids = f["image-id"].to_list() if "image-id" in f.columns else [0] * len(f)
    return list(zip(f["tag"].to_list(), [int(i) for i in ids], f["v"].to_list()))


LOAD_ERRORS = []
OBS_COUNT = [0]


def observe(ld, kind, lookup, snapshots):
    rows = table(ld, kind)
    dec = lambda arr: [lookup.get(int(round(float(x))), -7) for x in np.asarray(arr).ravel()]
    loaded = dec(ld.asnumpy()) if len(rows) else []
    if len(rows):
        # load() with an index list returns the sub-volumes of exactly those molecules, in the order (and multiplicity) requested
        n_ = len(rows)
        for idx in ([n_ - 1 - j for j in range(n_)], [0, n_ - 1, 0], [-1, 0] if n_ > 1 else [0]):
            got = dec(ld.load(idx))
            if got != [loaded[j] for j in idx]:
                LOAD_ERRORS.append({"indices": idx, "got": got, "want": [loaded[j] for j in idx]})
    applied = dec(ld.apply(np.max).to_numpy()) if len(rows) else []
    gk, gt, gl = [], [], []
    if len(rows):
        for key, sub in ld.groupby("v"):
            gk.append(int(key))
            gt.append(sub.molecules.features["tag"].to_list())
            gl.append(dec(sub.asnumpy()))
    OBS_COUNT[0] += 1
    if len(rows) and OBS_COUNT[0] % 3 == 0:
        # apply through the groups: row i of every group's table belongs to molecule i of that group, whatever the group size
        gres = ld.groupby("v").apply([np.max, np.min, np.mean][: 2 + len(rows) % 2])
        for gi, key in enumerate(gk):
            tab = gres[key]
            cols = [dec(tab[c].to_numpy()) for c in tab.columns]
            if any(c != gl[gi] for c in cols):
                LOAD_ERRORS.append({"indices": f"group {key} apply", "got": cols, "want": gl[gi]})
    pure = all(table(l0, kind) == t0 and np.array_equal(l0.molecules.pos, p0) for l0, t0, p0 in snapshots)
    return rows, loaded, applied, gk, gt, gl, pure


def rows_lit(rows):
    return lst([f"({zl(t)}, ({zl(i)}, {zl(v)}))" for t, i, v in rows])


def obs_lit(o):
    rows, loaded, applied, gk, gt, gl, pure = o
    return (f"(Obs {rows_lit(rows)} {zlist(loaded)} {zlist(applied)} {zlist(gk)} {lst([zlist(x) for x in gt])} "
            f"{lst([zlist(x) for x in gl])} {bl(pure)})")


def run_history(rng, kind, maxlen):
    import polars as pl
    ld, rows0, lookup = build(rng, kind)
    snapshots = [(ld, table(ld, kind), ld.molecules.pos.copy())]
    hist_terms, hist_py = [], []
    o0 = observe(ld, kind, lookup, snapshots)
    hist_terms.append(f"(OHead {natl(len(rows0))}, {obs_lit(o0)})")
    hist_py.append(["initial", o0[0]])
    cur = ld
    L = int(rng.integers(1, maxlen + 1))
    for _ in range(L):
        n = cur.count()
        k = int(rng.integers(0, 6))
        if k == 0:
            a = int(rng.integers(2, 4)); b = int(rng.integers(0, a))
            new = cur.filter(pl.col("tag") % a == b)
            term, py = f"OFilter {zl(a)} {zl(b)}", ["filter", a, b]
        elif k == 1:
            m = int(rng.integers(0, n + 2)); new = cur.head(m); term, py = f"OHead {natl(m)}", ["head", m]
        elif k == 2:
            m = int(rng.integers(0, n + 2)); new = cur.tail(m); term, py = f"OTail {natl(m)}", ["tail", m]
        elif k == 3:
            desc = bool(rng.integers(0, 2))
            new = cur.replace(molecules=cur.molecules.sort("v", descending=desc)); term, py = f"OSort {bl(desc)}", ["sort", desc]
        elif k == 4:
            m = int(rng.integers(1, n + 1)); new = cur.sample(m, seed=int(rng.integers(0, 100)))
            term, py = f"OSample {natl(m)}", ["sample", m]
        else:
            idx = [int(i) for i in rng.permutation(n)[:int(rng.integers(1, n + 1))]]
            new = cur.replace(molecules=cur.molecules.subset(idx))
            term, py = f"OSubset {lst([natl(i) for i in idx])}", ["subset", idx]
        snapshots.append((new, table(new, kind), new.molecules.pos.copy()))
        o = observe(new, kind, lookup, snapshots)
        hist_terms.append(f"({term}, {obs_lit(o)})")
        hist_py.append(py + [o[0], {"loaded": o[1], "applied": o[2], "pure": o[6]}])
        if new.count() == 0:
            break            # an empty loader ends the history (its table is still checked)
        cur = new
    return f"(check_hist {rows_lit(rows0)} {lst(hist_terms)})", {"kind": kind, "history": hist_py}


def corr_histories(ck, rng):
    n = 36 if ck.tier == "quick" else 500
    maxlen = 6 if ck.tier == "quick" else 25
    cases = []
    classes = {"batch": 0, "single": 0}
    LOAD_ERRORS.clear()
    for i in range(n):
        kind = "batch" if i % 4 else "single"
        classes[kind] += 1
        cases.append(run_history(rng, kind, maxlen))
    ck.oracle_count("load_index_list", len(cases), len(cases))
    for e in LOAD_ERRORS[:3]:
        ck.violation(what=f"loader.load / group apply ({e['indices']}) returned the values of molecules {e['got']} instead of {e['want']}", inp=e,
                     key={"site": "load-index-list" if not str(e["indices"]).startswith("group") else "group-apply"}, oracle="load_index_list")
    ck.corr_run("loader_histories", ["Acryo.Common.Table", "AcryoGen.Anchors_C03", "Acryo.C03.Model"], cases, shard=12 if ck.tier == "quick" else 40,
                observable=True, describe=lambda c: {"site": "history", "kind": c["kind"], "ops": [h[0] for h in c["history"]][:6]},
                classes=classes)


def oracle_results(ck, rng):
    """interleaved batch where each tomogram holds a differently displaced blob: align/score/landscape rows must match."""
    from acryo import BatchLoader, Molecules
    from acryo.alignment import ZNCCAlignment
    from scipy import ndimage as ndi
    n = 3 if ck.tier == "quick" else 25
    tmpl = np.zeros((9, 9, 9), np.float32); tmpl[3:6, 2:7, 4:6] = 1; tmpl[5:8, 5:7, 2:5] = 2
    tmpl = ndi.gaussian_filter(tmpl, 0.8)
    for it in range(n):
        b = BatchLoader(order=1, scale=1.0, output_shape=(9, 9, 9))
        truth = {}
        tagc = 0
        for k in range(3):
            d = rng.integers(-2, 3, size=3)
            tomo = np.zeros((20, 20, 60), np.float32)
            pos = []
            for j in range(3):
                c = np.array([10, 10, 10 + 20 * j])
                sl = tuple(slice(int(c[a] + d[a] - 4), int(c[a] + d[a] + 5)) for a in range(3))
                tomo[sl] += tmpl
                pos.append(c.astype(float))
            tags = list(range(tagc, tagc + 3)); tagc += 3
            for tg in tags:
                truth[tg] = d
            b.add_tomogram(tomo, Molecules(np.array(pos), features={"tag": tags, "v": [int(x) for x in rng.integers(0, 9, size=3)]}), image_id=k)
        s = b.replace(molecules=b.molecules.sort("v"))
        tags = s.molecules.features["tag"].to_list()
        out = s.align(tmpl, max_shifts=3.0)
        sh = out.molecules.pos - s.molecules.pos
        # reference: the same molecules in registration order (contiguous image ids), matched by tag
        ref_out = b.align(tmpl, max_shifts=3.0)
        ref_sh = dict(zip(b.molecules.features["tag"].to_list(), ref_out.molecules.pos - b.molecules.pos))
        bad = [i for i, tg in enumerate(tags) if np.abs(sh[i] - ref_sh[tg]).max() > 1e-3]
        far = [i for i, tg in enumerate(tags) if np.abs(ref_sh[tg] - truth[tg]).max() > 1.0]
        ck.oracle_count("interleaved_batch_align", 1, 1)
        if bad or len(far) > 3:
            ck.violation(what=f"align on an interleaved batch: rows {bad} differ from the same molecules aligned in registration order "
                              f"({len(far)} reference rows far from the planted displacement)",
                         inp={"iteration": it, "seed": ck.seed, "ids": s.molecules.features["image-id"].to_list()},
                         key={"site": "batch.align", "interleaved": True}, oracle="interleaved_batch_align")
        sc = s.score([tmpl], alignment_model=ZNCCAlignment)[0]
        ref = b.score([tmpl], alignment_model=ZNCCAlignment)[0]
        reft = dict(zip(b.molecules.features["tag"].to_list(), ref))
        ck.oracle_count("interleaved_batch_score", 1, 1)
        if any(abs(sc[i] - reft[tg]) > 1e-5 for i, tg in enumerate(tags)):
            ck.violation(what="score rows of an interleaved batch do not follow the molecules", inp={"iteration": it, "seed": ck.seed},
                         key={"site": "batch.score", "interleaved": True}, oracle="interleaved_batch_score")
        lnd = s.construct_landscape(tmpl, max_shifts=3.0).compute()
        am = np.array([np.array(np.unravel_index(np.argmax(x), x.shape)) - 3 for x in lnd])
        lref = b.construct_landscape(tmpl, max_shifts=3.0).compute()
        amref = dict(zip(b.molecules.features["tag"].to_list(),
                         [np.array(np.unravel_index(np.argmax(x), x.shape)) - 3 for x in lref]))
        ck.oracle_count("interleaved_batch_landscape", 1, 1)
        if any(np.abs(am[i] - amref[tg]).max() > 0 for i, tg in enumerate(tags)):
            ck.violation(what="landscape rows of an interleaved batch do not follow the molecules", inp={"iteration": it, "seed": ck.seed},
                         key={"site": "batch.landscape", "interleaved": True}, oracle="interleaved_batch_landscape")


def corr_registry(ck, rng):
    """histories of add_tomogram (automatic / unused explicit ids) and molecule selections on a real BatchLoader against the
    registry state machine: the id -> tomogram mapping, every molecule's image-id, and the tomogram each molecule is cut from"""
    from acryo import BatchLoader, Molecules
    cases = []
    nops = {}
    for it in range(30 if ck.tier == "quick" else 400):
        b = BatchLoader(order=0, scale=1.0, output_shape=(1, 1, 1))
        terms, py = [], []
        tag = 10
        for _ in range(int(rng.integers(2, 7 if ck.tier == "quick" else 12))):
            k = int(rng.integers(0, 4))
            if k == 3:
                # add a whole batch loader (from_loaders / add_loader): its tomograms are added one by one, in the order in which its
                # molecule table first mentions them, each under a fresh automatic id; tomograms without molecules add nothing
                b2 = BatchLoader(order=0, scale=1.0, output_shape=(1, 1, 1))
                sub = []
                for j_ in range(int(rng.integers(2, 4))):
                    tag += 1
                    n2 = int(rng.integers(0 if j_ == 0 else 1, 3))
                    b2.add_tomogram(np.full((3, 3, 3), float(tag), dtype=np.float32), Molecules(np.ones((n2, 3))), image_id=[5, 2, 9][j_])
                    sub.append(([5, 2, 9][j_], tag, n2))
                if len(b2.molecules):
                    perm = [int(x) for x in rng.permutation(len(b2.molecules))]
                    b2 = b2.replace(molecules=b2.molecules.subset(perm))
                    order_ = list(dict.fromkeys(int(i_) for i_ in b2.molecules.features["image-id"].to_list()))
                    if rng.random() < 0.5:
                        b.add_loader(b2)
                    else:
                        b = BatchLoader.from_loaders([b, b2], order=0, scale=1.0, output_shape=(1, 1, 1)) if False else b.add_loader(b2)
                    bytag = {iid: (tg, n2) for iid, tg, n2 in sub}
                    for iid in order_:
                        terms.append(f"OAdd None {zl(bytag[iid][0])} {natl(bytag[iid][1])}")
                    py.append(["add_loader", [[iid, bytag[iid][0], bytag[iid][1]] for iid in order_]]); nops["add_loader"] = nops.get("add_loader", 0) + 1
                continue
            if k < 2 or len(b.molecules) == 0:
                tag += 1
                n = int(rng.integers(1, 4))
                explicit = None
                if rng.random() < 0.35:
                    explicit = int(rng.integers(0, 8))
                    if explicit in b.images:
                        explicit = None
                tomo = np.full((3, 3, 3), float(tag), dtype=np.float32)
                b.add_tomogram(tomo, Molecules(np.ones((n, 3))), image_id=explicit)
                terms.append(f"OAdd {'None' if explicit is None else '(Some ' + zl(explicit) + ')'} {zl(tag)} {natl(n)}")
                py.append(["add_tomogram", explicit, tag, n]); nops["add"] = nops.get("add", 0) + 1
            else:
                sel = [bool(x) for x in rng.integers(0, 2, size=len(b.molecules))]
                if k == 2 and rng.random() < 0.5 and len(b.images) > 1:
                    # drop every molecule of one tomogram (so that its id becomes free again)
                    victim = list(b.images.keys())[int(rng.integers(0, len(b.images)))]
                    sel = [int(i) != int(victim) for i in b.molecules.features["image-id"].to_list()]
                b = b.replace(molecules=b.molecules.subset(np.array(sel, dtype=bool)))
                terms.append(f"OKeep {lst([bl(x) for x in sel])}")
                py.append(["keep", sel]); nops["keep"] = nops.get("keep", 0) + 1
        kv = sorted((int(k_), int(round(float(np.asarray(v).flat[0])))) for k_, v in b.images.items())
        ids = [int(i) for i in b.molecules.features["image-id"].to_list()] if len(b.molecules) else []
        served = [int(round(float(x))) for x in np.asarray(b.asnumpy()).reshape(len(ids), -1)[:, 0]] if ids else []
        cases.append((f"(check_registry {lst(terms)} {zlist([k_ for k_, _ in kv])} {zlist([v for _, v in kv])} {zlist(ids)} {zlist(served)})",
                      {"history": py, "images": kv, "molecule_ids": ids, "served_by": served}))
    ck.corr_run("batch_registry", ["AcryoGen.Anchors_C03", "Acryo.C03.Registry"], cases, shard=100, observable=True,
                describe=lambda c: {"site": "registry", "ops": [h[0] for h in c["history"]][:6]}, classes=nops)


def oracle_task_arguments(ck, rng):
    """the per-molecule arguments handed to the mapped function (quaternion, position) are those of the molecule whose
    sub-volume is being processed -- recorded by a scripted alignment model, for single and (interleaved) batch loaders"""
    from acryo import SubtomogramLoader, BatchLoader, Molecules
    from props.C06 import make_stub
    from scipy.spatial.transform import Rotation
    Base = make_stub()
    seen = []

    class Recorder(Base):
        def _optimize(self, subvolume, template, max_shifts, quaternion, pos, backend):
            seen.append((int(round(float(np.asarray(subvolume).max()))), np.array(quaternion, dtype=float), np.array(pos, dtype=float)))
            return np.zeros(3, dtype=np.float32), self._DUMMY_QUAT, 1.0

        def _landscape(self, subvolume, template, max_shifts, quaternion, pos, backend):
            seen.append((int(round(float(np.asarray(subvolume).max()))), np.array(quaternion, dtype=float), np.array(pos, dtype=float)))
            return np.zeros((3, 3, 3), dtype=np.float32)

    for it in range(4 if ck.tier == "quick" else 30):
        nm = int(rng.integers(2, 7))
        scale = float(rng.choice([1.0, 0.5, 2.0]))
        kind = ["single", "batch"][it % 2]
        rot = Rotation.random(nm, random_state=int(rng.integers(0, 2**31)))
        # each molecule sits in its own constant block: the loaded value identifies the molecule
        tomo = np.zeros((6, 6, 6 * nm), dtype=np.float32)
        pos = []
        for p in range(nm):
            tomo[:, :, 6 * p:6 * (p + 1)] = p + 1
            pos.append([2.5, 2.5, 6 * p + 2.5])
        pos = np.array(pos) * scale
        if kind == "single":
            ld = SubtomogramLoader(tomo, Molecules(pos, rot), order=0, scale=scale, output_shape=(1, 1, 1))
            order = list(range(nm))
        else:
            ld = BatchLoader(order=0, scale=scale, output_shape=(1, 1, 1))
            half = nm // 2
            ld.add_tomogram(tomo, Molecules(pos[:half], rot[:half], features={"k": list(range(half))}), image_id=1)
            ld.add_tomogram(tomo, Molecules(pos[half:], rot[half:], features={"k": list(range(half, nm))}), image_id=0)
            perm = [int(x) for x in rng.permutation(nm)]
            ld = ld.replace(molecules=ld.molecules.subset(perm))
            order = ld.molecules.features["k"].to_list()
        tmpl = np.ones((1, 1, 1), dtype=np.float32)
        quats = ld.molecules.quaternion()
        for what in ("align", "landscape"):
            seen.clear()
            if what == "align":
                ld.align(tmpl, max_shifts=1.0, alignment_model=Recorder)
            else:
                ld.construct_landscape(tmpl, max_shifts=1.0, alignment_model=Recorder).compute()
            ck.oracle_count("task_arguments_follow_molecule", 1, 1)
            bad = []
            for val, q, pp in seen:
                row = order.index(val - 1) if (val - 1) in order else None
                if row is None or not (np.allclose(q, quats[row], atol=1e-6) or np.allclose(q, -quats[row], atol=1e-6)) \
                        or not np.allclose(pp, ld.molecules.pos[row] / scale, atol=1e-4):
                    bad.append(val - 1)
            if bad or len(seen) != nm:
                ck.violation(what=f"{kind} loader, {what}: the task of molecule(s) {sorted(set(bad))} received another molecule's quaternion/position "
                                  f"({len(seen)} tasks for {nm} molecules)", inp={"kind": kind, "n": nm, "scale": scale, "operation": what},
                             key={"site": "task-arguments", "kind": kind}, oracle="task_arguments_follow_molecule")


def oracle_binning_rows(ck, rng):
    """binning keeps every molecule with the tomogram it was registered with (numpy- and dask-backed tomograms in any order,
    lazy or computed): each tomogram is a constant, so the loaded value names the tomogram"""
    import dask.array as da
    from acryo import BatchLoader, SubtomogramLoader, Molecules
    plans = [["np", "da"], ["da", "np", "da"], ["np", "np", "da"], ["da", "da"], ["np", "da", "np"]]
    for it, backing in enumerate(plans if ck.tier != "quick" else plans[:3]):
        for compute in (True, False):
            b = BatchLoader(order=1, scale=1.0, output_shape=(2, 2, 2))
            ids = [int(x) for x in rng.permutation(7)[:len(backing)]]
            want = {}
            for j, (bk, iid) in enumerate(zip(backing, ids)):
                t = np.full((12, 12, 12), float(10 * (iid + 1)), dtype=np.float32)
                nm = int(rng.integers(1, 4))
                b.add_tomogram(da.from_array(t, chunks=(6, 6, 6)) if bk == "da" else t,
                               Molecules(rng.integers(3, 8, size=(nm, 3)).astype(float) + 0.5), image_id=iid)
                want[iid] = 8.0 * 10 * (iid + 1)
            binsize = 2
            try:
                lb = b.binning(binsize, compute=compute)
                vals = lb.asnumpy().reshape(len(lb.molecules), -1).mean(axis=1)
                iids = lb.molecules.features["image-id"].to_list()
                bad = [i for i, (v, iid) in enumerate(zip(vals, iids)) if abs(v - want[int(iid)]) > 1e-3]
                detail = f"rows {bad} were cut from another tomogram" if bad else ""
            except Exception as e:  # noqa
                bad, detail = [-1], f"raised {type(e).__name__}: {e}"
            ck.oracle_count("binning_keeps_tomogram", 1, 1)
            if bad:
                ck.violation(what=f"BatchLoader.binning({binsize}, compute={compute}) with tomograms backed by {backing}: {detail}",
                             inp={"backing": backing, "image_ids": ids, "compute": compute}, key={"site": "batch.binning", "compute": compute},
                             oracle="binning_keeps_tomogram")


def oracle_surface(ck, rng):
    """the rarely used entry points of the same contract, on tomograms whose voxels name (tomogram, position): load() with an integer
    or a slice, the per-tomogram loaders of a batch (`loaders[id]`, iteration, len), from_loaders, reshape, apply with several
    functions and a schema, and the group-level count/filter/head/tail/sample, average dictionary and melted apply table"""
    import polars as pl
    from acryo import SubtomogramLoader, BatchLoader
    fails = []

    def expect(cond, site, what, inp=None):
        if not cond:
            fails.append((site, what, inp))

    def raises(fn, *exc):
        try:
            fn()
        except exc:
            return True
        except Exception:
            return False
        return False

    nit = 4 if ck.tier == "quick" else 30
    for it in range(nit):
        kind = "batch" if it % 4 != 3 else "single"
        ld, rows, lookup = build(rng, kind)
        value_of = {tg: val for val, tg in lookup.items()}
        dec = lambda arr: [lookup.get(int(round(float(x))), -7) for x in np.asarray(arr).ravel()]
        tags = [r[0] for r in table(ld, kind)]
        n = len(tags)
        info = {"kind": kind, "table": table(ld, kind), "iteration": it}
        try:
            # load(): integer, negative integer, slices
            for i in (0, n - 1, -1):
                expect(dec(ld.load(i)) == [tags[i]], "load-int", f"load({i}) returned molecule {dec(ld.load(i))} instead of {tags[i]}", info)
            for sl in (slice(None), slice(1, None), slice(None, None, 2), slice(1, n, 2), slice(0, 0)):
                want = tags[sl]
                if not want:
                    continue
                got = dec(ld.load(sl))
                expect(got == want, "load-slice", f"load({sl}) returned molecules {got} instead of {want}", info)
            # reshape: only the output shape changes
            r3 = ld.reshape(shape=(3, 3, 3))
            expect(tuple(r3.output_shape) == (3, 3, 3) and tuple(ld.output_shape) == (1, 1, 1), "reshape", "reshape(shape=) did not set the new / keep the old output shape", info)
            expect(table(r3, kind) == table(ld, kind) and np.array_equal(r3.molecules.pos, ld.molecules.pos), "reshape", "reshape changed the molecules", info)
            got = dec(np.asarray(r3.asnumpy())[:, 1, 1, 1])
            expect(got == tags, "reshape", f"sub-volumes of the reshaped loader are centred on molecules {got} instead of {tags}", info)
            t5 = np.zeros((5, 3, 3), np.float32)
            expect(tuple(ld.reshape(template=t5).output_shape) == (5, 3, 3), "reshape", "reshape(template=) does not take the template's shape", info)
            expect(tuple(ld.reshape(mask=t5).output_shape) == (5, 3, 3), "reshape", "reshape(mask=) does not take the mask's shape", info)
            expect(tuple(ld.reshape(template=t5, mask=t5, shape=(5, 3, 3)).output_shape) == (5, 3, 3), "reshape", "consistent template/mask/shape rejected", info)
            expect(raises(lambda: ld.reshape(template=t5, shape=(3, 3, 3)), ValueError), "reshape", "inconsistent template and shape accepted", info)
            expect(raises(lambda: ld.reshape(mask=t5, template=np.zeros((3, 3, 3), np.float32)), ValueError), "reshape", "inconsistent template and mask accepted", info)
            expect(raises(lambda: ld.reshape(), ValueError), "reshape", "reshape() without any shape information accepted", info)
            # apply: several functions, positional or as a list, default / list / dict schema
            want_cols = [tags, tags]
            for label, call in (("more_funcs", lambda: ld.apply(np.max, np.min)),
                                ("list", lambda: ld.apply([np.max, np.min])),
                                ("list-schema", lambda: ld.apply([np.max, np.min], schema=["hi", "lo"])),
                                ("dict-schema", lambda: ld.apply(np.max, np.min, schema={"hi": pl.Float64, "lo": pl.Float32}))):
                tab = call()
                names = ["hi", "lo"] if "schema" in label else [tab.columns[0], tab.columns[1]]
                expect(tab.shape == (n, 2) and list(tab.columns) == names, "apply-schema", f"apply ({label}) returned a {tab.shape} table with columns {tab.columns}", info)
                cols = [dec(tab[c].to_numpy()) for c in tab.columns]
                expect(cols == want_cols, "apply-schema", f"apply ({label}): rows belong to molecules {cols} instead of {tags}", info)
            # as many functions as molecules (square tables), for every size: column j is function j, row i molecule i
            fns = [lambda a: float(a.max()), lambda a: float(a.max()) + 0.25, lambda a: float(a.max()) + 0.5, lambda a: float(a.max()) + 0.75]
            for k_ in (2, 3, 4):
                if k_ > n:
                    continue
                for sub_, nm_ in ((ld.head(k_), "head"), (ld.tail(k_), "tail")):
                    tg_ = sub_.molecules.features["tag"].to_list()
                    tab = sub_.apply(fns[:k_], schema=[f"f{j}" for j in range(k_)])
                    arr = tab.to_numpy()
                    want_ = np.array([[value_of[t] + 0.25 * j for j in range(k_)] for t in tg_])
                    expect(arr.shape == (k_, k_) and np.allclose(arr, want_, atol=1e-3), "apply-square",
                           f"apply with {k_} functions on {k_} molecules ({nm_}): entry [i, j] is not function j of molecule i", info)
            expect(raises(lambda: ld.apply(np.max, np.min, schema=["a", "a"]), ValueError), "apply-schema", "duplicate schema names accepted", info)
            expect(raises(lambda: ld.apply(np.max, np.min, schema=["a"]), ValueError), "apply-schema", "schema shorter than the function list accepted", info)
            expect(raises(lambda: ld.apply(np.max, schema={"a": pl.Float32, "b": pl.Float32}), ValueError), "apply-schema", "dict schema longer than the function list accepted", info)
            # groups: derived groups hold exactly the selected molecules of each group
            g = ld.groupby("v")
            members = {}
            for tg, _, v in table(ld, kind):
                members.setdefault(v, []).append(tg)
            expect({k: c for k, c in g.count().items()} == {k: len(v) for k, v in members.items()}, "group-count", f"group count {g.count()} != {members}", info)
            derived = {
                "filter": (g.filter(pl.col("tag") % 2 == 0), lambda m: [t for t in m if t % 2 == 0]),
                "head": (g.head(2), lambda m: m[:2]),
                "tail": (g.tail(1), lambda m: m[-1:]),
            }
            for name, (gg, sel) in derived.items():
                for key, sub in gg:
                    want = sel(members[key])
                    got_t = sub.molecules.features["tag"].to_list() if sub.count() else []
                    got_v = dec(sub.asnumpy()) if sub.count() else []
                    expect(got_t == want and got_v == want, "group-" + name, f"group {key}: {name} holds molecules {got_t} (loads {got_v}) instead of {want}", info)
            for key, sub in g.sample(1, seed=it):
                got_t = sub.molecules.features["tag"].to_list()
                expect(len(got_t) == 1 and got_t[0] in members[key] and dec(sub.asnumpy()) == got_t, "group-sample", f"group {key}: sample gave {got_t}", info)
            avg = g.average()
            keys = list(members.keys())
            expect(list(avg.keys()) == keys, "group-average", f"average keys {list(avg.keys())} != group keys {keys}", info)
            for key in keys:
                want = float(np.mean([value_of[t] for t in members[key]]))
                expect(abs(float(np.asarray(avg[key]).ravel()[0]) - want) < 1e-2, "group-average", f"group {key}: average is not the mean of its own molecules", info)
            st = avg.value_stack()
            expect(st.shape[0] == len(keys) and all(np.array_equal(st[i], avg[k]) for i, k in enumerate(keys)) and
                   all(np.array_equal(a_, avg[k]) for a_, k in zip(avg.value_list(), keys)), "group-average", "value_stack / value_list are not in key order", info)
            # several different functions through the groups: column j of every group table is function j (of that group's molecules)
            gfns = [lambda a: float(a.max()), lambda a: float(a.max()) + 0.25, lambda a: float(a.max()) + 0.5]
            gtab = g.apply(gfns, schema=["f0", "f1", "f2"])
            for key in keys:
                want_ = np.array([[value_of[t] + 0.25 * j for j in range(3)] for t in members[key]])
                arr_ = gtab[key].to_numpy()
                expect(arr_.shape == want_.shape and np.allclose(arr_, want_, atol=1e-3), "group-apply-functions",
                       f"group {key}: entry [i, j] of the group apply table is not function j of molecule i (got {arr_.tolist()}, want {want_.tolist()})", info)
            ga = g.apply(np.max)
            melt = ga.value_melt()
            got = list(zip(melt["group"].to_list(), dec(melt[melt.columns[0]].to_numpy())))
            want = [(str(k), t) for k in keys for t in members[k]]
            expect(got == want, "group-melt", f"melted apply table {got} != {want}", info)
            expect([dec(df[df.columns[0]].to_numpy()) for df in ga.value_list()] == [members[k] for k in keys], "group-melt", "value_list of the apply tables is not in key order", info)
            if kind == "batch":
                # (the accessor is asked on the batch as built and on a copy whose molecule table has been permuted)
                for ld_acc in (ld, ld.replace(molecules=ld.molecules.subset([int(x) for x in rng.permutation(n)]))):
                    ids_ = [r[1] for r in table(ld_acc, kind)]
                    tags_ = [r[0] for r in table(ld_acc, kind)]
                    for iid in dict.fromkeys(ids_):
                        sub = ld_acc.loaders[iid]
                        want = [t for t, i_ in zip(tags_, ids_) if i_ == iid]
                        expect(sub.molecules.features["tag"].to_list() == want and dec(sub.asnumpy()) == want and sub.image is ld_acc.images[iid],
                               "loaders-accessor", f"loaders[{iid}] of a batch with image ids {ids_}: holds {sub.molecules.features['tag'].to_list()}, "
                               f"loads {dec(sub.asnumpy())}; that tomogram's molecules are {want}", info)
                ids = [r[1] for r in table(ld, kind)]
                first = list(dict.fromkeys(ids))
                acc = ld.loaders
                expect(len(acc) == len(ld.images), "loaders-accessor", f"len(loaders) = {len(acc)} for {len(ld.images)} tomograms", info)
                for iid in first:
                    sub = acc[iid]
                    want = [t for t, i_ in zip(tags, ids) if i_ == iid]
                    expect(isinstance(sub, SubtomogramLoader) and sub.molecules.features["tag"].to_list() == want and dec(sub.asnumpy()) == want,
                           "loaders-accessor", f"loaders[{iid}] holds {sub.molecules.features['tag'].to_list()}, loads {dec(sub.asnumpy())}; its molecules are {want}", info)
                    expect(sub.order == ld.order and sub.scale == ld.scale and tuple(sub.output_shape) == tuple(ld.output_shape) and sub.corner_safe == ld.corner_safe,
                           "loaders-accessor", "loaders[id] does not inherit order/scale/output_shape/corner_safe", info)
                missing = [i_ for i_ in range(12) if i_ not in ids]
                expect(raises(lambda: acc[missing[0]], KeyError), "loaders-accessor", "loaders[id] of an unknown id did not raise KeyError", info)
                its = list(acc)
                expect([x.molecules.features["tag"].to_list() for x in its] == [[t for t, i_ in zip(tags, ids) if i_ == iid] for iid in first],
                       "loaders-accessor", "iterating loaders does not give each tomogram's molecules in first-appearance order", info)
                fl = BatchLoader.from_loaders(its, order=0, scale=1.0, output_shape=(1, 1, 1))
                ft = fl.molecules.features["tag"].to_list()
                expect(sorted(ft) == sorted(tags) and dec(fl.asnumpy()) == ft and fl.order == 0 and tuple(fl.output_shape) == (1, 1, 1),
                       "from-loaders", f"from_loaders: molecules {ft} load as {dec(fl.asnumpy())}", info)
                fl2 = BatchLoader.from_loaders([fl, its[0]], order=0, scale=1.0, output_shape=(1, 1, 1))
                ft2 = fl2.molecules.features["tag"].to_list()
                expect(len(ft2) == n + its[0].count() and dec(fl2.asnumpy()) == ft2, "from-loaders", f"from_loaders([batch, single]): molecules {ft2} load as {dec(fl2.asnumpy())}", info)
            if kind == "batch":
                # a tomogram registered without molecules before the others
                from acryo import Molecules
                b2 = BatchLoader(order=0, scale=1.0, output_shape=(1, 1, 1))
                b2.add_tomogram(np.full((3, 3, 3), 7.0, np.float32), Molecules(np.zeros((0, 3))), image_id=4)
                for k_, (iid_, val_) in enumerate(((9, 21.0), (2, 33.0))):
                    b2.add_tomogram(np.full((3, 3, 3), val_, np.float32), Molecules(np.ones((k_ + 1, 3)), features={"w": [val_] * (k_ + 1)}), image_id=iid_)
                for iid_, val_ in ((9, 21.0), (2, 33.0)):
                    sub = b2.loaders[iid_]
                    expect(sub.molecules.features["w"].to_list() == [val_] * len(sub.molecules) and float(np.asarray(sub.asnumpy()).ravel()[0]) == val_
                           and float(np.asarray(sub.image).ravel()[0]) == val_, "loaders-accessor",
                           f"batch with an empty tomogram registered first: loaders[{iid_}] is another tomogram's loader", info)
                expect(raises(lambda: b2.loaders[4], KeyError), "loaders-accessor", "loaders[id] of a tomogram without molecules did not raise KeyError", info)
            # nothing above modified the loader
            expect([r[0] for r in table(ld, kind)] == tags and dec(ld.asnumpy()) == tags, "purity", "the original loader changed", info)
        except Exception as e:  # noqa
            import traceback
            fails.append(("raised", f"{type(e).__name__}: {e} at {traceback.format_exc().strip().splitlines()[-3].strip()}", info))
    ck.oracle_count("loader_surface", nit, nit)
    seen = set()
    for site, what, inp in fails:
        if site in seen:
            continue
        seen.add(site)
        ck.violation(what=what, inp=inp, key={"site": "surface-" + site}, oracle="loader_surface")


def oracle_mock_derived(ck, rng):
    """loaders derived from a MockLoader (replace / head / tail / filter / groups) simulate with the same template, tilt angles and tilt
    axis: without noise, the kept molecules' sub-volumes are those of the original loader"""
    import polars as pl
    from acryo import MockLoader, Molecules
    from scipy.spatial.transform import Rotation
    t = np.zeros((9, 9, 9), np.float32); t[3:6, 2:7, 4:6] = 1; t[5, 5, 2:7] = 2
    for it in range(2 if ck.tier == "quick" else 8):
        n = int(rng.integers(3, 6))
        mol = Molecules(rng.normal(size=(n, 3)) * 0.4, Rotation.random(n, random_state=int(rng.integers(0, 2**31))), features={"k": list(range(n))})
        axis = [(1.0, 0.0, 0.0), (0.0, 1.0, 0.0), (0.6, 0.8, 0.0)][it % 3]
        order = [1, 3][it % 2]
        ld = MockLoader(t, mol, degrees=np.linspace(-60, 60, 7), central_axis=axis, order=order, scale=[1.0, 0.5][it % 2])
        base = np.asarray(ld.asnumpy())
        info = {"central_axis": list(axis), "order": order, "n": n}
        bad = []
        try:
            for name, der, rows in (("replace()", ld.replace(), list(range(n))), ("head(2)", ld.head(2), [0, 1]), ("tail(2)", ld.tail(2), [n - 2, n - 1]),
                                    ("filter(k != 1)", ld.filter(pl.col("k") != 1), [r_ for r_ in range(n) if r_ != 1]),
                                    ("replace(order)", ld.replace(order=order), list(range(n)))):
                got = np.asarray(der.asnumpy())
                if der.order != ld.order or der.scale != ld.scale or got.shape != (len(rows), 9, 9, 9) or not np.allclose(got, base[rows], atol=1e-5):
                    bad.append(f"{name}: sub-volumes differ from the original loader's by up to "
                               f"{float(np.abs(got - base[rows]).max()) if got.shape == (len(rows), 9, 9, 9) else 'shape ' + str(got.shape)}")
        except Exception as e:  # noqa
            bad.append(f"raised {type(e).__name__}: {e}")
        ck.oracle_count("mock_derived_loaders", 1, 1)
        if bad:
            ck.violation(what="loader derived from a MockLoader: " + "; ".join(bad[:3]), inp=info, key={"site": "mock-derived", "op": bad[0].split(":")[0]}, oracle="mock_derived_loaders")


def run(ck: common.Check):
    ck.design_ref = "DESIGN.md §6 C03"
    ck.trusted_base = TB
    ck.partial = ["polars sort/sample internals are kernels: their outputs are validated as (sorted) permutations / sub-multisets, not predicted",
                  "align/score/landscape row alignment on real correlation data is oracle-level; the row plumbing itself is in the model"]
    a = Anchors(common.REPO)
    anchors(a)
    ck.write_anchors(PID, a)
    ck.build(["C03"], ["C03/Property.v", "C03/PropertyRegistry.v", "C03/PropertyApply.v"], extra=["C03/Registry.v", "C03/ApplyTable.v"])
    rng = np.random.default_rng(ck.seed + 303)
    corr_histories(ck, rng)
    oracle_results(ck, rng)
    oracle_task_arguments(ck, rng)
    corr_registry(ck, np.random.default_rng(ck.seed + 30303))
    oracle_binning_rows(ck, rng)
    oracle_surface(ck, np.random.default_rng(ck.seed + 3031))
    oracle_mock_derived(ck, np.random.default_rng(ck.seed + 3032))


def replay(data):
    print(json.dumps(data.get("input"), indent=1)[:4000])
    return 0


TB = [
    "Coq 8.16.1 kernel + coqc; vm_compute for Examples and correspondence",
    "axioms: none expected (lists, Z, Permutation); see coverage.assumptions_printed",
    "structural anchors (translate.py facts): BatchLoader.construct_loading_tasks scatter, LoaderAccessor grouping, iter_mapping_tasks zip, "
    "_post_align enumeration, derived-loader one-liners, group_by(maintain_order=True), LoaderGroupByIterator index column",
    "assumed kernel laws: polars filter/head/tail keep order, group_by(maintain_order) iterates in first-appearance order, "
    "dask compute returns results in task-list order",
]
