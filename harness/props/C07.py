"""C07 — correlation scores mean what they say."""
from __future__ import annotations
import ast
import json
import numpy as np

import common
from common import zl, ql, bl, lst, zlist, qlist, frac, natl
from translate import Anchors, Untranslatable
from props.C11 import norm

PID = "C07"
ZN = "acryo/backend/_zncc.py"
AB = "acryo/alignment/_base.py"
AC = "acryo/alignment/_concrete.py"


def anchors(a: Anchors):
    a.fact("ncc_is_uncentred", ZN, "ncc", "sum(a*b) / sqrt(sum(a^2) sum(b^2))",
           lambda fn: "returnbackend.sum(img0*img1)/backend.sqrt(backend.sum(img0**2)*backend.sum(img1**2))" in norm(ast.unparse(fn)))
    a.fact("zncc_centres_both", ZN, "zncc", "ncc(a - mean a, b - mean b)",
           lambda fn: "returnncc(img0-img0.mean(),img1-img1.mean(),backend=backend)" in norm(ast.unparse(fn)))
    a.fact("score_masks_both", AB, "BaseAlignmentModel.score", "pre_transform(img * mask) vs cached pre_transform(template * mask)",
           lambda fn: "self.pre_transform(xp.asarray(img)*_mask,xp)" in norm(ast.unparse(fn)))
    a.fact("response_formula", ZN, "ncc_landscape_no_pad", "(corr - ws1*tmean) / sqrt((ws2 - ws1^2/V) * tssd)",
           lambda fn: all(t in norm(ast.unparse(fn)) for t in ["var=(win_sum2-win_sum1**2/template_volume)*template_ssd",
                                                               "(corr-win_sum1*template_mean)[mask]/_safe_sqrt(var,fill=np.inf,backend=backend)[mask]",
                                                               "template_ssd=backend.sum((img1-template_mean)**2)"]))
    a.fact("zncc_landscape_centres_inputs", ZN, "zncc_landscape_with_crop", "ncc_landscape(img0 - mean, img1 - mean, ...)",
           lambda fn: "ncc_landscape(img0-img0.mean(),img1-img1.mean(),max_shifts,backend=backend)" in norm(ast.unparse(fn)))
    a.fact("fsc_score_is_landscape_centre", "acryo/backend/_fsc.py", "fsc", "fsc_landscape(..., (0,0,0))[0,0,0]",
           lambda fn: "out=fsc_landscape(ft0,ft1,(0,0,0),backend=backend)" in norm(ast.unparse(fn)) and "returnout[0,0,0]" in norm(ast.unparse(fn)))


def gen_pair(rng):
    shape = tuple(int(x) for x in rng.integers(3, 7, size=3))
    a = rng.integers(-9, 10, size=shape)
    b = rng.integers(-9, 10, size=shape)
    if rng.random() < 0.3:
        b = a + rng.integers(-1, 2, size=shape)
    mk = int(rng.integers(0, 3))
    if mk == 0:
        m4 = np.full(shape, 4)
    elif mk == 1:
        m4 = 4 * rng.integers(0, 2, size=shape)
        m4.flat[:3] = 4
    else:
        m4 = rng.choice([0, 1, 2, 4], size=shape)
        m4.flat[:3] = 4
    return shape, a, b, m4, ["none", "binary", "soft"][mk]


def corr_scores(ck, rng):
    from acryo.alignment import ZNCCAlignment, NCCAlignment
    from acryo.backend import Backend
    from acryo.backend._zncc import zncc, ncc, zncc_landscape_with_crop
    xp = Backend()
    cases = []
    n = 40 if ck.tier == "quick" else 600
    q0 = np.array([0, 0, 0, 1.0]); p0 = np.zeros(3)
    for i in range(n):
        shape, a, b, m4, mkind = gen_pair(rng)
        af, bf, mf = a.astype(np.float32), b.astype(np.float32), (m4 / 4.0).astype(np.float32)
        mask = None if mkind == "none" else mf
        al, bl_, ml = zlist(a.ravel().tolist()), zlist(b.ravel().tolist()), zlist(m4.ravel().tolist())
        zm = ZNCCAlignment(bf, mask)
        nm_ = NCCAlignment(bf, mask)
        py = {"shape": shape, "mask": mkind}
        s1 = float(zm.score(af, q0, p0))
        cases.append((f"(check_zncc {al} {bl_} {ml} {ql(frac(s1))})", dict(py, path="ZNCCAlignment.score", score=s1)))
        s2 = float(nm_.score(af, q0, p0))
        cases.append((f"(check_ncc {al} {bl_} {ml} {ql(frac(s2))})", dict(py, path="NCCAlignment.score", score=s2)))
        # backend-level functions on the masked images
        s3 = float(zncc(xp.asarray(af * mf), xp.asarray(bf * mf), xp))
        cases.append((f"(check_zncc {al} {bl_} {ml} {ql(frac(s3))})", dict(py, path="backend.zncc", score=s3)))
        s4 = float(ncc(xp.asarray(af * mf), xp.asarray(bf * mf), xp))
        cases.append((f"(check_ncc {al} {bl_} {ml} {ql(frac(s4))})", dict(py, path="backend.ncc", score=s4)))
        # centre of the landscape and zero-range alignment
        lnd = np.asarray(zm.landscape(af, (1, 1, 1), q0, p0))
        s5 = float(lnd[1, 1, 1])
        cases.append((f"(check_zncc {al} {bl_} {ml} {ql(frac(s5))})", dict(py, path="ZNCC landscape centre", score=s5)))
        s6 = float(zm.align(af, (0, 0, 0), q0, p0).score)
        cases.append((f"(check_zncc {al} {bl_} {ml} {ql(frac(s6))})", dict(py, path="ZNCC align((0,0,0)).score", score=s6)))
    ck.corr_run("scores_vs_exact_correlation", ["AcryoGen.Anchors_C07", "Acryo.C07.Model"], cases, shard=120, observable=True,
                describe=lambda c: {"site": c["path"], "mask": c["mask"]})


def oracle_props(ck, rng):
    from acryo.alignment import ZNCCAlignment, NCCAlignment, PCCAlignment, FSCAlignment
    from acryo.backend import Backend
    from acryo.tilt import single_axis
    from scipy.spatial.transform import Rotation
    from scipy import ndimage as ndi
    xp = Backend()
    n = 16 if ck.tier == "quick" else 200
    for i in range(n):
        shape = tuple(int(x) for x in rng.integers(6, 12, size=3))
        t = ndi.gaussian_filter(rng.normal(size=shape), 1.0).astype(np.float32)
        x = (t + 0.5 * ndi.gaussian_filter(rng.normal(size=shape), 1.0)).astype(np.float32)
        cutoff = None if i % 3 == 0 else float(rng.uniform(0.2, 0.6))
        tilt = None if i % 2 == 0 else (-60.0, 55.0)
        maskk = i % 3
        mask = None if maskk == 0 else (ndi.gaussian_filter((rng.random(shape) > 0.3).astype(np.float32), 1.0) if maskk == 2 else (rng.random(shape) > 0.3).astype(np.float32))
        rot = Rotation.random(random_state=int(rng.integers(0, 2**31)))
        q, p = rot.as_quat(), np.zeros(3)
        kw = {}
        if cutoff: kw["cutoff"] = cutoff
        if tilt: kw["tilt"] = tilt
        c = dict(shape=shape, cutoff=cutoff, tilt=tilt, mask=["none", "binary", "soft"][maskk])
        fails = []
        zm = ZNCCAlignment(t, mask, **kw)
        s = float(zm.score(x, q, p))
        if not (-1 - 1e-4 <= s <= 1 + 1e-4): fails.append(f"zncc range {s}")
        ss = float(zm.score(t, q, p))
        if abs(ss - 1) > 1e-3: fails.append(f"zncc self {ss}")
        g = float(rng.uniform(0.2, 5))
        if abs(float(zm.score(g * x, q, p)) - s) > 1e-4: fails.append("zncc gain")
        if mask is None and abs(float(zm.score(x + 3.0, q, p)) - s) > 1e-4: fails.append("zncc offset")
        # independent reference: mask -> low-pass -> wedge, then Pearson
        def prep(im):
            mm = 1.0 if mask is None else mask
            F = np.fft.fftn(im.astype(np.float64) * mm)
            if cutoff and 0 < cutoff < 0.5 * np.sqrt(3):
                f = np.sqrt(sum(gg ** 2 for gg in np.meshgrid(*[np.fft.fftfreq(n_) for n_ in shape], indexing="ij")))
                F = F / (1 + (f / cutoff) ** 4)
            if tilt:
                F = F * np.asarray(single_axis(tilt).create_mask(rot, shape))
            return np.fft.ifftn(F).real
        A, B = prep(x), prep(t)
        ref = np.corrcoef(A.ravel(), B.ravel())[0, 1]
        if abs(ref - s) > 2e-3: fails.append(f"zncc vs Pearson of pre-processed images: {s} vs {ref}")
        nm_ = NCCAlignment(t, mask, **kw)
        sn = float(nm_.score(x, q, p))
        refn = float((A * B).sum() / np.sqrt((A * A).sum() * (B * B).sum()))
        if abs(refn - sn) > 2e-3: fails.append(f"ncc vs uncentred correlation: {sn} vs {refn}")
        # score = landscape centre = zero-range score for ZNCC and FSC
        for M in (ZNCCAlignment, FSCAlignment):
            mm = M(t, mask, **kw)
            s0 = float(mm.score(x, q, p))
            l0 = np.asarray(mm.landscape(x, (1, 1, 1), q, p))
            a0 = float(mm.align(x, (0, 0, 0), q, p).score)
            if abs(l0[1, 1, 1] - s0) > 2e-3 or abs(a0 - s0) > 2e-3:
                fails.append(f"{M.__name__}: score {s0:.4f}, landscape centre {l0[1,1,1]:.4f}, zero-range align {a0:.4f}")
        # the same agreement, and the score itself, for the sub-volume in other units (densities of order 1e-6 or 1e4): ZNCC and NCC scores,
        # landscapes and alignment scores are unchanged by positive rescaling
        for gain_ in (1e-6, 1e4, 1e-3):
            xg = (x * np.float32(gain_)).astype(np.float32)
            for M in (ZNCCAlignment, NCCAlignment):
                mm = M(t, mask, **kw)
                s1 = float(mm.score(x, q, p)); sg = float(mm.score(xg, q, p))
                lg = float(np.asarray(mm.landscape(xg, (1, 1, 1), q, p))[1, 1, 1]); ag = float(mm.align(xg, (0, 0, 0), q, p).score)
                if M is NCCAlignment:
                    # (score = landscape centre = zero-range score is stated for ZNCC and FSC; for NCC the landscape and the alignment score are
                    #  compared with themselves at the original amplitude)
                    l1 = float(np.asarray(mm.landscape(x, (1, 1, 1), q, p))[1, 1, 1]); a1 = float(mm.align(x, (0, 0, 0), q, p).score)
                    if abs(sg - s1) > 2e-3 or abs(lg - l1) > 2e-3 or abs(ag - a1) > 2e-3:
                        fails.append(f"NCCAlignment gain {gain_:g}: score {s1:.4f} -> {sg:.4f}, landscape centre {l1:.4f} -> {lg:.4f}, zero-range align {a1:.4f} -> {ag:.4f}")
                    continue
                if abs(sg - s1) > 2e-3 or abs(lg - s1) > 2e-3 or abs(ag - s1) > 2e-3:
                    fails.append(f"{M.__name__} gain {gain_:g}: score {s1:.4f} -> {sg:.4f}, landscape centre {lg:.4f}, zero-range align {ag:.4f}")
        # landscape maximum lies at the reported displacement (all models)
        d = rng.integers(-2, 3, size=3)
        xs = np.roll(t, tuple(d), axis=(0, 1, 2))
        for M in (ZNCCAlignment, NCCAlignment, PCCAlignment, FSCAlignment):
            mm = M(t, **({} if M is FSCAlignment else {}))
            ms = (2.0, 2.0, 2.0)
            l = np.asarray(mm.landscape(xs, ms))
            am = np.array(np.unravel_index(np.argmax(l), l.shape)) - (np.array(l.shape) // 2)
            r = mm.align(xs, ms)
            if np.abs(np.round(r.shift) - am).max() > 0 and np.abs(r.shift - am).max() > 0.55:
                fails.append(f"{M.__name__}: landscape max at {am.tolist()} but align reports {np.round(r.shift, 2).tolist()}")
        # ZNCC without a mask: the whole landscape (not only its centre) is unchanged by adding a constant to the sub-volume,
        # and its maximum still lies at the displacement alignment reports
        zl_ = ZNCCAlignment(t)
        off = float(rng.choice([0.5, 3.0])) * float(t.std()) * 5
        l_a = np.asarray(zl_.landscape(xs, (2.0, 2.0, 2.0)))
        l_b = np.asarray(zl_.landscape(xs + np.float32(off), (2.0, 2.0, 2.0)))
        if np.abs(l_a - l_b).max() > 2e-3:
            fails.append(f"zncc landscape-offset: adding {off:.3f} changes the landscape by up to {np.abs(l_a - l_b).max():.3f}")
        am_b = np.array(np.unravel_index(np.argmax(l_b), l_b.shape)) - (np.array(l_b.shape) // 2)
        r_b = zl_.align(xs + np.float32(off), (2.0, 2.0, 2.0))
        if np.abs(np.round(r_b.shift) - am_b).max() > 0 and np.abs(r_b.shift - am_b).max() > 0.55:
            fails.append(f"zncc landscape-offset-argmax: landscape max at {am_b.tolist()} but align reports {np.round(r_b.shift, 2).tolist()}")
        # NCC on a bright background (its landscape pads with the sub-volume mean): the maximum lies where alignment reports it
        bg = float(rng.choice([2.0, 10.0])) * float(np.abs(t).max())
        nl_ = NCCAlignment(t + np.float32(bg))
        xb = xs + np.float32(bg)
        l_n = np.asarray(nl_.landscape(xb, (2.0, 2.0, 2.0)))
        am_n = np.array(np.unravel_index(np.argmax(l_n), l_n.shape)) - (np.array(l_n.shape) // 2)
        r_n = nl_.align(xb, (2.0, 2.0, 2.0))
        if np.abs(np.round(r_n.shift) - am_n).max() > 0 and np.abs(r_n.shift - am_n).max() > 0.55:
            fails.append(f"ncc landscape-background: landscape max at {am_n.tolist()} but align reports {np.round(r_n.shift, 2).tolist()} (background {bg:.2f})")
        # one model object scoring several orientations in turn (with a wedge): every score is that of a fresh model, and the
        # template still scores 1 against itself afterwards
        if tilt:
            zt = ZNCCAlignment(t, mask, **kw)
            qs = Rotation.random(4, random_state=int(rng.integers(0, 2**31))).as_quat()
            _ = zt.align(x, (1.0, 1.0, 1.0), qs[1], p)        # alignment calls in between must not leave traces either
            seq = []
            for j_, q_ in enumerate(qs):
                seq.append(float(zt.score(x, q_, p)))
                _ = zt.align(x, (1.0, 1.0, 1.0), qs[(j_ + 2) % 4], p); _ = zt.landscape(x, (1.0, 1.0, 1.0), qs[(j_ + 1) % 4], p)
            fresh = [float(ZNCCAlignment(t, mask, **kw).score(x, q_, p)) for q_ in qs]
            self_after = float(zt.score(t, qs[0], p))
            if np.abs(np.array(seq) - np.array(fresh)).max() > 1e-4 or abs(self_after - 1) > 1e-3:
                fails.append(f"zncc call-history: scores {np.round(seq, 4).tolist()} on one model vs {np.round(fresh, 4).tolist()} on fresh models; "
                             f"template against itself afterwards {self_after:.4f}")
            nt = NCCAlignment(t, mask, **kw)
            seqn = [float(nt.score(x, q_, p)) for q_ in qs]
            freshn = [float(NCCAlignment(t, mask, **kw).score(x, q_, p)) for q_ in qs]
            if np.abs(np.array(seqn) - np.array(freshn)).max() > 1e-4:
                fails.append("ncc call-history: scores on one model differ from fresh models")
        # up-sampled landscapes cover the same range as alignment searches (fractional limits included): the maximum of the landscape
        # sampled every 1/k pixel lies at the displacement alignment reports
        up = int(rng.choice([2, 4, 5]))
        mfr = float(rng.choice([2.8, 1.6, 2.5]))
        tt = ndi.gaussian_filter(rng.normal(size=(12, 12, 12)), 1.2).astype(np.float32)
        dd = np.array([float(np.floor(mfr * up) / up) * float(rng.choice([-1, 1])), 0.0, float(rng.integers(-1, 2))])
        F_ = np.fft.fftn(tt.astype(np.float64))
        ph_ = 1.0
        for ax_ in range(3):
            shp_ = [1, 1, 1]; shp_[ax_] = 12
            ph_ = ph_ * np.exp(-2j * np.pi * np.fft.fftfreq(12) * dd[ax_]).reshape(shp_)
        xu = np.fft.ifftn(F_ * ph_).real.astype(np.float32)
        for Mu in (ZNCCAlignment, NCCAlignment, PCCAlignment):
            mu = Mu(tt)
            lu = np.asarray(mu.landscape(xu, (mfr, mfr, mfr), upsample=up))
            amu = (np.array(np.unravel_index(np.argmax(lu), lu.shape)) - (np.array(lu.shape) // 2)) / up
            ru = mu.align(xu, (mfr, mfr, mfr))
            if np.abs(amu - ru.shift).max() > 0.5 / up + 0.15:
                fails.append(f"{Mu.__name__} upsampled-landscape: maximum of the x{up} landscape at {amu.tolist()} but align reports {np.round(ru.shift, 2).tolist()} "
                             f"(max_shifts {mfr}, landscape length {lu.shape[0]})")
        ck.oracle_count("score_semantics", 1, 1)
        for f in fails:
            ck.violation(what=f, inp=c, key={"site": "semantics", "law": f.split(":")[0].split(" ")[0] + " " + (f.split(" ")[1] if " " in f else "")},
                         oracle="score_semantics", measured=f)


def oracle_landscape_candidates(ck, rng):
    """multi-candidate landscapes: candidate i's landscape is computed from the sub-volume under candidate i's own mask, exactly as
    alignment does (scripted model from the C06 harness: identity pre-transform, landscape value = candidate index)"""
    from props.C06 import make_stub, rot_set
    Stub = make_stub()
    for T, K in ((1, 3), (2, 2), (3, 1), (2, 4)):
        tmpls = [rng.normal(size=(3, 3, 3)).astype(np.float32) for _ in range(T)]
        mask = np.zeros((3, 3, 3), dtype=np.float32)
        mask[1, 1, 1] = mask[0, 1, 1] = mask[0, 0, 1] = mask[0, 0, 2] = 1.0
        rots = rot_set(K, rng) if K > 1 else None
        Stub.script = {0: [0.0] * (T * K)}
        model = Stub(tmpls if T > 1 else tmpls[0], mask, rotations=rots)
        Stub.pairing_errors.clear()
        lnd = np.asarray(model.landscape(np.ones((3, 3, 3), dtype=np.float32), (1, 1, 1)))
        ck.oracle_count("landscape_candidate_uses_own_mask", 1, 1)
        order_ok = lnd.shape[0] == T * K and all(abs(float(lnd[i, 1, 1, 1]) - i) < 1e-6 for i in range(T * K))
        if Stub.pairing_errors or not order_ok:
            ck.violation(what=f"model.landscape with {T} template(s) x {K} rotation(s): candidates {sorted(set(i_ for _, i_ in Stub.pairing_errors))} computed on a "
                              f"sub-volume masked with another candidate's mask" + ("" if order_ok else "; candidate order of the stacked landscape is wrong"),
                         inp={"T": T, "K": K}, key={"site": "landscape-multiple", "symptom": "mask-pairing" if Stub.pairing_errors else "order"},
                         oracle="landscape_candidate_uses_own_mask")

    # real models: the maximum of an up-sampled multi-candidate landscape (several rotations / several templates) names the candidate and
    # the displacement that alignment reports
    from acryo.alignment import ZNCCAlignment, PCCAlignment, NCCAlignment
    from scipy import ndimage as ndi
    for it in range(2 if ck.tier == "quick" else 8):
        up = int(rng.choice([2, 4]))
        mfr = float(rng.choice([2.0, 2.5]))
        tt = ndi.gaussian_filter(rng.normal(size=(12, 12, 12)), 1.2).astype(np.float32)
        decoy = ndi.gaussian_filter(rng.normal(size=(12, 12, 12)), 1.2).astype(np.float32)
        dd = np.array([float(rng.integers(-2, 3)), float(rng.integers(-1, 2)), float(np.floor(mfr * up) / up) * float(rng.choice([-1, 1]))])
        F_ = np.fft.fftn(tt.astype(np.float64))
        ph_ = 1.0
        for ax_ in range(3):
            shp_ = [1, 1, 1]; shp_[ax_] = 12
            ph_ = ph_ * np.exp(-2j * np.pi * np.fft.fftfreq(12) * dd[ax_]).reshape(shp_)
        xu = np.fft.ifftn(F_ * ph_).real.astype(np.float32)
        for Mu in (ZNCCAlignment, NCCAlignment, PCCAlignment):
            for label, mu in (("3 rotations", Mu(tt, rotations=((20, 20), (0, 0), (0, 0)))), ("2 templates", Mu([decoy, tt])),
                              ("2 templates x 3 rotations", Mu([decoy, tt], rotations=((0, 0), (0, 0), (20, 20))))):
                ck.oracle_count("upsampled_multi_landscape", 1, 1)
                try:
                    lu = np.asarray(mu.landscape(xu, (mfr, mfr, mfr), upsample=up))
                    ru = mu.align(xu, (mfr, mfr, mfr))
                    ncand = mu.quaternions.shape[0] * (2 if "templates" in label else 1)
                    idx = np.unravel_index(np.argmax(lu), lu.shape)
                    amu = (np.array(idx[1:]) - (np.array(lu.shape[1:]) // 2)) / up
                    nt = 2 if "templates" in label else 1
                    want_q = mu.quaternions[idx[0] // nt]
                    bad = []
                    if lu.ndim != 4 or lu.shape[0] != ncand:
                        bad.append(f"landscape shape {lu.shape} for {ncand} candidates")
                    elif np.abs(amu - ru.shift).max() > 0.5 / up + 0.15:
                        bad.append(f"maximum of the x{up} landscape at {amu.tolist()} but align reports {np.round(ru.shift, 2).tolist()}")
                    elif not (np.allclose(want_q, ru.quat, atol=1e-6) or np.allclose(want_q, -np.asarray(ru.quat), atol=1e-6)) or int(idx[0]) != int(ru.label):
                        bad.append(f"maximum lies in candidate {idx[0]} but align reports label {ru.label}, rotation {np.round(ru.quat, 3).tolist()}")
                    elif np.abs(ru.shift - dd).max() > 0.3:
                        bad.append(f"align reports {np.round(ru.shift, 2).tolist()} for a copy displaced by {dd.tolist()}")
                except Exception as e:  # noqa
                    bad = [f"raised {type(e).__name__}: {e}"]
                for b_ in bad:
                    ck.violation(what=f"{Mu.__name__} with {label}, upsample={up}, max_shifts={mfr}: {b_}", inp={"model": Mu.__name__, "candidates": label, "upsample": up,
                                 "max_shifts": mfr, "displacement": dd.tolist(), "seed": ck.seed, "iteration": it},
                                 key={"site": "landscape-multiple-upsampled", "model": Mu.__name__}, oracle="upsampled_multi_landscape")

    # several templates under a common soft mask, no rotation search: a sub-volume identical to template k is reported as template k with score 1
    # (ZNCC / NCC), and the candidate scores are those of one-template models with the same mask
    for it in range(2 if ck.tier == "quick" else 8):
        shape = (10, 11, 12)
        tl = [ndi.gaussian_filter(rng.normal(size=shape), 1.0).astype(np.float32) for _ in range(3)]
        msk = np.clip(ndi.gaussian_filter((rng.random(shape) > 0.45).astype(np.float32), 1.2) * 1.3, 0.0, 1.0).astype(np.float32)
        for Mu in (ZNCCAlignment, NCCAlignment):
            multi = Mu(tl, msk)
            for k_ in range(3):
                ck.oracle_count("masked_multi_template", 1, 1)
                try:
                    res = multi.align(tl[k_], (1.0, 1.0, 1.0))
                    lnd = np.asarray(multi.landscape(tl[k_], (1, 1, 1)))
                    singles = [float(Mu(t_, msk).align(tl[k_], (0.0, 0.0, 0.0)).score) for t_ in tl]
                    centres = [float(lnd[j_, 1, 1, 1]) for j_ in range(3)]
                    bad = None
                    if int(res.label) != k_ or abs(float(res.score) - 1) > 2e-3 or np.abs(res.shift).max() > 0.06:
                        bad = f"a sub-volume identical to template {k_} is reported as template {int(res.label)} with score {float(res.score):.4f}, shift {np.round(res.shift, 2).tolist()}"
                    elif np.abs(np.array(centres) - np.array(singles)).max() > 2e-3:
                        bad = f"landscape centres per template {np.round(centres, 4).tolist()} differ from the one-template models' scores {np.round(singles, 4).tolist()}"
                except Exception as e:  # noqa
                    bad = f"raised {type(e).__name__}: {e}"
                if bad:
                    ck.violation(what=f"{Mu.__name__} with three templates and a soft mask: {bad}", inp={"model": Mu.__name__, "k": k_, "seed": ck.seed, "iteration": it},
                                 key={"site": "masked-multi-template", "model": Mu.__name__}, oracle="masked_multi_template")


def oracle_raw_counts(ck, rng):
    """single-precision sub-volumes on a grey level far above their contrast (raw detector counts: mean 1000-3000, deviation 1-4): the offset
    clause of the property for the landscape and alignment entry points - landscape centre = zero-range alignment score = score = Pearson
    (double precision reference), landscape within [-1, 1], arg-max at the displacement align reports"""
    from scipy import ndimage as ndi
    from acryo.alignment import ZNCCAlignment
    n = 2 if ck.tier == "quick" else 12
    for it in range(n):
        shape = tuple(int(x) for x in rng.integers(16, 24, size=3))
        temp = ndi.gaussian_filter(rng.normal(size=shape), 1.5)
        temp = (temp / temp.std()).astype(np.float32)
        sh = tuple(int(x) for x in rng.integers(-2, 3, size=3))
        base = (ndi.shift(temp, sh, order=1, mode="wrap") + 0.3 * rng.normal(size=shape)).astype(np.float32)
        model = ZNCCAlignment(temp)
        quat, pos = np.array([0.0, 0.0, 0.0, 1.0]), np.zeros(3)

        def pearson(a, b):
            a = np.asarray(a, dtype=np.float64).ravel(); b = np.asarray(b, dtype=np.float64).ravel()
            a = a - a.mean(); b = b - b.mean()
            return float(a @ b / np.sqrt((a @ a) * (b @ b)))
        for gain, offset in [(1.0, 0.0), (1.0, 1000.0), (2.0, 3000.0), (4.0, 500.0)]:
            img = (gain * base + offset).astype(np.float32)
            ref = pearson(img, temp)
            bad = []
            try:
                score = float(model.score(img, quat, pos))
                lnd = np.asarray(model.landscape(img, (3, 3, 3)))
                centre = float(lnd[3, 3, 3])
                zero = float(model.align(img, (0, 0, 0)).score)
                res = model.align(img, (3, 3, 3))
                arg = np.array(np.unravel_index(int(np.argmax(lnd)), lnd.shape)) - 3
                if abs(score - ref) > 5e-3: bad.append(f"score {score:.4f} but Pearson {ref:.4f}")
                if abs(centre - ref) > 5e-3: bad.append(f"landscape centre {centre:.4f} but Pearson {ref:.4f}")
                if abs(zero - ref) > 5e-3: bad.append(f"zero-range alignment score {zero:.4f} but Pearson {ref:.4f}")
                if float(lnd.max()) > 1 + 5e-3 or float(lnd.min()) < -1 - 5e-3: bad.append(f"landscape leaves [-1, 1]: [{float(lnd.min()):.3f}, {float(lnd.max()):.3f}]")
                if np.abs(np.asarray(res.shift) - arg).max() > 0.75: bad.append(f"landscape arg-max at {arg.tolist()} but align reports {np.round(res.shift, 2).tolist()}")
            except Exception as e:  # noqa
                bad.append(f"raised {type(e).__name__}: {e}")
            ck.oracle_count("raw_counts_offset", 1, 1)
            if bad:
                ck.violation(what=f"float32 sub-volume = {gain} x image + {offset} (contrast about {gain:.0f}): " + "; ".join(bad[:3]),
                             inp={"shape": list(shape), "gain": gain, "offset": offset, "shift": list(sh), "seed": ck.seed, "iteration": it},
                             key={"site": "raw-counts", "offset": offset, "symptom": bad[0].split(" ")[0]}, oracle="raw_counts_offset")


def run(ck: common.Check):
    ck.design_ref = "DESIGN.md §6 C07"
    ck.trusted_base = TB
    ck.partial = ["FFT round-off is not modelled: float scores are compared with the exact rational correlation at tolerance 5e-5 (squared form)",
                  "the pre-processing chain mask -> low-pass -> wedge is compared with an independent numpy reference (oracle), not proved"]
    a = Anchors(common.REPO)
    anchors(a)
    ck.write_anchors(PID, a)
    ck.build(["C07"], ["C07/Property.v"], extra=["C07/Model.v"])
    rng = np.random.default_rng(ck.seed + 707)
    corr_scores(ck, rng)
    oracle_props(ck, rng)
    oracle_landscape_candidates(ck, rng)
    oracle_raw_counts(ck, np.random.default_rng(ck.seed + 7007))


def replay(data):
    print(json.dumps(data.get("input"), indent=1)[:4000])
    return 0


TB = [
    "Coq 8.16.1 kernel + coqc; vm_compute for the correspondence",
    "axioms: stdlib Reals (ClassicalDedekindReals.sig_forall_dec, sig_not_dec, FunctionalExtensionality.functional_extensionality_dep; coqchk -o also lists Classical_Prop.classic, declared by the loaded Reals library) "
    "as printed by Print Assumptions for the theorems over R; the executable twin over Z/Q is axiom-free",
    "structural anchors (translate.py facts) for backend.ncc / zncc, BaseAlignmentModel.score, ncc_landscape_no_pad response formula, "
    "zncc_landscape_with_crop, fsc",
    "assumed kernel laws: fftn/ifftn invert each other (pre_transform with no cutoff is the identity up to round-off)",
]
