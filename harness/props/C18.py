"""C18 — PCA classification matches exact PCA and labels stay attached to their molecules."""
from __future__ import annotations
import ast
import json
import numpy as np

import common
from common import zl, ql, bl, lst, zlist, qlist, frac, natl
from translate import Anchors, Untranslatable
from props.C11 import norm

PID = "C18"
DP = "acryo/classification/_dask_pca.py"
PC = "acryo/classification/pca.py"
LB = "acryo/loader/_base.py"


def anchors(a: Anchors):
    G = "DaskPCA._get_solver"

    def auto_tests(idx):
        def find(n):
            return isinstance(n, ast.If) and ast.unparse(n.test) == "solver == 'auto'"
        return find

    def small_test(n):
        # inner chain of `if solver == 'auto'`: if max(...) <= 500 / elif ...
        for st in n.body:
            if isinstance(st, ast.If) and "max(n_samples, n_features)" in ast.unparse(st.test):
                return st
        raise Untranslatable("auto chain not found")
    a.expr("auto_small_test", DP, G, ("find", auto_tests(0), 0, "max(n_samples, n_features) <= 500"),
           {"n_samples": "Z", "n_features": "Z"}, want="B", post=lambda n: small_test(n).test)
    a.expr("auto_randomized_test", DP, G, ("find", auto_tests(0), 0, "n_components >= 1 and n_components < 0.8 * min(...)"),
           {"n_samples": "Z", "n_features": "Z", "n_components": "Z"}, want="B",
           post=lambda n: (small_test(n).orelse[0].test if isinstance(small_test(n).orelse[0], ast.If) else (_ for _ in ()).throw(Untranslatable("elif missing"))))

    def chain(fn, src):
        t = norm(ast.unparse(fn))
        need = ["ifsolver=='auto':", "ifmax(n_samples,n_features)<=500:solver='full'", "solver='randomized'else:solver='full'",
                "ifsolver=='randomized':lower_limit=1else:lower_limit=0",
                "ifnotnp.nanmin([n_samples,n_features])>=n_components>=lower_limit:", "returnsolver"]
        miss = [x for x in need if x not in t]
        if miss:
            raise Untranslatable("_get_solver chain changed: " + str(miss))
        return "Definition solver_chain_as_modelled : bool := true."
    a.raw("solver_chain_as_modelled", DP, G, "auto -> full/randomized/full; lower limit; range check", chain)
    a.fact("exact_branch_is_linalg_svd", DP, "DaskPCA._fit", "solver in {full, tsqr} -> da.linalg.svd(X); else svd_compressed",
           lambda fn: "ifsolverin{'full','tsqr'}:U,S,V=da.linalg.svd(X)" in norm(ast.unparse(fn)) and "da.linalg.svd_compressed(" in norm(ast.unparse(fn)))

    def clf_solver(fn, src):
        t = norm(ast.unparse(fn))
        import re
        m = re.search(r"self\._pca=PCA\(n_components=n_components(?:,svd_solver='(\w+)')?\)", t)
        if not m:
            raise Untranslatable("PCA(...) construction not recognised")
        s = {"full": "Full", "tsqr": "Tsqr", "randomized": "Randomized", "auto": "Auto", None: "Auto"}[m.group(1)]
        return f"Definition classifier_solver_code : Z := {dict(Auto=0, Full=1, Tsqr=2, Randomized=3)[s]}%Z."
    a.raw("classifier_solver_code", PC, "PcaClassifier.__init__", "svd_solver passed to DaskPCA", clf_solver)
    a.fact("flat_rechunks_columns", PC, "PcaClassifier._image_flat", "reshape(n, -1).rechunk({1: -1})",
           lambda fn: "_flat_images=_input.reshape(self._n_image,-1)" in norm(ast.unparse(fn)) and "return_flat_images.rechunk({1:-1})" in norm(ast.unparse(fn)))
    # ---- data path: what is centred / masked / projected ----
    a.fact("fit_mean_is_global_column_mean", DP, "DaskPCA._fit", "self.mean_ = X.mean(0); X -= self.mean_ (before the SVD)",
           lambda fn: (lambda t: "self.mean_=X.mean(0)X-=self.mean_ifsolverin{'full','tsqr'}:U,S,V=da.linalg.svd(X)" in t and t.count("self.mean_=") == 1)(norm(ast.unparse(fn))))
    a.fact("transform_subtracts_mean_then_dots", DP, "DaskPCA.transform", "X = X - self.mean_; da.dot(X, self.components_.T)",
           lambda fn: (lambda t: "ifself.mean_isnotNone:X=X-self.mean_X_transformed=da.dot(X,self.components_.T)" in t)(norm(ast.unparse(fn))))
    a.fact("run_fits_masked", PC, "PcaClassifier.run", "fit(_image_flat(mask=True)); labels = kmeans.fit_predict(get_transform())",
           lambda fn: (lambda t: "_flat_image=self._image_flat(mask=True)self._pca.fit(_flat_image)self._labels=self._kmeans.fit_predict(self.get_transform())" in t)(norm(ast.unparse(fn))))
    a.fact("get_transform_masks", PC, "PcaClassifier.get_transform", "both branches project _image_flat(mask=True)",
           lambda fn: (lambda t: t.count("self._image_flat(mask=True)") == 2 and t.count("self._image_flat(") == 2 and "returnself._pca.transform(flat).compute()" in t)(norm(ast.unparse(fn))))
    a.fact("image_flat_mask_multiplies", PC, "PcaClassifier._image_flat", "mask=True -> self._image * self._mask",
           lambda fn: (lambda t: "ifmask:_input=self._image*self._maskelse:_input=self._image" in t)(norm(ast.unparse(fn))))
    a.fact("transform_method_masks", PC, "PcaClassifier.transform", "mask=True default; input * self._mask; pca.transform(flat)",
           lambda fn: (lambda t: t.count("if") == 1 and "ifmask:input=input*self._maskflat=input.reshape(input.shape[0],-1)returnself._pca.transform(flat).compute()" in t
                       and [ast.unparse(d) for d in fn.args.defaults] == ["True"])(norm(ast.unparse(fn))))
    a.fact("classify_appends_label_column", LB, "LoaderBase.classify", "mole = molecules.copy(); features.with_columns(Series(label_name, labels)); replace",
           lambda fn: all(x in norm(ast.unparse(fn)) for x in ["mole=self.molecules.copy()", "mole.features=mole.features.with_columns(pl.Series(label_name,clf._labels))",
                                                               "new=self.replace(molecules=mole)", ".rechunk(('auto',)+shape)"]))


def corr_solver(ck, rng):
    from acryo.classification._dask_pca import DaskPCA
    import dask.array as da
    cases = []
    names = {"auto": 0, "full": 1, "tsqr": 2, "randomized": 3}
    grid = [(N, F, c) for N in (2, 10, 400, 500, 501, 600, 3000) for F in (1, 8, 64, 500, 512, 1000) for c in (0, 1, 2, 7, 52, 410, 600)]
    if ck.tier == "quick":
        grid = grid[::3]
    for (N, F, c) in grid:
        for sv in ("auto", "full", "tsqr", "randomized"):
            X = da.zeros((N, F), chunks=(max(1, N // 2), F))
            try:
                got = names[DaskPCA(n_components=c, svd_solver=sv)._get_solver(X, c)]
            except ValueError:
                got = -1
            cases.append((f"(check_solver {zl(names[sv])} {zl(N)} {zl(F)} {zl(c)} {zl(got)})", {"given": sv, "N": N, "F": F, "n_components": c, "chosen": got}))
    ck.corr_run("solver_decision", ["AcryoGen.Anchors_C18", "Acryo.C18.Model"], cases, shard=600, observable=False)


def exact_pca(X, mask, k):
    Xm = (X * mask).reshape(X.shape[0], -1).astype(np.float64)
    mean = Xm.mean(0)
    U, S, Vt = np.linalg.svd(Xm - mean, full_matrices=False)
    return mean, S[:k], Vt[:k], (Xm - mean) @ Vt[:k].T


def oracle_pca(ck, rng):
    from acryo.classification import PcaClassifier
    import dask.array as da
    n = 8 if ck.tier == "quick" else 80
    for i in range(n):
        shape = tuple(int(x) for x in rng.integers(4, 11, size=3))
        N = int(rng.integers(12, 70))
        k = int(rng.integers(1, 4))
        F = int(np.prod(shape))
        X = (rng.normal(size=(N, F)) * np.linspace(1.0, 0.4, F)).reshape((N,) + shape).astype(np.float32)
        # two well separated groups along a fixed pattern
        pattern = rng.normal(size=shape).astype(np.float32) * 3
        grp = rng.integers(0, 2, size=N)
        X = X + grp[:, None, None, None] * pattern
        mask = None if i % 3 == 0 else (rng.random(shape) > 0.3).astype(np.float32)
        if i % 3 == 2:
            # soft-edged mask: values strictly between 0 and 1 where the images vary
            from scipy import ndimage as ndi
            mask = np.clip(ndi.gaussian_filter(mask, 0.8), 0.02, 1.0).astype(np.float32)
        chs = [None, (max(1, N // 3),) + shape, (N,) + shape, (5, max(1, shape[0] // 2), shape[1], shape[2]), (7, shape[0], shape[1], 2)]
        ch = chs[i % len(chs)]
        if i % 4 == 3:
            # an integer-typed stack (counts): the exact PCA is that of the same numbers
            mask = None           # (counts are classified as they are)
            X = np.round(X * 12 + 90).astype([np.int16, np.uint8][(i // 4) % 2])
            if X.dtype == np.uint8:
                X = np.clip(X, 0, 255).astype(np.uint8)
        stack = X if ch is None else da.from_array(X, chunks=ch)
        c = dict(N=N, shape=shape, n_components=k, mask=("none" if mask is None else ["none", "binary", "soft"][i % 3]), chunks=ch, seed=ck.seed, i=i, dtype=str(X.dtype))
        fails = []
        try:
            clf = PcaClassifier(stack, mask, n_components=k, n_clusters=2, seed=0).run()
            mean, S, Vt, proj = exact_pca(X.astype(np.float64), 1.0 if mask is None else mask, k)
            sv = np.asarray(clf.pca.singular_values_)[:k]
            if np.abs(sv - S).max() > 1e-3 * S[0]: fails.append(f"singular values differ by {np.abs(sv - S).max() / S[0]:.3g} (relative)")
            comp = np.asarray(clf.pca.components_)[:k]
            gaps = np.abs(np.diff(np.concatenate([S, [np.linalg.svd((X * (1.0 if mask is None else mask)).reshape(N, -1) - mean, compute_uv=False)[k] if k < min(N, F) else 0]])))
            for j in range(k):
                if gaps[j] > 0.05 * S[0] and (j == 0 or gaps[j - 1] > 0.05 * S[0]):
                    cs = abs(float(comp[j] @ Vt[j]))
                    if cs < 0.999: fails.append(f"component {j}: |cos| = {cs:.4f} with the exact one")
                    pj = clf.get_transform()[:, j]
                    sgn = np.sign(comp[j] @ Vt[j])
                    if np.abs(pj * sgn - proj[:, j]).max() > 2e-5 * S[0]: fails.append(f"projection {j} differs from the exact one by {np.abs(pj * sgn - proj[:, j]).max() / S[0]:.2g} of the largest singular value")
            lab = np.asarray(clf.labels)
            agree = max((lab == grp).mean(), (lab != grp).mean())
            if agree < 0.99: fails.append(f"separated groups not split (agreement {agree:.2f})")
            # accessors: rows selected by index, base images, stacks split by label, and projection of new stacks
            full_t = clf.get_transform()
            sel = [int(x) for x in rng.permutation(N)[:5]]
            if not np.allclose(clf.get_transform(sel), full_t[sel], atol=1e-4 * S[0]) or not np.allclose(clf.get_transform(iter(sel)), full_t[sel], atol=1e-4 * S[0]):
                fails.append("get_transform(labels) is not the selected rows of get_transform()")
            bases = clf.get_bases()
            if bases.shape != (k,) + shape or not np.array_equal(bases.reshape(k, -1), comp):
                fails.append("get_bases is not the components reshaped to images")
            parts = clf.split_clusters()
            if len(parts) != 2 or any(not np.array_equal(np.asarray(parts[c_]), X[lab == c_]) for c_ in range(2)):
                fails.append("split_clusters does not return, for each label, exactly the images carrying it (in order)")
            again = clf.transform(da.from_array(X[sel]) if i % 2 else da.from_array(X[sel], chunks=(2,) + shape))
            if not np.allclose(again, full_t[sel], atol=1e-3 * S[0]):
                fails.append("transform(images) differs from the stored projection of the same images")
            if mask is not None:
                premasked = clf.transform(da.from_array(X[sel] * mask), mask=False)
                if not np.allclose(premasked, full_t[sel], atol=1e-3 * S[0]) and float(np.abs(mask * mask - mask).max()) < 1e-6:
                    fails.append("transform(masked images, mask=False) differs from transform(images)")
            if not np.array_equal(clf.predict(da.from_array(X[sel])), lab[sel]):
                fails.append("predict(images) differs from the labels given to the same images")
        except Exception as e:  # noqa
            fails = [f"raised {type(e).__name__}: {str(e)[:120]}"]
        ck.oracle_count("pca_vs_exact_svd", 1, 1)
        for f in fails:
            ck.violation(what=f"PcaClassifier: {f}", inp=c, key={"site": "pca", "symptom": f.split(" ")[0], "image_axes_chunked": bool(ch and tuple(ch[1:]) != tuple(shape))},
                         oracle="pca_vs_exact_svd", measured=f)


def corr_data_path(ck, rng):
    """SVD certificate: the implementation's mean_, components_, singular_values_ and projections of a full decomposition are checked
    in Coq (exact rational arithmetic) against the centred, masked stack -- for every chunking generated"""
    import dask.array as da
    from acryo.classification import PcaClassifier
    from fractions import Fraction
    cases = []
    classes = {}
    n = 10 if ck.tier == "quick" else 80
    for i in range(n):
        shape = [(2, 2, 2), (1, 2, 3), (2, 1, 2), (3, 2, 1)][i % 4]
        F = int(np.prod(shape))
        N = int(rng.integers(3, 8))
        X = rng.integers(-4, 5, size=(N,) + shape).astype(np.float64)
        mk = i % 3
        mask = None if mk == 0 else rng.integers(0, 2, size=shape).astype(np.float64) if mk == 1 else rng.choice([0.0, 0.25, 0.5, 1.0], size=shape)
        if mask is not None and mask.sum() == 0:
            mask[(0,) * 3] = 1.0
        chs = [None, (1,) + shape, (2, 1, 1, 1), (N,) + shape, (3, shape[0], 1, shape[2]), (2, shape[0], shape[1], 1)]
        ch = chs[i % len(chs)]
        stack = X if ch is None else da.from_array(X, chunks=ch)
        r = min(N, F)
        clf = PcaClassifier(stack, mask, n_components=r, n_clusters=2, seed=0).run()
        mean = np.asarray(clf.pca.mean_, dtype=np.float64)
        comps = np.asarray(clf.pca.components_, dtype=np.float64)
        sv = np.asarray(clf.pca.singular_values_, dtype=np.float64)
        proj = np.asarray(clf.get_transform(), dtype=np.float64)
        # transform() of the training images, given as numpy or dask arrays, is the projection used for clustering; predict() gives run()'s labels
        ck.oracle_count("transform_of_training_images", 1, 1)
        tn, td = np.asarray(clf.transform(X)), np.asarray(clf.transform(da.from_array(X, chunks=(2,) + shape)))
        pl_ = np.asarray(clf.predict(da.from_array(X)))
        tol_ = 1e-6 * (1 + np.abs(proj).max())
        if np.abs(tn - proj).max() > tol_ or np.abs(td - proj).max() > tol_ or not np.array_equal(pl_, np.asarray(clf.labels)):
            ck.violation(what=f"PcaClassifier.transform/predict of the training images differ from get_transform()/labels: numpy input off by {np.abs(tn - proj).max():.3g}, "
                              f"dask input off by {np.abs(td - proj).max():.3g}", inp={"N": N, "shape": list(shape), "mask": ["none", "binary", "soft"][mk]},
                         key={"site": "pca-transform", "mask": ["none", "binary", "soft"][mk]}, oracle="transform_of_training_images")
        m_ = np.ones(F) if mask is None else mask.ravel()
        q = lambda v: ql(Fraction(float(v)).limit_denominator(10 ** 12))
        term = (f"(check_pca {lst([q(v) for v in m_])} {lst([lst([q(v) for v in row.ravel()]) for row in X])} {natl(F)} {lst([q(v) for v in mean])} "
                f"{lst([lst([q(v) for v in c_]) for c_ in comps])} {lst([q(v) for v in sv])} {lst([lst([q(v) for v in p_]) for p_ in proj])})")
        kind = ["no mask", "binary mask", "soft mask"][mk] + (", image axes chunked" if ch and tuple(ch[1:]) != tuple(shape) else ", row chunks" if ch else ", numpy")
        classes[kind] = classes.get(kind, 0) + 1
        cases.append((term, {"N": N, "shape": list(shape), "mask": ["none", "binary", "soft"][mk], "chunks": ch, "singular_values": sv.tolist(),
                             "stack": X.reshape(N, -1).tolist(), "mask_values": m_.tolist()}))
        # a truncated run must return the leading part of the full decomposition (up to the sign of each component)
        k = int(rng.integers(1, r + 1))
        clf2 = PcaClassifier(stack, mask, n_components=k, n_clusters=2, seed=0).run()
        sv2 = np.asarray(clf2.pca.singular_values_); c2 = np.asarray(clf2.pca.components_)
        ck.oracle_count("truncated_is_leading_part", 1, 1)
        gap_ok = [j for j in range(k) if (j == 0 or sv[j - 1] - sv[j] > 1e-6 * (1 + sv[0])) and (j + 1 >= r or sv[j] - sv[j + 1] > 1e-6 * (1 + sv[0]))]
        if len(sv2) != k or np.abs(sv2 - sv[:k]).max() > 1e-8 * (1 + sv[0]) or any(abs(abs(c2[j] @ comps[j]) - 1) > 1e-6 for j in gap_ok):
            ck.violation(what=f"PcaClassifier(n_components={k}) is not the leading part of the full decomposition: singular values {sv2.tolist()} vs {sv[:k].tolist()}",
                         inp={"N": N, "shape": list(shape), "k": k, "chunks": ch, "stack": X.reshape(N, -1).tolist(), "mask_values": m_.tolist()},
                         key={"site": "pca-truncation"}, oracle="truncated_is_leading_part")
    ck.corr_run("svd_certificate", ["AcryoGen.Anchors_C18", "Acryo.C18.DataModel"], cases, shard=20, observable=True,
                describe=lambda c: {"site": "svd-certificate", "mask": c["mask"]}, classes=classes)


def oracle_labels(ck, rng):
    """classification through a loader with a scripted classifier: one label per molecule in molecule order, nothing else changes"""
    from acryo import SubtomogramLoader, BatchLoader, Molecules
    import acryo.classification as acl
    from scipy.spatial.transform import Rotation
    real = acl.PcaClassifier
    seen = {}

    class Stub:
        def __init__(self, image_stack, mask_image=None, n_components=2, n_clusters=2, seed=0):
            seen["shape"] = image_stack.shape
            seen["chunks"] = image_stack.chunks
            seen["args"] = (n_components, n_clusters, seed)
            self._n = image_stack.shape[0]
            # which sub-volume sits in which row of the stack (the harness plants a one-hot pattern around every molecule)
            seen["row_argmax"] = [int(v) for v in np.asarray(image_stack).reshape(self._n, -1).argmax(axis=1)]
            seen["stack"] = np.asarray(image_stack).copy()
            seen["mask"] = None if mask_image is None else np.asarray(mask_image).copy()

        def run(self):
            self._labels = np.array(seen["script"][: self._n], dtype=np.int32)
            return self
    try:
        acl.PcaClassifier = Stub
        for i in range(4 if ck.tier == "quick" else 30):
            nm = int(rng.integers(2, 9))
            tomo = rng.normal(size=(24, 24, 24)).astype(np.float32)
            feats = {"a": list(range(nm)), "s": [f"m{j}" for j in range(nm)]}
            mol = Molecules(rng.uniform(9, 14, size=(nm, 3)), Rotation.random(nm, random_state=i), features=feats)
            if i % 2:
                ld = SubtomogramLoader(tomo, mol, order=1, output_shape=(6, 6, 6))
            else:
                ld = BatchLoader(order=1, output_shape=(6, 6, 6))
                ld.add_tomogram(tomo, mol, image_id=0)
            script = [int(x) for x in rng.integers(0, 3, size=nm)]
            seen["script"] = script
            before = (ld.molecules.pos.copy(), ld.molecules.rotator.as_quat().copy(), ld.molecules.features.clone())
            ncomp, nclus, sd = int(rng.integers(1, 5)), int(rng.integers(2, 6)), int(rng.integers(0, 50))
            res = ld.classify(mask=None, n_components=ncomp, n_clusters=nclus, seed=sd, label_name="cls")
            if seen.get("args") != (ncomp, nclus, sd):
                ck.violation(what=f"loader.classify(n_components={ncomp}, n_clusters={nclus}, seed={sd}) built the classifier with "
                                  f"(n_components, n_clusters, seed) = {seen.get('args')}", inp={"n_components": ncomp, "n_clusters": nclus, "seed": sd},
                             key={"site": "classify-arguments"}, oracle="labels_follow_molecules")
            new = res.loader.molecules
            fails = []
            if new.features["cls"].to_list() != script: fails.append("labels not in molecule order")
            if [c for c in new.features.columns if c != "cls"] != before[2].columns: fails.append("other feature columns changed")
            elif not new.features.drop("cls").equals(before[2]): fails.append("other feature values changed")
            if not (np.array_equal(new.pos, before[0]) and np.allclose(new.rotator.as_quat(), before[1])): fails.append("positions/orientations changed")
            if not (np.array_equal(ld.molecules.pos, before[0]) and "cls" not in ld.molecules.features.columns): fails.append("input loader modified")
            if seen["shape"] != (nm, 6, 6, 6) or any(len(c) != 1 for c in seen["chunks"][1:]): fails.append(f"stack handed to the classifier: shape {seen['shape']}, chunks {seen['chunks']}")
            ck.oracle_count("label_writeback", 1, 1)
            for f in fails:
                ck.violation(what=f"loader.classify: {f}", inp={"n": nm, "script": script}, key={"site": "labels", "symptom": f[:24]}, oracle="label_writeback")
        # the other ways of telling classify() the box: a template, an array mask (loader without a box of its own), the legacy tilt keyword
        import warnings
        for i in range(2 if ck.tier == "quick" else 8):
            nm = int(rng.integers(3, 7))
            tomo = rng.normal(size=(24, 24, 24)).astype(np.float32)
            mol = Molecules(rng.uniform(9, 14, size=(nm, 3)), Rotation.random(nm, random_state=100 + i), features={"a": list(range(nm))})
            seen["script"] = [int(x) for x in rng.integers(0, 3, size=nm)]
            tmpl = rng.normal(size=(6, 5, 7)).astype(np.float32)
            msk = (rng.random((6, 5, 7)) > 0.3).astype(np.float32)
            nobox = SubtomogramLoader(tomo, mol, order=1)
            boxed = SubtomogramLoader(tomo, mol, order=1, output_shape=(6, 5, 7))
            fails = []
            try:
                stacks = {}
                for name, call in (("template only", lambda: nobox.classify(template=tmpl, label_name="cls")),
                                   ("mask only", lambda: nobox.classify(mask=msk, label_name="cls")),
                                   ("template and mask", lambda: nobox.classify(template=tmpl, mask=msk, label_name="cls")),
                                   ("box of the loader", lambda: boxed.classify(label_name="cls")),
                                   ("box of the loader, template and mask", lambda: boxed.classify(template=tmpl, mask=msk, label_name="cls")),
                                   ("tilt", lambda: boxed.classify(template=tmpl, mask=msk, tilt=(-50, 40), label_name="cls"))):
                    res = call()
                    if seen["shape"] != (nm, 6, 5, 7): fails.append(f"{name}: stack of shape {seen['shape']} handed to the classifier")
                    if res.loader.molecules.features["cls"].to_list() != seen["script"][:nm]: fails.append(f"{name}: labels not in molecule order")
                    if "mask" in name and (seen["mask"] is None or not np.array_equal(seen["mask"], msk)): fails.append(f"{name}: the classifier did not receive the given mask")
                    stacks[name] = seen["stack"]
                if not np.allclose(stacks["template and mask"], stacks["box of the loader, template and mask"], atol=1e-5):
                    fails.append("the same template and mask give different stacks with and without a loader box")
                with warnings.catch_warnings():
                    warnings.simplefilter("ignore")
                    boxed.classify(template=tmpl, mask=msk, tilt_range=(-50, 40), label_name="cls")
                if not np.allclose(seen["stack"], stacks["tilt"], atol=1e-5): fails.append("legacy tilt_range keyword gives another stack than tilt")
                if np.allclose(stacks["tilt"], stacks["box of the loader, template and mask"], atol=1e-7): fails.append("the tilt model has no effect on the stack")
                try:
                    nobox.classify(label_name="cls")
                    fails.append("classify without any box information accepted")
                except (ValueError, TypeError):
                    pass
            except Exception as e:  # noqa
                fails.append(f"raised {type(e).__name__}: {e}")
            ck.oracle_count("classify_box_sources", 1, 1)
            for f in fails[:3]:
                ck.violation(what=f"loader.classify: {f}", inp={"n": nm}, key={"site": "classify-box", "symptom": f[:24]}, oracle="classify_box_sources")
        # the i-th image handed to the classifier is the i-th molecule's, also for batches whose tomogram ids appear in any order:
        # every molecule's 1x1x9 sub-volume is one-hot at its own index (the normalised difference to the average keeps that arg-max)
        for i in range(4 if ck.tier == "quick" else 24):
            ids = [[7, 3], [3, 7], [2, 0, 5], [1, 0]][i % 4]
            b = BatchLoader(order=0, output_shape=(1, 1, 9))
            val = 0
            for iid in ids:
                nm_ = int(rng.integers(2, 4))
                tomo = np.zeros((5, 5, 12 * nm_), dtype=np.float32)
                pos, vals = [], []
                for p_ in range(nm_):
                    cx = 12 * p_ + 6
                    tomo[2, 2, cx - 4 + val] = 5.0
                    pos.append([2.0, 2.0, float(cx)]); vals.append(val); val += 1
                b.add_tomogram(tomo, Molecules(np.array(pos), features={"want": vals}), image_id=iid)
            perm = [int(x) for x in rng.permutation(len(b.molecules))]
            if i % 2:
                b = b.replace(molecules=b.molecules.subset(perm))
            seen["script"] = list(range(100, 100 + len(b.molecules)))
            res = b.classify(mask=None, n_components=2, n_clusters=2, label_name="cls")
            want_rows = b.molecules.features["want"].to_list()
            ck.oracle_count("label_writeback", 1, 1)
            if seen.get("row_argmax") != want_rows or res.loader.molecules.features["cls"].to_list() != seen["script"]:
                ck.violation(what=f"batch.classify with image ids {ids}{' (molecules permuted)' if i % 2 else ''}: the classifier's stack rows hold the sub-volumes of "
                                  f"molecules {seen.get('row_argmax')} instead of {want_rows}", inp={"image_ids": ids, "permuted": bool(i % 2)},
                             key={"site": "labels", "symptom": "stack rows not in molecule order"}, oracle="label_writeback")
    finally:
        acl.PcaClassifier = real


def oracle_auto_solver_boundary(ck, rng):
    """the default solver policy on stacks whose larger side is exactly 500 (and just around it, 499 / 501 with few components): the
    decomposition is that of the exact SVD (the randomised solver is only chosen beyond 500)"""
    from acryo.classification._dask_pca import DaskPCA
    import dask.array as da
    for N, F, k in ((60, 500, 2), (500, 40, 3), (60, 499, 2)):
        X = (rng.normal(size=(N, F)) * np.linspace(3.0, 0.5, F)).astype(np.float64)
        S = np.linalg.svd(X - X.mean(axis=0), compute_uv=False)
        ck.oracle_count("auto_solver_boundary", 1, 1)
        try:
            p_ = DaskPCA(n_components=k, svd_solver="auto"); p_.fit(da.from_array(X, chunks=(max(N // 2, F), F) if N >= F else (N, F)))
            dev = float(np.abs(np.asarray(p_.singular_values_) - S[:k]).max() / S[0])
            bad = None if dev <= 1e-9 else f"singular values differ from the exact ones by {dev:.2g} (relative)"
        except Exception as e:  # noqa
            bad = f"raised {type(e).__name__}: {str(e)[:120]}"
        if bad:
            ck.violation(what=f"DaskPCA(svd_solver='auto') on a {N} x {F} stack, {k} components: {bad}", inp={"N": N, "F": F, "k": k}, key={"site": "auto-solver-boundary", "N": N, "F": F},
                         oracle="auto_solver_boundary")


def oracle_predict_masked(ck, rng):
    """predict() classifies new images in the same (masked) space the classifier was fitted in: the fitted stack gets its own labels back, and so
    do noisy copies of it -- three groups, a soft mask that down-weights the region where an unrelated strong pattern lives"""
    from acryo.classification import PcaClassifier
    import dask.array as da
    for it in range(2 if ck.tier == "quick" else 8):
        shape = (6, 8, 8); N = 45
        zz = np.indices(shape)[0]
        mask = np.where(zz < 3, 1.0, 0.08).astype(np.float32)           # soft: the lower half of the box counts 8 %
        grp = np.arange(N) % 3
        pat = np.zeros((3,) + shape, np.float32)
        pat[1][:3] = rng.normal(size=(3, 8, 8)) * 2.0; pat[2][:3] = rng.normal(size=(3, 8, 8)) * 2.0      # what separates the groups (inside the mask)
        distract = np.zeros(shape, np.float32); distract[3:] = rng.normal(size=(3, 8, 8)) * 6.0           # strong, unrelated to the groups (outside)
        amp = rng.normal(size=N).astype(np.float32)
        X = (rng.normal(size=(N,) + shape) * 0.3 + pat[grp] + amp[:, None, None, None] * distract).astype(np.float32)
        ck.oracle_count("predict_in_masked_space", 1, 1)
        try:
            clf = PcaClassifier(da.from_array(X, chunks=(15,) + shape), mask, n_components=2, n_clusters=3, seed=0).run()
            lab = np.asarray(clf.labels)
            pure = all(len(set(lab[grp == g].tolist())) == 1 for g in range(3)) and len(set(lab.tolist())) == 3
            again = np.asarray(clf.predict(da.from_array(X, chunks=(9,) + shape)))
            noisy = np.asarray(clf.predict(da.from_array((X + rng.normal(size=X.shape).astype(np.float32) * 0.05), chunks=(45,) + shape)))
            bad = None
            if not pure: bad = f"three clearly separated groups are not given three labels: {lab.tolist()}"
            elif not np.array_equal(again, lab): bad = f"predict(fitted stack) differs from the labels in {int((again != lab).sum())} of {N} images"
            elif not np.array_equal(noisy, lab): bad = f"predict(slightly noisy copies) differs from the labels in {int((noisy != lab).sum())} of {N} images"
        except Exception as e:  # noqa
            bad = f"raised {type(e).__name__}: {e}"
        if bad:
            ck.violation(what=f"PcaClassifier with a soft mask: {bad}", inp={"N": N, "shape": list(shape), "iteration": it, "seed": ck.seed}, key={"site": "predict-masked"},
                         oracle="predict_in_masked_space")


def oracle_dask_pca_surface(ck, rng):
    """the out-of-core PCA object itself, for the solvers it can choose and several chunkings: fit followed by transform, fit_transform
    and inverse_transform agree with the exact SVD of the centred data (projections up to the sign of each component)"""
    from acryo.classification._dask_pca import DaskPCA
    import dask.array as da
    for it in range(3 if ck.tier == "quick" else 20):
        N = int(rng.integers(20, 60)); F = int(rng.integers(8, 30)); k = int(rng.integers(1, 4))
        X = (rng.normal(size=(N, F)) * np.linspace(3.0, 0.3, F)).astype(np.float64) + rng.normal(size=F)
        mean = X.mean(axis=0)
        U, S, Vt = np.linalg.svd(X - mean, full_matrices=False)
        proj = (X - mean) @ Vt[:k].T
        for solver in ("full", "tsqr", "auto"):
            for rows in (N, max(F, N // 2 + 1), 7):
                if solver != "auto" and rows < F and solver == "tsqr":
                    pass
                Xd = da.from_array(X, chunks=(rows, F))
                c = {"N": N, "F": F, "n_components": k, "solver": solver, "row_chunk": rows, "seed": ck.seed, "iteration": it}
                fails = []
                try:
                    p1 = DaskPCA(n_components=k, svd_solver=solver)
                    p1.fit(Xd)
                    t1 = np.asarray(p1.transform(Xd))
                    p2 = DaskPCA(n_components=k, svd_solver=solver)
                    t2 = np.asarray(p2.fit_transform(Xd))
                    sg = np.sign(np.sum(np.asarray(p1.components_) * Vt[:k], axis=1))
                    sg2 = np.sign(np.sum(np.asarray(p2.components_) * Vt[:k], axis=1))
                    tol = 1e-6 * S[0]
                    if np.abs(np.asarray(p1.singular_values_) - S[:k]).max() > tol: fails.append("singular values differ from the exact SVD")
                    if np.abs(np.asarray(p1.mean_) - mean).max() > 1e-9 * (1 + np.abs(mean).max()): fails.append("mean_ is not the column mean")
                    if np.abs(t1 * sg - proj).max() > tol: fails.append("fit + transform differs from the exact projection")
                    if np.abs(t2 * sg2 - proj).max() > tol: fails.append("fit_transform differs from the exact projection")
                    back = np.asarray(p1.inverse_transform(da.from_array(t1, chunks=(rows, k))))
                    want = proj @ Vt[:k] + mean
                    if np.abs(back - want).max() > tol: fails.append("inverse_transform(transform(X)) is not the rank-k approximation of X")
                    ev = S[:k] ** 2 / (N - 1)
                    if np.abs(np.asarray(p1.explained_variance_) - ev).max() > 1e-6 * ev[0]: fails.append("explained_variance_ is not S^2/(n-1)")
                    pw = DaskPCA(n_components=k, svd_solver=solver, whiten=True)
                    tw2 = np.asarray(pw.fit_transform(Xd)); tw1 = np.asarray(pw.transform(Xd))
                    sgw = np.sign(np.sum(np.asarray(pw.components_) * Vt[:k], axis=1))
                    if np.abs(tw1 * sgw - proj / np.sqrt(ev)).max() > 1e-6 or np.abs(tw2 * sgw - proj / np.sqrt(ev)).max() > 1e-6:
                        fails.append("whitened projections (transform / fit_transform) are not the exact scores divided by their standard deviation")
                    if np.abs(np.asarray(p1.explained_variance_ratio_) - ev / ((S ** 2).sum() / (N - 1))).max() > 1e-6: fails.append("explained_variance_ratio_ is wrong")
                except Exception as e:  # noqa
                    fails = [f"raised {type(e).__name__}: {str(e)[:120]}"]
                ck.oracle_count("dask_pca_surface", 1, 1)
                for f in fails[:2]:
                    ck.violation(what=f"DaskPCA({solver}, rows per chunk {rows}): {f}", inp=c, key={"site": "dask-pca-surface", "solver": solver, "symptom": f.split(" ")[0]},
                                 oracle="dask_pca_surface", measured=f)


def run(ck: common.Check):
    ck.design_ref = "DESIGN.md §6 C18"
    ck.trusted_base = TB
    ck.partial = ["the SVD itself (dask tsqr) and k-means are kernels: equality with exact PCA and cluster separation are numeric (oracle)",
                  "the theorems cover the solver decision, the column-chunk precondition of the tall-skinny SVD, the label write-back and the data "
                  "path (what is masked, centred and projected; chunk-independence of the mean); the SVD returned by the kernel is validated "
                  "per run as a certificate (orthonormal eigenvectors of Xc^T Xc, complete, descending) in exact rational arithmetic"]
    a = Anchors(common.REPO)
    anchors(a)
    ck.write_anchors(PID, a)
    ck.build(["C18"], ["C18/Property.v", "C18/PropertyData.v"], extra=["C18/Model.v", "C18/DataModel.v"])
    rng = np.random.default_rng(ck.seed + 1818)
    corr_solver(ck, rng)
    corr_data_path(ck, np.random.default_rng(ck.seed + 181818))
    oracle_pca(ck, rng)
    oracle_labels(ck, rng)
    oracle_dask_pca_surface(ck, np.random.default_rng(ck.seed + 18018))
    oracle_predict_masked(ck, np.random.default_rng(ck.seed + 18118))
    oracle_auto_solver_boundary(ck, np.random.default_rng(ck.seed + 18218))


def replay(data):
    print(json.dumps(data.get("input"), indent=1, default=str)[:4000])
    return 0


TB = [
    "Coq 8.16.1 kernel + coqc; vm_compute for the correspondence",
    "axioms: none expected; see coverage.assumptions_printed",
    "translator: the two auto-branch tests of DaskPCA._get_solver; structural anchors for the chain, the exact branch, the solver "
    "PcaClassifier requests, the column rechunk and loader.classify's write-back",
    "assumed: da.linalg.svd is an exact SVD for arrays chunked along one axis; sklearn KMeans",
]
