"""C09 — averages are plain arithmetic means of the loaded subtomograms."""
from __future__ import annotations
import ast
import json
import numpy as np

import common
from common import zl, ql, bl, lst, zlist, qlist, frac, natl
from translate import Anchors
from props.C11 import norm

PID = "C09"
LM = "acryo/loader/_misc.py"
LB = "acryo/loader/_base.py"
LG = "acryo/loader/_group.py"


def anchors(a: Anchors):
    # a loader stores what it was given and nothing computed from it (no remembered task graph that an in-place addition could outdate),
    # and the lazily built arrays are named by dask from their content (two loaders never share a graph key)
    a.state("loader_base_stores_options_only", "acryo/loader/_base.py", {"LoaderBase": ["_corner_safe", "_order", "_output_shape", "_scale", "class:group_by"]},
            "LoaderBase stores interpolation order, scale, output shape and corner_safe only")
    a.state("single_loader_stores_inputs_only", "acryo/loader/_loader.py", {"SubtomogramLoader": ["_image", "_molecules"]}, "a SubtomogramLoader adds its image and molecules only")
    a.state("batch_loader_stores_inputs_only", "acryo/loader/_batch.py", {"BatchLoader": ["_images", "_molecules"]}, "a BatchLoader adds its images and molecules only")

    def content_named(fn):
        calls = [n for n in ast.walk(fn) if isinstance(n, ast.Call) and ast.unparse(n.func).replace(" ", "") == "da.from_delayed"]
        return len(calls) == 1 and not any(k.arg == "name" for k in calls[0].keywords) and norm(ast.unparse(calls[0])) == "da.from_delayed(task,shape=shape,dtype=dtype)"
    a.fact("task_arrays_named_by_content", "acryo/_dask.py", "DaskTaskList.asarrays", "da.from_delayed(task, shape=shape, dtype=dtype) without an explicit name", content_named)
    a.expr("splitter_sample_size", LM, "random_splitter",
           ("find", lambda n: isinstance(n, ast.Call) and ast.unparse(n.func) == "rng.choice", 0, "rng.choice size"),
           {"nmole": "Z"}, want="Z", post=lambda n: n.args[1])
    a.fact("splitter_marks_sample", LM, "random_splitter", "indices0 zeros + True at sl; indices1 ones + False at sl",
           lambda fn: all(t in norm(ast.unparse(fn)) for t in ["indices0=np.zeros(nmole,dtype=np.bool_)", "indices0[sl]=True",
                                                               "indices1=np.ones(nmole,dtype=np.bool_)", "indices1[sl]=False",
                                                               "return(indices0,indices1)", "rng.choice(np.arange(nmole),"]))
    a.fact("average_is_mean_axis0", LB, "LoaderBase.average", "construct_dask(...).mean(axis=0)",
           lambda fn: all(t in norm(ast.unparse(fn)) for t in ["dsk=self.construct_dask(output_shape=output_shape,backend=xp)",
                                                               "returnxp.asnumpy(dsk.mean(axis=0).compute())"]))
    a.fact("average_split_uses_splitter", LB, "LoaderBase.average_split", "rng = default_rng(seed); random_splitter(rng, nmole); mean of dsk[ind]",
           lambda fn: all(t in norm(ast.unparse(fn)) for t in ["rng=np.random.default_rng(seed=seed)", "ind0,ind1=_misc.random_splitter(rng,nmole)",
                                                               "dsk[ind0].rechunk(chunksize).mean(axis=0)", "dsk[ind1].rechunk(chunksize).mean(axis=0)"]))
    a.fact("group_average_per_loader", LG, "LoaderGroup.average", "da.mean(loader.construct_dask(...), axis=0) per group",
           lambda fn: all(t in norm(ast.unparse(fn)) for t in ["forkey,loaderinself", "tasks.append(da.mean(dsk,axis=0))"]))


# --------------------------------------------------------------------------
def stack_lit(stack):
    return lst([qlist([frac(float(v)) for v in img.ravel()]) for img in stack])


def img_lit(img):
    return qlist([frac(float(v)) for v in np.asarray(img).ravel()])


class ScriptedRng:
    def __init__(self, out):
        self.out = out
        self.requested = None

    def choice(self, a, size=None, *args, **kw):
        self.requested = (len(a), size)
        return np.asarray(self.out)


def corr_splitter(ck, rng):
    from acryo.loader._misc import random_splitter
    cases = []
    maxn = 7 if ck.tier == "quick" else 12
    for n in range(0, maxn + 1):
        reps = 6 if ck.tier == "quick" else 30
        for _ in range(reps):
            k = n // 2
            sl = [int(x) for x in rng.integers(0, max(n, 1), size=k)] if n else []
            if rng.random() < 0.3 and k:
                sl = [sl[0]] * k            # all repeats
            r = ScriptedRng(sl)
            m0, m1 = random_splitter(r, n)
            cases.append((f"(check_splitter {natl(n)} {lst([natl(i) for i in sl])} {lst([bl(b) for b in m0])} {lst([bl(b) for b in m1])} {zl(r.requested[1])})",
                          {"n": n, "sampled": sl, "ind0": [bool(b) for b in m0], "ind1": [bool(b) for b in m1]}))
    ck.corr_run("random_splitter", ["AcryoGen.Anchors_C09", "Acryo.C09.Model"], cases, shard=500, observable=True,
                describe=lambda c: {"site": "random_splitter", "n": c["n"]})


def build_loader(rng, kind, chunks=None):
    from acryo import SubtomogramLoader, BatchLoader, Molecules
    import dask.array as da
    shape = (2, 2, 2)

    def one(n, seed):
        t = rng.integers(0, 200, size=(9, 9, 9)).astype(np.float32)
        pos = rng.integers(2, 7, size=(n, 3)).astype(float)
        img = da.from_array(t, chunks=chunks) if chunks else t
        return img, Molecules(pos, features={"g": [int(x) for x in rng.integers(0, 3, size=n)]})
    if kind == "single":
        img, mol = one(int(rng.integers(1, 8)), 0)
        return SubtomogramLoader(img, mol, order=0, scale=1.0, output_shape=shape)
    b = BatchLoader(order=0, scale=1.0, output_shape=shape)
    for k in range(int(rng.integers(2, 4))):
        img, mol = one(int(rng.integers(1, 5)), k)
        b.add_tomogram(img, mol, image_id=k)
    return b


def corr_averages(ck, rng):
    n = 24 if ck.tier == "quick" else 300
    cases_avg, cases_split, cases_w = [], [], []
    chunkings = [None, (3, 3, 3), (9, 2, 5), (4, 9, 9)]
    for i in range(n):
        kind = "batch" if i % 2 else "single"
        ld = build_loader(rng, kind, chunkings[i % 4])
        stack = ld.asnumpy()
        avg = ld.average()
        cases_avg.append((f"(check_average {stack_lit(stack)} 8%nat {img_lit(avg)})", {"kind": kind, "n": len(stack), "chunks": chunkings[i % 4]}))
        nm = len(stack)
        if nm >= 2:
            seed = int(rng.integers(0, 1000))
            halves = ld.average_split(n_set=1, seed=seed)
            sl = np.random.default_rng(seed).choice(np.arange(nm), nm // 2).tolist()
            again = ld.average_split(n_set=1, seed=seed)
            det = np.array_equal(halves, again)
            cases_split.append((f"(andb {bl(det)} (check_split {stack_lit(stack)} 8%nat {lst([natl(x) for x in sl])} {img_lit(halves[0])} {img_lit(halves[1])}))",
                                {"kind": kind, "n": nm, "seed": seed, "sampled": sl, "deterministic": bool(det)}))
        if kind == "batch":
            parts = [(sub.count(), sub.average()) for sub in ld.loaders]
            cases_w.append((f"(check_weighted {lst(['(' + zl(c) + ', ' + img_lit(a) + ')' for c, a in parts])} 8%nat {img_lit(avg)})",
                            {"what": "batch = count-weighted mean of per-tomogram averages", "counts": [c for c, _ in parts]}))
        # grouped average = average of each group's own loader = mean of that group's stack
        gavg = ld.groupby("g").average()
        for key, sub in ld.groupby("g"):
            st = sub.asnumpy()
            cases_avg.append((f"(check_average {stack_lit(st)} 8%nat {img_lit(gavg[key])})", {"kind": kind + "-group", "n": len(st)}))
            own = sub.average()
            cases_avg.append((f"(check_average {stack_lit(st)} 8%nat {img_lit(own)})", {"kind": kind + "-group-own", "n": len(st)}))
    for name, cs in (("average_is_mean", cases_avg), ("average_split_halves", cases_split), ("batch_weighted_mean", cases_w)):
        ck.corr_run(name, ["AcryoGen.Anchors_C09", "Acryo.C09.Model"], cs, shard=100, observable=True,
                    describe=lambda c, name=name: {"site": name, "kind": c.get("kind", c.get("what"))})


def oracle_generic(ck, rng):
    """generic orientations / order 3 / n_set > 1 / group split / fsc halves (numeric tolerance)"""
    from acryo import SubtomogramLoader, Molecules
    from scipy.spatial.transform import Rotation
    n = 4 if ck.tier == "quick" else 40
    for i in range(n):
        t = rng.normal(size=(20, 20, 20)).astype(np.float32)
        nm = int(rng.integers(2, 9))
        mol = Molecules(rng.uniform(7, 12, size=(nm, 3)), Rotation.random(nm, random_state=int(rng.integers(0, 2**31))),
                        features={"g": [int(x) for x in rng.integers(0, 2, size=nm)]})
        ld = SubtomogramLoader(t, mol, order=3, output_shape=(5, 5, 5))
        stack = ld.asnumpy()
        ok = np.allclose(ld.average(), stack.mean(axis=0), atol=1e-4)
        nset = int(rng.integers(1, 4))
        seed = int(rng.integers(0, 100))
        hs = ld.average_split(n_set=nset, seed=seed, squeeze=False)
        r = np.random.default_rng(seed)
        for s in range(nset):
            sl = r.choice(np.arange(nm), nm // 2).tolist()
            m0 = np.zeros(nm, bool); m0[sl] = True
            ok &= np.allclose(hs[s, 0], stack[m0].mean(axis=0), atol=1e-4) and np.allclose(hs[s, 1], stack[~m0].mean(axis=0), atol=1e-4)
            n0 = m0.sum()
            ok &= np.allclose((n0 * hs[s, 0] + (nm - n0) * hs[s, 1]) / nm, stack.mean(axis=0), atol=1e-4)
        ck.oracle_count("generic_average_and_split", 1, 1)
        if not ok:
            ck.violation(what="average / average_split differ from the arithmetic mean of the loaded stack (generic poses, order 3)",
                         inp={"iteration": i, "seed": ck.seed, "n": nm, "n_set": nset}, key={"site": "generic"}, oracle="generic_average_and_split")


def oracle_batch_histories(ck, rng):
    """a batch built by any sequence of add_tomogram (explicit and automatic ids) / filter: its average is the count-weighted
    mean of independently built per-tomogram loaders over the molecules still in it"""
    import polars as pl
    from acryo import SubtomogramLoader, BatchLoader, Molecules
    n = 6 if ck.tier == "quick" else 60
    from scipy.spatial.transform import Rotation
    for it in range(n):
        cs = bool(it % 2)       # loader options (corner_safe here) must reach the per-tomogram loaders of the batch
        b = BatchLoader(order=1, output_shape=(5, 5, 5), corner_safe=cs)
        truth = []          # (tomogram, positions) still in the batch, tagged with a unique marker per addition
        hist = []
        nadd = int(rng.integers(2, 5)) if it >= 2 else 3
        for a_ in range(nadd):
            tomo = rng.normal(size=(15, 15, 15)).astype(np.float32) + 5.0 * (a_ + 1)
            nm = int(rng.integers(1, 4))
            pos = rng.integers(5, 10, size=(nm, 3)).astype(float)
            mark = 100 * it + a_
            rot = Rotation.random(nm, random_state=int(rng.integers(0, 2**31)))
            if it % 3 == 1 and a_ >= 1 and truth:
                # the same picking lattice in several tomograms: identical positions and orientations, different images
                nm, pos, rot = len(truth[-1][1]), truth[-1][1].copy(), truth[-1][3]
            mol = Molecules(pos, rot, features={"mark": [mark] * nm})
            explicit = [None, None, int(rng.integers(0, 6))][int(rng.integers(0, 3))] if (it % 2 and it >= 2) else None
            if explicit is not None and explicit in b.images:
                explicit = None
            if it % 2 == 0 and truth:
                # the batch is used between additions (add_tomogram updates it in place): later results must reflect the additions
                try:
                    b.average(); b.average_split(n_set=1, seed=0)
                    hist.append(["average"])
                except Exception:  # noqa
                    pass
            b.add_tomogram(tomo, mol, image_id=explicit)
            hist.append(["add_tomogram", nm, explicit])
            truth.append((tomo, pos, mark, rot))
            directed = it < 2           # the first histories are scripted: add, add, drop the first, add (automatic ids throughout)
            if (directed and a_ == 1) or (not directed and a_ >= 1 and rng.random() < 0.6):
                # drop every molecule of one earlier addition (its tomogram leaves the batch)
                drop = truth[0 if directed else int(rng.integers(0, len(truth) - 1))][2]
                b = b.filter(pl.col("mark") != drop)
                truth = [t_ for t_ in truth if t_[2] != drop]
                hist.append(["filter-out", drop])
        if not truth:
            continue
        want = np.zeros((5, 5, 5)); cnt = 0
        for tomo, pos, mark, rot in truth:
            ld = SubtomogramLoader(tomo, Molecules(pos, rot), order=1, output_shape=(5, 5, 5), corner_safe=cs)
            want += ld.average() * len(pos); cnt += len(pos)
        want /= cnt
        ck.oracle_count("batch_history_average", 1, 1)
        try:
            got = b.average()
            ok = len(b.molecules) == cnt and np.allclose(got, want, atol=1e-4)
            detail = f"{len(b.molecules)} molecules (expected {cnt}); max deviation {np.abs(got - want).max():.3f}"
        except Exception as e:  # noqa
            ok, detail = False, f"raised {type(e).__name__}: {e}"
        if ok:
            try:
                hs = np.asarray(b.average_split(n_set=1, seed=1, squeeze=False))[0]
                loaded = np.asarray(b.asnumpy())
                if len(loaded) != cnt or not np.allclose(loaded.mean(axis=0), want, atol=1e-4):
                    ok, detail = False, "the sub-volumes the batch loads are not those of the tomograms that were added"
                else:
                    # the two half maps average disjoint, exhaustive, non-empty parts of the molecules currently in the batch
                    sol, *_ = np.linalg.lstsq(np.stack([h_.ravel() for h_ in loaded]).T.astype(np.float64), np.stack([hs[0].ravel(), hs[1].ravel()]).T.astype(np.float64), rcond=None)
                    memb = sol > 1e-3
                    if cnt >= 2 and cnt <= 100 and np.linalg.matrix_rank(np.stack([h_.ravel() for h_ in loaded])) == cnt:
                        if not (np.all(memb.sum(axis=1) == 1) and memb[:, 0].any() and memb[:, 1].any()):
                            ok, detail = False, f"half maps after the history do not split the {cnt} current molecules into two disjoint exhaustive parts"
            except Exception as e:  # noqa
                ok, detail = False, f"average_split raised {type(e).__name__}: {e}"
        if not ok:
            ck.violation(what=f"batch average after {hist} is not the count-weighted mean of the tomograms that were added: {detail}",
                         inp={"history": hist, "corner_safe": cs}, key={"site": "batch-history", "auto_id_after_gap": any(h[0] == "filter-out" for h in hist), "corner_safe": cs},
                         oracle="batch_history_average")


CHILD = r"""
import sys, hashlib, numpy as np
from acryo import SubtomogramLoader, Molecules
rng = np.random.default_rng(7)
tomo = rng.normal(size=(20, 20, 20)).astype(np.float32)
n = 12
mol = Molecules(rng.uniform(6, 13, size=(n, 3)), features={"s": [["alpha", "beta", "gamma"][i % 3] for i in range(n)], "k": [i % 3 for i in range(n)]})
ld = SubtomogramLoader(tomo, mol, order=1, output_shape=(4, 4, 4))
out = []
for by in ("s", "k"):
    res = ld.groupby(by).average_split(n_set=2, seed=3)
    for key in sorted(res.keys(), key=str):
        out.append(f"{by}:{key}:" + hashlib.sha1(np.ascontiguousarray(np.asarray(res[key]), dtype=np.float32).tobytes()).hexdigest())
h = ld.average_split(n_set=2, seed=3)
out.append("loader:" + hashlib.sha1(np.ascontiguousarray(np.asarray(h), dtype=np.float32).tobytes()).hexdigest())
print("\n".join(out))
"""


def oracle_reproducible_across_processes(ck):
    """a given seed gives the same split in every interpreter process (string group keys included: str hashes are salted per process)"""
    import subprocess, sys, os
    outs = []
    for hs in ("1", "2"):
        env = dict(os.environ, PYTHONHASHSEED=hs)
        r = subprocess.run([sys.executable, "-c", CHILD], capture_output=True, text=True, env=env, timeout=600)
        outs.append(r.stdout.strip().splitlines() if r.returncode == 0 else [f"child failed: {r.stderr[-300:]}"])
    ck.oracle_count("split_reproducible_across_processes", 1, 1)
    if outs[0] != outs[1] or not outs[0] or outs[0][0].startswith("child failed"):
        diff = [a.split(":")[:2] for a, b in zip(outs[0], outs[1]) if a != b][:4]
        ck.violation(what=f"average_split(seed=3) gives different half maps in two interpreter processes (PYTHONHASHSEED 1 vs 2) for {diff or outs[0][:1]}",
                     inp={"seed": 3, "n_set": 2}, key={"site": "split-reproducibility", "across": "processes"}, oracle="split_reproducible_across_processes")


def oracle_merged_batches(ck, rng):
    """batches merged with from_loaders / add_loader, whose tomograms were registered under the same explicit ids in their own batches (or
    are plain loaders): the average of the merged batch is the count-weighted mean over all the tomograms that went in"""
    from acryo import SubtomogramLoader, BatchLoader, Molecules
    from scipy.spatial.transform import Rotation
    for it in range(3 if ck.tier == "quick" else 12):
        parts, truth = [], []
        for b_ in range(2):
            bl = BatchLoader(order=1, output_shape=(5, 5, 5))
            for j_, iid in enumerate((0, 1) if it % 3 else (3, 0)):
                tomo = rng.normal(size=(15, 15, 15)).astype(np.float32) + 7.0 * (2 * b_ + j_ + 1)
                nm = int(rng.integers(1, 4))
                mol = Molecules(rng.integers(5, 10, size=(nm, 3)).astype(float), Rotation.random(nm, random_state=int(rng.integers(0, 2**31))))
                bl.add_tomogram(tomo, mol, image_id=iid)
                truth.append((tomo, mol))
            parts.append(bl)
        single = SubtomogramLoader(rng.normal(size=(15, 15, 15)).astype(np.float32) - 9.0, Molecules(rng.integers(5, 10, size=(2, 3)).astype(float)), order=1, output_shape=(5, 5, 5))
        truth.append((single.image, single.molecules))
        want = np.zeros((5, 5, 5)); cnt = 0
        for tomo, mol in truth:
            want += np.asarray(SubtomogramLoader(tomo, mol, order=1, output_shape=(5, 5, 5)).average()) * len(mol); cnt += len(mol)
        want /= cnt
        ways = {"from_loaders([a, b, single])": lambda: BatchLoader.from_loaders([parts[0], parts[1], single], order=1, output_shape=(5, 5, 5)),
                "from_loaders([*a.loaders, *b.loaders, single])": lambda: BatchLoader.from_loaders([*parts[0].loaders, *parts[1].loaders, single], order=1, output_shape=(5, 5, 5)),
                "a.copy().add_loader(b).add_loader(single)": lambda: parts[0].copy().add_loader(parts[1]).add_loader(single),
                "single first, then b.loaders[...]": lambda: BatchLoader(order=1, output_shape=(5, 5, 5)).add_loader(single).add_loader(parts[0]).add_loader(parts[1])}
        for how, mk in ways.items():
            ck.oracle_count("merged_batch_average", 1, 1)
            try:
                mg = mk()
                got = np.asarray(mg.average())
                ok = len(mg.molecules) == cnt and len(mg.images) == len(truth) and np.allclose(got, want, atol=1e-4)
                detail = f"{len(mg.molecules)} molecules in {len(mg.images)} tomograms (expected {cnt} in {len(truth)}); max deviation {np.abs(got - want).max():.3f}"
            except Exception as e:  # noqa
                ok, detail = False, f"raised {type(e).__name__}: {e}"
            if not ok:
                ck.violation(what=f"{how}: the average is not the count-weighted mean of the tomograms that were merged: {detail}", inp={"how": how, "iteration": it, "seed": ck.seed},
                             key={"site": "merged-batches", "how": how.split("(")[0]}, oracle="merged_batch_average")


def halves_partition(stack, hs):
    """the two half maps are plain means over two disjoint, jointly exhaustive, non-empty parts of the given sub-volumes (membership
    recovered by least squares: weight 1/k on the k members of a half, 0 elsewhere)"""
    n = len(stack)
    A = np.stack([np.asarray(h_).ravel() for h_ in stack]).T.astype(np.float64)
    if np.linalg.matrix_rank(A) < n:
        return True            # (sub-volumes not independent: membership cannot be read off)
    W, *_ = np.linalg.lstsq(A, np.stack([np.asarray(hs[0]).ravel(), np.asarray(hs[1]).ravel()]).T.astype(np.float64), rcond=None)
    memb = W > 1e-3
    ok = bool(np.all(memb.sum(axis=1) == 1) and memb[:, 0].any() and memb[:, 1].any())
    for h in (0, 1):
        k = int(memb[:, h].sum())
        ok = ok and k > 0 and bool(np.allclose(W[memb[:, h], h], 1.0 / k, atol=1e-3)) and bool(np.allclose(W[~memb[:, h], h], 0.0, atol=1e-3))
    return ok


def oracle_mock_loader(ck, rng):
    """a MockLoader is a loader too: its average is the mean of the sub-volumes it loads (asnumpy, load_iter, load), however often it has
    been used before and at any pixel size; its split halves recombine; its molecules are not changed by loading"""
    from acryo import MockLoader, Molecules
    from scipy.spatial.transform import Rotation
    t = np.zeros((9, 9, 9), np.float32); t[3:6, 2:7, 4:6] = 1.0; t[5, 5, 2:7] = 2.0
    for it in range(3 if ck.tier == "quick" else 12):
        n = int(rng.integers(3, 8))
        scale = [0.5, 2.0, 1.0][it % 3]
        mol = Molecules(rng.normal(size=(n, 3)) * 0.8 * scale, Rotation.random(n, random_state=int(rng.integers(0, 2**31))), features={"g": [j % 2 for j in range(n)]})
        pos0 = np.array(mol.pos, copy=True)
        kw = dict(order=[1, 3][it % 2], scale=scale)
        if it % 2:
            kw.update(degrees=np.linspace(-60, 60, 7), noise=0.0)
        ld = MockLoader(t, mol, **kw)
        info = {"n": n, "scale": scale, "tilt_series": bool(it % 2), "order": kw["order"], "seed": ck.seed}
        bad = []
        try:
            first = np.asarray(ld.asnumpy())
            avg1 = np.asarray(ld.average())
            it_ = np.stack([np.asarray(x) for x in ld.load_iter()])
            avg2 = np.asarray(ld.average())
            one = np.stack([np.asarray(ld.load(i)) for i in range(n)])
            again = np.asarray(ld.asnumpy())
            if not np.allclose(avg1, first.mean(axis=0), atol=1e-5): bad.append("average() is not the mean of asnumpy()")
            if not (np.allclose(it_, first, atol=1e-5) and np.allclose(one, first, atol=1e-5) and np.allclose(again, first, atol=1e-5)):
                bad.append("asnumpy / load_iter / load(i) / a second asnumpy do not return the same sub-volumes")
            if not np.allclose(avg2, avg1, atol=1e-5): bad.append("two successive average() calls differ")
            if not np.array_equal(np.asarray(mol.pos), pos0): bad.append("loading changed the positions of the molecules handed to the loader")
            hs = np.asarray(ld.average_split(n_set=1, seed=1, squeeze=False))[0]
            if n >= 2 and not halves_partition(first, hs):
                bad.append("the two half maps are not the means of two disjoint, exhaustive, non-empty parts of the sub-volumes")
            ga = ld.groupby("g").average()
            for key in ga:
                rows = [j for j in range(n) if j % 2 == key]
                if not np.allclose(np.asarray(ga[key]), first[rows].mean(axis=0), atol=1e-5): bad.append(f"group {key}: average is not the mean of its own molecules' sub-volumes")
        except Exception as e:  # noqa
            bad.append(f"raised {type(e).__name__}: {e}")
        ck.oracle_count("mock_loader_average", 1, 1)
        if bad:
            ck.violation(what="MockLoader: " + "; ".join(bad[:3]), inp=info, key={"site": "mock-loader", "symptom": bad[0][:30]}, oracle="mock_loader_average")


def run(ck: common.Check):
    ck.design_ref = "DESIGN.md §6 C09"
    ck.trusted_base = TB
    ck.partial = ["numpy's seeded Generator.choice is a kernel: reproducibility is checked on the implementation, the PRNG is not modelled",
                  "float32 accumulation of dask.mean is compared with the exact rational mean at relative tolerance 5e-5"]
    a = Anchors(common.REPO)
    anchors(a)
    ck.write_anchors(PID, a)
    ck.build(["C09"], ["C09/Property.v"])
    rng = np.random.default_rng(ck.seed + 909)
    corr_splitter(ck, rng)
    corr_averages(ck, rng)
    oracle_generic(ck, rng)
    oracle_batch_histories(ck, rng)
    oracle_reproducible_across_processes(ck)
    oracle_mock_loader(ck, np.random.default_rng(ck.seed + 9019))
    oracle_merged_batches(ck, np.random.default_rng(ck.seed + 9029))


def replay(data):
    print(json.dumps(data.get("input"), indent=1)[:4000])
    return 0


TB = [
    "Coq 8.16.1 kernel + coqc; vm_compute for Examples and correspondence",
    "axioms: none expected (Q, lists, Permutation); see coverage.assumptions_printed",
    "translator: sample size expression of random_splitter; structural anchors for random_splitter, average, average_split, LoaderGroup.average",
    "assumed kernel laws: dask mean/rechunk/boolean indexing compute the mean of the selected rows whatever the chunking; "
    "numpy Generator(seed).choice is deterministic",
]
