"""C08 — missing-wedge masks follow the tilt geometry."""
from __future__ import annotations
import ast
import json
import numpy as np

import common
from common import zl, ql, bl, lst, zlist, qlist, frac, natl
from translate import Anchors, Untranslatable
from props.C11 import norm
from props.C02 import rot24

PID = "C08"
COPIES = [("tilt", "acryo/tilt/_utils.py", "get_indices", "acryo/tilt/_single.py", "SingleAxis.create_mask"),
          ("backend", "acryo/backend/_missing_wedge.py", "_get_indices", "acryo/backend/_missing_wedge.py", "missing_wedge_mask"),
          ("utils", "acryo/_utils.py", "_get_indices", "acryo/_utils.py", "missing_wedge_mask")]
AB = "acryo/alignment/_base.py"


def anchors(a: Anchors):
    for tagn, f, q, f2, q2 in COPIES:
        a.expr(f"grid_sub_{tagn}", f, q, ("find", lambda n: isinstance(n, ast.AugAssign) and isinstance(n.op, ast.Sub), 0, "ind -= ..."),
               {"s": "Z"}, want="Z", post=lambda n: n.value)

        def shift_kind(fn, src, tagn=tagn):
            t = norm(ast.unparse(fn))
            if "ifftshift(" in t:
                k = "false"
            elif "fftshift(" in t:
                k = "true"
            else:
                raise Untranslatable("no (i)fftshift in the grid function")
            return f"Definition grid_uses_fftshift_{tagn} : bool := {k}."
        a.raw(f"grid_uses_fftshift_{tagn}", f, q, "fftshift or ifftshift", shift_kind)

        def scale_kind(fn, src, tagn=tagn):
            t = norm(ast.unparse(fn))
            if "normal0=rotator_inv.apply(normal0)/shape_vector" in t and "normal1=rotator_inv.apply(normal1)/shape_vector" in t:
                k = "1"
            elif "normal0=rotator_inv.apply(normal0*shape_vector)" in t:
                k = "2"
            else:
                raise Untranslatable("normal scaling expression not recognised")
            ok = all(x in t for x in ["dot0=vectors.dot(", "dot1=vectors.dot(", "missing=dot0*dot1<=0", "rotator_inv=rotator.inv()"])
            if not ok:
                raise Untranslatable("mask predicate changed")
            return f"Definition mask_scaling_{tagn} : Z := {k}%Z.  (* 1: R^-1 n / shape   2: R^-1 (n * shape) *)"
        a.raw(f"mask_scaling_{tagn}", f2, q2, "how the plane normals are scaled by the box shape", scale_kind)

    def tilt_chain(fn, src):
        t = norm(ast.unparse(fn))
        want = ("iftilt_rangeisnotNone:warnings.warn(", "tilt_model=single_axis(tilt_range)", "eliftiltisNone:tilt_model=no_wedge()",
                "elifisinstance(tilt,TiltSeriesModel):tilt_model=tilt", "else:tilt_model=single_axis(tilt)", "self._tilt_model:TiltSeriesModel=tilt_model")
        legacy = all(w in t for w in want)
        overwritten = ("tilt_model=single_axis(tilt_range)iftiltisNone:tilt_model=no_wedge()" in t)
        if not legacy and not overwritten:
            raise Untranslatable("tilt model selection chain not recognised")
        return f"Definition legacy_tilt_range_honoured : bool := {'true' if legacy else 'false'}."
    a.raw("legacy_tilt_range_honoured", AB, "TomographyInput.__init__", "tilt / tilt_range selection chain", tilt_chain)
    TC = "acryo/tilt/core.py"
    a.fact("factories_as_modelled", TC, "", "single_axis: None -> NoWedge, 'y' -> SingleAxisY, 'x' -> SingleAxisX (for every range); dual_axis: union of Y and X",
           lambda tree: (lambda t: "deftilt_range" not in t and
                         "iftilt_rangeisNone:returnNoWedge()ifaxis=='y':returnSingleAxisY(tilt_range)elifaxis=='x':returnSingleAxisX(tilt_range)else:raiseValueError(" in t
                         and t.count("returnNoWedge()") == 2
                         and "returnUnionAxes([SingleAxisY(tilt_range_y),SingleAxisX(tilt_range_x)])" in t)(
               norm("".join(ast.unparse(n) for n in tree.body if isinstance(n, ast.FunctionDef) and not any("overload" in ast.unparse(d) for d in n.decorator_list)))))
    a.fact("union_is_maximum", "acryo/tilt/_base.py", "UnionAxes.create_mask", "reduce(np.maximum, masks)",
           lambda fn: "returnreduce(np.maximum,(w.create_mask(rotator,shape)forwinself._wedges))" in norm(ast.unparse(fn)))
    a.fact("nowedge_is_ones", "acryo/tilt/_base.py", "NoWedge.create_mask", "np.ones(shape)",
           lambda fn: "returnnp.ones(shape,dtype=np.float32)" in norm(ast.unparse(fn)))


# --------------------------------------------------------------------------
def corr_grid(ck, rng):
    from acryo.tilt._utils import get_indices
    from acryo.backend._missing_wedge import _get_indices as bgi
    from acryo._utils import _get_indices as ugi
    from acryo.backend import Backend
    xp = Backend()
    cases = []
    maxs = 7 if ck.tier == "quick" else 11
    for s in range(1, maxs + 1):
        shape = (s, (s % 3) + 1, (2 * s) % 5 + 1)
        for tagn, fn in (("tilt", lambda sh: get_indices(sh)), ("backend", lambda sh: bgi(sh, xp)), ("utils", lambda sh: ugi(sh))):
            g = np.asarray(fn(shape))
            for ax in range(3):
                sl = [0, 0, 0]
                vals = []
                for j in range(shape[ax]):
                    sl[ax] = j
                    vals.append(int(g[tuple(sl)][ax]))
                cases.append((f"(check_grid_{tagn} {zl(shape[ax])} {zlist(vals)})", {"copy": tagn, "size": shape[ax], "impl": vals}))
    ck.corr_run("index_grid", ["AcryoGen.Anchors_C08", "Acryo.C08.Model"], cases, shard=400, observable=True,
                describe=lambda c: {"site": "grid", "copy": c["copy"], "odd": c["size"] % 2 == 1})


def corr_masks(ck, rng):
    """masks of all three entry points for exact rotations, odd/even/non-cubic shapes and several tilt ranges,
    against the exact rational predicate evaluated in Coq (bins within float noise of a plane are skipped)"""
    from acryo.tilt import single_axis, dual_axis, no_wedge
    from acryo.tilt._utils import get_norms_y, get_norms_x
    from acryo.backend import Backend
    from acryo._utils import missing_wedge_mask as umask
    from scipy.spatial.transform import Rotation
    R = rot24()
    xp = Backend()
    cases = []
    n = 40 if ck.tier == "quick" else 500
    classes = {}
    for i in range(n):
        shape = tuple(int(x) for x in rng.integers(1, 6, size=3))
        if i % 3 == 0:
            shape = (shape[0],) * 3
        ri = int(rng.integers(0, 24))
        tr = [(-60.0, 60.0), (-40.0, 50.0), (-70.0, 20.0), (-90.0, 90.0), (10.0, 35.0)][i % 5]
        rot = Rotation.from_matrix(R[ri].astype(float))
        entry = ["tilt-y", "tilt-x", "backend", "utils", "dual"][i % 5]
        if entry == "tilt-y":
            m = single_axis(tr, "y").create_mask(rot, shape); norms = [get_norms_y(tr)]; cp = "tilt"
        elif entry == "tilt-x":
            m = single_axis(tr, "x").create_mask(rot, shape); norms = [get_norms_x(tr)]; cp = "tilt"
        elif entry == "backend":
            m = xp.missing_wedge_mask(rot, tr, shape); norms = [get_norms_y(tr)]; cp = "backend"
        elif entry == "utils":
            m = umask(rot, tr, shape); norms = [get_norms_y(tr)]; cp = "utils"
        else:
            tr2 = (-30.0, 45.0)
            m = dual_axis(tr, tr2).create_mask(rot, shape); norms = [get_norms_y(tr), get_norms_x(tr2)]; cp = "tilt"
        m = np.asarray(m)
        nl = lst(["(" + qlist([frac(float(x)) for x in n0]) + ", " + qlist([frac(float(x)) for x in n1]) + ")" for n0, n1 in norms])
        key = ("cubic" if len(set(shape)) == 1 else "non-cubic") + ("-odd" if any(s % 2 for s in shape) else "-even")
        classes[key] = classes.get(key, 0) + 1
        cases.append((f"(check_mask_{cp} {zlist(list(shape))} {zlist(R[ri].ravel().tolist())} {nl} {lst([bl(bool(b)) for b in m.ravel() > 0])})",
                      {"entry": entry, "shape": shape, "rot": ri, "tilt": tr, "class": key}))
    ck.corr_run("masks", ["AcryoGen.Anchors_C08", "Acryo.C08.Model"], cases, shard=40, observable=True,
                describe=lambda c: {"site": "mask", "entry": c["entry"], "class": c["class"]}, classes=classes)


def oracle_misc(ck, rng):
    from acryo.tilt import single_axis, dual_axis, no_wedge
    from acryo.alignment import ZNCCAlignment
    from scipy.spatial.transform import Rotation
    import warnings
    n = 10 if ck.tier == "quick" else 120
    for i in range(n):
        shape = tuple(int(x) for x in rng.integers(3, 10, size=3))
        rot = Rotation.random(random_state=int(rng.integers(0, 2**31)))
        tr = (float(rng.uniform(-85, -5)), float(rng.uniform(5, 85)))
        if i % 5 == 0:
            tr = (-90.0, tr[1])            # ranges that reach the vertical on one side still have a wedge
        elif i % 5 == 1:
            tr = (tr[0], 90.0)
        ax = "xy"[i % 2]
        m = np.asarray(single_axis(tr, ax).create_mask(rot, shape)) > 0
        # independent float reference from the property text
        ks = [np.fft.fftfreq(s) for s in shape]       # physical frequency = FFT index / box length
        f = np.stack(np.meshgrid(*ks, indexing="ij"), axis=-1)
        Rf = f @ rot.as_matrix().T
        a0, a1 = np.pi - np.radians(tr[0]), np.pi - np.radians(tr[1])
        n0 = np.array([np.cos(a0), 0, np.sin(a0)]) if ax == "y" else np.array([np.cos(a0), np.sin(a0), 0])
        n1 = np.array([np.cos(a1), 0, np.sin(a1)]) if ax == "y" else np.array([np.cos(a1), np.sin(a1), 0])
        d0, d1 = Rf @ n0, Rf @ n1
        ref = d0 * d1 <= 0
        sure = (np.abs(d0) > 1e-5) & (np.abs(d1) > 1e-5)
        bad = int(((m != ref) & sure).sum())
        ck.oracle_count("mask_vs_geometry", 1, 1)
        if bad or not m.flat[0]:
            ck.violation(what=f"{bad} bins differ from the tilt geometry (DC kept: {bool(m.flat[0])})",
                         inp={"shape": shape, "tilt": tr, "axis": ax, "rotvec": rot.as_rotvec().tolist()},
                         key={"site": "geometry", "cubic": len(set(shape)) == 1, "odd": any(s % 2 for s in shape)}, oracle="mask_vs_geometry")
        if all(s % 2 for s in shape):
            img = rng.normal(size=shape)
            back = np.fft.ifftn(np.fft.fftn(img) * m)
            ck.oracle_count("masked_image_is_real", 1, 1)
            if np.abs(back.imag).max() > 1e-9 * max(1.0, np.abs(back.real).max()):
                ck.violation(what="masking the spectrum of a real image gives a complex image (mask not symmetric under k -> -k)",
                             inp={"shape": shape, "tilt": tr, "axis": ax}, key={"site": "hermitian"}, oracle="masked_image_is_real")
    # no wedge, union, entry points of an alignment model
    shape = (5, 6, 7)
    rot = Rotation.random(random_state=7)
    ck.oracle_count("nowedge_union_entry_points", 3, 3)
    if not np.all(np.asarray(no_wedge().create_mask(rot, shape)) == 1):
        ck.violation(what="no_wedge mask is not all ones", inp={}, key={"site": "nowedge"}, oracle="nowedge_union_entry_points")
    d = np.asarray(dual_axis((-50, 40), (-30, 60)).create_mask(rot, shape)) > 0
    u = (np.asarray(single_axis((-50, 40), "y").create_mask(rot, shape)) > 0) | (np.asarray(single_axis((-30, 60), "x").create_mask(rot, shape)) > 0)
    if not np.array_equal(d, u):
        ck.violation(what="dual-axis mask is not the union of its single-axis masks", inp={}, key={"site": "union"}, oracle="nowedge_union_entry_points")
    tmpl = rng.normal(size=shape).astype(np.float32)
    q = rot.as_quat()
    with warnings.catch_warnings():
        warnings.simplefilter("ignore")
        ms = [np.asarray(ZNCCAlignment(tmpl, tilt=(-50, 40)).get_missing_wedge_mask(q)) > 0,
              np.asarray(ZNCCAlignment(tmpl, tilt=single_axis((-50, 40))).get_missing_wedge_mask(q)) > 0,
              np.asarray(ZNCCAlignment(tmpl, tilt_range=(-50, 40)).get_missing_wedge_mask(q)) > 0]
        # the same through the with_params factory (tuple, model object, legacy keyword)
        fac = [("with_params(tilt=tuple)", ZNCCAlignment.with_params(tilt=(-50, 40))(tmpl)),
               ("with_params(tilt=model)", ZNCCAlignment.with_params(tilt=single_axis((-50, 40)))(tmpl)),
               ("with_params(tilt_range=legacy)", ZNCCAlignment.with_params(tilt_range=(-50, 40))(tmpl))]
    for nm_, mdl in fac:
        ck.oracle_count("nowedge_union_entry_points", 1, 1)
        if not np.array_equal(np.asarray(mdl.get_missing_wedge_mask(q)) > 0, ms[0]):
            ck.violation(what=f"tilt range given through {nm_} yields a different mask than the constructor's tuple form", inp={"tilt": [-50, 40], "entry": nm_},
                         key={"site": "entry-points", "which": nm_}, oracle="nowedge_union_entry_points")
    # apply_mask(rotator, spectrum) is the spectrum times create_mask(rotator, shape), for every model kind
    spec_img = np.fft.fftn(rng.normal(size=shape))
    for nm_, mdl_ in (("single-y", single_axis((-50, 40))), ("single-x", single_axis((-35, 60), "x")), ("dual", dual_axis((-50, 40), (-30, 60))), ("none", no_wedge())):
        for rot_ in (rot, Rotation.random(random_state=11), Rotation.identity()):
            ck.oracle_count("apply_mask_is_product", 1, 1)
            got_ = np.asarray(mdl_.apply_mask(rot_, spec_img))
            want_ = spec_img * np.asarray(mdl_.create_mask(rot_, shape))
            if got_.shape != want_.shape or not np.allclose(got_, want_):
                ck.violation(what=f"{nm_}.apply_mask(rotator, img) differs from img * create_mask(rotator, img.shape) in {int((~np.isclose(got_, want_)).sum())} bins",
                             inp={"model": nm_, "rotvec": rot_.as_rotvec().tolist()}, key={"site": "apply_mask"}, oracle="apply_mask_is_product")
    # several models with different tilt specifications, same box, same orientation, asked in turn: each keeps its own mask
    from acryo.alignment import NCCAlignment
    specs = [("y(-50,40)", single_axis((-50, 40))), ("y(-20,20)", single_axis((-20, 20))), ("x(-50,40)", single_axis((-50, 40), "x")),
             ("dual", dual_axis((-50, 40), (-30, 60))), ("none", no_wedge())]
    mods = [(nm_, spec, (ZNCCAlignment if j % 2 else NCCAlignment)(tmpl, tilt=spec)) for j, (nm_, spec) in enumerate(specs)]
    for rnd in range(2):
        for nm_, spec, mdl in (mods if rnd == 0 else mods[::-1]):
            ck.oracle_count("models_keep_their_own_wedge", 1, 1)
            got = np.asarray(mdl.get_missing_wedge_mask(q)) > 0
            want = np.asarray(spec.create_mask(rot, shape)) > 0
            if not np.array_equal(got, want):
                ck.violation(what=f"model with tilt {nm_}, asked after other models for the same orientation and box, returns a mask differing in {int((got != want).sum())} bins "
                                  f"from its own tilt model", inp={"tilt": nm_, "round": rnd}, key={"site": "model-wedge-state"}, oracle="models_keep_their_own_wedge")
    if not (np.array_equal(ms[0], ms[1]) and np.array_equal(ms[0], ms[2])):
        which = "legacy keyword" if np.array_equal(ms[0], ms[1]) else "model object"
        ck.violation(what=f"tilt range given as {which} yields a different mask than the tuple form", inp={"tilt": [-50, 40]},
                     key={"site": "entry-points", "which": which}, oracle="nowedge_union_entry_points")


def oracle_surface(ck, rng):
    """rarely used entry points: argument validation of the tilt models, single_axis(None), the tilt_range attribute, the
    model-level mask_missing_wedge, the backend-level mask (same as the y-axis model), and repeated calls for one (non-cubic) box:
    the mask of a box is a function of (tilt, orientation, shape), not of how many masks were made before"""
    from acryo.tilt import single_axis, dual_axis, no_wedge, NoWedge
    from acryo.alignment import ZNCCAlignment
    from acryo.backend import Backend
    from scipy.spatial.transform import Rotation
    fails = []

    def expect(cond, site, what, inp=None):
        if not cond:
            fails.append((site, what, inp))

    def raises(fn, *exc):
        try:
            fn()
        except exc:
            return True
        except Exception:
            return False
        return False

    try:
        for bad in ((30, 30), (40, -40), (-91, 50), (-50, 95)):
            for ax in "xy":
                expect(raises(lambda: single_axis(bad, ax), ValueError), "validation", f"single_axis({bad}, {ax!r}) accepted", {"tilt": bad})
        expect(raises(lambda: single_axis((-60, 60), "z"), ValueError), "validation", "single_axis(axis='z') accepted", {})
        expect(isinstance(single_axis(None), NoWedge), "validation", "single_axis(None) is not the no-wedge model", {})
        expect(tuple(single_axis((-35.5, 62), "x").tilt_range) == (-35.5, 62), "validation", "tilt_range attribute differs from the given range", {})
        nit = 3 if ck.tier == "quick" else 20
        for it in range(nit):
            shape = tuple(int(x) for x in rng.integers(4, 11, size=3))
            if len(set(shape)) == 1:
                shape = (shape[0], shape[1] + 1, shape[2] + 2)
            tr = (float(rng.integers(-80, -10)), float(rng.integers(10, 80)))
            rots = [Rotation.random(random_state=int(rng.integers(0, 2**31))) for _ in range(3)]
            info = {"shape": shape, "tilt": tr}
            xp = Backend()
            first = {}
            for rnd in range(4):
                for j, r_ in enumerate(rots):
                    for ax in "yx":
                        m_ = np.asarray(single_axis(tr, ax).create_mask(r_, shape)) > 0
                        if (j, ax) in first:
                            expect(np.array_equal(m_, first[(j, ax)]), "repeat", f"call {rnd + 1} for the same tilt, orientation and box differs from the first "
                                   f"({int((m_ != first[(j, ax)]).sum())} bins)", dict(info, axis=ax, call=rnd + 1))
                        else:
                            first[(j, ax)] = m_
                    from acryo._utils import missing_wedge_mask as umask_
                    u_ = np.asarray(umask_(r_, tr, shape)) > 0
                    expect(np.array_equal(u_, first[(j, "y")]), "utils-mask", f"acryo._utils.missing_wedge_mask (call {rnd + 1}) differs from the y-axis tilt model in "
                           f"{int((u_ != first[(j, 'y')]).sum())} bins", dict(info, call=rnd + 1))
                    b_ = np.asarray(xp.asnumpy(xp.missing_wedge_mask(r_, tr, shape))) > 0
                    expect(np.array_equal(b_, first[(j, "y")]), "backend-mask", f"Backend.missing_wedge_mask (call {rnd + 1}) differs from the y-axis tilt model in "
                           f"{int((b_ != first[(j, 'y')]).sum())} bins", dict(info, call=rnd + 1))
            tmpl = rng.normal(size=shape).astype(np.float32)
            mdl = ZNCCAlignment(tmpl, tilt=single_axis(tr))
            ft = np.fft.fftn(rng.normal(size=shape)).astype(np.complex64)
            q = rots[0].as_quat()
            got = np.asarray(mdl.mask_missing_wedge(ft, q))
            expect(np.allclose(got, ft * first[(0, "y")]), "mask-missing-wedge", "model.mask_missing_wedge(ft, quat) is not ft times the wedge mask of that orientation", info)
            du = np.asarray(dual_axis(tr, (tr[0] / 2, tr[1] / 2 + 5)).create_mask(rots[1], shape)) > 0
            un = first[(1, "y")] | (np.asarray(single_axis((tr[0] / 2, tr[1] / 2 + 5), "x").create_mask(rots[1], shape)) > 0)
            expect(np.array_equal(du, un), "dual-union", "dual_axis(range_y, range_x) is not the union of the y model of range_y and the x model of range_x", info)
    except Exception as e:  # noqa
        import traceback
        fails.append(("raised", f"{type(e).__name__}: {e} at {traceback.format_exc().strip().splitlines()[-3].strip()}", {}))
    ck.oracle_count("tilt_surface", 1, 1)
    seen = set()
    for site, what, inp in fails:
        if site in seen:
            continue
        seen.add(site)
        ck.violation(what=what, inp=inp, key={"site": "surface-" + site}, oracle="tilt_surface")


def run(ck: common.Check):
    ck.design_ref = "DESIGN.md §6 C08"
    ck.trusted_base = TB
    ck.partial = ["the plane normals (cos/sin of the tilt angles) are inputs of the model, taken from the code's own get_norms_* as exact rationals",
                  "bin symmetry k -> -k is demanded only away from Nyquist planes (odd shapes), see DESIGN §6 C08"]
    a = Anchors(common.REPO)
    anchors(a)
    ck.write_anchors(PID, a)
    ck.build(["C08"], ["C08/Property.v"])
    rng = np.random.default_rng(ck.seed + 808)
    corr_grid(ck, rng)
    corr_masks(ck, rng)
    oracle_misc(ck, rng)
    oracle_surface(ck, np.random.default_rng(ck.seed + 80808))


def replay(data):
    print(json.dumps(data.get("input"), indent=1)[:4000])
    return 0


TB = [
    "Coq 8.16.1 kernel + coqc; vm_compute for Examples and correspondence",
    "axioms: none expected; see coverage.assumptions_printed",
    "translator: grid subtrahend of the three get_indices copies; structural anchors for fftshift/ifftshift, normal scaling, mask predicate, "
    "TomographyInput tilt selection chain, UnionAxes, NoWedge",
    "assumed kernel laws: numpy fftshift/ifftshift roll by n//2 / -(n//2); Rotation.inv().apply(v) = R^T v; float32 dot products "
    "(bins whose exact |dot| < 1e-4 are skipped and counted)",
]
