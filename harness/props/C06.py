"""C06 — rotation/template search returns the best candidate, correctly labelled."""
from __future__ import annotations
import ast
import json
import numpy as np

import common
from common import zl, ql, bl, lst, zlist, qlist, frac
from translate import Anchors, Untranslatable, ExprTr
from props.C11 import norm

PID = "C06"
AB = "acryo/alignment/_base.py"
LB = "acryo/loader/_base.py"
LG = "acryo/loader/_group.py"


def _if_to_expr(var):
    """turn `if c: var = a else: var = b` into the IfExp c ? a : b (fail closed)"""
    def post(n):
        if not (isinstance(n, ast.If) and len(n.body) == 1 and len(n.orelse) == 1):
            raise Untranslatable("if/else shape changed")
        a, b = n.body[0], n.orelse[0]
        if not (isinstance(a, ast.Assign) and isinstance(b, ast.Assign) and ast.unparse(a.targets[0]) == var
                and ast.unparse(b.targets[0]) == var):
            raise Untranslatable("if/else no longer assigns " + var)
        return ast.IfExp(test=n.test, body=a.value, orelse=b.value)
    return post


def _is_if_assigning(var):
    return lambda n: isinstance(n, ast.If) and any(isinstance(s, ast.Assign) and ast.unparse(s.targets[0]) == var for s in n.body)


def anchors(a: Anchors):
    RT = "acryo/_rotation.py"
    a.expr("rot_n", RT, "_seq_of_max_and_step_to_quat", ("assign", "n"), {"max_rot": "Q", "step": "Q"}, want="Z")
    a.fact("rot_linspace_as_modelled", RT, "_seq_of_max_and_step_to_quat", "step == 0 -> zeros(1); else linspace(-n*step, n*step, 2n+1); product over axes in order",
           lambda fn: (lambda t: "ifstep==0:angles.append(np.zeros(1))else:n=int(max_rot/step)angles.append(np.linspace(-n*step,n*step,2*n+1))" in t
                       and "forangsinitertools.product(*angles):" in t and "formax_rot,stepin_rotations:" in t)(norm(ast.unparse(fn))))
    sub = lambda n: isinstance(n, ast.Subscript) and ast.unparse(n.value) == "self.quaternions"
    a.expr("align_quat_index", AB, "RotationImplemented.align", ("find", sub, 0, "self.quaternions[...] index"),
           {"iopt": "Z", "T": "Z", "K": "Z"}, env={"self._n_templates": ("T", "Z"), "self._n_rotations": ("K", "Z")},
           want="Z", post=lambda n: n.slice)
    a.expr("fit_task_quat_index", AB, "RotationImplemented.fit", ("find", sub, 0, "quaternion of candidate i"),
           {"i": "Z", "ntmp": "Z"}, want="Z", post=lambda n: n.slice)
    a.expr("fit_result_quat_index", AB, "RotationImplemented.fit", ("find", sub, 1, "quaternion of the winner"),
           {"iopt": "Z", "ntmp": "Z"}, want="Z", post=lambda n: n.slice)
    a.expr("fit_result_label", AB, "RotationImplemented.fit",
           ("find", lambda n: isinstance(n, ast.keyword) and n.arg == "label", 0, "label="), {"iopt": "Z", "ntmp": "Z"},
           want="Z", post=lambda n: n.value)
    a.expr("has_rotation", AB, "RotationImplemented.has_rotation", ("return", 0), {"K": "Z"},
           env={"self._n_rotations": ("K", "Z")}, want="B")
    a.expr("is_multiple", AB, "RotationImplemented._is_multiple", ("return", 0), {"T": "Z", "K": "Z"},
           env={"self._n_templates": ("T", "Z"), "self._n_rotations": ("K", "Z")}, want="B")
    a.expr("niter", AB, "RotationImplemented.niter", ("return", 0), {"T": "Z", "K": "Z"},
           env={"self._n_templates": ("T", "Z"), "self._n_rotations": ("K", "Z")}, want="Z")
    a.expr("loader_remainder", LB, "LoaderBase.align_multi_templates", ("find", _is_if_assigning("remainder"), 0, "remainder"),
           {"K": "Z", "T": "Z"}, env={"isinstance(model, RotationImplemented)": ("true", "B"),
                                      "model._n_rotations": ("K", "Z"), "len(_templates)": ("T", "Z")},
           want="Z", post=_if_to_expr("remainder"))

    def post_label(n):
        if not (isinstance(n, ast.If) and len(n.body) == 1 and not n.orelse and isinstance(n.body[0], ast.AugAssign)
                and isinstance(n.body[0].op, ast.Mod)):
            raise Untranslatable("labels %= remainder guard changed")
        aug = n.body[0]
        return ast.IfExp(test=n.test, body=ast.BinOp(left=aug.target, op=ast.Mod(), right=aug.value), orelse=aug.target)
    a.expr("post_label", LB, "LoaderBase._post_align_multi_templates",
           ("find", lambda n: isinstance(n, ast.If) and "labels" in ast.unparse(n.body[0]), 0, "labels %= remainder"),
           {"labels": "Z", "remainder": "Z"}, want="Z", post=post_label)
    def cast_after(fn):
        body = fn.body
        idx_mod = [i for i, st in enumerate(body) if isinstance(st, ast.If) and "labels %= remainder" in ast.unparse(st)]
        idx_cast = [i for i, st in enumerate(body) if isinstance(st, ast.Assign) and norm(ast.unparse(st)) == "labels=labels.astype(np.uint8)"]
        idx_init = [i for i, st in enumerate(body) if isinstance(st, ast.Assign) and norm(ast.unparse(st)) == "labels=np.zeros(len(results),dtype=np.uint32)"]
        return len(idx_mod) == 1 and len(idx_cast) == 1 and len(idx_init) == 1 and idx_cast[0] > idx_mod[0]
    a.fact("label_cast_after_modulo", LB, "LoaderBase._post_align_multi_templates", "uint32 labels; %= remainder; then astype(uint8)", cast_after)
    a.expr("group_remainder", LG, "LoaderGroup.align_multi_templates",
           ("find", lambda n: isinstance(n, ast.Call) and ast.unparse(n.func) == "remainders.append", 0, "remainders.append"),
           {"hasrot": "B", "T": "Z"}, env={"len(_tmps)": ("T", "Z"), "model.has_rotation": ("hasrot", "B")},
           want="Z", post=lambda n: n.args[0])

    # structural: candidate generation is rotation-major, template-minor
    def nesting(fn):
        for n in ast.walk(fn):
            if isinstance(n, ast.For) and ast.unparse(n.iter) == "matrices":
                inner = [m for m in ast.walk(n) if isinstance(m, ast.For) and m is not n]
                if inner and ast.unparse(inner[0].iter) == "inputs_templates" and ast.unparse(n.target) == "mat":
                    return True
        return False
    a.fact("candidates_rotation_major", AB, "RotationImplemented._get_template_and_mask_input",
           "for mat in matrices: for tmp in inputs_templates", nesting)
    # which rotation's mask does candidate i get?  (masks appended inside the rotation loop, one per template -> i // T;
    # one per rotation and then repeated as a block -> i mod K)
    def mask_layout(fn, src):
        t = norm(ast.unparse(fn))
        if "formatinmatrices:fortmpininputs_templates:pool_template.add_task(" in t and "pool_mask.add_tasks(ntmp,self._mask,mat," in t \
                and t.index("formatinmatrices:fortmpininputs_templates:") < t.index("pool_mask.add_tasks(ntmp,self._mask,mat,") \
                and "mask_input=xp.stack(_masks,axis=0)" in t and t.count("pool_mask.add_task") == 2:
            return "Definition mask_rot_index (i T K : Z) : Z := (i / T)%Z."
        raise Untranslatable("mask construction of the rotation branch not recognised")
    a.raw("mask_rot_index", AB, "RotationImplemented._get_template_and_mask_input", "rotation whose mask candidate i is scored under", mask_layout)
    a.fact("multiple_pairs_template_with_mask", AB, "BaseAlignmentModel._optimize_multiple", "for template, mask in zip(template_list, mask_list): pre_transform(subvolume * mask)",
           lambda fn: (lambda t: "fortemplate,maskinzip(template_list,mask_list):" in t and "self.pre_transform(subvolume*mask,backend)" in t)(norm(ast.unparse(fn))))
    a.fact("landscape_pairs_template_with_mask", AB, "BaseAlignmentModel._landscape_multiple", "same pairing in the landscape",
           lambda fn: (lambda t: "fortemplate,maskinzip(template_list,mask_list):" in t and "self.pre_transform(subvolume*mask,backend)" in t)(norm(ast.unparse(fn))))
    a.fact("optimize_multiple_uses_argmax", AB, "BaseAlignmentModel._optimize_multiple", "iopt = int(np.argmax(all_score))",
           lambda fn: any(isinstance(n, ast.Assign) and ast.unparse(n.targets[0]) == "iopt"
                          and ast.unparse(n.value) == "int(np.argmax(all_score))" for n in ast.walk(fn))
           and "AlignmentResult(iopt, all_shifts[iopt], all_quat[iopt], all_score[iopt])" in ast.unparse(fn))


# --------------------------------------------------------------------------
def make_stub():
    from acryo.alignment import RotationImplemented

    class Scripted(RotationImplemented):
        script = None      # dict: molecule id -> list of scores per candidate

        def pre_transform(self, image, backend):
            return image

        def _cand_index(self, template):
            tpl, _ = self._get_template_and_mask_input()
            if tpl.ndim == 3:
                return 0
            for i in range(tpl.shape[0]):
                if np.array_equal(tpl[i], template):
                    return i
            raise RuntimeError("candidate not found")

        pairing_errors = []     # (where, candidate) whenever a candidate is evaluated on a sub-volume masked with another candidate's mask

        expected_masks = None   # per candidate, set by the harness from an independent source (a one-template model: rotation order only)

        def _pair(self, subvolume, i, where):
            if Scripted.expected_masks is not None:
                want = np.asarray(Scripted.expected_masks[i])
            else:
                tpl, msk = self._get_template_and_mask_input()
                msk = np.asarray(msk)
                if msk.ndim != 4:
                    return
                want = msk[i]
            sv = np.asarray(subvolume, dtype=np.float64)
            if sv.max() <= 0 or want.max() <= 0 or not np.allclose(sv / sv.max(), want / want.max(), atol=1e-3):
                Scripted.pairing_errors.append((where, int(i)))

        def _landscape(self, subvolume, template, max_shifts, quaternion, pos, backend):
            i = self._cand_index(template)
            self._pair(subvolume, i, "landscape")
            out = np.zeros((3, 3, 3), dtype=np.float32)
            out[1, 1, 1] = float(i)
            return out

        def _optimize(self, subvolume, template, max_shifts, quaternion, pos, backend):
            i = self._cand_index(template)
            self._pair(subvolume, i, "align")
            mid = int(round(float(np.asarray(subvolume).max()))) - 1
            sc = self.script[mid][i]
            return np.array([i, mid, 0], dtype=np.float32) * 0.01, self._DUMMY_QUAT, sc

        def _score(self, *a, **k):
            return 0.0
    return Scripted


def rot_set(K, rng):
    from scipy.spatial.transform import Rotation
    from props.C02 import rot24
    R = rot24()
    idx = rng.choice(24, size=K, replace=False)
    return Rotation.from_matrix(np.stack([R[i] for i in idx]).astype(float))


def corr_scripted(ck, rng):
    Stub = make_stub()
    cases = []
    maxT, maxK = (4, 4) if ck.tier == "quick" else (6, 6)
    classes = {}
    reps = 2 if ck.tier == "quick" else 6
    for T in range(1, maxT + 1):
        for K in range(1, maxK + 1):
            for rep in range(reps):
                tmpls = [rng.normal(size=(3, 3, 3)).astype(np.float32) for _ in range(T)]
                rots = rot_set(K, rng) if K > 1 else None
                n = T * K
                # scores with ties and distinct maxima positions
                sc = [float(x) for x in rng.integers(0, 6, size=n)]
                if rep % 2 == 0:
                    sc[int(rng.integers(0, n))] = 9.0
                Stub.script = {0: sc}
                # an explicit mask without symmetry: every searched rotation has its own (rotated) mask
                mask = None
                if rep % 2 == 1 or K > 1:
                    mask = np.zeros((3, 3, 3), dtype=np.float32)
                    mask[1, 1, 1] = mask[0, 1, 1] = mask[0, 0, 1] = mask[0, 0, 2] = 1.0
                model = Stub(tmpls if T > 1 else tmpls[0], mask, rotations=rots)
                img = np.ones((3, 3, 3), dtype=np.float32)
                Stub.pairing_errors.clear()
                Stub.expected_masks = None
                if mask is not None and K > 1:
                    # candidate k*T + j must see the mask rotated by rotation k: rotated masks taken from a one-template model
                    ref_masks = np.asarray(Stub(tmpls[0], mask, rotations=rots)._get_template_and_mask_input()[1])
                    Stub.expected_masks = [ref_masks[c_ // T] for c_ in range(T * K)]
                res = model.align(img, (1, 1, 1))
                # fit() searches the same candidates in parallel and decodes the winner itself
                _, resf = model.fit(img, (1, 1, 1))
                Stub.expected_masks = None
                qf = np.asarray(model.quaternions)
                qif = [i_ for i_ in range(len(qf)) if np.allclose(qf[i_], resf.quat)]
                winf = int(np.argmax(sc))
                ck.oracle_count("scripted_winner_identity", 1, 1)
                if (int(resf.label), qif[0] if qif else -1) != (winf % T, winf // T) or abs(float(resf.score) - sc[winf]) > 1e-6:
                    ck.violation(what=f"model.fit: best candidate is (template {winf % T}, rotation #{winf // T}) but fit reports (label {int(resf.label)}, "
                                      f"rotation #{qif[0] if qif else -1}, score {float(resf.score)})", inp={"T": T, "K": K, "scores": sc},
                                 key={"site": "model.fit-scripted", "T>1": T > 1, "K>1": K > 1}, oracle="scripted_winner_identity")
                ck.oracle_count("candidate_uses_own_mask", 1, 1 if (mask is not None and K > 1) else 0)
                if Stub.pairing_errors:
                    ck.violation(what=f"model.align: candidates {sorted(set(i_ for _, i_ in Stub.pairing_errors))} were scored on a sub-volume masked with another candidate's mask",
                                 inp={"T": T, "K": K, "mask": mask.ravel().tolist()}, key={"site": "model.align", "symptom": "mask-pairing", "K>1": K > 1},
                                 oracle="candidate_uses_own_mask")
                q = np.asarray(model.quaternions)
                qi = [i for i in range(len(q)) if np.allclose(q[i], res.quat)]
                got = [int(res.label), qi[0] if qi else -1, int(round(float(res.shift[0]) * 100)), frac(float(res.score))]
                win = int(np.argmax(sc))
                ck.oracle_count("scripted_winner_identity", 1, 1)
                if (got[0], got[1]) != (win, win // T) or abs(float(got[3]) - sc[win]) > 1e-6:
                    ck.violation(what=f"model.align: best candidate has flat index {win} (rotation #{win // T}) but the result reports label {got[0]}, rotation #{got[1]}",
                                 inp={"T": T, "K": K, "scores": sc}, key={"site": "model.align", "T>1": T > 1, "K>1": K > 1}, oracle="scripted_winner_identity")
                classes[f"T{'>' if T>1 else '='}1,K{'>' if K>1 else '='}1"] = classes.get(f"T{'>' if T>1 else '='}1,K{'>' if K>1 else '='}1", 0) + 1
                cases.append((f"(check_align {zl(T)} {zl(K)} {qlist([frac(s) for s in sc])} {zl(got[0])} {zl(got[1])} {zl(got[2])} {ql(got[3])})",
                              {"T": T, "K": K, "scores": sc, "impl": [got[0], got[1], got[2], float(got[3])], "level": "model.align"}))
    ck.corr_run("scripted_align", ["AcryoGen.Anchors_C06", "Acryo.C06.Model"], cases, shard=500, observable=True,
                describe=lambda c: {"site": "model.align", "T>1": c["T"] > 1, "K>1": c["K"] > 1}, classes=classes)


def corr_loader(ck, rng):
    """loader.align_multi_templates and LoaderGroup.align_multi_templates with scripted scores:
    the label feature, score feature and rotation feature of every molecule against the model.
    Includes per-group template lists of different lengths and a search with more than 256 candidates."""
    from acryo import SubtomogramLoader, Molecules
    from scipy.spatial.transform import Rotation
    Stub = make_stub()
    cases = []
    combos = [(2, 1, None), (2, 3, None), (3, 2, None), (1, 3, None), (3, 89, "big")] if ck.tier == "quick" else \
             [(t, k, None) for t in range(1, 5) for k in range(1, 5)] + [(3, 89, "big"), (5, 61, "big")]
    for (T, K, tag) in combos:
        if T == 1 and K == 1:
            continue
        nm = 4
        tomo = np.zeros((12, 12, 12 * nm), dtype=np.float32)
        pos = []
        for p in range(nm):
            tomo[:, :, 12 * p:12 * (p + 1)] = p + 1
            pos.append([6, 6, 12 * p + 6])
        feat = {"grp": ["a", "b", "a", "b"]}
        mol = Molecules(np.array(pos, dtype=np.float32), features=feat)
        ld = SubtomogramLoader(tomo, mol, order=0, output_shape=(3, 3, 3))
        tmpls = [rng.normal(size=(3, 3, 3)).astype(np.float32) for _ in range(T)]
        if tag == "big":
            half = (K - 1) // 2
            rots = ((half, 1), (0, 0), (0, 0))
            kw = dict(rotations=rots)
        else:
            rots = rot_set(K, rng) if K > 1 else None
            kw = dict(rotations=rots) if rots is not None else {}
        vias = ["loader"] if tag == "big" else ["loader", "loader-align-list", "loader-factory", "group", "group-mapping", "group-hetero"]
        for via in vias:
            if T == 1 and via != "loader":
                continue
            # number of templates seen by each molecule's group
            if via == "group-hetero":
                if T < 2:
                    continue
                Tg = {"a": T, "b": T - 1}
            else:
                Tg = {"a": T, "b": T}
            Tp = [Tg[feat["grp"][p]] for p in range(nm)]
            script = {}
            for p in range(nm):
                n = Tp[p] * K
                sc = [float(x) for x in rng.permutation(n)]
                if tag == "big":
                    hi = int(rng.integers(256, n))       # the winner has a flat index >= 256
                    sc[hi] = float(n + 5)
                script[p] = sc
            Stub.script = script
            try:
                if via == "loader":
                    if T == 1:
                        out = ld.align(tmpls[0], max_shifts=1.0, alignment_model=Stub, **kw)
                    else:
                        out = ld.align_multi_templates(tmpls, max_shifts=1.0, alignment_model=Stub, **kw)
                    rows = [(out.molecules, [0, 1, 2, 3])]
                elif via == "loader-factory":
                    # the rotation search is configured on the model factory (with_params), not passed as a loader keyword
                    if T == 1 or not kw:
                        continue
                    out = ld.align_multi_templates(tmpls, max_shifts=1.0, alignment_model=Stub.with_params(**kw))
                    rows = [(out.molecules, [0, 1, 2, 3])]
                elif via == "loader-align-list":
                    # align() given several templates hands over to the multi-template search with all its options
                    out = ld.align(tmpls if rng.random() < 0.5 else np.stack(tmpls), max_shifts=1.0, alignment_model=Stub, **kw)
                    rows = [(out.molecules, [0, 1, 2, 3])]
                else:
                    grp = ld.groupby("grp")
                    if via == "group":
                        tm = tmpls
                    else:
                        tm = {k: tmpls[:Tg[k]] for k in grp.keys}
                    out = grp.align_multi_templates(tm, max_shifts=1.0, alignment_model=Stub, **kw)
                    rows = []
                    for key, l2 in out:
                        ids = [i for i in range(nm) if feat["grp"][i] == key]
                        rows.append((l2.molecules, ids))
            except Exception as e:  # noqa
                ck.violation(what=f"{via}.align_multi_templates raised {type(e).__name__}: {e}", inp={"T": T, "K": K, "via": via},
                             key={"site": via, "symptom": "raised"}, oracle="corr:scripted_loader")
                continue
            quats = Rotation.from_quat(np.asarray(Stub(tmpls if T > 1 else tmpls[0], **kw).quaternions))
            qm = quats.as_matrix()
            for mols, ids in rows:
                f = mols.features
                for r, p in enumerate(ids):
                    lab = int(f["labels"][r]) if "labels" in f.columns else 0
                    sc = float(f["score"][r])
                    rv = np.array([f["align-dzrot"][r], f["align-dyrot"][r], f["align-dxrot"][r]], dtype=float)
                    M = Rotation.from_rotvec(rv).as_matrix()
                    hit = np.where(np.abs(qm - M).reshape(len(qm), -1).max(axis=1) < 2e-3)[0]
                    qi = int(hit[0]) if len(hit) else -1
                    # implementation-only oracle: candidates are (rotation-major, template-minor), so the winner's identity is known
                    win = int(np.argmax(script[p]))
                    want_lab, want_rot = (win % Tp[p], win // Tp[p])
                    ck.oracle_count("scripted_winner_identity", 1, 1)
                    if (lab, qi) != (want_lab, want_rot) or abs(sc - script[p][win]) > 1e-6:
                        ck.violation(what=f"{via}: best candidate is (template {want_lab}, rotation #{want_rot}, score {script[p][win]}) but the result "
                                          f"reports (label {lab}, rotation #{qi}, score {sc})",
                                     inp={"T": Tp[p], "K": K, "via": via, "molecule": p, "scores": script[p], "winner_flat_index": win},
                                     key={"site": via, "T>1": Tp[p] > 1, "K>1": K > 1, "winner>=256": win >= 256}, oracle="scripted_winner_identity")
                    cases.append((f"(check_loader {zl(Tp[p])} {zl(K)} {qlist([frac(s_) for s_ in script[p]])} {zl(lab)} {zl(qi)} {ql(frac(sc))})",
                                  {"T": Tp[p], "K": K, "via": via, "molecule": p, "winner": int(np.argmax(script[p])), "impl": [lab, qi, sc]}))
    ck.corr_run("scripted_loader", ["AcryoGen.Anchors_C06", "Acryo.C06.Model"], cases, shard=60, observable=True,
                describe=lambda c: {"site": c["via"], "T>1": c["T"] > 1, "K>1": c["K"] > 1, "winner>=256": c["winner"] >= 256})


def oracle_real(ck, rng):
    """sub-volume = template j rotated by searched q_k (exact 90-degree rotations), real ZNCC/NCC/PCC scores:
    must report (j, q_k).  Also exercises fit()."""
    from acryo.alignment import ZNCCAlignment, NCCAlignment, PCCAlignment
    from scipy.spatial.transform import Rotation
    from scipy import ndimage as ndi
    from acryo._utils import compose_matrices
    n = 8 if ck.tier == "quick" else 60
    for it in range(n):
        T = int(rng.integers(1, 4))
        K = int(rng.integers(2, 5)) if it % 3 else 1
        if T == 1 and K == 1:
            T = 2
        M = [ZNCCAlignment, NCCAlignment, PCCAlignment][it % 3]
        tmpls = [ndi.gaussian_filter(rng.normal(size=(9, 9, 9)), 1.0).astype(np.float32) for _ in range(T)]
        rots = rot_set(K, rng) if K > 1 else None
        model = M(tmpls if T > 1 else tmpls[0], rotations=rots) if rots is not None else M(tmpls if T > 1 else tmpls[0])
        quats = np.asarray(model.quaternions)
        j = int(rng.integers(0, T))
        k = int(rng.integers(0, K))
        # image such that rotating the template by q_k reproduces it: img = T_j o R_k^-1 (same construction the model uses)
        mtx = compose_matrices(np.array([4.0, 4.0, 4.0]), [Rotation.from_quat(quats[k]).inv()])[0]
        img = ndi.affine_transform(tmpls[j], mtx, order=1, mode="constant", cval=float(np.percentile(tmpls[j], 1)))
        c = dict(T=T, K=K, j=j, k=k, model=M.__name__, it=it, seed=ck.seed)
        res = model.align(img.astype(np.float32), (1.0, 1.0, 1.0))
        ok = True
        detail = ""
        lab = int(res.label) % T if K > 1 else int(res.label)
        if lab != j:
            ok, detail = False, f"label {lab} != template {j}"
        if not np.allclose(Rotation.from_quat(res.quat).as_matrix(), Rotation.from_quat(quats[k]).as_matrix(), atol=1e-4):
            ok, detail = False, detail + f" reported rotation is not searched rotation #{k}"
        if np.abs(res.shift).max() > 0.11:
            ok, detail = False, detail + f" shift {res.shift}"
        ck.oracle_count("real_scores_identify_candidate", 1, 1)
        if not ok:
            ck.violation(what=f"{M.__name__}.align: {detail}", inp=c, key={"site": "model.align-real", "T>1": T > 1, "K>1": K > 1},
                         oracle="real_scores_identify_candidate", measured=detail)
        # fit()
        _, res2 = model.fit(img.astype(np.float32), (1.0, 1.0, 1.0))
        ok2 = int(res2.label) == j and np.allclose(Rotation.from_quat(res2.quat).as_matrix(),
                                                   Rotation.from_quat(quats[k]).as_matrix(), atol=1e-4)
        ck.oracle_count("fit_identifies_candidate", 1, 1)
        if not ok2:
            ck.violation(what=f"{M.__name__}.fit reported label {int(res2.label)} / wrong rotation for candidate (j={j},k={k})",
                         inp=c, key={"site": "model.fit", "T>1": T > 1, "K>1": K > 1}, oracle="fit_identifies_candidate")

    # displaced copies of template j with a fractional search range and a displacement beyond its integer part: label j, shift d
    from props.C04 import displaced, smooth_template
    for it in range(4 if ck.tier == "quick" else 30):
        T = int(rng.integers(2, 4))
        M = [ZNCCAlignment, NCCAlignment, PCCAlignment][it % 3]
        tmpls = [smooth_template(rng, (16, 16, 16)) for _ in range(T)]
        # equal-energy templates: the un-normalised PCC score of a copy of template j is then largest for template j (Cauchy-Schwarz)
        tmpls = [(t_ * (100.0 / float(np.linalg.norm(t_)))).astype(np.float32) for t_ in tmpls]
        if it % 3 != 2 and it % 2:
            # ZNCC / NCC: templates on a common grey level with different contrasts (the normalised scores do not care)
            tmpls = [(4.0 + t_ * float(c_)).astype(np.float32) for t_, c_ in zip(tmpls, (1.0, 0.35, 2.5))]
        j = int(rng.integers(0, T))
        m = float(rng.choice([2.5, 2.4, 1.6]))
        d = np.round(rng.uniform(-1, 1, size=3) * 20) / 20
        ax = int(rng.integers(0, 3))
        d[ax] = float(rng.choice([-1, 1])) * (np.floor(m) + float(rng.choice([0.3, 0.35, 0.4])))
        img = displaced(tmpls[j], d)
        rots = None       # (blob templates are nearly symmetric: a 20-degree candidate scores within interpolation error of the true one)
        model = M(tmpls, rotations=rots) if rots else M(tmpls)
        res = model.align(img, (m, m, m))
        lab = int(res.label) % T
        err = float(np.abs(np.asarray(res.shift, float) - d).max())
        ident = np.allclose(np.abs(res.quat), [0, 0, 0, 1], atol=1e-6)
        ck.oracle_count("displaced_template_identified", 1, 1)
        if lab != j or err > 0.1 + 1e-6 or not ident:
            try:
                cand = [round(float(l_.max()), 4) for l_ in np.asarray(model.landscape(img, (m, m, m)))]
            except Exception:  # noqa
                cand = None
            ck.violation(what=f"{M.__name__}.align with {T} templates, max_shifts {m}: displaced copy of template {j} (d = {d.tolist()}) reported as template {lab}, "
                              f"shift {np.round(res.shift, 3).tolist()}, quaternion {np.round(res.quat, 3).tolist()}, score {float(res.score):.4f}; landscape maxima per candidate {cand}",
                         inp={"T": T, "j": j, "max_shifts": m, "d": d.tolist(), "model": M.__name__, "rotations": rots, "seed": ck.seed, "it": it},
                         key={"site": "model.align-displaced", "model": M.__name__}, oracle="displaced_template_identified")

    # non-cubic boxes, several searched rotations, rotated and displaced copies made with scipy only (about the box centre (n - 1) / 2):
    # the candidate, the rotation and the displacement are reported
    for it in range(3 if ck.tier == "quick" else 20):
        shape = [(12, 14, 16), (16, 12, 14), (13, 16, 11)][it % 3]
        M = [ZNCCAlignment, NCCAlignment, PCCAlignment][it % 3]
        zz, yy, xx = np.indices(shape).astype(np.float64)
        cen = (np.array(shape) - 1) / 2
        t = np.zeros(shape)
        for b_ in range(6):
            p_ = cen + rng.uniform(-3, 3, size=3)
            t += float(rng.uniform(0.6, 1.5)) * np.exp(-((zz - p_[0]) ** 2 + (yy - p_[1]) ** 2 + (xx - p_[2]) ** 2) / (2 * 1.2 ** 2))
        t = t.astype(np.float32)
        axis_ = it % 3
        rr = [(0, 0), (0, 0), (0, 0)]; rr[axis_] = (90, 90)
        model = M(t, rotations=tuple(rr))
        quats = np.asarray(model.quaternions)
        k = [0, 2, 1][it % 3] if len(quats) == 3 else 0
        d = np.array([float(rng.integers(-1, 2)), float(rng.integers(-1, 2)), float(rng.integers(-1, 2))])
        Rk = Rotation.from_quat(quats[k]).as_matrix()
        # img(x) = template(Rk^-1 (x - c - d) + c): the template rotated by candidate k about the centre, then displaced by d
        coords = np.stack([zz, yy, xx], axis=0).reshape(3, -1) - (cen + d)[:, None]
        src = Rk.T @ coords + cen[:, None]
        img = ndi.map_coordinates(t, src, order=1, mode="constant", cval=0.0).reshape(shape).astype(np.float32)
        res = model.align(img, (2.0, 2.0, 2.0))
        okq = np.allclose(Rotation.from_quat(res.quat).as_matrix(), Rk, atol=1e-4)
        err = float(np.abs(np.asarray(res.shift, float) - d).max())
        ck.oracle_count("noncubic_rotated_copy", 1, 1)
        if not okq or err > 0.3:
            ck.violation(what=f"{M.__name__}.align, box {shape}, rotations {tuple(rr)}: copy rotated by candidate {k} and displaced by {d.tolist()} reported with "
                              f"quaternion {np.round(res.quat, 3).tolist()} (candidate {k}: {np.round(quats[k], 3).tolist()}), shift {np.round(res.shift, 2).tolist()}",
                         inp={"shape": list(shape), "rotations": [list(x) for x in rr], "k": k, "d": d.tolist(), "model": M.__name__, "seed": ck.seed, "it": it},
                         key={"site": "model.align-noncubic-rotation", "model": M.__name__}, oracle="noncubic_rotated_copy")


def oracle_templates_from_files(ck, rng):
    """templates handed over as files (pipe.from_files), in the caller's order - which is not the alphabetical one: the label of a particle made
    from the j-th file is j, through loader.align_multi_templates, loader.align and the group"""
    import os, tempfile, shutil, mrcfile
    from acryo import SubtomogramLoader, Molecules, pipe
    from acryo.alignment import ZNCCAlignment
    from scipy import ndimage as ndi
    dtmp = tempfile.mkdtemp(prefix="c06", dir=common.WORKROOT)
    try:
        names = ["template_2.mrc", "template_10.mrc", "template_1.mrc"]
        tl = [ndi.gaussian_filter(rng.normal(size=(9, 9, 9)), 1.0).astype(np.float32) for _ in names]
        paths = []
        for nm_, t_ in zip(names, tl):
            pth = os.path.join(dtmp, nm_)
            with mrcfile.new(pth, overwrite=True) as fh:
                fh.set_data(t_); fh.voxel_size = 10.0
            paths.append(pth)
        tomo = rng.normal(scale=0.02, size=(24, 24, 80)).astype(np.float32)
        order_ = [2, 0, 1, 1, 0, 2]
        pos = []
        for i_, j_ in enumerate(order_):
            c = (12, 12, 8 + 13 * i_)
            tomo[c[0] - 4:c[0] + 5, c[1] - 4:c[1] + 5, c[2] - 4:c[2] + 5] += tl[j_]
            pos.append(c)
        ld = SubtomogramLoader(tomo, Molecules(np.array(pos, dtype=float), features={"g": [0, 0, 0, 1, 1, 1]}), order=1, scale=1.0, output_shape=(9, 9, 9))
        prov = pipe.from_files(paths)
        runs = {"align_multi_templates(from_files)": lambda: ld.align_multi_templates(prov, max_shifts=1.0, alignment_model=ZNCCAlignment).molecules.features["labels"].to_list(),
                "align(from_files)": lambda: ld.align(prov, max_shifts=1.0, alignment_model=ZNCCAlignment).molecules.features["labels"].to_list(),
                "groupby.align_multi_templates(list(from_files(...)(scale)))": lambda: [x for _, sub in ld.groupby("g").align_multi_templates(list(prov(1.0)), max_shifts=1.0, alignment_model=ZNCCAlignment)
                                                                      for x in sub.molecules.features["labels"].to_list()],
                "align_multi_templates(list of arrays)": lambda: ld.align_multi_templates(tl, max_shifts=1.0, alignment_model=ZNCCAlignment).molecules.features["labels"].to_list()}
        for how, fn in runs.items():
            ck.oracle_count("templates_from_files", 1, 1)
            try:
                got = [int(x) for x in fn()]
                bad = None if got == order_ else f"labels {got} for particles made from files number {order_} of {names}"
            except Exception as e:  # noqa
                bad = f"raised {type(e).__name__}: {e}"
            if bad:
                ck.violation(what=f"{how}: {bad}", inp={"files": names, "made_from": order_}, key={"site": "templates-from-files", "how": how.split("(")[0]}, oracle="templates_from_files")
    finally:
        shutil.rmtree(dtmp, ignore_errors=True)


def corr_rotation_set(ck, rng):
    """angles searched for a (max, step) range on one axis, decoded from the quaternions, against the model"""
    from acryo._rotation import _seq_of_max_and_step_to_quat
    from scipy.spatial.transform import Rotation
    from fractions import Fraction
    cases = []
    specs = [(20, 15), (30, 10), (9, 10), (45, 0), (0, 5), (27, 20), (100, 90), (44, 30), (12.5, 2.5), (7.4, 2.5), (90, 22.5), (10, 3), (59.9, 20), (60, 20), (60.1, 20)]
    for _ in range(10 if ck.tier == "quick" else 150):
        st = float(rng.choice([1.0, 2.5, 3.0, 7.5, 10.0, 0.5]))
        specs.append((float(np.round(rng.uniform(0, 40), 1)), st))
    for mx, st in specs:
        for axis in range(3):
            rr = [(0, 0)] * 3; rr[axis] = (mx, st)
            q = _seq_of_max_and_step_to_quat(tuple(rr))
            rv = np.degrees(Rotation.from_quat(q).as_rotvec())
            # a one-axis range gives rotations about one fixed axis: signed angle along the dominant component
            ax_ = int(np.argmax(np.abs(rv).max(axis=0))) if len(rv) > 1 else 0
            ang = sorted(float(x) for x in rv[:, ax_])
            off = float(np.abs(np.delete(rv, ax_, axis=1)).max()) if len(rv) else 0.0
            ck.oracle_count("rotation_range_is_single_axis", 1, 1)
            if off > 1e-3:
                ck.violation(what=f"range {rr}: the rotations are not about a single axis (off-axis component {off:.4f} deg)", inp={"ranges": rr},
                             key={"site": "rotation-set", "symptom": "off-axis"}, oracle="rotation_range_is_single_axis")
            cases.append((f"(check_rot_angles {ql(Fraction(str(mx)))} {ql(Fraction(str(st)))} {qlist([frac(round(a, 6)) for a in ang])})",
                          {"max": mx, "step": st, "axis": axis, "angles": ang}))
    ck.corr_run("rotation_set", ["AcryoGen.Anchors_C06", "Acryo.C06.RotSet"], cases, shard=400, observable=True,
                describe=lambda c: {"site": "rotation-set", "multiple": (c["step"] == 0 or abs(c["max"] / c["step"] - round(c["max"] / c["step"])) < 1e-9)})


def oracle_callable_mask(ck, rng):
    """a mask given as a function of the template: with several templates the model uses the voxel-wise maximum of the masks of all
    templates (so that every template's density is considered), with one template that template's mask"""
    from acryo.alignment import ZNCCAlignment, PCCAlignment
    from acryo import pipe
    for it in range(3 if ck.tier == "quick" else 12):
        T = [2, 3, 1][it % 3]
        tmpls = []
        for j in range(T):
            t = np.zeros((7, 7, 7), dtype=np.float32)
            t[2:5, 2:5, 2:5] = 1.0
            t[tuple(int(x) for x in rng.choice([0, 1, 5, 6], size=3))] = 2.0 + j       # a distinguishing voxel outside the shared core
            tmpls.append(t)
        fn = (lambda im: (np.asarray(im) > 0.5).astype(np.float32))
        for mk_name, mk in (("function", fn), ("converter", pipe.converter_function(lambda im, scale: (np.asarray(im) > 0.5).astype(np.float32))())):
            if mk_name == "converter":
                continue          # converters need a scale: resolved by the loader (normalize_mask), covered by C19
            for M in (ZNCCAlignment, PCCAlignment):
                model = M(tmpls if T > 1 else tmpls[0], mk)
                want = np.max(np.stack([fn(t) for t in tmpls]), axis=0)
                ck.oracle_count("callable_mask_union", 1, 1 if T > 1 else 0)
                if not np.array_equal(np.asarray(model.mask), want):
                    ck.violation(what=f"{M.__name__} with {T} templates and a callable mask: the model's mask differs from the union of the templates' masks "
                                      f"in {int((np.asarray(model.mask) != want).sum())} voxels", inp={"T": T}, key={"site": "callable-mask", "T>1": T > 1},
                                 oracle="callable_mask_union")


def oracle_rotation_set(ck, rng):
    from acryo._rotation import normalize_rotations
    from scipy.spatial.transform import Rotation
    for spec in [((10, 5), (0, 0), (4, 2)), ((25, 25), (25, 25), (25, 25)), (15, 7), ((0, 0), (0, 0), (0, 0)), ((9, 10), (5, 5), (0, 0))]:
        q = normalize_rotations(spec)
        rngs = spec if np.array(spec).ndim == 2 else (spec,) * 3
        want = 1
        for mx, st in rngs:
            want *= (2 * int(mx / st) + 1) if st else 1
        ck.oracle_count("rotation_set", 1, 1)
        mid = Rotation.from_quat(q[len(q) // 2]).magnitude()
        if len(q) != want or mid > 1e-6:
            ck.violation(what=f"normalize_rotations({spec}) gave {len(q)} rotations (expected {want}); middle angle {mid}",
                         inp={"spec": repr(spec)}, key={"site": "normalize_rotations"}, oracle="rotation_set")
    r = Rotation.random(5, random_state=3)
    q = normalize_rotations(r)
    ck.oracle_count("rotation_set", 1, 1)
    if not np.allclose(q, r.as_quat(canonical=False)):
        ck.violation(what="normalize_rotations(Rotation) changed order/values", inp={}, key={"site": "normalize_rotations"},
                     oracle="rotation_set")
    # a list of single rotations, no rotations at all, and the model factory's view of the same specification
    from acryo.alignment import ZNCCAlignment
    singles = [Rotation.from_rotvec(v_) for v_ in (rng.normal(size=(4, 3)) * 0.5)]
    ql = normalize_rotations(singles)
    ck.oracle_count("rotation_set", 3, 3)
    if np.asarray(ql).shape != (4, 4) or not np.allclose(ql, np.stack([r_.as_quat(canonical=False) for r_ in singles]), atol=1e-6):
        ck.violation(what="normalize_rotations([Rotation, ...]) changed order/values", inp={}, key={"site": "normalize_rotations", "form": "list"}, oracle="rotation_set")
    q0 = normalize_rotations(None)
    if np.asarray(q0).shape != (1, 4) or not np.allclose(q0, [[0, 0, 0, 1]]):
        ck.violation(what=f"normalize_rotations(None) = {np.asarray(q0).tolist()} instead of the identity alone", inp={}, key={"site": "normalize_rotations", "form": "none"},
                     oracle="rotation_set")
    for spec in (((10, 5), (0, 0), (4, 2)), r, singles, None):
        pm = ZNCCAlignment.with_params(rotations=spec) if spec is not None else ZNCCAlignment.with_params()
        want_q = normalize_rotations(spec)
        tm = np.zeros((4, 4, 4), np.float32); tm[1, 2, 1] = 1
        built = pm(tm)
        if not (np.allclose(pm.quaternions, want_q) and pm.has_rotation == (len(want_q) > 1) and np.allclose(built.quaternions, want_q) and built.has_rotation == (len(want_q) > 1)):
            ck.violation(what="the model factory (with_params) and the model it builds disagree with normalize_rotations about the searched rotations",
                         inp={"spec": repr(spec)[:200]}, key={"site": "normalize_rotations", "form": "factory"}, oracle="rotation_set")


def run(ck: common.Check):
    ck.design_ref = "DESIGN.md §6 C06"
    ck.trusted_base = TB
    ck.partial = ["that the numerically best candidate is the true one (correlation optimality) is C04/C07 and numeric",
                  "candidate generation order is tied by a structural anchor (loop nesting) and the real-score oracle, not by a translated model"]
    a = Anchors(common.REPO)
    anchors(a)
    ck.write_anchors(PID, a)
    ck.build(["C06"], ["C06/Property.v", "C06/PropertyRotSet.v"], extra=["C06/RotSet.v"])
    rng = np.random.default_rng(ck.seed + 6006)
    corr_scripted(ck, rng)
    corr_loader(ck, rng)
    oracle_real(ck, rng)
    oracle_rotation_set(ck, rng)
    oracle_callable_mask(ck, np.random.default_rng(ck.seed + 616161))
    corr_rotation_set(ck, np.random.default_rng(ck.seed + 60606))
    oracle_templates_from_files(ck, np.random.default_rng(ck.seed + 60706))


def replay(data):
    print(json.dumps(data.get("input"), indent=1)[:3000])
    return 0


TB = [
    "Coq 8.16.1 kernel + coqc; vm_compute for Examples and correspondence",
    "axioms: none expected; see coverage.assumptions_printed",
    "translator harness/translate.py for the index/label decoding expressions (align, fit, loader, group)",
    "structural anchors: loop nesting of candidate generation; iopt = int(np.argmax(all_score))",
    "assumed kernel laws: numpy argmax returns the first maximum; dask compute returns results in task-list order",
]
